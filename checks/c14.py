"""C14 — the vectored writer emits exactly what was chained, once, in order.

Harness family `c14` (harness/c14.go):
  wr ...   operation histories on the real proto.Writer (exhaustive over a 12-symbol alphabet up to a
           length that grows with the budget, then random long ones with buffer growth across cut
           points, a fifth of them leaving the ChainBuffer contract).  Compared with the Coq model
           (coq/model/Writer.v through GlueWr.v) and judged by a memory-free bookkeeping of the property.
  col/blk  real columns and blocks through WriteColumn/WriteBlock+Flush and EncodeColumn/EncodeBlock:
           direct oracle only.
"""
import os
import subprocess
from concurrent.futures import ThreadPoolExecutor

from lib import common as C

BUDGET = {"quick": 40000, "thorough": 400000}
PAR = 16


def _eval_parallel(fam, lines):
    """common.run_eval, split over PAR processes (the evaluator is a pure line filter)."""
    binp = C.build_eval(fam)
    if len(lines) < 2000:
        return C.run_eval(fam, lines)
    k = (len(lines) + PAR - 1) // PAR
    chunks = [lines[i:i + k] for i in range(0, len(lines), k)]

    def one(chunk):
        p = subprocess.run([binp], input=("\n".join(chunk) + "\n").encode(), stdout=subprocess.PIPE,
                           stderr=subprocess.PIPE, timeout=3000)
        if p.returncode != 0:
            raise C.Infra("model evaluator %s failed: %s" % (fam, p.stderr.decode()[-2000:]))
        out = p.stdout.decode("latin-1").split("\n")
        if out and out[-1] == "":
            out.pop()
        if len(out) != len(chunk):
            raise C.Infra("model evaluator %s: %d outputs for %d cases" % (fam, len(out), len(chunk)))
        return out

    with ThreadPoolExecutor(max_workers=PAR) as ex:
        parts = list(ex.map(one, chunks))
    return [x for part in parts for x in part]


def explore(res, scale=1, seed=None):
    seed = res.seed if seed is None else seed
    wd = C.workdir(res.pid)
    binp = C.build_harness()
    out = os.path.join(wd, "c14_%d.tsv" % seed)
    n = BUDGET[res.tier] * scale
    rc, log, stats, dt = C.run_harness(binp, "c14", seed, n, res.tier, out)
    if rc != 0:
        raise C.Infra("harness c14 failed:\n" + log[-2000:])
    rows = C.read_transcript(out)
    wr = [r for r in rows if r[0].startswith("wr ")]
    other = [r for r in rows if not r[0].startswith("wr ")]
    model = _eval_parallel("Wr", [r[0] for r in wr])
    C.compare_rows(res, wr, model, "correspondence(writer histories: bytes taken by the sink, n, err per flush)")
    for c, g, o in other:
        if o.startswith("FAIL"):
            res.oracle_fail(c, o[5:])
    res.account(rows)
    for k, v in stats.items():
        res.distribution[k] = res.distribution.get(k, 0) + v
    res.distribution["histories"] = res.distribution.get("histories", 0) + len(wr)
    res.distribution["columns_and_blocks"] = res.distribution.get("columns_and_blocks", 0) + len(other)
    if not res.samples:
        pick = list(zip(wr, model))
        pick = pick[200:202] + pick[-2:]
        res.samples = [{"case": r[0][:400], "implementation": r[1][:300], "model": m[:300], "oracle": r[2]}
                       for r, m in pick]
        res.samples += [{"case": r[0][:300], "implementation": r[1], "oracle": r[2]} for r in other[:1] + other[-1:]]
    ok, ns, slog = C.coq_sample("GlueWr", C.sample_pairs(wr, model, seed), wd, "c14")
    res.extra["in_coq_sample"] = res.extra.get("in_coq_sample", 0) + ns
    if not ok:
        res.tie_broken("extraction", "vm_compute inside Coq disagrees with the extracted evaluator:\n" + slog)
    os.remove(out)
    # string-backed columns with values of 4 KiB .. 1 MiB, a long value followed by rows of other lengths (direct oracle)
    from lib import colfam
    colfam.run_direct(res, "c14long", 64 * scale, seed, builds=("default",))
    lens = sorted(int(k.rsplit("len", 1)[1]) for k in stats if k.startswith("c14.exhaustive.len"))
    res.extra["exhaustive_part"] = ("every history of length <= %d over the 12-operation alphabet of harness/c14.go "
                                    "(appends with and without growth, rewrite and replacement of the uncut tail, "
                                    "three chained slices incl. an empty one, caller overwrite, four sink kinds)"
                                    % (lens[-1] if lens else 0))
    res.extra["rule"] = ("writer histories: enumerated exhaustively up to the stated length, the rest drawn from the seeded "
                         "generator (boundary-biased sizes, failing / short sinks aimed at piece boundaries); columns and "
                         "blocks: catalogue x row counts x {appended, decoded} state. A case is non-trivial when the "
                         "implementation produced an observation for it: counted per distinct case line")
    res.assumptions = [
        "ChainBuffer callbacks only append to, rewrite or shrink the uncut tail of the buffer (the documented contract; "
        "histories outside it are still compared with the model but not judged)",
        "chained caller-owned slices do not alias the writer's staging buffer",
        "the io.Writer is not a net.Conn with vectored writes (net.Buffers.WriteTo then calls Write once per slice); "
        "the writev path of the Go runtime is not modelled",
        "Go's append: in place iff the data fits in the capacity, spare capacity of a new array zeroed",
        "WriteColumn+Flush = EncodeColumn and WriteBlock+Flush = EncodeBlock are checked on real columns by the direct "
        "oracle only (no column model in this layer)",
    ]


def replay(res, path):
    print(open(path).read())
    return 0
