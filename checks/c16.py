"""C16 — reused columns carry nothing over: reset+decode and re-encode are exact.

Harness family `c16` (harness/c16.go) runs operation histories on ONE real column object
(Append, AppendArr, Reset, Prepare, EncodeColumn, WriteColumn+Flush, EncodeRawBlock, Infer, Reset+DecodeColumn of
valid / non-canonical / malformed bytes); after every step the column is dumped and a direct oracle compares it
with a plain list of row values.  The model is the history layer over coq/model/Columns.v through
coq/model/GlueHist.v (evaluator Hist): it replays the same case line and must print the same observation.
"""
import os
import subprocess
from concurrent.futures import ThreadPoolExecutor

from lib import common as C

BUDGET = {"quick": 6000, "thorough": 60000}
PAR = 16


def _eval_parallel(fam, lines):
    """common.run_eval, split over PAR processes (the evaluator is a pure line filter)."""
    binp = C.build_eval(fam)
    if len(lines) < 400:
        return C.run_eval(fam, lines) if lines else []
    # interleave: long histories sit at the end of the transcript
    chunks = [lines[i::PAR] for i in range(PAR)]
    chunks = [c for c in chunks if c]

    def one(chunk):
        p = subprocess.run([binp], input=("\n".join(chunk) + "\n").encode("latin-1"), stdout=subprocess.PIPE,
                           stderr=subprocess.PIPE, timeout=3000)
        if p.returncode != 0:
            raise C.Infra("model evaluator %s failed: %s" % (fam, p.stderr.decode()[-2000:]))
        out = p.stdout.decode("latin-1").split("\n")
        if out and out[-1] == "":
            out.pop()
        if len(out) != len(chunk):
            raise C.Infra("model evaluator %s: %d outputs for %d cases" % (fam, len(out), len(chunk)))
        return out

    with ThreadPoolExecutor(max_workers=PAR) as ex:
        parts = list(ex.map(one, chunks))
    res = [None] * len(lines)
    for i, part in enumerate(parts):
        res[i::PAR] = part
    return res


def _read_partial(path):
    rows = []
    if os.path.exists(path):
        with open(path, encoding="latin-1") as f:
            for line in f:
                parts = line.rstrip("\n").split("\t")
                if line.endswith("\n") and len(parts) == 3:
                    rows.append(parts)
    return rows


def explore(res, scale=1, seed=None):
    seed = res.seed if seed is None else seed
    wd = C.workdir(res.pid)
    total = BUDGET[res.tier] * scale
    lens = set()
    for build, tags, n in (("default", (), total), ("purego", ("purego",), max(1, total // 3))):
        binp = C.build_harness(tags=tags)
        out = os.path.join(wd, "c16_%s_%d.tsv" % (build, seed))
        if os.path.exists(out):
            os.remove(out)
        rc, log, stats, dt = C.run_harness(binp, "c16", seed, n, res.tier, out)
        if rc != 0:
            # the implementation under test may have taken the process down: what the direct oracle had
            # found before the abort is still a finding
            rows = _read_partial(out)
            fails = [r for r in rows if r[2].startswith("FAIL")]
            if fails:
                for c, g, o in fails:
                    res.oracle_fail(c[:4000], o[5:])
                res.notes.append("harness c16 (%s) aborted (rc=%s) after %d cases; failures found before the abort "
                                 "are reported" % (build, rc, len(rows)))
                res.account(rows)
                continue
            raise C.Infra("harness c16 (%s) failed:\n%s" % (build, log[-2000:]))
        rows = C.read_transcript(out)
        # observation "-": run on the implementation and judged by the direct oracle only (65536+ dictionary entries)
        idx = [i for i, r in enumerate(rows) if r[1] != "-"]
        hist = [rows[i] for i in idx]
        model_part = _eval_parallel("Hist", [r[0] for r in hist])
        model = ["-"] * len(rows)
        for i, m in zip(idx, model_part):
            model[i] = m
        C.compare_rows(res, rows, model, "correspondence(column histories, %s)" % build)
        res.account(rows)
        for k, v in stats.items():
            key = "%s.%s" % (build, k)
            res.distribution[key] = res.distribution.get(key, 0) + v
            if k.startswith("c16.exhaustive.len"):
                lens.add(int(k.rsplit("len", 1)[1]))
        res.distribution[build + ".histories"] = res.distribution.get(build + ".histories", 0) + len(hist)
        res.distribution[build + ".not_run_on_model"] = res.distribution.get(build + ".not_run_on_model", 0) + (len(rows) - len(idx))
        if len(res.samples) < 6:
            short = [(r, m) for r, m in zip(hist, model_part) if len(r[0]) < 500 and len(r[1]) < 500]
            pick = short[len(short) // 3:len(short) // 3 + 1] + short[-2:]
            res.samples += [{"case": r[0][:500], "implementation": r[1][:500], "model": m[:500], "oracle": r[2][:200]}
                            for r, m in pick]
        ok, ns, slog = C.coq_sample("GlueHist", C.sample_pairs(hist, model_part, seed, k=15), wd, "c16")
        res.extra["in_coq_sample"] = res.extra.get("in_coq_sample", 0) + ns
        if not ok:
            res.tie_broken("extraction", "vm_compute inside Coq disagrees with the extracted evaluator:\n" + slog)
        os.remove(out)
    # reuse one level up: sequences of blocks (zero-row header-shaped blocks in between) into one set of result columns,
    # typed and inferred - Results.DecodeResult resets every target before it decodes into it (direct oracle)
    from lib import colfam
    colfam.run_family(res, "c06seq", 250 * scale, seed, builds=("default",), sample=False)
    # a reused String column and values beyond the reader's 1 MiB growth step (direct oracle)
    colfam.run_direct(res, "c16str", 12 * scale, seed, builds=("default",))
    res.extra["exhaustive_part"] = (
        "every history of length <= %d over {Append A, Append B, Reset, Prepare, Prepare+EncodeColumn, Reset+Decode of a valid "
        "2-row encoding}, each from a fresh column, for the 13 kinds of c16Stateful in harness/c16.go (LowCardinality of "
        "String / UInt16 / FixedString(8), Array and Map over LowCardinality(String), Enum8, Enum16, String, Array(String), "
        "Map(String,String), Nullable(String), Tuple(LowCardinality(String), Nullable(UInt8), Array(UInt32)), FixedString(8))"
        % (max(lens) if lens else 0))
    res.extra["rule"] = (
        "histories on real column objects: the exhaustive part above, the rest of the budget random histories of length 1..30 over "
        "all catalogue kinds (c01Catalogue minus LowCardinality over Float/Nullable/Date and the empty tuple; half of them on the "
        "kinds with a dictionary or inferred settings) with the operations app, apparr, reset, prep, enc, write, encblock, infer, "
        "dec of valid / hand-built non-canonical LowCardinality / malformed bytes, starting from a fresh, a filled or a decoded "
        "column, 254..258 distinct values in one step for LowCardinality kinds; both builds of the generated codecs (purego with a "
        "third of the budget); two 65539-entry dictionaries per run are judged by the direct oracle only. A case is non-trivial "
        "when the implementation produced an observation for it: counted per distinct case line")
    res.assumptions = [
        "model scope: Reset is the empty column of coq/model/Columns.v; WriteColumn+Flush is modelled as the bytes of EncodeColumn "
        "(that equality is property C14; here it is re-checked on every write step by the correspondence and the direct oracle)",
        "theorems: appended values have the column's Go type (has_ty), tuples have at least one member (ColTuple{} reports 0 rows "
        "whatever is appended), decode input is an in-memory byte string (< 2^63 bytes); under the default build the theorems about "
        "decoded data exclude Bool columns holding wire bytes other than 0/1 (kept as they are in memory: C15 bool_divergence); "
        "read-back of encodings is stated for columns within the decoder's 10^8 row limit at every nesting level",
        "after a failed Prepare (Enum value outside the type) or a failed decode the theorem claims nothing until the next Reset or "
        "successful decode; the model still mirrors the fields a failed Prepare leaves (prep_fail) and they are compared",
        "ColBool memory is observed through Go's bool (zero / non-zero) in the dumps; the exact bytes are compared through every encoding",
        "Infer is modelled for type parameters that keep the layout (Enum definitions of the same width, DateTime64 precision / zone): "
        "the new parameters replace the old ones; Enum8 <-> Enum16 switches are not generated",
        "a history ends at the first step whose column state does not fit the transcript (line longer than 180 kB or a failed "
        "decode that left more than 90000 elements behind); such steps are not compared",
        "after a FAILED decode the model adopts the dumped fields of the real column as its next state (the property speaks "
        "about the next Reset only); the list oracle is suspended until the next Reset or successful decode",
        "ColLowCardinality.Reset keeps the unexported key-width field: dumps print it as 0 while the key column is empty",
        "Go maps with several entries are not used as appended values (ColMap.Append ranges over the map: order not reproducible); "
        "maps are appended through AppendKV",
        "little-endian host for the unsafe codecs (their build constraint)",
    ]


def replay(res, path):
    print(open(path).read())
    return 0
