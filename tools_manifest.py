#!/usr/bin/env python3
"""Regenerates MANIFEST.json from manifest_src.py tables (single source of truth)."""
import json, os, sys
sys.path.insert(0, os.path.dirname(os.path.abspath(__file__)))
from manifest_src import CLAIMED, NOT_APPLICABLE, HOOK_COMMITS

BASE_OFF = ("cd /repo && GOFLAGS=-mod=mod GOPROXY=off GOSUMDB=off GOTOOLCHAIN=local "
            "go test -json -vet=off -count=1 -timeout 25m ./...")
m = {
    "version": 1,
    "setup_cmd": "./setup.sh",
    "hooks": {
        "guard": "verif",
        "enable": "go build -tags verif (harness binaries that need gates are built with this tag by lib/common.py)",
        "baseline_off_cmd": BASE_OFF,
        "source_commits": HOOK_COMMITS,
        "add_only": True,
    },
    "engines": [{
        "name": "coq-model+correspondence",
        "path": "coq/ harness/ translator/ lib/ checks/",
        "serves_properties": [c["id"] for c in CLAIMED],
        "kind_free_text": "Coq 8.16.1 development (model/, proofs/, props/) regenerated tables from translator/, "
                          "Go harness against /repo, extracted OCaml evaluator, python comparator",
    }],
    "checks": [],
    "not_applicable": [{"property_id": i, "reason": r} for i, r in NOT_APPLICABLE],
    "notes": "See DESIGN.md. ./check <id> --tier quick|thorough; exit 2 = infrastructure failure (never a verdict).",
}
for c in CLAIMED:
    m["checks"].append({
        "property_id": c["id"],
        "quick_cmd": "./check %s --tier quick" % c["id"],
        "thorough_cmd": "./check %s --tier thorough" % c["id"],
        "evidence_file": "evidence/%s.json" % c["id"],
        "replay_cmd_template": "./check %s --replay {path}" % c["id"],
        "engine": "coq-model+correspondence",
        "level_claimed": {"category": "proof", "text": c["text"], "design_ref": c.get("ref", "DESIGN.md section 5, " + c["id"])},
        "level_note": c["note"],
        "technique": c["technique"],
    })
json.dump(m, open(os.path.join(os.path.dirname(os.path.abspath(__file__)), "MANIFEST.json"), "w"), indent=1)
print("MANIFEST.json: %d claimed, %d not_applicable" % (len(CLAIMED), len(NOT_APPLICABLE)))
