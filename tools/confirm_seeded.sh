#!/bin/bash
# tools/confirm_seeded.sh <ID> <package dir of the demo, relative> <go test -run regex>
# Confirms in the mutant's scratch worktree /tmp/wt_<id>: demo fails with the patch, passes without it,
# and the unedited test suite passes with the patch.  Prints a one-line summary.
set -u
ID=$1; PKG=$2; RUN=$3
MUT=${MUT:-/tmp/mut}; WT=${WT:-${WTP:-/tmp/wt_}${ID,,}}; FLAGS=${DEMO_FLAGS:-}
export GOFLAGS=-mod=mod GOPROXY=off GOSUMDB=off GOTOOLCHAIN=local
cd $WT || exit 2
git checkout -q -- . ; git apply $MUT/$ID/patch.diff || { echo "$ID patch does not apply"; exit 2; }
cp $MUT/$ID/demo/*_test.go $PKG/ 2>/dev/null
go test -count=1 $FLAGS -run "$RUN" ./$PKG/ > $MUT/$ID/with.log 2>&1; W=$?
git checkout -q -- .
go test -count=1 $FLAGS -run "$RUN" ./$PKG/ > $MUT/$ID/without.log 2>&1; WO=$?
git apply $MUT/$ID/patch.diff
mkdir -p $MUT/$ID/hold; mv $PKG/zz_*_test.go $MUT/$ID/hold/ 2>/dev/null
go build ./... > $MUT/$ID/suite.log 2>&1 && go test -count=1 ./... >> $MUT/$ID/suite.log 2>&1; S=$?
mv $MUT/$ID/hold/* $PKG/ 2>/dev/null
echo "$ID demo_with_patch_exit=$W demo_without_patch_exit=$WO suite_with_patch_exit=$S"
git checkout -q -- . ; rm -f $PKG/zz_*_test.go
