#!/usr/bin/env python3
"""tools/eval_seeded.py <patch.diff> <Cxx> [<Cyy> ...] [--keep] [--tier quick]
Runs the named checks against a scratch copy of /repo with the patch applied, from a scratch copy of
/verif (so neither /repo nor /verif is disturbed while other work goes on).  Prints one line per check:
  <id> exit=<rc> <VIOLATION line or OK line>
The final confirmation of a seeded change is done on /repo itself (git apply ... ; ./check ; git checkout)."""
import os, subprocess, sys, shutil, re

def sh(cmd, **kw):
    return subprocess.run(cmd, shell=True, stdout=subprocess.PIPE, stderr=subprocess.STDOUT, text=True, **kw)

def main():
    args = [a for a in sys.argv[1:] if not a.startswith("--")]
    patch, pids = os.path.abspath(args[0]), args[1:]
    tag = re.sub(r"[^A-Za-z0-9]", "_", os.path.basename(os.path.dirname(patch)) or "p")
    base = "/tmp/evalseed_" + tag
    repo, verif = base + "/repo", base + "/verif"
    os.makedirs(base, exist_ok=True)
    sh("rsync -a --delete --exclude .git /repo/ %s/" % repo)
    r = sh("cd %s && git apply --unsafe-paths %s 2>&1 || patch -p1 < %s" % (repo, patch, patch))
    if r.returncode != 0:
        print("PATCH-FAILED", r.stdout[-500:]); return 2
    sh("rsync -a --delete --exclude .git --exclude work --exclude replays --exclude evidence /verif/ %s/" % verif)
    sh("mkdir -p %s/evidence %s/replays" % (verif, verif))
    sh("sed -i 's#=> /repo#=> %s#' %s/harness/go.mod" % (repo, verif))
    env = dict(os.environ, VERIF_REPO=repo, GOFLAGS="-mod=mod", GOPROXY="off", GOSUMDB="off", GOTOOLCHAIN="local")
    rc_all = 0
    for pid in pids:
        r = subprocess.run(["./check", pid, "--tier", "quick"], cwd=verif, env=env, stdout=subprocess.PIPE, stderr=subprocess.STDOUT, text=True)
        lines = [l for l in r.stdout.splitlines() if l.startswith(("VIOLATION", "OK ", "FAILED", "KNOWN-FINDING", "INFRA"))]
        print("%s exit=%d %s" % (pid, r.returncode, " | ".join(l[:200] for l in lines)))
        if r.returncode == 1:
            m = re.search(r"replay=(\S+)", r.stdout)
            if m and os.path.exists(m.group(1)):
                txt = open(m.group(1)).read()
                print("   replay head:", " / ".join(txt.splitlines()[:6])[:600])
        sys.stdout.flush()
    if "--keep" not in sys.argv:
        shutil.rmtree(base, ignore_errors=True)
    return 0

if __name__ == "__main__":
    sys.exit(main())
