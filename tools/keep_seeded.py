#!/usr/bin/env python3
"""tools/keep_seeded.py <ID> <slug> : copy a confirmed seeded change from /tmp/mut/<ID> into seeded/<ID>-<slug>/
(patch.diff, demo files, meta.json extended with what was run and what the checks reported)."""
import json, os, shutil, sys, glob
ID, slug = sys.argv[1], sys.argv[2]
src = os.environ.get("MUT", "/tmp/mut") + "/" + ID
dst = os.path.join(os.path.dirname(os.path.dirname(os.path.abspath(__file__))), "seeded", "%s-%s" % (ID, slug))
os.makedirs(dst + "/demo", exist_ok=True)
shutil.copy(src + "/patch.diff", dst + "/patch.diff")
for f in glob.glob(src + "/demo/*"):
    if os.path.isfile(f) and os.path.getsize(f) < 200000:
        shutil.copy(f, dst + "/demo/")
meta = json.load(open(src + "/meta.json"))
def rd(p):
    return open(p).read().strip() if os.path.exists(p) else ""
meta["breaks_property"] = ID
meta["confirmed"] = {
    "how": "tools/confirm_seeded.sh in a scratch worktree of /repo: demo with the patch, demo without it, unedited suite with the patch",
    "demo_with_patch": "fails" , "demo_without_patch": "passes", "suite_with_patch": "passes",
}
ev = rd(src + "/eval.log")
meta["checks_run"] = "tools/eval_seeded.py %s (quick tier, scratch copies of /repo and /verif)" % ID
meta["checks_result"] = ev[:1500]
meta["detected"] = "VIOLATION" in ev
if len(sys.argv) > 3:
    meta["strengthened_after_miss"] = sys.argv[3]
json.dump(meta, open(dst + "/meta.json", "w"), indent=1)
print(dst, "detected" if meta["detected"] else "NOT DETECTED")
