(* Transcript interface for the connection pool (C11).
     pool <case id, ignored> <MaxConns> <MinConns> <lifetime> <idletime> (<t|f> ...) (<op> <op> ...)
       the first list: the outcomes of the dials of New (createIdleResources), as far as New got;
       op ::= (acq <t|f dial succeeds>) | (rel <h>) | (do <h> <ok|exc|cut|cancel> <t|f client closed afterwards>)
            | (ping <h>) | (pdo <t|f> <kind> <t|f>) | (pping <t|f>) | (tick <k>) | (spawn <t|f>) | (adv <n>) | (close)
   Handles are numbered in the order of acq / pdo / pping operations.  The harness waits, after every
   operation, until the goroutines puddle started have finished; the glue issues the corresponding
   PFinish steps ([finish_all]).
   (tick k) is a whole tick as the harness saw it: PTickBegin, PTickStep until the idle pass is done, then
   checkMinConns, which started k creations (the harness counts the dials that arrive at its gate).  How many
   it starts depends on how many of the Destroy goroutines of this tick had finished when it read Stat(): the
   glue lets them finish one by one ([finish_until]) until MinConns - Total reaches k, then PCheckMin, the
   remaining PFinish steps and one PSpawnBegin per goroutine.  A k the model cannot produce shows as a different
   Stat in this group.  (spawn d) is PSpawnEnd 0 d: the oldest dial held at the gate returns.
     ->  ok (<ok|err|nohandle|-> ((<h> <resource>) ...) (<total> <acquired> <idle> <constructing>) (<closed resource> ...)) ...
         the first group is New's (err: the pool New closed, after its destructors); then one group per operation
         other than adv; `crash` in place of a group ends the line when puddle would panic. *)
From CH Require Import model.Sx model.Pool.
Open Scope nat_scope.

Definition get_nat (x : sx) : option nat := option_map N.to_nat (get_an x).

Definition get_kind (x : sx) : option dokind :=
  if is_sym x "ok" then Some DOk else if is_sym x "exc" then Some DExc
  else if is_sym x "cut" then Some DCut else if is_sym x "cancel" then Some DCancel else None.

Inductive item := IOp (o : pop) | ITick (k : nat).

Definition get_item (x : sx) : option item :=
  match x with
  | L [k] =>
    if is_sym k "close" then Some (IOp PClose) else None
  | L [k; a] =>
    if is_sym k "acq" then option_map (fun d => IOp (PAcquire d)) (get_abool a)
    else if is_sym k "rel" then option_map (fun h => IOp (PRelease h)) (get_nat a)
    else if is_sym k "ping" then option_map (fun h => IOp (PPing h)) (get_nat a)
    else if is_sym k "pping" then option_map (fun d => IOp (PPoolPing d)) (get_abool a)
    else if is_sym k "adv" then option_map (fun n => IOp (PAdvance n)) (get_an a)
    else if is_sym k "tick" then option_map ITick (get_nat a)
    else if is_sym k "spawn" then option_map (fun d => IOp (PSpawnEnd 0 d)) (get_abool a)
    else None
  | L [k; a; b; c] =>
    if is_sym k "do" then
      match get_nat a, get_kind b, get_abool c with
      | Some h, Some kd, Some cl => Some (IOp (PDo h kd cl))
      | _, _, _ => None
      end
    else if is_sym k "pdo" then
      match get_abool a, get_kind b, get_abool c with
      | Some d, Some kd, Some cl => Some (IOp (PPoolDo d kd cl))
      | _, _, _ => None
      end
    else None
  | _ => None
  end.

(* Destroy goroutines end, lowest connection first, until checkMinConns would start k creations *)
Fixpoint finish_until (k : nat) (rs : list nat) (p : pool) : pool :=
  match rs with
  | [] => p
  | r :: rs' => if k <=? c_min (p_cfg p) - total p then p else finish_until k rs' (pd_finish p r)
  end.

Definition do_tick (k : nat) (p : pool) : option pool :=
  match tick_pass p with
  | None => None
  | Some p1 =>
    let p2 := finish_until k (seq 0 (length (ress p1))) p1 in
    let p3 := finish_all (check_min p2) in
    Some (spawn_begin_all (spawned p3) p3)
  end.

Definition run_item (p : pool) (i : item) : option (pool * obs) :=
  match i with
  | IOp o => match pstep p o with POk p' ob => Some (finish_all p', ob) | PCrash => None end
  | ITick k => match do_tick k p with Some p' => Some (p', ONone) | None => None end
  end.

Definition pr_obs (o : obs) : sx :=
  asym (match o with OOk => "ok" | OErr => "err" | ONoHandle => "nohandle" | ONone => "-" end).

Fixpoint pr_handles (i : nat) (l : list (option nat)) : list sx :=
  match l with
  | [] => []
  | Some r :: l' => L [an (N.of_nat i); an (N.of_nat r)] :: pr_handles (S i) l'
  | None :: l' => pr_handles (S i) l'
  end.
Fixpoint pr_closed (i : nat) (l : list resrc) : list sx :=
  match l with
  | [] => []
  | x :: l' => if r_cclosed x then an (N.of_nat i) :: pr_closed (S i) l' else pr_closed (S i) l'
  end.

Definition pr_state (p : pool) (o : obs) : sx :=
  L [pr_obs o; L (pr_handles 0 (handles p));
     L [an (N.of_nat (total p)); an (N.of_nat (stat_acquired p)); an (N.of_nat (stat_idle p));
        an (N.of_nat (stat_constructing p))];
     L (pr_closed 0 (ress p))].

Fixpoint run_items (p : pool) (l : list item) : list sx :=
  match l with
  | [] => []
  | i :: l' =>
    match run_item p i with
    | Some (p', o) =>
      match i with
      | IOp (PAdvance _) => run_items p' l'          (* the passing of time shows nothing *)
      | _ => pr_state p' o :: run_items p' l'
      end
    | None => [asym "crash"]
    end
  end.

Definition run_pool (xs : list sx) : option (list sx) :=
  match xs with
  | [op; _; m; mn; lt; it; L ds; L ops] =>
    if is_sym op "pool" then
      match get_nat m, get_nat mn, get_an lt, get_an it, map_opt get_abool ds, map_opt get_item ops with
      | Some m, Some mn, Some lt, Some it, Some ds, Some ops =>
        let c := mkCfg m mn lt it in
        let p0 := finish_all (pnew c ds) in
        Some (asym "ok" :: pr_state p0 (if pnew_ok c ds then OOk else OErr) :: run_items p0 ops)
      | _, _, _, _, _, _ => None
      end
    else None
  | _ => None
  end.

Definition run_line (line : bytes) : bytes :=
  match parse_line line with
  | Some xs => match run_pool xs with Some out => pr_items out | None => bad_line end
  | None => bad_line
  end.
