(* Transcript interface for the receive side of Client.Do (C03).

   recv <rev> <comp t|f> <build safe|unsafe> (<h> <h> <h> <h> <h> <h> <h>) <target> (<probe> ...)
        ((x<type string> <ty>) ...) x<stream> (<hash> ...) (<codec> ...)
       <h>       callback OnResult, OnProgress, OnProfile, OnProfileEvents, OnProfileEvent, OnLogs, OnLog:
                 n = not set, ok = set, (fail K) = set and its K-th invocation (from 0) returns an error
       <target>  nil = q.Result == nil | (auto) = new(Results).Auto() | (typed (x<name> <ty> <cdata>) ...)
       <probe>   error codes asked of the returned error: errors.Is(err, proto.Error(p)), ch.IsErr(err, p)
       (x<type string> <ty>)   what ColAuto.Infer makes of a type string (an oracle here: C19's subject);
                               a string that is not listed fails to infer
       <hash>    (off len lo hi)       city.CH128(stream[off:off+len]) = (lo, hi)
       <codec>   (off len mb ds res)   the real codec for method byte mb on stream[off:off+len] with a
                                       ds-byte destination: x<hex> | e
   ->  ok (<event> ...) <ret> <final>
       <event>   (r (<overflows> <bucket>) <columns> <rows> <bound>)    OnResult, <bound> = nil | ((x<name> <cdata>) ...)
                 (p n n n n n n) Progress | (f n n n b n b) Profile
                 (pes <ev> ...) one OnProfileEvents batch | (pe . . . . . .) one OnProfileEvent
                 (ls <log> ...) one OnLogs batch | (l . . . . . . .) one OnLog
       <ret>     nil | cb (the callback's own error came back) | err (any other error)
                 | (exc (code x<name> x<message> x<stack>) ((code ...) ...) ((probe is iserr) ...))
       <final>   the bound columns when Do returned (- after `err`)

   enc <rev> <comp t|f> <build> <method none|lz4|zstd> (<packet> ...) (<comp> ...)
       <packet>  (data|totals|log|pevents (<overflows> <bucket>) <rows> ((x<name> <ty> <cdata>) ...))
                 | (progress n n n n n n) | (profile n n n b n b) | (tablecolumns x<a> x<b>)
                 | (exception (code x<name> x<msg> x<stack>) ...) | end
       <comp>    (x<payload> x<compressed>)   what the real codec makes of a payload
       <hash>es as above but by content: (x<bytes> lo hi)
   ->  ok x<bytes>  |  err
   encf <rev> <comp t|f> <build> (<packet> ...) (<framing> ...) (<comp2> ...) (<hash> ...)
       <framing> ((<m> <n>) ... <m>)     one per packet: the block is cut after n bytes, n more bytes, ...; the last
                                         frame takes what is left; <m> = none|lz4|lz4hc|zstd is the frame's method
                                         (ignored unless the packet is a compressed block)
       <comp2>   (<m> x<payload> x<compressed>)   what the real codec of method <m> makes of a payload
   ->  ok x<bytes>  |  err                         (Recv.encode_packets_fr)
   The hash, the codecs, ColAuto.Infer are oracles looked up in the case line; ColumnType.Conflicts is
   the executable model of model/TypeStr.v; a bound column's own Infer is the identity (the harness
   sends the type string the column reports). *)
From CH Require Import model.Sx model.TypeStr model.Columns model.Block model.Compress model.GlueCol model.GlueMsg model.GlueCmp.
From CH Require Import model.Recv.
From CH Require Import gen.Codes.
Open Scope N_scope.
Open Scope list_scope.

Notation col := Block.col (only parsing).

Definition conflicts_i (a b : bytes) : bool :=
  match TypeStr.conflicts_r a b with Ok r _ => r | _ => true end.
Definition infer_target_i (t : ty) (_ : bytes) : option ty := Some t.

Definition itab := list (bytes * ty).
Definition infer_auto_i (t : itab) (s : bytes) : option ty :=
  match find (fun e => bytes_eqb (fst e) s) t with Some e => Some (snd e) | None => None end.

(* ---- parsing ---------------------------------------------------------------------------- *)
Definition get_hspec (x : sx) : option (option (nat -> bool)) :=
  if is_sym x "n" then Some None
  else if is_sym x "ok" then Some (Some (fun _ => true))
  else match x with
       | L [f; k] => if is_sym f "fail" then
                       match get_nat k with Some k => Some (Some (fun i => negb (Nat.eqb i k))) | None => None end
                     else None
       | _ => None
       end.

Definition get_handlers (x : sx) : option handlers :=
  match x with
  | L [a; b; c; d; e; f; g] =>
    match get_hspec a, get_hspec b, get_hspec c, get_hspec d, get_hspec e, get_hspec f, get_hspec g with
    | Some a, Some b, Some c, Some d, Some e, Some f, Some g =>
      Some {| on_result := a ; on_progress := b ; on_profile := c ; on_pevents := d ; on_pevent := e ;
              on_logs := f ; on_log := g |}
    | _, _, _, _, _, _, _ => None
    end
  | _ => None
  end.

Definition get_col (x : sx) : option col :=
  match x with
  | L [n; t; d] =>
    match get_ab n, get_ty 64 t, get_cdata 64 d with
    | Some n, Some t, Some d => Some {| c_name := n ; c_ty := t ; c_data := d |}
    | _, _, _ => None
    end
  | _ => None
  end.

Definition get_target (x : sx) : option rtarget :=
  if is_sym x "nil" then Some TgNil else
  match x with
  | L (h :: rest) =>
    if is_sym h "auto" then match rest with [] => Some (TgAuto []) | _ => None end
    else if is_sym h "typed" then option_map TgTyped (map_opt get_col rest)
    else None
  | _ => None
  end.

Definition get_itab (x : sx) : option itab :=
  match x with
  | L l => map_opt (fun e => match e with
                             | L [s; t] => match get_ab s, get_ty 64 t with
                                           | Some s, Some t => Some (s, t)
                                           | _, _ => None
                                           end
                             | _ => None
                             end) l
  | _ => None
  end.

(* ---- printing --------------------------------------------------------------------------- *)
(* the harness prints a Go bool as 0/1; the default build keeps whatever byte was on the wire *)
Fixpoint canon_cdata (d : cdata) : cdata :=
  match d with
  | DBool vs => DBool (map (fun x => if x =? 0 then 0 else 1) vs)
  | DArr o d' => DArr o (canon_cdata d')
  | DNullable o d' => DNullable o (canon_cdata d')
  | DMap o a b => DMap o (canon_cdata a) (canon_cdata b)
  | DTuple ds => DTuple (map canon_cdata ds)
  | _ => d
  end.
Definition pr_col (c : col) : sx := L [ab (c_name c); pr_cdata (canon_cdata (c_data c))].
Definition pr_bound (b : option (list col)) : sx :=
  match b with None => asym "nil" | Some cs => L (map pr_col cs) end.
Definition pr_pe (e : pevent) : list sx :=
  [an (pe_type e); ab (pe_name e); az (pe_value e); ab (pe_host e); an (pe_time e); an (pe_thread e)].
Definition pr_log (e : logrow) : list sx :=
  [ab (lg_query e); ab (lg_source e); ab (lg_text e); an (lg_time e); ab (lg_host e); an (lg_thread e); an (lg_prio e)].
Definition pr_event (e : event) : sx :=
  match e with
  | EvResult i nc nr b => L [asym "r"; pr_bi i; az nc; az nr; pr_bound b]
  | EvProgress xs => L (asym "p" :: map pr_fv xs)
  | EvProfile xs => L (asym "f" :: map pr_fv xs)
  | EvPEvents l => L (asym "pes" :: map (fun e => L (pr_pe e)) l)
  | EvPEvent e => L (asym "pe" :: pr_pe e)
  | EvLogs l => L (asym "ls" :: map (fun e => L (pr_log e)) l)
  | EvLog e => L (asym "l" :: pr_log e)
  end.
Definition pr_exc (e : exc) : sx := L [az (e_code e); ab (e_name e); ab (e_msg e); ab (e_stack e)].

Definition pr_outcome (probes : list Z) (o : outcome) : sx :=
  match o with
  | ONil => asym "nil"
  | OExc e => L [asym "exc"; pr_exc (x_top e); L (map pr_exc (x_next e));
                 L (map (fun p => L [az p; abool (errors_is e p); abool (is_code e [p])]) probes)]
  | OErr RHandler => asym "cb"
  | OErr _ => asym "err"
  end.

Definition is_err_outcome (o : outcome) : bool :=
  match o with OErr RHandler => false | OErr _ => true | _ => false end.

(* ---- the server side: packets ------------------------------------------------------------- *)
Definition get_exc (x : sx) : option exc :=
  match x with
  | L [c; n; m; s] =>
    match get_az c, get_ab n, get_ab m, get_ab s with
    | Some c, Some n, Some m, Some s => Some {| e_code := c ; e_name := n ; e_msg := m ; e_stack := s |}
    | _, _, _, _ => None
    end
  | _ => None
  end.

Definition get_packet (x : sx) : option packet :=
  if is_sym x "end" then Some PEnd else
  match x with
  | L (h :: rest) =>
    if is_sym h "progress" then option_map PProgress (get_fvs L_Progress rest)
    else if is_sym h "profile" then option_map PProfile (get_fvs L_Profile rest)
    else if is_sym h "tablecolumns" then option_map PTableColumns (get_fvs L_TableColumns rest)
    else if is_sym h "exception" then
      match map_opt get_exc rest with
      | Some (top :: next) => Some (PException top next)
      | _ => None
      end
    else
      let k := if is_sym h "data" then Some BData else if is_sym h "totals" then Some BTotals
               else if is_sym h "log" then Some BLog else if is_sym h "pevents" then Some BPEvents else None in
      match k, rest with
      | Some k, [i; n; L cs] =>
        match get_bi i, get_an n, map_opt get_col cs with
        | Some i, Some n, Some cs => Some (PBlock k i n cs)
        | _, _, _ => None
        end
      | _, _ => None
      end
  | _ => None
  end.

Definition get_method (x : sx) : option method :=
  if is_sym x "none" then Some MNone else if is_sym x "lz4" then Some MLZ4
  else if is_sym x "zstd" then Some MZSTD else None.

Definition ctab := list (bytes * bytes).
Definition comp_of (t : ctab) (_ : method) (p : bytes) : option bytes :=
  match find (fun e => bytes_eqb (fst e) p) t with Some e => Some (snd e) | None => None end.
Definition get_ctab (x : sx) : option ctab :=
  match x with
  | L l => map_opt (fun e => match e with
                             | L [a; b] => match get_ab a, get_ab b with Some a, Some b => Some (a, b) | _, _ => None end
                             | _ => None
                             end) l
  | _ => None
  end.
Definition get_htab_c (x : sx) : option htab :=
  match x with
  | L l => map_opt (fun e => match e with
                             | L [a; lo; hi] => match get_ab a, get_an lo, get_an hi with
                                                | Some a, Some lo, Some hi => Some (a, (lo, hi))
                                                | _, _, _ => None
                                                end
                             | _ => None
                             end) l
  | _ => None
  end.

(* ---- framed server (encf) ------------------------------------------------------------------ *)
Definition get_method2 (x : sx) : option method :=
  if is_sym x "lz4hc" then Some (MLZ4HC 9) else get_method x.
Definition mtag (m : method) : N :=
  match m with MNone => 0 | MLZ4 => 1 | MLZ4HC _ => 2 | MZSTD => 3 end.
Definition ctab2 := list (N * bytes * bytes).
Definition comp_of2 (t : ctab2) (m : method) (p : bytes) : option bytes :=
  match find (fun e => (fst (fst e) =? mtag m) && bytes_eqb (snd (fst e)) p) t with
  | Some e => Some (snd e)
  | None => None
  end.
Definition get_ctab2 (x : sx) : option ctab2 :=
  match x with
  | L l => map_opt (fun e => match e with
                             | L [m; a; b] => match get_method2 m, get_ab a, get_ab b with
                                              | Some m, Some a, Some b => Some (mtag m, a, b)
                                              | _, _, _ => None
                                              end
                             | _ => None
                             end) l
  | _ => None
  end.
Fixpoint get_cuts (l : list sx) : option framing :=
  match l with
  | [] => None
  | [m] => option_map (fun m => ([], m)) (get_method2 m)
  | L [m; n] :: l' =>
    match get_method2 m, get_nat n, get_cuts l' with
    | Some m, Some n, Some (sp, lastm) => Some ((m, n) :: sp, lastm)
    | _, _, _ => None
    end
  | _ => None
  end.
Definition get_framing (x : sx) : option framing :=
  match x with L l => get_cuts l | _ => None end.

(* ---- operations --------------------------------------------------------------------------- *)
Definition run_recv (xs : list sx) : option (list sx) :=
  match xs with
  | [op; rv; cp; bd; hs; tg; L probes; it; st; L hs_; L zs_] =>
    if is_sym op "recv" then
      match get_an rv, get_abool cp, get_build bd, get_handlers hs, get_target tg,
            map_opt get_az probes, get_itab it, get_ab st with
      | Some rv, Some cp, Some bd, Some hs, Some tg, Some probes, Some it, Some stream =>
        match map_opt (get_h stream) hs_, map_opt (get_z stream) zs_ with
        | Some ht, Some zt =>
          let c := {| c_rev := rv ; c_comp := cp ; c_build := bd |} in
          let '(o, st', _) := recv conflicts_i infer_target_i (infer_auto_i it) (H_of ht) (decomp_of zt) c hs tg stream in
          Some [asym "ok"; L (map pr_event (r_trace st')); pr_outcome probes o;
                if is_err_outcome o then asym "-" else pr_bound (bound_of (r_tg st'))]
        | _, _ => None
        end
      | _, _, _, _, _, _, _, _ => None
      end
    else None
  | [op; rv; cp; bd; m; L ps; ct; ht] =>
    if is_sym op "enc" then
      match get_an rv, get_abool cp, get_build bd, get_method m, map_opt get_packet ps, get_ctab ct, get_htab_c ht with
      | Some rv, Some cp, Some bd, Some m, Some ps, Some ct, Some ht =>
        let c := {| c_rev := rv ; c_comp := cp ; c_build := bd |} in
        match encode_packets (H_of ht) (comp_of ct) m c ps with
        | Some b => Some [asym "ok"; ab b]
        | None => Some [asym "err"]
        end
      | _, _, _, _, _, _, _ => None
      end
    else if is_sym op "encf" then
      (* here [m] is the packet list and [ps] the framings *)
      match get_an rv, get_abool cp, get_build bd, m, get_ctab2 ct, get_htab_c ht with
      | Some rv, Some cp, Some bd, L ps', Some ct, Some ht =>
        match map_opt get_packet ps', map_opt get_framing ps with
        | Some ps', Some frs =>
          let c := {| c_rev := rv ; c_comp := cp ; c_build := bd |} in
          match encode_packets_fr (H_of ht) (comp_of2 ct) c ps' frs with
          | Some b => Some [asym "ok"; ab b]
          | None => Some [asym "err"]
          end
        | _, _ => None
        end
      | _, _, _, _, _, _ => None
      end
    else None
  | _ => None
  end.

Definition run_line (line : bytes) : bytes :=
  match parse_line line with
  | Some xs => match run_recv xs with Some out => pr_items out | None => bad_line end
  | None => bad_line
  end.
