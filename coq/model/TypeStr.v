(* L4 (C19, C18): column type strings.
     ColumnType.Base / Elem / Conflicts / decimalDowncast / normalizeCommas / With / Sub / IsArray   /repo/proto/column.go
     ColAuto.Infer                                                                                  /repo/proto/col_auto.go + col_auto_gen.go
     ColEnum.parse/Infer, ColDateTime.Infer, ColDateTime64.Infer, ColInterval.Infer,
     ColMap.Infer, ColArr.Infer and the Type() methods of the columns ColAuto can create.
   Executable definitions only.  The tables (inferGenerated, the direct `switch t` arms of ColAuto.Infer, the
   Array/Nullable/LowCardinality method sets found by reflection, the Type() methods with a single return, the
   ColumnType constants, the interval names) come from coq/gen, regenerated from the source on every run.

   A Go slice expression is [go_slice], which is [Crash CIndex] when Go would panic; results are
   [res A] with the unread input always [[]].                                                         *)
From CH Require Export model.Sx.
From CH Require Import gen.InferTable gen.Methods gen.TypeNames.
Open Scope N_scope.
Open Scope list_scope.

(* ---- outcome monad over [res] (no input threading) ---------------------- *)
Definition rok {A} (a : A) : res A := Ok a [].
Definition rbind {A B} (r : res A) (f : A -> res B) : res B :=
  match r with
  | Ok a _ => f a
  | Err e => Err e
  | Crash c => Crash c
  end.
Notation "x <~ r ;; q" := (rbind r (fun x => q)) (at level 61, r at next level, right associativity).

(* ---- package strings / strconv, as used --------------------------------- *)
(* strings.IndexByte / LastIndexByte; Go's -1 is [None] *)
Fixpoint index_byte (c : N) (s : bytes) : option nat :=
  match s with
  | [] => None
  | x :: s' => if x =? c then Some O else option_map S (index_byte c s')
  end.
Fixpoint last_index_byte (c : N) (s : bytes) : option nat :=
  match s with
  | [] => None
  | x :: s' =>
    match last_index_byte c s' with
    | Some i => Some (S i)
    | None => if x =? c then Some O else None
    end
  end.
Definition zidx (o : option nat) : Z := match o with Some i => Z.of_nat i | None => (-1)%Z end.

(* s[lo:hi] *)
Definition go_slice (s : bytes) (lo hi : Z) : res bytes :=
  if ((0 <=? lo) && (lo <=? hi) && (hi <=? Z.of_nat (length s)))%Z
  then rok (firstn (Z.to_nat hi - Z.to_nat lo) (skipn (Z.to_nat lo) s))
  else Crash CIndex.

Fixpoint has_prefix (p s : bytes) : bool :=
  match p, s with
  | [], _ => true
  | x :: p', y :: s' => (x =? y) && has_prefix p' s'
  | _ :: _, [] => false
  end.

Fixpoint mem_byte (c : N) (l : list N) : bool :=
  match l with [] => false | x :: l' => (x =? c) || mem_byte c l' end.

(* strings.Cut(s, sep) for a one-byte separator: (before, after, found) *)
Fixpoint cut_byte (sep : N) (s : bytes) : bytes * bytes * bool :=
  match s with
  | [] => ([], [], false)
  | c :: s' =>
    if c =? sep then ([], s', true)
    else let '(a, b, f) := cut_byte sep s' in (c :: a, b, f)
  end.

(* strings.Split(s, sep) for a one-byte separator; Split("", ",") = [""] *)
Fixpoint split_byte (sep : N) (s : bytes) : list bytes :=
  match s with
  | [] => [[]]
  | c :: s' =>
    if c =? sep then [] :: split_byte sep s'
    else match split_byte sep s' with
         | h :: t => (c :: h) :: t
         | [] => [[c]]
         end
  end.
Fixpoint join_with (sep : bytes) (l : list bytes) : bytes :=
  match l with
  | [] => []
  | [x] => x
  | x :: l' => x ++ sep ++ join_with sep l'
  end.

(* strings.Trim(s, cutset) for an ASCII cutset (byte-wise) *)
Fixpoint ltrim_set (cs : list N) (s : bytes) : bytes :=
  match s with
  | [] => []
  | c :: s' => if mem_byte c cs then ltrim_set cs s' else s
  end.
Definition rtrim_set (cs : list N) (s : bytes) : bytes := rev (ltrim_set cs (rev s)).
Definition trim_set (cs : list N) (s : bytes) : bytes := rtrim_set cs (ltrim_set cs s).

(* strings.TrimSpace.  White space is unicode.IsSpace: the six ASCII characters and, decoded from
   UTF-8, U+0085 U+00A0 U+1680 U+2000..U+200A U+2028 U+2029 U+202F U+205F U+3000.  An invalid or
   truncated sequence decodes to U+FFFD (not a space), so a leading (trailing) space is exactly one
   of the byte sequences below as a prefix (suffix). *)
Definition ascii_space (c : N) : bool :=
  (c =? 9) || (c =? 10) || (c =? 11) || (c =? 12) || (c =? 13) || (c =? 32).
Fixpoint ltrim_space (s : bytes) : bytes :=
  match s with
  | [] => []
  | c :: s1 =>
    if ascii_space c then ltrim_space s1
    else match s1 with
         | d :: s2 =>
           if (c =? 194) && ((d =? 133) || (d =? 160)) then ltrim_space s2
           else match s2 with
                | e :: s3 =>
                  if ((c =? 225) && (d =? 154) && (e =? 128))
                     || ((c =? 226) && (d =? 128) && (((128 <=? e) && (e <=? 138)) || (e =? 168) || (e =? 169) || (e =? 175)))
                     || ((c =? 226) && (d =? 129) && (e =? 159))
                     || ((c =? 227) && (d =? 128) && (e =? 128))
                  then ltrim_space s3 else s
                | [] => s
                end
         | [] => s
         end
  end.
(* the same on the reversed string (sequences reversed) *)
Fixpoint ltrim_space_rev (s : bytes) : bytes :=
  match s with
  | [] => []
  | e :: s1 =>
    if ascii_space e then ltrim_space_rev s1
    else match s1 with
         | d :: s2 =>
           if (d =? 194) && ((e =? 133) || (e =? 160)) then ltrim_space_rev s2
           else match s2 with
                | c :: s3 =>
                  if ((c =? 225) && (d =? 154) && (e =? 128))
                     || ((c =? 226) && (d =? 128) && (((128 <=? e) && (e <=? 138)) || (e =? 168) || (e =? 169) || (e =? 175)))
                     || ((c =? 226) && (d =? 129) && (e =? 159))
                     || ((c =? 227) && (d =? 128) && (e =? 128))
                  then ltrim_space_rev s3 else s
                | [] => s
                end
         | [] => s
         end
  end.
Definition trim_space (s : bytes) : bytes := rev (ltrim_space_rev (rev (ltrim_space s))).

(* strconv.Atoi on a 64-bit host: optional sign, one or more decimal digits, value in int64 *)
Definition is_digit (c : N) : bool := (48 <=? c) && (c <=? 57).
Fixpoint digits_val (acc : N) (s : bytes) : option N :=
  match s with
  | [] => Some acc
  | c :: s' => if is_digit c then digits_val (10 * acc + (c - 48)) s' else None
  end.
Definition atoi (s : bytes) : option Z :=
  let '(neg, d) := match s with
                   | 43 :: d => (false, d)
                   | 45 :: d => (true, d)
                   | _ => (false, s)
                   end in
  match d with
  | [] => None
  | _ => match digits_val 0 d with
         | None => None
         | Some n => let z := if neg then (- Z.of_N n)%Z else Z.of_N n in
                     if in_i64b z then Some z else None
         end
  end.
(* strconv.ParseUint(s, 10, 8) *)
Definition parse_uint8 (s : bytes) : option N :=
  match s with
  | [] => None
  | _ => match digits_val 0 s with
         | Some n => if n <=? 255 then Some n else None
         | None => None
         end
  end.

(* ---- tables from the source --------------------------------------------- *)
Fixpoint lookup_s {V} (k : bytes) (tbl : list (string * V)) : option V :=
  match tbl with
  | [] => None
  | (k', v) :: tbl' => if bytes_eqb (s2b k') k then Some v else lookup_s k tbl'
  end.
(* a ColumnType constant of proto/column.go by its Go name *)
Definition ct (name : string) : bytes :=
  match lookup_s (s2b name) coltype_consts with Some v => s2b v | None => [] end.

Definition T_Int8 := ct "ColumnTypeInt8".
Definition T_Int16 := ct "ColumnTypeInt16".
Definition T_Array := ct "ColumnTypeArray".
Definition T_Nullable := ct "ColumnTypeNullable".
Definition T_LowCardinality := ct "ColumnTypeLowCardinality".
Definition T_DateTime := ct "ColumnTypeDateTime".
Definition T_DateTime64 := ct "ColumnTypeDateTime64".
Definition T_Enum8 := ct "ColumnTypeEnum8".
Definition T_Enum16 := ct "ColumnTypeEnum16".
Definition T_Map := ct "ColumnTypeMap".
Definition T_Decimal := ct "ColumnTypeDecimal".
Definition T_Decimal32 := ct "ColumnTypeDecimal32".
Definition T_Decimal64 := ct "ColumnTypeDecimal64".
Definition T_Decimal128 := ct "ColumnTypeDecimal128".
Definition T_Decimal256 := ct "ColumnTypeDecimal256".
Definition T_Interval := ct "ColumnTypeInterval".

(* ---- ColumnType methods -------------------------------------------------- *)
(* the shared head of Base and Elem: positions of the first '(' and the last ')' when
   !(start <= 0 || end <= 0 || end < start) *)
Definition parens (c : bytes) : option (Z * Z) :=
  let start := zidx (index_byte 40 c) in
  let end_ := zidx (last_index_byte 41 c) in
  if ((start <=? 0) || (end_ <=? 0) || (end_ <? start))%Z then None else Some (start, end_).

Definition base_r (c : bytes) : res bytes :=
  match c with
  | [] => rok []
  | _ => match parens c with
         | None => rok c
         | Some (start, _) => go_slice c 0 start          (* c[:start] *)
         end
  end.
Definition elem_r (c : bytes) : res bytes :=
  match c with
  | [] => rok []
  | _ => match parens c with
         | None => rok []
         | Some (start, end_) => go_slice c (start + 1) end_   (* c[start+1 : end] *)
         end
  end.

(* With: fmt.Sprintf("%s(%s)", c, strings.Join(params, ", ")) ; Sub is With on the strings *)
Definition with_params (c : bytes) (params : list bytes) : bytes :=
  match params with
  | [] => c
  | _ => c ++ [40] ++ join_with [44; 32] params ++ [41]
  end.
Definition is_array (c : bytes) : bool := has_prefix T_Array c.
Definition array_of (c : bytes) : bytes := with_params T_Array [c].

Definition normalize_commas (c : bytes) : bytes :=
  join_with [44] (map trim_space (split_byte 44 c)).

Definition is_decimal_n (c : bytes) : bool :=
  bytes_eqb c T_Decimal32 || bytes_eqb c T_Decimal64 || bytes_eqb c T_Decimal128 || bytes_eqb c T_Decimal256.

(* precision of Decimal(P, S) as ColAuto.Infer and decimalDowncast read it: [None] = Atoi failed *)
Definition decimal_prec (elem : bytes) : option Z :=
  let '(precStr, _, _) := cut_byte 44 elem in
  match precStr with
  | [] => Some 10%Z
  | _ => atoi (trim_space precStr)
  end.

Definition decimal_downcast_r (c : bytes) : res bytes :=
  bs <~ base_r c ;;
  if is_decimal_n bs then rok bs
  else if negb (bytes_eqb bs T_Decimal) then rok c
  else
    e <~ elem_r c ;;
    match decimal_prec e with
    | None => rok c
    | Some prec =>
      if (prec <? 10)%Z then rok T_Decimal32
      else if (prec <? 19)%Z then rok T_Decimal64
      else if (prec <? 39)%Z then rok T_Decimal128
      else if (prec <? 77)%Z then rok T_Decimal256
      else rok c
    end.

(* one call of Conflicts; [rec] is the recursive call on the elements *)
Definition conf_step (rec : bytes -> bytes -> res bool) (c b : bytes) : res bool :=
  if bytes_eqb c b then rok false else
  cB <~ base_r c ;;
  bB <~ base_r b ;;
  if (bytes_eqb cB T_Enum8 && bytes_eqb b T_Int8) || (bytes_eqb cB T_Enum16 && bytes_eqb b T_Int16)
     || (bytes_eqb bB T_Enum8 && bytes_eqb c T_Int8) || (bytes_eqb bB T_Enum16 && bytes_eqb c T_Int16)
  then rok false else
  if bytes_eqb cB T_Decimal || bytes_eqb bB T_Decimal || is_decimal_n cB || is_decimal_n bB then
    dc <~ decimal_downcast_r c ;;
    db <~ decimal_downcast_r b ;;
    rok (negb (bytes_eqb dc db))
  else
  if negb (bytes_eqb cB bB) then rok true else
  if bytes_eqb cB T_Enum8 || bytes_eqb cB T_Enum16 then rok false else
  if bytes_eqb (normalize_commas c) (normalize_commas b) then rok false else
  if bytes_eqb cB T_Array || bytes_eqb cB T_Nullable || bytes_eqb cB T_LowCardinality then
    ce <~ elem_r c ;;
    be <~ elem_r b ;;
    rec ce be
  else if bytes_eqb cB T_DateTime || bytes_eqb cB T_DateTime64 then rok false
  else rok true.

Fixpoint conflicts_f (fuel : nat) (c b : bytes) : res bool :=
  match fuel with
  | O => Err EFuel
  | S f => conf_step (conflicts_f f) c b
  end.
(* the element is strictly shorter, so this fuel is never exhausted (TypeStrProofs.conflicts_fuel_enough) *)
Definition conflicts_r (c b : bytes) : res bool := conflicts_f (S (length c)) c b.

(* ---- the columns ColAuto.Infer can create -------------------------------- *)
Inductive col :=
| CGen (go : bytes)                                (* new(ColX): a column without parameters, by Go struct name *)
| CInterval (scale : nat)
| CDateTime (loc : option bytes)                   (* Location.String() *)
| CDateTime64 (prec : N) (loc : option bytes)
| CEnum (t : bytes) (ebase : bytes) (defs : list (bytes * Z))
| CMap (k v : col)
| CArr (d : col)
| CNullable (d : col)
| CLowCard (d : col).

Definition struct_name (c : col) : bytes :=
  match c with
  | CGen n => n
  | CInterval _ => s2b "ColInterval"
  | CDateTime _ => s2b "ColDateTime"
  | CDateTime64 _ _ => s2b "ColDateTime64"
  | CEnum _ _ _ => s2b "ColEnum"
  | CMap _ _ => s2b "ColMap"
  | CArr _ => s2b "ColArr"
  | CNullable _ => s2b "ColNullable"
  | CLowCard _ => s2b "ColLowCardinality"
  end.

Inductive helper := HArray | HNullable | HLowCardinality.
(* reflect.ValueOf(inner.Data).MethodByName(...).IsValid() && NumOut() == 1 *)
Definition has_method (h : helper) (c : col) : bool :=
  match lookup_s (struct_name c) (map (fun '(n, a, nl, lc) => (n, (a, nl, lc))) method_table) with
  | Some (a, nl, lc) => match h with HArray => a | HNullable => nl | HLowCardinality => lc end
  | None => false
  end.

(* a Go expression of type ColumnType as printed by the translator:
   a constant name, Const.With("arg"), or a string literal *)
Fixpoint find_sub (pat s : bytes) : option nat :=
  if has_prefix pat s then Some O
  else match s with
       | [] => None
       | _ :: s' => option_map S (find_sub pat s')
       end.
Definition const_lookup (name : bytes) : option bytes := option_map s2b (lookup_s name coltype_consts).
Definition eval_texpr (e : bytes) : option bytes :=
  match find_sub (s2b ".With(""") e with
  | Some i =>
    let '(arg, tail, found) := cut_byte 34 (skipn (i + 7) e) in
    if found && bytes_eqb tail [41] then option_map (fun b => with_params b [arg]) (const_lookup (firstn i e))
    else None
  | None =>
    match e with
    | 34 :: r => let '(lit, tail, found) := cut_byte 34 r in
                 if found && bytes_eqb tail [] then Some lit else None
    | _ => const_lookup e
    end
  end.

(* interval names: _IntervalScaleName[_IntervalScaleIndex[i]:_IntervalScaleIndex[i+1]] *)
Fixpoint index_pairs (l : list N) : list (nat * nat) :=
  match l with
  | a :: ((b :: _) as l') => (N.to_nat a, N.to_nat b) :: index_pairs l'
  | _ => []
  end.
Definition slice_nat (s : bytes) (lo hi : nat) : bytes := firstn (hi - lo) (skipn lo s).
Definition interval_names : list bytes :=
  map (fun '(a, b) => slice_nat (s2b interval_scale_name) a b) (index_pairs interval_scale_index).
Definition interval_lower_names : list bytes :=
  map (fun '(a, b) => slice_nat (s2b interval_scale_lower_name) a b) (index_pairs interval_scale_index).

Fixpoint col_type (c : col) : bytes :=
  match c with
  | CGen n => match lookup_s n type_methods with
              | Some e => match eval_texpr (s2b e) with Some t => t | None => [] end
              | None => []
              end
  | CInterval k => nth k interval_names []
  | CDateTime None => T_DateTime
  | CDateTime (Some l) => with_params T_DateTime [[39] ++ l ++ [39]]
  | CDateTime64 p loc =>
    with_params T_DateTime64 (dec_of_N p :: match loc with Some l => [[39] ++ l ++ [39]] | None => [] end)
  | CEnum t _ _ => t
  | CMap k v => with_params T_Map [col_type k; col_type v]
  | CArr d => with_params T_Array [col_type d]
  | CNullable d => with_params T_Nullable [col_type d]
  | CLowCard d => with_params T_LowCardinality [col_type d]
  end.

(* `new(ColX)` / the one NewMap call, as printed by the translator *)
Definition col_of_ctor (e : bytes) : option col :=
  if bytes_eqb e (s2b "new(ColDateTime)") then Some (CDateTime None)
  else if bytes_eqb e (s2b "NewMap[string, string](new(ColStr), new(ColStr))") then Some (CMap (CGen (s2b "ColStr")) (CGen (s2b "ColStr")))
  else if has_prefix (s2b "new(Col") e then
    match rev (skipn 4 e) with
    | 41 :: r => Some (CGen (rev r))
    | _ => None
    end
  else None.

(* `switch t { case <expr>: ... <ctor> }` over a table of printed expressions *)
Fixpoint switch_on (t : bytes) (tbl : list (string * string)) : option bytes :=
  match tbl with
  | [] => None
  | (k, v) :: tbl' =>
    match eval_texpr (s2b k) with
    | Some kt => if bytes_eqb kt t then Some (s2b v) else switch_on t tbl'
    | None => switch_on t tbl'
    end
  end.

Section Infer.
  (* time.LoadLocation: [Some n] = a location whose String() is n; [None] = error *)
  Variable zone : bytes -> option bytes.
  (* strings.ToLower, uninterpreted: ColInterval.Infer's result does not depend on it *)
  Variable to_lower : bytes -> bytes.

  (* IntervalScaleString: the enumer map has the names and the lower-case names as keys *)
  Fixpoint interval_find (s : bytes) (k : nat) (names lowers : list bytes) : option nat :=
    match names, lowers with
    | n :: names', l :: lowers' =>
      if bytes_eqb s n || bytes_eqb s l then Some k else interval_find s (S k) names' lowers'
    | _, _ => None
    end.
  Definition interval_scale_string (s : bytes) : option nat :=
    match interval_find s O interval_names interval_lower_names with
    | Some k => Some k
    | None => interval_find (to_lower s) O interval_names interval_lower_names
    end.
  (* ColInterval.Infer *)
  Definition interval_infer (t : bytes) : res col :=
    match interval_scale_string t with
    | None => Err EInvalid
    | Some k => if bytes_eqb (nth k interval_names []) t then rok (CInterval k) else Err EInvalid
    end.

  (* ColDateTime.Infer *)
  Definition datetime_infer (t : bytes) : res col :=
    sub <~ elem_r t ;;
    match sub with
    | [] => rok (CDateTime None)
    | _ => match zone (trim_set [39] sub) with
           | Some n => rok (CDateTime (Some n))
           | None => Err EInvalid
           end
    end.

  (* ColDateTime64.Infer; [old] is the Location the column already has *)
  Definition datetime64_infer (old : option bytes) (t : bytes) : res col :=
    e <~ elem_r t ;;
    match e with
    | [] => Err EInvalid
    | _ =>
      let '(pStr, locStr, hasloc) := cut_byte 44 e in
      match parse_uint8 (trim_set [39; 32] pStr) with
      | None => Err EInvalid
      | Some n =>
        if negb (n <=? precision_max) then Err EInvalid
        else if hasloc then
          match zone (trim_set [39; 32] locStr) with
          | Some l => rok (CDateTime64 n (Some l))
          | None => Err EInvalid
          end
        else rok (CDateTime64 n old)
      end
    end.

  (* ColEnum.parse: the definitions in order *)
  Fixpoint enum_parse (elems : list bytes) : option (list (bytes * Z)) :=
    match elems with
    | [] => Some []
    | el :: rest =>
      let def := trim_space el in
      let '(lhs, rhs, found) := cut_byte 61 def in
      if negb found then None
      else match atoi (trim_space rhs) with
           | None => None
           | Some idx =>
             match enum_parse rest with
             | Some ds => Some ((trim_set [39] (trim_space lhs), idx) :: ds)
             | None => None
             end
           end
    end.
  (* ColEnum.Infer: the base is validated first, then parse builds a fresh mapping *)
  Definition enum_infer (t : bytes) : res col :=
    bs <~ base_r t ;;
    if negb (has_prefix (s2b "Enum") bs) then Err EInvalid else
    if negb (bytes_eqb bs T_Enum8 || bytes_eqb bs T_Enum16) then Err EInvalid else
    e <~ elem_r t ;;
    match enum_parse (split_byte 44 e) with
    | None => Err EInvalid
    | Some ds => rok (CEnum t bs ds)
    end.

  Definition of_ctor (o : option bytes) : option (res col) :=
    match o with
    | None => None
    | Some e => Some (match col_of_ctor e with Some c => rok c | None => Err EUnsupported end)
    end.

  (* ColAuto.Infer on a fresh ColAuto; [rec] is `inner := new(ColAuto); inner.Infer(t.Elem())` *)
  Definition wrap_infer (rec : bytes -> res col) (h : helper) (mk : col -> col) (t : bytes) : res col :=
    e <~ elem_r t ;;
    inner <~ rec e ;;
    if has_method h inner then rok (mk inner) else Err EUnsupported.

  Definition infer_step (rec : bytes -> res col) (t : bytes) : res col :=
    match of_ctor (switch_on t infer_table) with            (* inferGenerated *)
    | Some r => r
    | None =>
    if has_prefix T_Interval t then interval_infer t else
    match of_ctor (switch_on t auto_switch) with            (* switch t *)
    | Some r => r
    | None =>
      bs <~ base_r t ;;                                       (* switch t.Base() *)
      if bytes_eqb bs T_Array then wrap_infer rec HArray CArr t
      else if bytes_eqb bs T_Nullable then wrap_infer rec HNullable CNullable t
      else if bytes_eqb bs T_LowCardinality then wrap_infer rec HLowCardinality CLowCard t
      else if bytes_eqb bs T_DateTime then datetime_infer t
      else if bytes_eqb bs T_Decimal then
        e <~ elem_r t ;;
        match decimal_prec e with
        | None => Err EInvalid
        | Some prec =>
          if ((1 <=? prec) && (prec <? 10))%Z then rok (CGen (s2b "ColDecimal32"))
          else if ((10 <=? prec) && (prec <? 19))%Z then rok (CGen (s2b "ColDecimal64"))
          else if ((19 <=? prec) && (prec <? 39))%Z then rok (CGen (s2b "ColDecimal128"))
          else if ((39 <=? prec) && (prec <? 77))%Z then rok (CGen (s2b "ColDecimal256"))
          else Err EInvalid
        end
      else if bytes_eqb bs T_Decimal32 then rok (CGen (s2b "ColDecimal32"))
      else if bytes_eqb bs T_Decimal64 then rok (CGen (s2b "ColDecimal64"))
      else if bytes_eqb bs T_Decimal128 then rok (CGen (s2b "ColDecimal128"))
      else if bytes_eqb bs T_Decimal256 then rok (CGen (s2b "ColDecimal256"))
      else if bytes_eqb bs T_Enum8 || bytes_eqb bs T_Enum16 then enum_infer t
      else if bytes_eqb bs T_DateTime64 then datetime64_infer None t
      else Err EUnsupported
    end
    end.

  Fixpoint infer_f (fuel : nat) (t : bytes) : res col :=
    match fuel with
    | O => Err EFuel
    | S f => infer_step (infer_f f) t
    end.
  Definition infer_col (t : bytes) : res col := infer_f (S (length t)) t.

  (* the ColAuto itself: Data and DataType *)
  Record inferred := { data : col ; dtype : bytes }.
  Definition infer (t : bytes) : res inferred :=
    c <~ infer_col t ;; rok {| data := c ; dtype := t |}.

  (* ColAuto.Infer on a ColAuto that may already hold a column *)
  Definition auto_infer (st : option inferred) (t : bytes) : res inferred :=
    match st with
    | Some d =>
      cf <~ conflicts_r (dtype d) t ;;
      if negb cf then rok {| data := data d ; dtype := t |} else infer t
    | None => infer t
    end.

  (* ---- a later block: Results.DecodeResult on the column Results.Auto kept (col.Data) -------- *)
  Definition inferable (c : col) : bool :=
    match c with
    | CArr _ | CMap _ _ | CDateTime _ | CDateTime64 _ _ | CEnum _ _ _ | CInterval _ => true
    | _ => false
    end.
  (* the column's own Infer method *)
  Fixpoint reinfer (c : col) (t : bytes) : res col :=
    match c with
    | CArr d =>
      if inferable d then e <~ elem_r t ;; d' <~ reinfer d e ;; rok (CArr d') else rok c
    | CMap k v =>
      e <~ elem_r t ;;
      let '(kt, vt, hascomma) := cut_byte 44 e in
      if negb hascomma || mem_byte 44 vt then Err EInvalid else
      k' <~ (if inferable k then reinfer k (trim_space kt) else rok k) ;;
      v' <~ (if inferable v then reinfer v (trim_space vt) else rok v) ;;
      rok (CMap k' v')
    | CDateTime _ => datetime_infer t
    | CDateTime64 _ old => datetime64_infer old t
    | CEnum _ _ _ => enum_infer t
    | CInterval _ => interval_infer t
    | _ => rok c
    end.
  (* infer.Infer(gotType); gotType.Conflicts(t.Data.Type()) *)
  Definition later_block (c : col) (t : bytes) : res col :=
    c' <~ (if inferable c then reinfer c t else rok c) ;;
    cf <~ conflicts_r t (col_type c') ;;
    if cf then Err EInvalid else rok c'.
  (* Results.Auto over two header blocks naming the same type *)
  Definition auto_two_blocks (t : bytes) : res col :=
    i <~ infer t ;; later_block (data i) t.
End Infer.
