(* C12: the synchronisation discipline of ch-go's goroutines.

   [gen/Access.v] (regenerated from the Go source on every run) lists, per goroutine ROLE, which fields
   of ch.Client, ch.queryMetricsTotal, chpool.Client, chpool.Pool, chpool.connResource and which
   captured locals of Client.Do ("ch.Do") are read / written and under which protection.  This file
   gives the roles their concurrency structure, defines the executable check [no_conflict], and defines
   what an execution and a data race are, so that RacesProofs.v can prove: a table that passes
   [no_conflict] has no data race in ANY interleaving of ANY programs built from its accesses.

   Executable definitions only; the proofs are in proofs/RacesProofs.v. *)
From Coq Require Import List NArith Bool String Arith Lia.
From CH Require Import gen.Access.
Import ListNotations.
Local Open Scope string_scope.

(* ------------------------------------------------------------------ roles *)

(* query.go Do: everything before the first g.Go, the three g.Go closures, everything after g.Wait
   (including Do's deferred closures).  handshake.go: Connect + handshake before wg.Go, the two
   closures, after wg.Wait.  OwnerCall: Ping / ServerInfo ("do not call concurrently with Do").
   Foreign: Close / IsClosed from any goroutine.  Pool*: chpool. *)
Inductive role :=
| RDoBefore | RSender | RReceiver | RWatcher | RDoAfter
| RHsBefore | RHsWatchdog | RHsWorker | RHsAfter
| ROwnerCall | RForeign
| RPoolNew | RPoolUser | RPoolHealth | RPoolSpawn | RPoolDestructor | RPoolClose
| RUnknown.

Definition role_of_string (s : string) : role :=
  if s =? "DoBefore" then RDoBefore else if s =? "Sender" then RSender else
  if s =? "Receiver" then RReceiver else if s =? "Watcher" then RWatcher else
  if s =? "DoAfter" then RDoAfter else if s =? "HsBefore" then RHsBefore else
  if s =? "HsWatchdog" then RHsWatchdog else if s =? "HsWorker" then RHsWorker else
  if s =? "HsAfter" then RHsAfter else if s =? "OwnerCall" then ROwnerCall else
  if s =? "Foreign" then RForeign else if s =? "PoolNew" then RPoolNew else
  if s =? "PoolUser" then RPoolUser else if s =? "PoolHealth" then RPoolHealth else
  if s =? "PoolSpawn" then RPoolSpawn else if s =? "PoolDestructor" then RPoolDestructor else
  if s =? "PoolClose" then RPoolClose else RUnknown.

(* A Client is used by ONE owner at a time: Connect (episode 0), then a sequence of Do / Ping calls
   (episodes 1, 2, ...), each call happening after the previous one returned (this is the permitted
   use: "Do is not goroutine-safe", "do not call Ping concurrently with Do"; for pooled clients puddle's
   exclusive acquisition gives the same order).  Inside an episode: phase 0 (the calling goroutine
   before it starts the others), phase 1 (the goroutines of the episode, concurrent with each other),
   phase 2 (the calling goroutine after Wait). *)
Inductive ekind := KDo | KHs | KCall.

Inductive rclass :=
| COwner (k : ekind) (phase : nat)
| CForeign          (* any goroutine, any time after Connect returned the client *)
| CPoolNew          (* newPool up to `go p.backgroundHealthCheck()` *)
| CPool             (* pool users, health checker, creators, destructor, Close *)
| CUnknown.

Definition cls (r : role) : rclass :=
  match r with
  | RDoBefore => COwner KDo 0 | RSender | RReceiver | RWatcher => COwner KDo 1 | RDoAfter => COwner KDo 2
  | RHsBefore => COwner KHs 0 | RHsWatchdog | RHsWorker => COwner KHs 1 | RHsAfter => COwner KHs 2
  | ROwnerCall => COwner KCall 0
  | RForeign => CForeign
  | RPoolNew => CPoolNew
  | RPoolUser | RPoolHealth | RPoolSpawn | RPoolDestructor | RPoolClose => CPool
  | RUnknown => CUnknown
  end.

Definition role_eqb (a b : role) : bool :=
  match a, b with
  | RDoBefore, RDoBefore | RSender, RSender | RReceiver, RReceiver | RWatcher, RWatcher | RDoAfter, RDoAfter
  | RHsBefore, RHsBefore | RHsWatchdog, RHsWatchdog | RHsWorker, RHsWorker | RHsAfter, RHsAfter
  | ROwnerCall, ROwnerCall | RForeign, RForeign | RPoolNew, RPoolNew | RPoolUser, RPoolUser
  | RPoolHealth, RPoolHealth | RPoolSpawn, RPoolSpawn | RPoolDestructor, RPoolDestructor
  | RPoolClose, RPoolClose | RUnknown, RUnknown => true
  | _, _ => false
  end.

Definition ekind_eqb (a b : ekind) : bool :=
  match a, b with KDo, KDo | KHs, KHs | KCall, KCall => true | _, _ => false end.

(* Two DISTINCT threads with these roles can run at the same time.  Happens-before edges used:
     go statement / errgroup.Go : phase 0 -> phase 1        g.Wait / wg.Wait : phase 1 -> phase 2
     sequential owner calls     : episode k -> episode k+1
     Connect returns the client before any other goroutine can hold it : handshake -> Foreign
     newPool returns / `go` statement : PoolNew -> every other pool role
   Everything else is assumed concurrent (in particular: a role that the translator does not know). *)
Definition may_parallel (r1 r2 : role) : bool :=
  match cls r1, cls r2 with
  | COwner k1 p1, COwner k2 p2 =>
      ekind_eqb k1 k2 && Nat.eqb p1 1 && Nat.eqb p2 1 && negb (role_eqb r1 r2)
  | COwner KHs _, CForeign | CForeign, COwner KHs _ => false
  | CPoolNew, CPoolNew | CPoolNew, CPool | CPool, CPoolNew => false
  | _, _ => true
  end.

(* ------------------------------------------------------------------ accesses *)

Inductive prot := PPlain | PAtomic | PLocked (m : string).

Record acc := mk_acc { c_role : role; c_loc : string * string; c_write : bool; c_prot : prot }.

Definition has_prefix (p s : string) : bool := String.prefix p s.

Definition prot_of_string (s : string) : prot :=
  if s =? "plain" then PPlain else if s =? "atomic" then PAtomic else
  if has_prefix "lock:" s then PLocked (substring 5 (String.length s - 5) s) else PPlain.

(* Struct-level facts that the syntactic table cannot see; each with its reason.

   chpool.connResource: the value lives inside a puddle resource.  Its fields are touched (a) by the
   constructor on a value nobody else has yet, (b) by the goroutine that holds the resource between
   pool.Acquire and res.Release / res.Destroy (Pool.Acquire -> getConn, Client.Release, Client.client),
   (c) by the destructor, which puddle runs after the resource left the pool.  Acquisition and release
   go through puddle's own mutex, so ownership behaves as a lock held around every access:
   the accesses are treated as [PLocked "puddle.resource"].  (modelled, not derived from the source)

   chpool.Client: a handle.  getConn carves a fresh slot out of connResource.clients for every Acquire
   (slots are never handed out twice: the slice only shrinks and is re-made when empty), and the handle
   is used by the goroutine that acquired it.  Distinct threads therefore work on distinct instances:
   accesses to its fields never conflict across threads.  (modelled, not derived from the source) *)
Definition struct_guard (s : string) : option string :=
  if s =? "chpool.connResource" then Some "puddle.resource" else None.

Definition per_thread_instance (s : string) : bool := s =? "chpool.Client".

Definition conv (a : access) : acc :=
  let p := match struct_guard (a_struct a) with
           | Some m => PLocked m
           | None => prot_of_string (a_prot a)
           end in
  mk_acc (role_of_string (a_role a)) (a_struct a, a_field a) (a_kind a =? "w") p.

Definition loc_eqb (x y : string * string) : bool := (fst x =? fst y) && (snd x =? snd y).

Definition prot_ok (p q : prot) : bool :=
  match p, q with
  | PAtomic, PAtomic => true
  | PLocked m, PLocked n => m =? n
  | _, _ => false
  end.

(* the pair needs no ordering, or is protected *)
Definition pair_ok (a b : acc) : bool :=
  negb (loc_eqb (c_loc a) (c_loc b))
  || per_thread_instance (fst (c_loc a))
  || negb (c_write a || c_write b)
  || negb (may_parallel (c_role a) (c_role b))
  || prot_ok (c_prot a) (c_prot b).

Definition no_conflict_accs (t : list acc) : bool :=
  forallb (fun a => forallb (fun b => pair_ok a b) t) t.

Definition no_conflict (t : list access) : bool := no_conflict_accs (map conv t).

(* the conflicts themselves, for reports: (function, file, line) of both sides *)
Definition conflicts (t : list access) : list (access * access) :=
  flat_map (fun a => map (fun b => (a, b))
                       (filter (fun b => negb (pair_ok (conv a) (conv b)) && (a_line a <=? a_line b)%N) t)) t.

(* every role string of the table is one the model knows *)
Definition roles_known (t : list access) : bool :=
  forallb (fun a => negb (role_eqb (role_of_string (a_role a)) RUnknown)) t.

(* chpool calls ch.Client methods across the package boundary.  Do / Ping are owner calls and are only
   made by a pool user (who holds the resource); every other pool goroutine (health checker,
   destructor, ...) may only use Close / IsClosed, whose accesses are the Foreign rows of the table. *)
Definition pool_calls_ok (cs : list (string * string * string * N)) : bool :=
  forallb (fun c => match c with
                    | (r, m, _, _) =>
                        (m =? "Close") || (m =? "IsClosed") || (((m =? "Do") || (m =? "Ping")) && (r =? "PoolUser"))
                    end) cs.

(* Foreign callers (Close / IsClosed) write nothing outside a lock: what makes "Close from another
   goroutine" a permitted use. *)
Definition foreign_writes_locked (t : list access) : bool :=
  forallb (fun a => negb (role_eqb (role_of_string (a_role a)) RForeign) || negb (a_kind a =? "w")
                    || match prot_of_string (a_prot a) with PLocked _ => true | _ => false end) t.

(* ------------------------------------------------------------------ executions *)

Inductive action := Acc (a : acc) | Lock (m : string) | Unlock (m : string).

(* a thread: its role, the owner call (episode) it belongs to, its program *)
Record thread := mk_thread { th_role : role; th_epi : nat; th_prog : list action }.

Definition event := (nat * action)%type.   (* thread index, action *)

(* thread a is over before thread b starts *)
Definition before (a b : thread) : bool :=
  match cls (th_role a), cls (th_role b) with
  | COwner _ pa, COwner _ pb => Nat.ltb (th_epi a) (th_epi b) || (Nat.eqb (th_epi a) (th_epi b) && Nat.ltb pa pb)
  | COwner KHs _, CForeign => true
  | CPoolNew, CPool => true
  | _, _ => false
  end.

(* the program of a thread only performs accesses listed for its role, and performs an access marked
   [PLocked m] only while it holds m; Lock / Unlock are well bracketed *)
Fixpoint prog_ok (t : list acc) (r : role) (held : list string) (p : list action) : bool :=
  match p with
  | [] => true
  | Acc a :: p' =>
      existsb (fun b => role_eqb (c_role b) r && loc_eqb (c_loc a) (c_loc b) && Bool.eqb (c_write a) (c_write b)
                        && match c_prot a, c_prot b with
                           | PPlain, PPlain | PAtomic, PAtomic => true
                           | PLocked m, PLocked n => m =? n
                           | _, _ => false end) t
      && role_eqb (c_role a) r
      && match c_prot a with PLocked m => existsb (String.eqb m) held | _ => true end
      && prog_ok t r held p'
  | Lock m :: p' => negb (existsb (String.eqb m) held) && prog_ok t r (m :: held) p'
  | Unlock m :: p' => existsb (String.eqb m) held && prog_ok t r (filter (fun x => negb (m =? x)) held) p'
  end.

Definition proj (i : nat) (tr : list event) : list action :=
  map snd (filter (fun e => Nat.eqb (fst e) i) tr).

(* global lock state: who holds which mutex *)
Definition lstate := list (string * nat).

Fixpoint holder (st : lstate) (m : string) : option nat :=
  match st with
  | [] => None
  | (n, t) :: st' => if n =? m then Some t else holder st' m
  end.

Definition lstep (st : lstate) (e : event) : option lstate :=
  match snd e with
  | Acc _ => Some st
  | Lock m => match holder st m with None => Some ((m, fst e) :: st) | Some _ => None end
  | Unlock m => match holder st m with
                | Some t => if Nat.eqb t (fst e) then Some (filter (fun x => negb (fst x =? m)) st) else None
                | None => None
                end
  end.

Fixpoint lrun (st : lstate) (tr : list event) : option lstate :=
  match tr with
  | [] => Some st
  | e :: tr' => match lstep st e with Some st' => lrun st' tr' | None => None end
  end.
