(* L7, send side: /repo/query.go (sendQuery, encodeBlock, encodeBlankBlock, sendInput, the sender
   goroutine of Do), /repo/client.go (encode, flush) and Block.WriteBlock of /repo/proto/block.go,
   on top of the vectored writer of model/Writer.v, the frames of model/Compress.v, the messages of
   model/Messages.v and the blocks of model/Block.v.

   Column memory.  A column's WriteColumn either appends to the staging buffer (ChainBuffer) or
   chains a slice of the caller's own memory (ChainWrite: fixed-width columns of the default build,
   ColUInt8, ColFixedStr, ColBool).  A chained slice is named in the writer's [ext] table at the
   moment it is chained ([add_ext]), with the contents the column has at that moment; it is read
   again only when Flush hands it to the connection.  The OnInput callback may overwrite ANY slice
   named so far with anything ([cb_muts], Writer.v's WMutExt): Reset + Append into the same backing
   array, an in-place overwrite, a re-sort, ... are all instances.

   A second half of the file is the reference SERVER-SIDE parser of what the client writes.
   Executable definitions only. *)
From CH Require Export model.Block model.Compress model.Writer.
From CH Require Import gen.Features gen.Codes gen.Consts.
Open Scope N_scope.
Open Scope list_scope.

(* ---- configuration of a connected client -------------------------------------------- *)
Record ccfg := {
  k_rev : N ;                                  (* c.protocolVersion after the handshake *)
  k_comp : option method ;                     (* None: proto.CompressionDisabled; Some m: Enabled, c.compressor's method *)
  k_settings : list (bytes * bytes * bool) ;   (* Options.Settings: Key, Value, Important *)
  k_name : bytes ; k_major : Z ; k_minor : Z ; k_patch : Z ;    (* c.version *)
  k_addr : bytes                               (* c.conn.LocalAddr().String() *)
}.

(* ch.Query, the fields the sender reads *)
Record cquery := {
  u_id : bytes ; u_body : bytes ; u_quota : bytes ; u_secret : bytes ; u_initial_user : bytes ;
  u_settings : list (bytes * bytes * bool) ;
  u_params : list (bytes * bytes) ;
  u_span : option span ;                       (* trace.SpanContextFromContext(ctx) *)
  u_ext : list col ; u_ext_table : bytes ;     (* ExternalData, ExternalTable *)
  u_input : list col                           (* Input *)
}.

(* querySettings: connection settings first, then the query's *)
Definition mk_setting (s : bytes * bytes * bool) : setting :=
  {| s_key := fst (fst s) ; s_val := snd (fst s) ; s_imp := snd s ; s_cust := false ; s_obs := false |}.
Definition query_settings (k : ccfg) (u : cquery) : list setting :=
  map mk_setting (k_settings k) ++ map mk_setting (u_settings u).

(* the proto.ClientInfo literal of sendQuery, in the field order of L_ClientInfo *)
Definition client_info (k : ccfg) (u : cquery) : list fv :=
  [ FN (Z.to_N ClientQueryInitial) ;
    FStr (u_initial_user u) ; FStr (u_id u) ; FStr (k_addr k) ;
    FZ 0 ;                                        (* InitialTime: not set *)
    FN (Z.to_N InterfaceTCP) ;
    FStr [] ; FStr [] ; FStr (k_name k) ;         (* OSUser, ClientHostname, ClientName *)
    FZ (k_major k) ; FZ (k_minor k) ; FZ (Z.of_N (k_rev k)) ;
    FStr (u_quota u) ;
    FZ 0 ;                                        (* DistributedDepth *)
    FZ (k_patch k) ;
    FSpan (u_span u) ;
    FB false ; FZ 0 ; FZ 0 ].

Definition comp_code (k : ccfg) : N :=
  match k_comp k with None => Z.to_N CompressionDisabled | Some _ => Z.to_N CompressionEnabled end.

(* the proto.Query literal of sendQuery *)
Definition proto_query (k : ccfg) (u : cquery) : query :=
  {| q_id := u_id u ; q_info := client_info k u ; q_settings := query_settings k u ;
     q_secret := u_secret u ; q_stage := Z.to_N StageComplete ; q_comp := comp_code k ;
     q_body := u_body u ; q_params := u_params u |}.

(* ---- WriteColumn: what is appended to the buffer and what is chained ------------------- *)
Inductive wpiece :=
| WB (b : bytes)      (* w.ChainBuffer(func(b) { append ... }) *)
| WZ (b : bytes).     (* w.ChainWrite(slice of the column's own memory), current contents b *)

Definition piece_bytes (p : wpiece) : bytes := match p with WB b => b | WZ b => b end.
Definition pieces_bytes (ps : list wpiece) : bytes := concat (map piece_bytes ps).

Definition is_uint8 (name : bytes) : bool := bytes_eqb name (s2b "UInt8").

(* the generated fixed-width columns (col_*_safe_gen.go / col_*_unsafe_gen.go).
   [always]: ColUInt8, whose only variant chains []byte(c) unconditionally. *)
Definition write_fix (b : build) (always : bool) (w : nat) (vs : list N) : list wpiece :=
  if always then [WZ (enc_fix b w vs)]
  else match b with
       | Safe => [WB (enc_fix Safe w vs)]                       (* w.ChainBuffer(c.EncodeColumn) *)
       | Unsafe => match vs with
                   | [] => []                                   (* if len(v) == 0 { return } *)
                   | _ => [WZ (enc_fix Unsafe w vs)]
                   end
       end.

Section CatL.
  Context {T D P : Type}.
  Variable f : T -> D -> list P.
  Fixpoint catl (ts : list T) (ds : list D) : list P :=
    match ts, ds with
    | t0 :: ts', d0 :: ds' => f t0 d0 ++ catl ts' ds'
    | _, _ => []
    end.
End CatL.

Fixpoint write_col (b : build) (t : ty) (d : cdata) : list wpiece :=
  match t, d with
  | TFix name w, DFix vs => write_fix b (is_uint8 name) w vs
  | TBool, DBool vs =>
    match vs with
    | [] => []
    | _ => match b with Safe => [WB (enc_bool Safe vs)] | Unsafe => [WZ (enc_bool Unsafe vs)] end
    end
  | TUUID, DBytes vs => match vs with [] => [] | _ => [WB (List.concat (map swap16 vs))] end
  | TStr, DBytes vs | TJSON, DBytes vs => [WB (List.concat (map put_str vs))]
  | TFixedStr _, DFixedStr buf => [WZ buf]
  | TNothing, DNothing n => [WB (repeatN 0 (N.to_nat n))]
  | TPoint, DPoint xs ys => write_fix b false 8 xs ++ write_fix b false 8 ys
  | TEnum _ w _, DEnum _ raw => write_fix b false w raw
  | TArr t', DArr offs d' => write_fix b false 8 offs ++ write_col b t' d'
  | TNullable t', DNullable nulls d' => WZ nulls :: write_col b t' d'      (* Nulls is a ColUInt8 *)
  | TLowCard t', DLowCard vals idx key keys =>
    match vals with
    | [] => []
    | _ =>
      WB (put_i64 (cardinalityUpdateAll + Z.of_N key) ++ put_i64 (Z.of_N (rows t' idx))) ::
      write_col b t' idx ++
      WB (put_i64 (Z.of_nat (length vals))) ::
      write_fix b (key =? Z.to_N KeyUInt8) (key_bytes key) keys
    end
  | TMap tk tv, DMap offs dk dv =>
    match offs with
    | [] => []
    | _ => write_fix b false 8 offs ++ write_col b tk dk ++ write_col b tv dv
    end
  | TTuple ts, DTuple ds => catl (write_col b) ts ds
  | TNamed _ t', _ => write_col b t' d
  | _, _ => []
  end.

(* Block.WriteBlock: None = the Go function returns an error *)
Fixpoint write_cols (b : build) (v : N) (nrows : N) (cols : list col) : option (list wpiece) :=
  match cols with
  | [] => Some []
  | c :: cs =>
    if negb (rows (c_ty c) (c_data c) =? nrows) then None else
    match prepare (c_ty c) (c_data c) with
    | None => None
    | Some d =>
      let body := if rows (c_ty c) d =? 0 then []
                  else WB (enc_state (c_ty c)) :: write_col b (c_ty c) d in
      match write_cols b v nrows cs with
      | Some r => Some (WB (enc_start v (c_name c) (c_ty c)) :: body ++ r)
      | None => None
      end
    end
  end.

Definition write_block (b : build) (v : N) (i : block_info) (nrows : N) (cols : list col) : option (list wpiece) :=
  option_map (fun r => WB ((if gate v FeatureBlockInfo then encode_BlockInfo i else []) ++
                           put_int (Z.of_nat (length cols)) ++ put_int (Z.of_N nrows)) :: r)
             (write_cols b v nrows cols).

(* ---- encodeBlock ------------------------------------------------------------------------ *)
(* b.Rows = input[0].Data.Rows(); b.Info = BlockInfo{BucketNum: -1} when there are columns *)
Definition block_rows (cols : list col) : N :=
  match cols with [] => 0 | c :: _ => rows (c_ty c) (c_data c) end.
Definition block_info_of (cols : list col) : block_info :=
  match cols with [] => blank_block_info | _ => {| bi_overflows := false ; bi_bucket := (-1)%Z |} end.

(* ClientCodeData.Encode(buf); ClientData{TableName}.EncodeAware(buf, version) *)
Definition data_header (v : N) (table : bytes) : bytes :=
  code_byte ClientCodeData ++ encode_ClientData v [FStr table].

Inductive sitem :=
| IP (p : wpiece)
| IC (blk frame : bytes).   (* start := len(buf.Buf); EncodeBlock appends blk; Compress(buf.Buf[start:]);
                               buf.Buf = append(buf.Buf[:start], c.compressor.Data...) *)

Section Sender.
Variable H : bytes -> N * N.                          (* city.CH128 *)
Variable comp : method -> bytes -> option bytes.      (* lz4 / lz4hc / zstd block compressors *)

Definition encode_block_items (k : ccfg) (b : build) (table : bytes) (cols : list col) : option (list sitem) :=
  let v := k_rev k in
  let hd := IP (WB (data_header v table)) in
  match k_comp k with
  | None =>
    option_map (fun ps => hd :: map IP ps) (write_block b v (block_info_of cols) (block_rows cols) cols)
  | Some m =>
    match encode_block b v (block_info_of cols) (block_rows cols) cols with
    | None => None
    | Some blk =>
      match compress_frame H comp m blk with
      | inl _ => None
      | inr f => Some [hd; IC blk f]
      end
    end
  end.

(* ---- the items on the real writer -------------------------------------------------------- *)
Definition add_ext (st : wst) (d : bytes) : wst :=
  mkw (heap st) (ext st ++ [d]) (buf st) (boff st) (vec st).

(* Go's append: force = false; the spare capacity of a new array does not matter (C14) *)
Definition bapp (d : bytes) : bop := BApp d false 0.

Definition run_item (st : wst) (it : sitem) : option wst :=
  match it with
  | IP (WB b) => chain_buffer st [bapp b]
  | IP (WZ b) => chain_write (add_ext st b) (length (ext st))
  | IC blk f => chain_buffer st [bapp blk; BTrunc (b_len (buf st)); bapp f]
  end.

Fixpoint run_items (st : wst) (its : list sitem) : option wst :=
  match its with
  | [] => Some st
  | it :: r => match run_item st it with Some st' => run_items st' r | None => None end
  end.

(* c.flush: the connection takes everything (write failures are C04's subject) *)
Definition do_flush (st : wst) : option (wst * bytes) :=
  match flush st SAccept [] with
  | Some (st', fo) => Some (st', accepted fo)
  | None => None
  end.

Fixpoint run_muts (st : wst) (ms : list (nat * bytes)) : wst :=
  match ms with
  | [] => st
  | (id, d) :: r => run_muts (mkw (heap st) (mut_ext (ext st) id d) (buf st) (boff st) (vec st)) r
  end.

(* ---- the OnInput callback, as a history ---------------------------------------------------- *)
Inductive cb_out := CbNil | CbEof | CbWrapEof | CbErr.
Record cb_step := {
  cb_muts : list (nat * bytes) ;     (* slices of caller memory it overwrites *)
  cb_data : list cdata ;             (* contents of the input columns when it returns *)
  cb_ret : cb_out }.

Definition is_eof (o : cb_out) : bool := match o with CbEof | CbWrapEof => true | _ => false end.

Fixpoint set_data (cols : list col) (ds : list cdata) : list col :=
  match cols, ds with
  | c :: cs, d :: ds' => {| c_name := c_name c ; c_ty := c_ty c ; c_data := d |} :: set_data cs ds'
  | _, _ => []
  end.

Inductive sev :=
| EvFlush (b : bytes)     (* one Flush: the bytes handed to the connection *)
| EvCall.                 (* one OnInput call *)

Inductive sstatus :=
| StOk                    (* Do's sender returned nil *)
| StErr                   (* it returned an error *)
| StStuck                 (* the history ended before the sender did *)
| StPanic.                (* the writer panicked (never: see SendProofs) *)

Definition sres := (list sev * sstatus * wst)%type.

(* encodeBlock *)
Definition enc_blk (k : ccfg) (b : build) (st : wst) (table : bytes) (cols : list col) : sstatus + wst :=
  match encode_block_items k b table cols with
  | None => inl StErr
  | Some its => match run_items st its with Some st' => inr st' | None => inl StPanic end
  end.

(* the tail of sendInput from label End: encodeBlankBlock; then back in Do: flush *)
Definition finish_input (k : ccfg) (b : build) (st : wst) (acc : list sev) : sres :=
  match enc_blk k b st [] [] with
  | inl e => (acc, e, st)
  | inr st1 =>
    match do_flush st1 with
    | None => (acc, StPanic, st1)
    | Some (st2, out) => (acc ++ [EvFlush out], StOk, st2)
    end
  end.

(* the `for` loop of sendInput with f != nil, entered with the callback history still to come *)
Fixpoint input_loop (k : ccfg) (b : build) (st : wst) (cols : list col) (h : list cb_step) (acc : list sev) : sres :=
  match enc_blk k b st [] cols with                          (* c.encodeBlock(ctx, "", q.Input) *)
  | inl e => (acc, e, st)
  | inr st1 =>
    match do_flush st1 with                                  (* c.flush(ctx) *)
    | None => (acc, StPanic, st1)
    | Some (st2, out) =>
      let acc1 := acc ++ [EvFlush out] in
      match h with
      | [] => (acc1, StStuck, st2)
      | s :: h' =>                                           (* f(ctx) *)
        let st3 := run_muts st2 (cb_muts s) in
        let cols' := set_data cols (cb_data s) in
        let acc2 := acc1 ++ [EvCall] in
        match cb_ret s with
        | CbNil => input_loop k b st3 cols' h' acc2
        | CbErr => (acc2, StErr, st3)
        | _ =>                                               (* errors.Is(err, io.EOF) *)
          if 0 <? block_rows cols' then                      (* f = nil; continue; ... break *)
            match enc_blk k b st3 [] cols' with
            | inl e => (acc2, e, st3)
            | inr st4 => finish_input k b st4 acc2
            end
          else finish_input k b st3 acc2
        end
      end
    end
  end.

(* sendInput followed by the last flush of Do's sender.  [streaming]: q.OnInput != nil *)
Definition send_input (k : ccfg) (b : build) (st : wst) (cols : list col) (streaming : bool)
           (h : list cb_step) (acc : list sev) : sres :=
  match cols with
  | [] =>                                                    (* len(q.Input) == 0: return nil; flush *)
    match do_flush st with
    | None => (acc, StPanic, st)
    | Some (st', out) => (acc ++ [EvFlush out], StOk, st')
    end
  | _ =>
    if negb streaming then
      match enc_blk k b st [] cols with
      | inl e => (acc, e, st)
      | inr st1 => finish_input k b st1 acc
      end
    else if block_rows cols =? 0 then                        (* fetching initial input *)
      match h with
      | [] => (acc, StStuck, st)
      | s :: h' =>
        let st1 := run_muts st (cb_muts s) in
        let cols' := set_data cols (cb_data s) in
        let acc1 := acc ++ [EvCall] in
        match cb_ret s with
        | CbNil => input_loop k b st1 cols' h' acc1
        | CbErr => (acc1, StErr, st1)
        | _ =>
          if 0 <? block_rows cols' then                      (* rows came with io.EOF: f = nil; one block *)
            match enc_blk k b st1 [] cols' with
            | inl e => (acc1, e, st1)
            | inr st2 => finish_input k b st2 acc1
            end
          else finish_input k b st1 acc1                     (* goto End: initial input was blank *)
        end
      end
    else input_loop k b st cols h acc
  end.

(* sendQuery: the Query packet, the external data block if any, the end-of-external-data marker *)
Definition ext_table (u : cquery) : bytes :=
  match u_ext_table u with [] => s2b "_data" | t => t end.

Definition send_query (k : ccfg) (b : build) (st : wst) (u : cquery) : sstatus + wst :=
  match run_items st [IP (WB (encode_Query (k_rev k) (proto_query k u)))] with
  | None => inl StPanic
  | Some st1 =>
    match (match u_ext u with
           | [] => inr st1
           | _ => enc_blk k b st1 (ext_table u) (u_ext u)
           end) with
    | inl e => inl e
    | inr st2 => enc_blk k b st2 [] []
    end
  end.

(* the sender goroutine of Client.Do on a fresh writer (proto.NewWriter(conn, new(proto.Buffer))) *)
Definition client_do (k : ccfg) (b : build) (u : cquery) (streaming : bool) (h : list cb_step)
  : list sev * sstatus :=
  if negb (is_nil (u_params u)) && negb (gate (k_rev k) FeatureParameters) then ([], StErr)
  else
    match send_query k b (winit [] 0 []) u with
    | inl e => ([], e)
    | inr st1 =>
      match do_flush st1 with
      | None => ([], StPanic)
      | Some (st2, out) =>
        let '(evs, s, _) := send_input k b st2 (u_input u) streaming h [EvFlush out] in (evs, s)
      end
    end.

Definition ev_bytes (e : sev) : bytes := match e with EvFlush b => b | EvCall => [] end.
Definition wire (evs : list sev) : bytes := concat (map ev_bytes evs).

(* everything the client writes for a query without an input callback *)
Definition client_stream (k : ccfg) (b : build) (u : cquery) : option bytes :=
  match client_do k b u false [] with
  | (evs, StOk) => Some (wire evs)
  | _ => None
  end.
End Sender.

(* ======================================================================================== *)
(* The reference server-side parser.  Column types are known to the server (the table's and the
   external table's schema): blocks are decoded into typed targets that accept exactly their own
   type string. *)
Definition exact_conflicts (got want : bytes) : bool := negb (bytes_eqb got want).
Definition keep_type (t : ty) (_ : bytes) : option ty := Some t.

Record dpacket := { d_table : bytes ; d_info : block_info ; d_cols : Z ; d_rows : Z ; d_data : list col }.

Inductive packet := PQuery (q : query) | PData (d : dpacket).

Section Server.
Variable H : bytes -> N * N.
Variable decomp : N -> bytes -> N -> option bytes.

Definition dec_typed_block (b : build) (v : N) (ts : list col) : parser (block_info * Z * Z * list col) :=
  decode_block exact_conflicts keep_type (fun _ => None) false b v ts.

(* the block of one Data packet: plain, or exactly one checksummed frame holding exactly the block *)
Definition parse_block (compressed : bool) (b : build) (v : N) (ts : list col)
  : parser (block_info * Z * Z * list col) :=
  if compressed then
    fun s => match read_block H decomp s with
             | (inr payload, rest, _) =>
               match dec_typed_block b v ts payload with
               | Ok x [] => Ok x rest
               | Ok _ _ => Err EInvalid                  (* bytes left in the frame *)
               | Err e => Err e
               | Crash c => Crash c
               end
             | (inl (CECorrupt _ _ _ _), _, _) => Err ECorrupt
             | (inl (CEHeader _), _, _) | (inl (CEReadRaw _), _, _) => Err EEof
             | (inl _, _, _) => Err EInvalid
             end
  else dec_typed_block b v ts.

Definition blank_targets (ts : list col) : list col :=
  map (fun t => {| c_name := c_name t ; c_ty := c_ty t ; c_data := empty (c_ty t) |}) ts.

(* one Data packet: code, table name, block *)
Definition parse_data (compressed : bool) (b : build) (v : N) (ts : list col) : parser dpacket :=
  code <- uvarint ;;
  if negb (code =? Z.to_N ClientCodeData) then fail EInvalid else
  cd <- decode_ClientData v ;;
  x <- parse_block compressed b v (blank_targets ts) ;;
  let '(i, c, r, ts') := x in
  ret {| d_table := match cd with [FStr t] => t | _ => [] end ;
         d_info := i ; d_cols := c ; d_rows := r ;
         d_data := if (c =? 0)%Z && (r =? 0)%Z then [] else ts' |}.

Definition is_end (d : dpacket) : bool := (d_cols d =? 0)%Z && (d_rows d =? 0)%Z.

(* Data packets up to and including the first empty block *)
Fixpoint parse_until_end (fuel : nat) (compressed : bool) (b : build) (v : N) (ts : list col)
  : parser (list dpacket) :=
  match fuel with
  | O => fail EFuel
  | S f =>
    d <- parse_data compressed b v ts ;;
    if is_end d then ret [d]
    else r <- parse_until_end f compressed b v ts ;; ret (d :: r)
  end.

(* what the server knows before it reads: whether and how blocks are framed, the schema of the
   external table and of the INSERT target (None: the query takes no input) *)
Record schema := { sc_ext : list col ; sc_input : option (list col) }.

Definition parse_client_stream (k : ccfg) (b : build) (sc : schema) : parser (list packet) :=
  fun s0 =>
  (let v := k_rev k in
   let compressed := match k_comp k with None => false | Some _ => true end in
   code <- uvarint ;;
   if negb (code =? Z.to_N ClientCodeQuery) then fail EInvalid else
   q <- decode_Query v ;;
   ext <- parse_until_end (S (length s0)) compressed b v (sc_ext sc) ;;
   inp <- (match sc_input sc with
           | None => ret []
           | Some ts => parse_until_end (S (length s0)) compressed b v ts
           end) ;;
   (* nothing else is written *)
   fun s => match s with
            | [] => Ok (PQuery q :: map PData ext ++ map PData inp) []
            | _ => Err EInvalid
            end) s0.
End Server.

(* ---- what the stream has to parse to ----------------------------------------------------- *)
Definition prepared (c : col) : option col :=
  option_map (fun d => {| c_name := c_name c ; c_ty := c_ty c ; c_data := d |}) (prepare (c_ty c) (c_data c)).

Definition prep_cols (cols : list col) : list col :=
  map (fun c => match prepared c with Some c' => c' | None => c end) cols.

Definition data_packet (v : N) (table : bytes) (cols : list col) : dpacket :=
  {| d_table := if gate v FeatureTempTables then table else [] ;
     d_info := if gate v FeatureBlockInfo then block_info_of cols else blank_block_info ;
     d_cols := Z.of_nat (length cols) ; d_rows := Z.of_N (block_rows cols) ;
     d_data := prep_cols cols |}.

Definition blank_packet (v : N) : dpacket := data_packet v [] [].

Definition expected_packets (k : ccfg) (u : cquery) : list packet :=
  let v := k_rev k in
  PQuery (project_Query v (proto_query k u)) ::
  (match u_ext u with [] => [] | _ => [PData (data_packet v (ext_table u) (u_ext u))] end) ++
  [PData (blank_packet v)] ++
  (match u_input u with [] => [] | _ => [PData (data_packet v [] (u_input u)); PData (blank_packet v)] end).

Definition schema_of (u : cquery) : schema :=
  {| sc_ext := u_ext u ; sc_input := match u_input u with [] => None | i => Some i end |}.

(* ---- the specification of a streamed INSERT: plain lists, no writer, no memory -------------- *)
(* the input blocks that have to be on the wire, in order, whether the terminator follows them, and
   how sendInput ends *)
Fixpoint spec_loop (cols : list col) (h : list cb_step) : list (list col) * bool * sstatus :=
  (* a round begins with the contents [cols] *)
  match h with
  | [] => ([cols], false, StStuck)
  | s :: h' =>
    let cols' := set_data cols (cb_data s) in
    match cb_ret s with
    | CbNil => let '(bs, t, r) := spec_loop cols' h' in (cols :: bs, t, r)
    | CbErr => ([cols], false, StErr)
    | _ => if 0 <? block_rows cols' then ([cols; cols'], true, StOk) else ([cols], true, StOk)
    end
  end.

Definition spec_stream (cols : list col) (h : list cb_step) : list (list col) * bool * sstatus :=
  if block_rows cols =? 0 then
    match h with
    | [] => ([], false, StStuck)
    | s :: h' =>
      let cols' := set_data cols (cb_data s) in
      match cb_ret s with
      | CbNil => spec_loop cols' h'
      | CbErr => ([], false, StErr)
      | _ => if 0 <? block_rows cols' then ([cols'], true, StOk) else ([], true, StOk)
      end
    end
  else spec_loop cols h.
