(* L2a: a protocol message as a list of gated primitive fields.
   The Go EncodeAware/DecodeAware pairs are straight-line sequences of
   Buffer.Put* / Reader.* calls under `if FeatureX.In(version)` gates; a layout
   records that sequence, [encode_fields]/[decode_fields] interpret it. *)
From CH Require Export model.Prim.
Open Scope N_scope.

Record span := { sp_trace : bytes ; sp_span : bytes ; sp_state : bytes ; sp_flags : N }.

Inductive fkind :=
| KStr                      (* PutString / Str *)
| KInt                      (* PutInt / Int           : Go int *)
| KUVar                     (* PutUVarInt / UVarInt   : uint64 *)
| KU8                       (* PutByte / UInt8 *)
| KEnum8 (valid : list N)   (* PutByte(byte(x)) / UInt8 + IsA...() check *)
| KEnumUV (valid : list N)  (* x.Encode -> PutUVarInt(uint64(x)) / UVarInt + IsA...() on the byte value *)
| KI32 | KI64               (* PutInt32 / Int32, PutInt64 / Int64 *)
| KBool                     (* PutBool / Bool *)
| KBoolInt                  (* if x {PutInt(1)} else {PutInt(0)} / Int()==1 *)
| KSpan.                    (* OpenTelemetry span context block *)

Inductive fv :=
| FStr (s : bytes) | FZ (z : Z) | FN (n : N) | FB (b : bool) | FSpan (s : option span).

Record field := { fname : nat ; fgates : list N ; fk : fkind }.
Definition layout := list field.

Definition gate_in (v : N) (gs : list N) : bool := forallb (fun g => g <=? v) gs.

Definition default_of (k : fkind) : fv :=
  match k with
  | KStr => FStr []
  | KInt | KI32 | KI64 => FZ 0
  | KUVar | KU8 | KEnum8 _ | KEnumUV _ => FN 0
  | KBool | KBoolInt => FB false
  | KSpan => FSpan None
  end.

Definition mem_N (x : N) (l : list N) : bool := existsb (N.eqb x) l.

Definition all_zero (b : bytes) : bool := forallb (N.eqb 0) b.
(* trace.SpanContext.IsValid: both ids non-zero *)
Definition span_valid (s : span) : bool :=
  negb (all_zero (sp_trace s)) && negb (all_zero (sp_span s)).

Definition swap8 (b : bytes) : bytes :=
  match bswap64 b with Some r => r | None => b end.

(* ---- encode ------------------------------------------------------------ *)
Definition enc_field (k : fkind) (x : fv) : bytes :=
  match k, x with
  | KStr, FStr s => put_str s
  | KInt, FZ z => put_int z
  | KUVar, FN n => put_uvarint n
  | KU8, FN n => put_u8 n
  | KEnum8 _, FN n => put_u8 n
  | KEnumUV _, FN n => put_uvarint n
  | KI32, FZ z => put_i32 z
  | KI64, FZ z => put_i64 z
  | KBool, FB b => put_bool b
  | KBoolInt, FB b => put_int (if b then 1 else 0)
  | KSpan, FSpan (Some s) =>
      if span_valid s then
        [1] ++ swap8 (sp_trace s) ++ swap8 (sp_span s) ++ put_str (sp_state s) ++ put_u8 (sp_flags s)
      else [0]
  | KSpan, FSpan None => [0]
  | _, _ => []      (* ill-typed value list: excluded by [fields_typed] *)
  end.

Fixpoint encode_fields (v : N) (l : layout) (xs : list fv) : bytes :=
  match l, xs with
  | f :: l', x :: xs' =>
    (if gate_in v (fgates f) then enc_field (fk f) x else []) ++ encode_fields v l' xs'
  | _, _ => []
  end.

(* ---- decode ------------------------------------------------------------ *)
Definition dec_field (k : fkind) : parser fv :=
  match k with
  | KStr => pmap FStr get_str
  | KInt => pmap FZ get_int
  | KUVar => pmap FN uvarint
  | KU8 => pmap FN get_u8
  | KEnum8 valid =>
      n <- get_u8 ;; if mem_N n valid then ret (FN n) else fail EInvalid
  | KEnumUV valid =>
      (* Go: x = T(v) truncates to a byte, then IsA...() *)
      n <- uvarint ;; let b := n mod 256 in
      if mem_N b valid then ret (FN b) else fail EInvalid
  | KI32 => pmap FZ get_i32
  | KI64 => pmap FZ get_i64
  | KBool => pmap FB get_bool
  | KBoolInt => pmap (fun z => FB (z =? 1)%Z) get_int
  | KSpan =>
      has <- get_bool ;;
      if has then
        t <- read_raw 16 ;; s <- read_raw 8 ;; st <- get_str ;; fl <- get_u8 ;;
        ret (FSpan (Some {| sp_trace := swap8 t ; sp_span := swap8 s ; sp_state := st ; sp_flags := fl |}))
      else ret (FSpan None)
  end.

Fixpoint decode_fields (v : N) (l : layout) : parser (list fv) :=
  match l with
  | [] => ret []
  | f :: l' =>
    x <- (if gate_in v (fgates f) then dec_field (fk f) else ret (default_of (fk f))) ;;
    xs <- decode_fields v l' ;;
    ret (x :: xs)
  end.

(* ---- well-formedness (boolean, so that examples can compute it) --------- *)
Definition u64b (n : N) : bool := n <? 2 ^ 64.
Definition str_okb (s : bytes) : bool := wf_bytesb s && (blen s <? 2 ^ 63).
Definition fv_typed (k : fkind) (x : fv) : bool :=
  match k, x with
  | KStr, FStr s => str_okb s
  | KInt, FZ z => in_i64b z
  | KUVar, FN n => u64b n
  | KU8, FN n => n <? 256
  | KEnum8 valid, FN n => mem_N n valid && (n <? 256)
  | KEnumUV valid, FN n => mem_N n valid && (n <? 256)
  | KI32, FZ z => in_i32b z
  | KI64, FZ z => in_i64b z
  | KBool, FB _ => true
  | KBoolInt, FB _ => true
  | KSpan, FSpan None => true
  | KSpan, FSpan (Some s) =>
      span_valid s && (length (sp_trace s) =? 16)%nat && (length (sp_span s) =? 8)%nat
      && wf_bytesb (sp_trace s) && wf_bytesb (sp_span s) && str_okb (sp_state s)
      && (sp_flags s <? 256)
  | _, _ => false
  end.

Fixpoint fields_typed (l : layout) (xs : list fv) : bool :=
  match l, xs with
  | [], [] => true
  | f :: l', x :: xs' => fv_typed (fk f) x && fields_typed l' xs'
  | _, _ => false
  end.

(* what survives a round trip at revision v: fields whose gate is closed are blank *)
Fixpoint project (v : N) (l : layout) (xs : list fv) : list fv :=
  match l, xs with
  | f :: l', x :: xs' =>
    (if gate_in v (fgates f) then x else default_of (fk f)) :: project v l' xs'
  | _, _ => []
  end.

(* ---- gate signature: what the translator re-reads from the Go source ---- *)
(* primitive names as small numbers, see translator/main.go *)
Definition prim_of (k : fkind) : N :=
  match k with
  | KStr => 1 | KInt => 2 | KUVar => 3 | KU8 => 4 | KEnum8 _ => 4 | KEnumUV _ => 3
  | KI32 => 5 | KI64 => 6 | KBool => 7 | KBoolInt => 2 | KSpan => 8
  end.
Definition gatesig (l : layout) : list (list N * N) :=
  map (fun f => (fgates f, prim_of (fk f))) l.
