(* Transcript interface for compressed frames (C05).

     wr <method> <level> x<payload> x<frame> (<lo> <hi>) <z>
         <frame> is what the implementation's Writer.Compress produced, (<lo> <hi>) is
         city.CH128 of frame[16:], <z> is what the real codec makes of frame[25:]
         (x<hex>, e for an error, - for method none).
         ->  ok x<frame as the model builds it>  |  err  |  bad-codec

     rd <path> x<stream> (<op> ...) <nerr> <maxops> (<h> ...) (<z> ...)
         <op>  (r n) = Read into a buffer of n bytes, (f n) = io.ReadFull of n bytes;
               the ops are applied cyclically until <nerr> errors were seen or <maxops> ops ran
         <h>   (off len lo hi)        city.CH128(stream[off:off+len]) = (lo, hi)
         <z>   (off len mb ds res)    the real codec for method byte mb applied to
                                      stream[off:off+len] with a ds-byte destination: x<hex> | e
         ->  ok <event> ...     events: (d x<bytes handed out, merged>) (e eof) = clean end of
                                        stream, (e corrupt alo ahi rlo rhi rawsize datasize), (e err) = any other error

   The hash and the codecs are oracles: the executable instance of the Section variables of
   model/Compress.v is a lookup in the tables of the case line (a missing entry gives the hash
   (0,0) / a codec error, which shows up as a mismatch, never as agreement). *)
From CH Require Import model.Sx model.Compress.
Open Scope N_scope.

Definition slice (s : bytes) (off len : N) : bytes := firstn (N.to_nat len) (skipn (N.to_nat off) s).

Definition htab := list (bytes * (N * N)).
Definition ztab := list (N * bytes * N * option bytes).

Definition H_of (t : htab) (b : bytes) : N * N :=
  match find (fun e => bytes_eqb (fst e) b) t with
  | Some e => snd e
  | None => (0, 0)
  end.

Definition decomp_of (t : ztab) (mb : N) (raw : bytes) (ds : N) : option bytes :=
  match find (fun e => match e with (m, r, d, _) => (m =? mb) && (d =? ds) && bytes_eqb r raw end) t with
  | Some (_, _, _, res) => res
  | None => None
  end.

Definition get_h (stream : bytes) (x : sx) : option (bytes * (N * N)) :=
  match x with
  | L [o; l; lo; hi] =>
    match get_an o, get_an l, get_an lo, get_an hi with
    | Some o, Some l, Some lo, Some hi => Some (slice stream o l, (lo, hi))
    | _, _, _, _ => None
    end
  | _ => None
  end.

Definition get_zres (x : sx) : option (option bytes) :=
  if is_sym x "e" then Some None
  else match get_ab x with Some b => Some (Some b) | None => None end.

Definition get_z (stream : bytes) (x : sx) : option (N * bytes * N * option bytes) :=
  match x with
  | L [o; l; mb; ds; r] =>
    match get_an o, get_an l, get_an mb, get_an ds, get_zres r with
    | Some o, Some l, Some mb, Some ds, Some r => Some (mb, slice stream o l, ds, r)
    | _, _, _, _, _ => None
    end
  | _ => None
  end.

(* ---- operations -------------------------------------------------------------- *)
Inductive op := ORead (n : N) | OFull (n : N).

Definition get_op (x : sx) : option op :=
  match x with
  | L [k; n] =>
    match get_an n with
    | Some n => if is_sym k "r" then Some (ORead n) else if is_sym k "f" then Some (OFull n) else None
    | None => None
    end
  | _ => None
  end.

Inductive gres := GData (b : bytes) | GErr (e : cerr) | GFuel.

Section Run.
Variable H : bytes -> N * N.
Variable decomp : N -> bytes -> N -> option bytes.

(* io.ReadFull(r, buf) = ReadAtLeast(r, buf, len(buf)):
     for n < min && err == nil { nn, err = r.Read(buf[n:]); n += nn }
   an error of Read is returned as it is (what was read before it is dropped by the caller) *)
Fixpoint read_full (fuel : nat) (need : N) (acc : list bytes) (s : crd) : gres * crd :=
  if need =? 0 then (GData (concat (rev acc)), s)
  else match fuel with
       | O => (GFuel, s)
       | S f =>
         match cr_read H decomp need s with
         | (ROk b, s1) => read_full f (need - blen b) (b :: acc) s1
         | (RErr e, s1) => (GErr e, s1)
         end
       end.

Definition do_op (o : op) (s : crd) : gres * crd :=
  match o with
  | ORead n => match cr_read H decomp n s with
               | (ROk b, s1) => (GData b, s1)
               | (RErr e, s1) => (GErr e, s1)
               end
  | OFull n => read_full (N.to_nat n + length (cr_under s) + 2) n [] s
  end.

(* events, newest first; data chunks newest first *)
Inductive ev := EData (chunks : list bytes) | EErr (e : cerr) | EFuel.

Definition push (r : gres) (acc : list ev) : list ev :=
  match r with
  | GData [] => acc
  | GData b => match acc with
               | EData cs :: acc' => EData (b :: cs) :: acc'
               | _ => EData [b] :: acc
               end
  | GErr e => EErr e :: acc
  | GFuel => EFuel :: acc
  end.

Fixpoint run_ops (fuel : nat) (cyc cur : list op) (nerr left : N) (s : crd) (acc : list ev) : list ev :=
  match fuel with
  | O => acc
  | S f =>
    if (nerr =? 0) || (left =? 0) then acc
    else match cur with
         | [] => match cyc with
                 | [] => acc
                 | _ => run_ops f cyc cyc nerr left s acc      (* wrap around *)
                 end
         | o :: cur' =>
           let '(r, s1) := do_op o s in
           let nerr' := match r with GData _ => nerr | _ => nerr - 1 end in
           run_ops f cyc cur' nerr' (left - 1) s1 (push r acc)
         end
  end.
End Run.

Definition pr_err (e : cerr) : sx :=
  match e with
  | CEHeader true | CEReadRaw true => L [asym "e"; asym "eof"]
  | CECorrupt a r rs ds =>
    L [asym "e"; asym "corrupt"; an (fst a); an (snd a); an (fst r); an (snd r); an rs; an ds]
  | _ => L [asym "e"; asym "err"]
  end.

Definition pr_ev (e : ev) : sx :=
  match e with
  | EData cs => L [asym "d"; ab (concat (rev cs))]
  | EErr e => pr_err e
  | EFuel => L [asym "e"; asym "fuel"]
  end.

Definition method_of (x : sx) (level : N) : option method :=
  if is_sym x "none" then Some MNone
  else if is_sym x "lz4" then Some MLZ4
  else if is_sym x "lz4hc" then Some (MLZ4HC level)
  else if is_sym x "zstd" then Some MZSTD
  else None.

Definition run_cmp (xs : list sx) : option (list sx) :=
  match xs with
  | [k; m; lvl; pl; fr; L [lo; hi]; z] =>
    if is_sym k "wr" then
      match get_an lvl, get_ab pl, get_ab fr, get_an lo, get_an hi with
      | Some lvl, Some pl, Some fr, Some lo, Some hi =>
        match method_of m lvl with
        | Some m =>
          let c := skipn headerSize fr in
          let H := H_of [(skipn hMethod fr, (lo, hi))] in
          let codec_ok := match m with
                          | MNone => true
                          | _ => match get_zres z with
                                 | Some (Some out) => bytes_eqb out pl
                                 | _ => false
                                 end
                          end in
          if codec_ok then
            match compress_frame H (fun _ _ => Some c) m pl with
            | inr f => Some [asym "ok"; ab f]
            | inl _ => Some [asym "err"]
            end
          else Some [asym "bad-codec"]
        | None => None
        end
      | _, _, _, _, _ => None
      end
    else None
  | [k; _path; st; L ops; nerr; maxops; L hs; L zs] =>
    if is_sym k "rd" then
      match get_ab st, map_opt get_op ops, get_an nerr, get_an maxops with
      | Some st, Some ops, Some nerr, Some maxops =>
        match map_opt (get_h st) hs, map_opt (get_z st) zs with
        | Some ht, Some zt =>
          let evs := run_ops (H_of ht) (decomp_of zt) (N.to_nat maxops + N.to_nat maxops + 2) ops ops nerr maxops (cr_init st) [] in
          Some (asym "ok" :: map pr_ev (rev evs))
        | _, _ => None
        end
      | _, _, _, _ => None
      end
    else None
  | _ => None
  end.

Definition run_line (line : bytes) : bytes :=
  match parse_line line with
  | Some xs => match run_cmp xs with Some out => pr_items out | None => bad_line end
  | None => bad_line
  end.
