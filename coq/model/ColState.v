(* C16: histories of operations on ONE reused column object.

   A column object is (ty, cdata): the type parameters it currently has (an Enum's definitions and a
   DateTime64's precision are replaced by Infer) and the contents of its Go struct (model/Columns.v).
   [cstep] is one call sequence on that object, written with the per-method functions of Columns.v:

     OAppend v        col.Append(v)                     OAppendArr l   col.AppendArr(l)
     OReset           col.Reset()                       OPrepare       col.Prepare()
     OEncode          Prepare(); EncodeColumn(buf)      OWrite         Prepare(); WriteColumn(w); w.Flush()
     OEncodeBlock     Block.EncodeRawBlock of the one column (the bytes after the column header)
     OInfer t'        col.Infer(type string of t')
     ODecode n bs st  what Results.DecodeResult does: Reset(); if n > 0 { DecodeState; DecodeColumn(n) }
                      [st] is the state the object is left in when the decode fails (any state: the
                      theorems quantify over it; the harness passes the state it observed)

   Reset is [empty t]: every slice truncated.  (ColLowCardinality.Reset leaves the unexported [key]
   as it was; it is never read before Prepare / DecodeColumn overwrite it, and the harness prints it as 0
   while the keys slice is empty.)
   Executable definitions only; proofs in proofs/ColStateProofs.v. *)
From CH Require Export model.Columns.
Open Scope N_scope.
Open Scope list_scope.

Inductive cop :=
| OAppend (v : val)
| OAppendArr (l : list val)
| OReset
| OPrepare
| OEncode
| OWrite
| OEncodeBlock
| OInfer (t' : ty)
| ODecode (n : N) (bs : bytes) (st : cdata).

Inductive cout :=
| ONone                   (* nothing returned *)
| OBytes (b : bytes)      (* bytes appended to the buffer / received by the sink *)
| OErr                    (* the Go call returned an error *)
| ODecoded (left : N)     (* decode succeeded; bytes left unread *)
| OCrash.                 (* the Go call panics *)

(* ---- the accessors' view: Rows() and Row(i) for every i below it -------------------------- *)
Definition nrows (t : ty) (d : cdata) : nat := N.to_nat (rows t d).
Definition abs (t : ty) (d : cdata) : option (list val) := mapM (row t d) (seq 0 (nrows t d)).

(* ---- what a failing Prepare leaves behind ---------------------------------------------------- *)
(* ColEnum.Prepare truncates the raw codes, then appends one per value until the first unknown name *)
Fixpoint enum_raw_prefix (w : nat) (defs : list (bytes * Z)) (vals : list bytes) : list N :=
  match vals with
  | [] => []
  | s :: vals' =>
    match enum_str_to_raw defs s with
    | Some z => wrapN (8 * N.of_nat w) z :: enum_raw_prefix w defs vals'
    | None => []
    end
  end.

Section PF.
  Variable pf : ty -> cdata -> cdata.
  (* ColTuple.Prepare: members in order, stops at the first error *)
  Fixpoint pf_seq (ts : list ty) (ds : list cdata) : list cdata :=
    match ts, ds with
    | t0 :: ts', d0 :: ds' =>
      match prepare t0 d0 with
      | Some d0' => d0' :: pf_seq ts' ds'
      | None => pf t0 d0 :: ds'
      end
    | _, _ => ds
    end.
End PF.

Fixpoint prep_fail (t : ty) (d : cdata) : cdata :=
  match t, d with
  | TEnum _ w defs, DEnum vals _ => DEnum vals (enum_raw_prefix w defs vals)
  | TArr t', DArr offs d' => DArr offs (prep_fail t' d')
  | TMap tk tv, DMap offs dk dv =>
    match prepare tk dk with
    | None => DMap offs (prep_fail tk dk) dv
    | Some dk' => DMap offs dk' (prep_fail tv dv)
    end
  | TTuple ts, DTuple ds => DTuple (pf_seq prep_fail ts ds)
  | TNamed _ t', _ => prep_fail t' d
  | _, _ => d
  end.

(* ---- Infer: the type parameters are replaced, the layout cannot change ------------------------- *)
Fixpoint same_shape (t t' : ty) : bool :=
  match t, t' with
  | TFix _ w, TFix _ w' => (w =? w')%nat
  | TBool, TBool | TUUID, TUUID | TStr, TStr | TJSON, TJSON | TNothing, TNothing | TPoint, TPoint => true
  | TFixedStr n, TFixedStr n' => (n =? n')%nat
  | TEnum _ w _, TEnum _ w' _ => (w =? w')%nat
  | TArr a, TArr a' | TNullable a, TNullable a' | TLowCard a, TLowCard a' => same_shape a a'
  | TMap k v, TMap k' v' => same_shape k k' && same_shape v v'
  | TTuple ts, TTuple ts' => all2b same_shape ts ts'
  | TNamed _ a, TNamed _ a' => same_shape a a'
  | _, _ => false
  end.

(* ---- one column of a block / of a result ------------------------------------------------------- *)
(* EncodeRawBlock after the column header: nothing for 0 rows, else state and column *)
Definition col_body (b : build) (t : ty) (d : cdata) : bytes :=
  if rows t d =? 0 then [] else enc_state t ++ enc b t d.
(* DecodeResult after Reset: nothing is read for 0 rows *)
Definition dec_col (b : build) (t : ty) (n : N) : parser cdata :=
  if n =? 0 then ret (empty t) else dec_state t ;;; dec b t n.

(* ---- one step ------------------------------------------------------------------------------------ *)
Definition cstep (b : build) (s : ty * cdata) (o : cop) : (ty * cdata) * cout :=
  let t := fst s in
  let d := snd s in
  match o with
  | OAppend v =>
    match append t d v with
    | Some d' => ((t, d'), ONone)
    | None => ((t, d), OCrash)
    end
  | OAppendArr l =>
    match append_all t d l with
    | Some d' => ((t, d'), ONone)
    | None => ((t, d), OCrash)
    end
  | OReset => ((t, empty t), ONone)
  | OPrepare =>
    match prepare t d with
    | Some d' => ((t, d'), ONone)
    | None => ((t, prep_fail t d), OErr)
    end
  | OEncode | OWrite =>
    match prepare t d with
    | Some d' => ((t, d'), OBytes (enc b t d'))
    | None => ((t, prep_fail t d), OErr)
    end
  | OEncodeBlock =>
    match prepare t d with
    | Some d' => ((t, d'), OBytes (col_body b t d'))
    | None => ((t, prep_fail t d), OErr)
    end
  | OInfer t' => if same_shape t t' then ((t', d), ONone) else ((t, d), OErr)
  | ODecode n bs st =>
    match dec_col b t n bs with
    | Ok d' rest => ((t, d'), ODecoded (blen rest))
    | Err _ => ((t, st), OErr)
    | Crash _ => ((t, st), OCrash)
    end
  end.

(* a history: every step's resulting state and output; a panic ends it *)
Fixpoint run (b : build) (s : ty * cdata) (ops : list cop) : list ((ty * cdata) * cout) :=
  match ops with
  | [] => []
  | o :: ops' =>
    let r := cstep b s o in
    r :: match snd r with
         | OCrash => []
         | _ => run b (fst r) ops'
         end
  end.

(* ---- the plain list-of-values model ---------------------------------------------------------------- *)
(* [None]: the contents are unspecified (after a failed decode or a failed Prepare, until the next
   Reset or successful decode) *)
Definition lstep (b : build) (t : ty) (l : option (list val)) (o : cop) (out : cout) : option (list val) :=
  match o with
  | OAppend v => option_map (fun x => x ++ [v]) l
  | OAppendArr vs => option_map (fun x => x ++ vs) l
  | OReset => Some []
  | OPrepare | OEncode | OWrite | OEncodeBlock =>
    match out with OErr => None | _ => l end
  | OInfer _ => l
  | ODecode n bs _ =>
    (* the rows a FRESH column holds after decoding the same bytes *)
    match dec_col b t n bs with
    | Ok d' _ => abs t d'
    | _ => None
    end
  end.

(* ---- side conditions -------------------------------------------------------------------------------- *)
(* a tuple has at least one member (ColTuple{} reports 0 rows whatever is appended) *)
Fixpoint tuples_ok (t : ty) : bool :=
  match t with
  | TTuple ts => match ts with [] => false | _ => forallb tuples_ok ts end
  | TArr t' | TNullable t' | TLowCard t' | TNamed _ t' => tuples_ok t'
  | TMap k v => tuples_ok k && tuples_ok v
  | _ => true
  end.
Definition c16_ty (t : ty) : bool := wf_ty t && tuples_ok t.
