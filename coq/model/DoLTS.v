(* L7: Client.Do (query.go) as a labelled transition system.

   Three goroutines started through errgroup (sender, receiver, cancel-watch), the goroutine that
   called Do (it waits for the group and then runs queryFailed), and the environment step "the
   caller's context ends".  One step per I/O or synchronisation point; errgroup's "record the first
   error and cancel the shared context AFTER the function has returned" is its own step.  A run is
   driven by an arbitrary list of scheduler choices [(who, alt)]: [alt] resolves the two places where
   the Go runtime itself chooses (a read that times out instead of waiting; a select with two ready
   cases).

   The model mirrors /repo as it is after the commits
     de4f5b3 (Cancel buffer), 899c6af (queryFailed: drop pending output, close unless exception;
     flush closes on a write failure), 4c3f9a3 (queryFailed: caller's context ended);
   the record [fixes] switches each of them off, which gives the code as it was found: the
   [..._refuted] theorems of props/C04.v and props/C10.v are stated about that configuration.

   Bytes are abstracted to tokens.  Outbound: every conn.Write is one token ([WChunk endp]: a chunk,
   [endp] = it ends at a packet boundary; [WPart]: a write that failed after a proper prefix;
   [WStray]: the stray zero byte of the as-found cancelQuery; [WCancel]: the Cancel packet).
   Pending output mirrors proto.Writer: chained slices + the uncut tail of the staging buffer.
   Inbound: the server script is a list of packets, each readable once the client has written
   [avail] chunks; a cut of the stream sits between two packets or inside one. *)
From Coq Require Export List Bool Arith Lia.
Export ListNotations.

(* ---------------------------------------------------------------- scenario *)

(* operations on the vectored writer *)
Inductive eop :=
| EB (endp : bool)     (* ChainBuffer: bytes appended to the staging buffer; endp: they end a packet *)
| EW (endp : bool).    (* ChainWrite of a caller-owned slice (cuts the staging buffer first) *)

(* result of an OnInput call *)
Inductive cbr := CbOk | CbEof | CbEofTail | CbErr.

(* the sender's straight-line program (control flow resolved by [compile] from the scenario) *)
Inductive sact :=
| AClosedCheck           (* sendQuery: if c.IsClosed() return ErrClosed *)
| AEnc (ops : list eop)  (* encode into the writer *)
| AGate                  (* a user-defined input column's WriteColumn / EncodeColumn is entered *)
| AEncFail (ops : list eop) (* encodeBlock fails half-way: what was encoded stays, the sender returns *)
| AFlush                 (* c.flush(ctx) *)
| AWaitInfo              (* select { <-ctx.Done() ; <-colInfo } *)
| ACtxCheck              (* sendInput loop: if ctx.Err() != nil return *)
| ACallback (r : cbr).   (* OnInput *)

(* server packets, as far as the receive loop distinguishes them *)
Inductive spkt :=
| PCont (cb : option bool) (* decoded and handled; Some ok = a user callback runs and returns nil (true) / an error *)
| PContX                   (* decoded and handled; the user callback fails with an error that WRAPS a *ch.Exception (say, of
                              a nested query on another connection): for the code as it is now just a failing callback *)
| PInfo                    (* the schema block of an INSERT: the wrapped OnResult hands it to the sender *)
| PEnd                     (* EndOfStream *)
| PExc                     (* Exception, decoded completely *)
| PBad.                    (* unknown code, unexpected packet, undecodable body *)

Record scen := {
  sc_insert : bool;                 (* colInfo channel in use *)
  sc_prog : list sact;
  sc_script : list (nat * spkt);    (* (avail, packet) *)
  sc_cut : option (nat * bool);     (* stream ends after k packets; true = inside packet k *)
  sc_wfault : option (nat * bool);  (* the k-th data Write (0-based) fails; true = after a proper prefix *)
  sc_cancel_wfault : bool;          (* the Write of the one-byte Cancel packet fails (nothing is written: a one-byte
                                       packet has no proper prefix but the empty one) *)
  sc_close_err : bool;              (* conn.Close closes and reports an error (crypto/tls when close_notify cannot be
                                       sent): an environment choice NO step reads *)
}.

Record fixes := {
  fx_cancelbuf : bool;   (* de4f5b3 *)
  fx_failed : bool;      (* 899c6af: queryFailed + close on write failure *)
  fx_ctx : bool;         (* 4c3f9a3 *)
  fx_exc_only_from_packet : bool;  (* 8cdbcdc: gotException only for an Exception PACKET of the query itself; before it,
                                      for any error out of handlePacket that wraps a *ch.Exception *)
}.
Definition all_fixed := {| fx_cancelbuf := true; fx_failed := true; fx_ctx := true; fx_exc_only_from_packet := true |}.
Definition as_found := {| fx_cancelbuf := false; fx_failed := false; fx_ctx := false; fx_exc_only_from_packet := false |}.
(* the code with every repair but 8cdbcdc *)
Definition before_8cdbcdc := {| fx_cancelbuf := true; fx_failed := true; fx_ctx := true; fx_exc_only_from_packet := false |}.

(* ---------------------------------------------------------------- state *)

Inductive wtok := WChunk (endp : bool) | WPart | WStray | WCancel.

(* classes of errors a goroutine returns *)
Inductive errk := KCtx | KExc | KIO | KClosed | KOther.
Definition result := option errk.    (* None = nil *)

Inductive smode :=
| SRun | SWriting | SAtGate | SAtCb (r : cbr) | SRet (e : result) | SDone.
Inductive rmode :=
| RTop | RRead | RAtCb (ok : bool) | RSendInfo
| RExit1 (e : result)    (* deferred close(colInfo) *)
| RExit2 (e : result)    (* deferred close(done) *)
| RHook (e : result)     (* vhook "do.recv.return": function about to return *)
| RRet (e : result)      (* errgroup: record + cancel *)
| RDone.
Inductive wmode :=
| WWait                  (* <-done *)
| WWake                  (* vhook "do.watch.wake": about to read ctx.Err() and gotException *)
| WCancelHook | WWrite | WClose
| WSkipHook
| WRet (e : result) | WDone.
Inductive mmode :=
| MWait                  (* g.Wait() *)
| MCancelWrite | MClose  (* queryFailed -> cancelQuery *)
| MDone.

Record st := {
  pcancel : bool;       (* the caller's context has ended *)
  cancelled : bool;     (* the group's context is done *)
  closed : bool;        (* Client.closed (and the connection) *)
  nclose : nat;         (* conn.Close calls *)
  done : bool;
  gotexc : bool;
  ci_item : bool; ci_closed : bool;      (* colInfo: buffered item / closed *)
  pvec : list bool;     (* Writer.vec: chunks chained and not written *)
  ptail : option bool;  (* uncut tail of the staging buffer *)
  wire : list wtok;     (* everything written, oldest first *)
  nw : nat;             (* data chunks written completely *)
  nwcalls : nat;        (* data Write calls that reached the connection *)
  pos : nat;            (* server packets consumed *)
  inb_ok : bool;        (* inbound at a packet boundary *)
  ended : bool;         (* the server ended the query: EndOfStream or Exception consumed *)
  cbs : nat;            (* user callbacks entered *)
  err1 : result;        (* errgroup: first error *)
  ret : list errk;      (* what Do returns, as the classes its error matches *)
  sprog : list sact; smd : smode;
  rmd : rmode;
  wmd : wmode;
  mmd : mmode;
  (* ghost *)
  dac : nat;                     (* data Write calls that reached the connection after the caller's context ended *)
  inflight : list bool;          (* chunks of the flush that was in progress at that instant *)
  rac : nat;                     (* reads started by the receiver after the group context was done *)
}.

Definition st_set_s (s : st) (p : list sact) (m : smode) : st :=
  {| pcancel := pcancel s; cancelled := cancelled s; closed := closed s; nclose := nclose s; done := done s;
     gotexc := gotexc s; ci_item := ci_item s; ci_closed := ci_closed s; pvec := pvec s; ptail := ptail s;
     wire := wire s; nw := nw s; nwcalls := nwcalls s; pos := pos s; inb_ok := inb_ok s; ended := ended s; cbs := cbs s;
     err1 := err1 s; ret := ret s; sprog := p; smd := m; rmd := rmd s; wmd := wmd s; mmd := mmd s;
     dac := dac s; inflight := inflight s; rac := rac s |}.
Definition st_set_r (s : st) (m : rmode) : st :=
  {| pcancel := pcancel s; cancelled := cancelled s; closed := closed s; nclose := nclose s; done := done s;
     gotexc := gotexc s; ci_item := ci_item s; ci_closed := ci_closed s; pvec := pvec s; ptail := ptail s;
     wire := wire s; nw := nw s; nwcalls := nwcalls s; pos := pos s; inb_ok := inb_ok s; ended := ended s; cbs := cbs s;
     err1 := err1 s; ret := ret s; sprog := sprog s; smd := smd s; rmd := m; wmd := wmd s; mmd := mmd s;
     dac := dac s; inflight := inflight s; rac := rac s |}.
Definition st_set_w (s : st) (m : wmode) : st :=
  {| pcancel := pcancel s; cancelled := cancelled s; closed := closed s; nclose := nclose s; done := done s;
     gotexc := gotexc s; ci_item := ci_item s; ci_closed := ci_closed s; pvec := pvec s; ptail := ptail s;
     wire := wire s; nw := nw s; nwcalls := nwcalls s; pos := pos s; inb_ok := inb_ok s; ended := ended s; cbs := cbs s;
     err1 := err1 s; ret := ret s; sprog := sprog s; smd := smd s; rmd := rmd s; wmd := m; mmd := mmd s;
     dac := dac s; inflight := inflight s; rac := rac s |}.
Definition st_set_m (s : st) (m : mmode) : st :=
  {| pcancel := pcancel s; cancelled := cancelled s; closed := closed s; nclose := nclose s; done := done s;
     gotexc := gotexc s; ci_item := ci_item s; ci_closed := ci_closed s; pvec := pvec s; ptail := ptail s;
     wire := wire s; nw := nw s; nwcalls := nwcalls s; pos := pos s; inb_ok := inb_ok s; ended := ended s; cbs := cbs s;
     err1 := err1 s; ret := ret s; sprog := sprog s; smd := smd s; rmd := rmd s; wmd := wmd s; mmd := m;
     dac := dac s; inflight := inflight s; rac := rac s |}.
Definition st_set_pend (s : st) (v : list bool) (t : option bool) : st :=
  {| pcancel := pcancel s; cancelled := cancelled s; closed := closed s; nclose := nclose s; done := done s;
     gotexc := gotexc s; ci_item := ci_item s; ci_closed := ci_closed s; pvec := v; ptail := t;
     wire := wire s; nw := nw s; nwcalls := nwcalls s; pos := pos s; inb_ok := inb_ok s; ended := ended s; cbs := cbs s;
     err1 := err1 s; ret := ret s; sprog := sprog s; smd := smd s; rmd := rmd s; wmd := wmd s; mmd := mmd s;
     dac := dac s; inflight := inflight s; rac := rac s |}.
(* one data Write call: [tok] is appended unless None; [full] = the chunk was written completely *)
Definition st_write (s : st) (tok : option wtok) (full : bool) : st :=
  {| pcancel := pcancel s; cancelled := cancelled s; closed := closed s; nclose := nclose s; done := done s;
     gotexc := gotexc s; ci_item := ci_item s; ci_closed := ci_closed s; pvec := pvec s; ptail := ptail s;
     wire := wire s ++ match tok with Some t => [t] | None => [] end;
     nw := if full then S (nw s) else nw s; nwcalls := S (nwcalls s);
     pos := pos s; inb_ok := inb_ok s; ended := ended s; cbs := cbs s;
     err1 := err1 s; ret := ret s; sprog := sprog s; smd := smd s; rmd := rmd s; wmd := wmd s; mmd := mmd s;
     dac := if pcancel s then S (dac s) else dac s; inflight := inflight s; rac := rac s |}.
Definition st_emit (s : st) (toks : list wtok) : st :=
  {| pcancel := pcancel s; cancelled := cancelled s; closed := closed s; nclose := nclose s; done := done s;
     gotexc := gotexc s; ci_item := ci_item s; ci_closed := ci_closed s; pvec := pvec s; ptail := ptail s;
     wire := wire s ++ toks; nw := nw s; nwcalls := nwcalls s;
     pos := pos s; inb_ok := inb_ok s; ended := ended s; cbs := cbs s;
     err1 := err1 s; ret := ret s; sprog := sprog s; smd := smd s; rmd := rmd s; wmd := wmd s; mmd := mmd s;
     dac := dac s; inflight := inflight s; rac := rac s |}.
(* Client.Close: idempotent on the flag, conn.Close only the first time *)
Definition st_close (s : st) : st :=
  {| pcancel := pcancel s; cancelled := cancelled s; closed := true;
     nclose := if closed s then nclose s else S (nclose s); done := done s;
     gotexc := gotexc s; ci_item := ci_item s; ci_closed := ci_closed s; pvec := pvec s; ptail := ptail s;
     wire := wire s; nw := nw s; nwcalls := nwcalls s; pos := pos s; inb_ok := inb_ok s; ended := ended s; cbs := cbs s;
     err1 := err1 s; ret := ret s; sprog := sprog s; smd := smd s; rmd := rmd s; wmd := wmd s; mmd := mmd s;
     dac := dac s; inflight := inflight s; rac := rac s |}.
(* errgroup after a function returned [e]: the first error is kept and cancels the context *)
Definition st_record (s : st) (e : result) : st :=
  match e with
  | None => s
  | Some k =>
  {| pcancel := pcancel s; cancelled := true; closed := closed s; nclose := nclose s; done := done s;
     gotexc := gotexc s; ci_item := ci_item s; ci_closed := ci_closed s; pvec := pvec s; ptail := ptail s;
     wire := wire s; nw := nw s; nwcalls := nwcalls s; pos := pos s; inb_ok := inb_ok s; ended := ended s; cbs := cbs s;
     err1 := match err1 s with None => Some k | x => x end; ret := ret s;
     sprog := sprog s; smd := smd s; rmd := rmd s; wmd := wmd s; mmd := mmd s;
     dac := dac s; inflight := inflight s; rac := rac s |}
  end.
(* receiver-side shared fields *)
Definition st_recv (s : st) (npos : nat) (ok : bool) (exc : bool) (en : bool) (cb : bool) : st :=
  {| pcancel := pcancel s; cancelled := cancelled s; closed := closed s; nclose := nclose s; done := done s;
     gotexc := gotexc s || exc; ci_item := ci_item s; ci_closed := ci_closed s; pvec := pvec s; ptail := ptail s;
     wire := wire s; nw := nw s; nwcalls := nwcalls s; pos := npos; inb_ok := inb_ok s && ok; ended := ended s || en;
     cbs := if cb then S (cbs s) else cbs s;
     err1 := err1 s; ret := ret s; sprog := sprog s; smd := smd s; rmd := rmd s; wmd := wmd s; mmd := mmd s;
     dac := dac s; inflight := inflight s; rac := rac s |}.
Definition st_chan (s : st) (d : bool) (item : bool) (cl : bool) : st :=
  {| pcancel := pcancel s; cancelled := cancelled s; closed := closed s; nclose := nclose s; done := d;
     gotexc := gotexc s; ci_item := item; ci_closed := cl; pvec := pvec s; ptail := ptail s;
     wire := wire s; nw := nw s; nwcalls := nwcalls s; pos := pos s; inb_ok := inb_ok s; ended := ended s; cbs := cbs s;
     err1 := err1 s; ret := ret s; sprog := sprog s; smd := smd s; rmd := rmd s; wmd := wmd s; mmd := mmd s;
     dac := dac s; inflight := inflight s; rac := rac s |}.
Definition st_cbs (s : st) : st :=
  {| pcancel := pcancel s; cancelled := cancelled s; closed := closed s; nclose := nclose s; done := done s;
     gotexc := gotexc s; ci_item := ci_item s; ci_closed := ci_closed s; pvec := pvec s; ptail := ptail s;
     wire := wire s; nw := nw s; nwcalls := nwcalls s; pos := pos s; inb_ok := inb_ok s; ended := ended s; cbs := S (cbs s);
     err1 := err1 s; ret := ret s; sprog := sprog s; smd := smd s; rmd := rmd s; wmd := wmd s; mmd := mmd s;
     dac := dac s; inflight := inflight s; rac := rac s |}.
Definition st_rac (s : st) : st :=
  {| pcancel := pcancel s; cancelled := cancelled s; closed := closed s; nclose := nclose s; done := done s;
     gotexc := gotexc s; ci_item := ci_item s; ci_closed := ci_closed s; pvec := pvec s; ptail := ptail s;
     wire := wire s; nw := nw s; nwcalls := nwcalls s; pos := pos s; inb_ok := inb_ok s; ended := ended s; cbs := cbs s;
     err1 := err1 s; ret := ret s; sprog := sprog s; smd := smd s; rmd := rmd s; wmd := wmd s; mmd := mmd s;
     dac := dac s; inflight := inflight s; rac := if cancelled s then S (rac s) else rac s |}.
Definition st_ret (s : st) (r : list errk) : st :=
  {| pcancel := pcancel s; cancelled := cancelled s; closed := closed s; nclose := nclose s; done := done s;
     gotexc := gotexc s; ci_item := ci_item s; ci_closed := ci_closed s; pvec := pvec s; ptail := ptail s;
     wire := wire s; nw := nw s; nwcalls := nwcalls s; pos := pos s; inb_ok := inb_ok s; ended := ended s; cbs := cbs s;
     err1 := err1 s; ret := r; sprog := sprog s; smd := smd s; rmd := rmd s; wmd := wmd s; mmd := mmd s;
     dac := dac s; inflight := inflight s; rac := rac s |}.
Definition st_env (s : st) : st :=
  {| pcancel := true; cancelled := true; closed := closed s; nclose := nclose s; done := done s;
     gotexc := gotexc s; ci_item := ci_item s; ci_closed := ci_closed s; pvec := pvec s; ptail := ptail s;
     wire := wire s; nw := nw s; nwcalls := nwcalls s; pos := pos s; inb_ok := inb_ok s; ended := ended s; cbs := cbs s;
     err1 := err1 s; ret := ret s; sprog := sprog s; smd := smd s; rmd := rmd s; wmd := wmd s; mmd := mmd s;
     dac := 0;
     inflight := match smd s with SWriting => pvec s | _ => [] end; rac := rac s |}.

Definition init (sc : scen) : st :=
  {| pcancel := false; cancelled := false; closed := false; nclose := 0; done := false; gotexc := false;
     ci_item := false; ci_closed := false; pvec := []; ptail := None; wire := []; nw := 0; nwcalls := 0; pos := 0;
     inb_ok := true; ended := false; cbs := 0; err1 := None; ret := [];
     sprog := sc_prog sc; smd := SRun; rmd := RTop; wmd := WWait; mmd := MWait;
     dac := 0; inflight := []; rac := 0 |}.

(* ---------------------------------------------------------------- the writer *)

Definition cut (v : list bool) (t : option bool) : list bool :=
  match t with Some b => v ++ [b] | None => v end.

Fixpoint enc (ops : list eop) (v : list bool) (t : option bool) : list bool * option bool :=
  match ops with
  | [] => (v, t)
  | EB b :: r => enc r v (Some b)
  | EW b :: r => enc r (cut v t ++ [b]) None
  end.

Definition pend_chunks (s : st) : list bool := cut (pvec s) (ptail s).

(* ---------------------------------------------------------------- steps *)

Inductive who := GS | GR | GW | GM | GEnv.

Definition kctx : result := Some KCtx.

(* sender *)
Definition step_s (fx : fixes) (sc : scen) (alt : bool) (s : st) : st :=
  match smd s with
  | SRun =>
    match sprog s with
    | [] => st_set_s s [] (SRet None)
    | AClosedCheck :: p => if closed s then st_set_s s p (SRet (Some KClosed)) else st_set_s s p SRun
    | AEnc ops :: p => let '(v, t) := enc ops (pvec s) (ptail s) in st_set_s (st_set_pend s v t) p SRun
    | AGate :: p => st_set_s s p SAtGate
    | AEncFail ops :: p => let '(v, t) := enc ops (pvec s) (ptail s) in st_set_s (st_set_pend s v t) p (SRet (Some KOther))
    | AFlush :: p =>
      if cancelled s then st_set_s s p (SRet kctx)
      else match pend_chunks s with
           | [] => st_set_s (st_set_pend s [] None) p SRun
           | c => st_set_s (st_set_pend s c None) p SWriting
           end
    | AWaitInfo :: p =>
      let ready := ci_item s || ci_closed s in
      if ready && cancelled s then
        (if alt then st_set_s s p (SRet kctx) else st_set_s (st_chan s (done s) false (ci_closed s)) p SRun)
      else if ready then st_set_s (st_chan s (done s) false (ci_closed s)) p SRun
      else if cancelled s then st_set_s s p (SRet kctx)
      else s                                      (* blocked *)
    | ACtxCheck :: p => if cancelled s then st_set_s s p (SRet kctx) else st_set_s s p SRun
    | ACallback r :: p => st_set_s (st_cbs s) p (SAtCb r)
    end
  | SWriting =>
    match pvec s with
    | [] => st_set_s s (sprog s) SRun
    | c :: rest =>
      if closed s then
        (* write on a closed connection: nothing is written, Flush resets the writer *)
        st_set_s (st_set_pend s [] None) (sprog s) (SRet (Some KIO))
      else
        match sc_wfault sc with
        | Some (k, partial) =>
          if Nat.eqb k (nwcalls s) then
            let s1 := st_write s (if partial then Some WPart else None) false in
            let s2 := st_set_pend s1 [] None in
            let s3 := if fx_failed fx then st_close s2 else s2 in
            st_set_s s3 (sprog s) (SRet (Some KIO))
          else
            let s1 := st_set_pend (st_write s (Some (WChunk c)) true) rest None in
            match rest with [] => st_set_s s1 (sprog s) SRun | _ => s1 end
        | None =>
          let s1 := st_set_pend (st_write s (Some (WChunk c)) true) rest None in
          match rest with [] => st_set_s s1 (sprog s) SRun | _ => s1 end
        end
    end
  | SAtGate => st_set_s s (sprog s) SRun
  | SAtCb r =>
    match r with
    | CbErr => st_set_s s (sprog s) (SRet (Some KOther))
    | _ => st_set_s s (sprog s) SRun
    end
  | SRet e => st_set_s (st_record s e) (sprog s) SDone
  | SDone => s
  end.

(* what the next Read returns *)
Inductive rdres := RdClosed | RdEof (inside : bool) | RdPkt (p : spkt) | RdBlock.
Definition next_read (sc : scen) (s : st) : rdres :=
  if closed s then RdClosed
  else match sc_cut sc with
       | Some (k, inside) =>
         if Nat.eqb k (pos s) then RdEof (inside && Nat.ltb (pos s) (length (sc_script sc)))
         else match nth_error (sc_script sc) (pos s) with
              | Some (a, p) => if Nat.leb a (nw s) then RdPkt p else RdBlock
              | None => RdBlock
              end
       | None =>
         match nth_error (sc_script sc) (pos s) with
         | Some (a, p) => if Nat.leb a (nw s) then RdPkt p else RdBlock
         | None => RdBlock
         end
       end.

Definition step_r (fx : fixes) (sc : scen) (alt : bool) (s : st) : st :=
  match rmd s with
  | RTop => if cancelled s then st_set_r s (RExit1 kctx) else st_set_r s RRead
  | RRead =>
    match next_read sc s with
    | RdClosed => st_set_r (st_rac s) (RExit1 (Some KIO))
    | RdEof inside => st_set_r (st_recv (st_rac s) (pos s) (negb inside) false false false) (RExit1 (Some KIO))
    | RdPkt p =>
      if alt then st_set_r (st_rac s) RTop            (* the deadline fires first *)
      else
      let s := st_rac s in
      match p with
      | PCont None => st_set_r (st_recv s (S (pos s)) true false false false) RTop
      | PCont (Some ok) => st_set_r (st_recv s (S (pos s)) true false false true) (RAtCb ok)
      | PContX =>
        (* the receiver classifies the callback's error when handlePacket returns; nobody reads gotException before the
           receiver has left (the watcher waits for done, Do for the group), so the flag is set here, with the packet *)
        st_set_r (st_recv s (S (pos s)) true (negb (fx_exc_only_from_packet fx)) false true) (RAtCb false)
      | PInfo => st_set_r (st_recv s (S (pos s)) true false false false) RSendInfo
      | PEnd => st_set_r (st_recv s (S (pos s)) true false true false) (RExit1 None)
      | PExc => st_set_r (st_recv s (S (pos s)) true true true false) (RExit1 (Some KExc))
      | PBad => st_set_r (st_recv s (S (pos s)) false false false false) (RExit1 (Some KOther))
      end
    | RdBlock => if alt then st_set_r (st_rac s) RTop else s   (* waits; with alt the deadline fires *)
    end
  | RAtCb ok => if ok then st_set_r s RTop else st_set_r s (RExit1 (Some KOther))
  | RSendInfo =>
    if negb (ci_item s) && cancelled s then
      (if alt then st_set_r s (RExit1 kctx) else st_set_r (st_chan s (done s) true (ci_closed s)) RTop)
    else if negb (ci_item s) then st_set_r (st_chan s (done s) true (ci_closed s)) RTop
    else if cancelled s then st_set_r s (RExit1 kctx)
    else s
  | RExit1 e => st_set_r (if sc_insert sc then st_chan s (done s) (ci_item s) true else s) (RExit2 e)
  | RExit2 e => st_set_r (st_chan s true (ci_item s) (ci_closed s)) (RHook e)
  | RHook e => st_set_r s (RRet e)
  | RRet e => st_set_r (st_record s e) RDone
  | RDone => s
  end.

Definition cancel_toks (fx : fixes) : list wtok := if fx_cancelbuf fx then [WCancel] else [WStray; WCancel].

(* what the Write of the Cancel packet leaves on the wire *)
Definition cancel_emit (fx : fixes) (sc : scen) : list wtok := if sc_cancel_wfault sc then [] else cancel_toks fx.

Definition step_w (fx : fixes) (sc : scen) (s : st) : st :=
  match wmd s with
  | WWait => if done s then st_set_w s WWake else s
  | WWake => if cancelled s && negb (gotexc s) then st_set_w s WCancelHook else st_set_w s WSkipHook
  | WCancelHook => st_set_w s WWrite
  | WWrite => st_set_w (if closed s then s else st_emit s (cancel_emit fx sc)) WClose
  | WClose => st_set_w (st_close s) (WRet kctx)
  | WSkipHook => st_set_w s (WRet None)
  | WRet e => st_set_w (st_record s e) WDone
  | WDone => s
  end.

Definition all_done (s : st) : bool :=
  match smd s, rmd s, wmd s with SDone, RDone, WDone => true | _, _, _ => false end.

Definition add_ctx (l : list errk) : list errk := if existsb (fun k => match k with KCtx => true | _ => false end) l then l else l ++ [KCtx].

Definition step_m (fx : fixes) (sc : scen) (s : st) : st :=
  match mmd s with
  | MWait =>
    if all_done s then
      match err1 s with
      | None => st_set_m s MDone
      | Some e =>
        if fx_failed fx then
          let s := st_ret (st_set_pend s [] None) [e] in
          if fx_ctx fx && pcancel s then
            (if closed s then st_set_m (st_ret s (add_ctx [e])) MDone else st_set_m (st_ret s (add_ctx [e])) MCancelWrite)
          else if gotexc s then st_set_m s MDone
          else st_set_m (st_close s) MDone
        else st_set_m (st_ret s [e]) MDone
      end
    else s
  | MCancelWrite => st_set_m (if closed s then s else st_emit s (cancel_emit fx sc)) MClose
  | MClose => st_set_m (st_close s) MDone
  | MDone => s
  end.

Definition step_env (s : st) : st :=
  match mmd s with
  | MDone => s
  | _ => if pcancel s then s else st_env s
  end.

Definition step (fx : fixes) (sc : scen) (g : who) (alt : bool) (s : st) : st :=
  match g with
  | GS => step_s fx sc alt s
  | GR => step_r fx sc alt s
  | GW => step_w fx sc s
  | GM => step_m fx sc s
  | GEnv => step_env s
  end.

Fixpoint run (fx : fixes) (sc : scen) (sched : list (who * bool)) (s : st) : st :=
  match sched with
  | [] => s
  | (g, alt) :: r => run fx sc r (step fx sc g alt s)
  end.

(* ---------------------------------------------------------------- observations and the property *)

(* outbound boundary: after the last data token; Cancel is a packet of its own *)
Fixpoint out_boundary_from (b : bool) (w : list wtok) : bool :=
  match w with
  | [] => b
  | WChunk e :: r => out_boundary_from e r
  | WPart :: r => out_boundary_from false r
  | WStray :: r => out_boundary_from false r
  | WCancel :: r => out_boundary_from b r
  end.
Definition out_boundary (w : list wtok) : bool := out_boundary_from true w.

Definition terminal (s : st) : bool := match mmd s with MDone => true | _ => false end.
Definition failed (s : st) : bool := match err1 s with Some _ => true | None => false end.

(* the client after Do: closed, or usable with both directions at a packet boundary: nothing encoded is
   waiting to be sent, the receiver stopped exactly after a packet and that packet ended the query on
   the server's side (so the next bytes read belong to the next request), and what was written ends a packet *)
Definition clean (s : st) : Prop :=
  pend_chunks s = [] /\ inb_ok s = true /\ ended s = true /\ out_boundary (wire s) = true.
Definition safe (s : st) : Prop := closed s = true \/ clean s.

(* the next request (Ping): what is written before anything is read *)
Inductive req_res := ReqRejected | ReqWrote (toks : list wtok).
Definition next_request (s : st) : req_res * st :=
  if closed s then (ReqRejected, s)
  else let '(v, t) := enc [EB true] (pvec s) (ptail s) in
       let c := cut v t in
       (ReqWrote (map WChunk c), st_emit (st_set_pend s [] None) (map WChunk c)).
(* Do itself on a client in state s *)
Definition do_entry_rejects (s : st) : bool := closed s.

Definition count_cancel (w : list wtok) : nat :=
  length (filter (fun t => match t with WCancel => true | _ => false end) w).
Definition data_toks (w : list wtok) : list wtok :=
  filter (fun t => match t with WCancel => false | _ => true end) w.

(* ---------------------------------------------------------------- scenarios of the real client *)

(* encodeBlock (query.go): code + table name, then WriteBlock (uncompressed: header into the staging
   buffer, every column with rows through WriteColumn = ChainWrite) or EncodeBlock + compression into
   the staging buffer.  One input column; [gate] = that column is a gate column. *)
Definition enc_block (comp gate : bool) (rows : nat) : list sact :=
  match rows with
  | O => [AEnc [EB true]]
  | _ => if comp then (if gate then [AEnc [EB false]; AGate; AEnc [EB true]] else [AEnc [EB true]])
         else (if gate then [AEnc [EB false]; AGate; AEnc [EW true]] else [AEnc [EB false; EW true]])
  end.
Definition enc_blank : list sact := [AEnc [EB true]].

(* sendInput's loop over the OnInput results *)
Fixpoint send_loop (comp gate : bool) (rounds : list cbr) : list sact :=
  [ACtxCheck] ++ enc_block comp gate 1 ++ [AFlush] ++
  match rounds with
  | [] => [ACallback CbEof]
  | CbOk :: r => ACallback CbOk :: send_loop comp gate r
  | CbEofTail :: _ => [ACallback CbEofTail; ACtxCheck] ++ enc_block comp gate 1
  | CbEof :: _ => [ACallback CbEof]
  | CbErr :: _ => [ACallback CbErr]
  end.

(* QSelX: a SELECT whose external data cannot be encoded: sendQuery itself fails, after the Query packet and the
   head of the external-data block were encoded into the writer and before anything is flushed *)
Inductive qkind := QSel | QIns | QStr | QSelX.

Definition compile (k : qkind) (comp gate : bool) (rows0 : nat) (rounds : list cbr) : list sact :=
  let head := [AClosedCheck; AEnc [EB true; EB true]; AFlush] in
  match k with
  | QSel => head ++ [AFlush]
  | QSelX => if gate then [AClosedCheck; AEnc [EB true; EB false]; AGate; AEncFail []]   (* the failing Prepare of the column is a gate *)
             else [AClosedCheck; AEncFail [EB true; EB false]]
  | QIns => head ++ [AWaitInfo; ACtxCheck] ++ enc_block comp gate rows0 ++ enc_blank ++ [AFlush]
  | QStr =>
    head ++ [AWaitInfo] ++
    match rows0, rounds with
    | O, CbOk :: r => ACallback CbOk :: send_loop comp gate r ++ enc_blank
    | O, CbErr :: _ => [ACallback CbErr]
    | O, CbEofTail :: _ => [ACallback CbEofTail; ACtxCheck] ++ enc_block comp gate 1 ++ enc_blank  (* rows along with io.EOF: the only block *)
    | O, c :: _ => ACallback c :: enc_blank        (* initial input was blank *)
    | O, [] => ACallback CbEof :: enc_blank
    | _, r => send_loop comp gate r ++ enc_blank
    end ++ [AFlush]
  end.

(* the sender's program keeps the writer whole (empty or ending at a packet boundary) at every flush and at its end *)
Definition ops_whole (w : bool) (ops : list eop) : bool :=
  match rev ops with
  | [] => w
  | EB b :: _ => b
  | EW b :: _ => b
  end.
Fixpoint wf_prog (w : bool) (p : list sact) : bool :=
  match p with
  | [] => true
  | AEnc ops :: r => wf_prog (ops_whole w ops) r
  | AEncFail ops :: r => true
  | AFlush :: r => w && wf_prog true r
  | _ :: r => wf_prog w r
  end.

(* ---------------------------------------------------------------- the handshake (handshake.go)

   Two goroutines in an errgroup over the caller's context: the watchdog (closes the connection when
   the caller's context ends, returns when the handshake is done) and the hello exchange (flush hello,
   read the server's answer, flush the addendum on new enough revisions).  handshake() waits for both and
   then, after commit [fx_hs], closes the connection and reports the context's error whenever the
   caller's context has ended, whatever the two goroutines returned. *)

Inductive hreply := HrHello | HrExc | HrBad | HrEof.

Inductive hmode := H1Check | H1Write | HRead | H2Check | H2Write | HRet (e : result) | HRec (e : result) | HDone.
Inductive dmode := DWait | DClose | DRet | DDone.
Inductive kmode := KWait | KCheck | KDone.

Record hst := {
  h_pc : bool;       (* caller's context ended *)
  h_gc : bool;       (* group context done *)
  h_hdone : bool;    (* handshakeCtx cancelled: the hello goroutine returned *)
  h_closed : bool; h_ncl : nat;
  h_err1 : result;
  h_ret : list errk; (* classes matched by the error handshake() returns; [] with h_ok = true: nil *)
  h_ok : bool;
  hmd : hmode; dmd : dmode; kmd : kmode
}.

Definition hinit : hst :=
  {| h_pc := false; h_gc := false; h_hdone := false; h_closed := false; h_ncl := 0; h_err1 := None; h_ret := []; h_ok := false;
     hmd := H1Check; dmd := DWait; kmd := KWait |}.

Definition hset_h (s : hst) (m : hmode) : hst :=
  {| h_pc := h_pc s; h_gc := h_gc s; h_hdone := h_hdone s; h_closed := h_closed s; h_ncl := h_ncl s; h_err1 := h_err1 s;
     h_ret := h_ret s; h_ok := h_ok s; hmd := m; dmd := dmd s; kmd := kmd s |}.
Definition hset_d (s : hst) (m : dmode) : hst :=
  {| h_pc := h_pc s; h_gc := h_gc s; h_hdone := h_hdone s; h_closed := h_closed s; h_ncl := h_ncl s; h_err1 := h_err1 s;
     h_ret := h_ret s; h_ok := h_ok s; hmd := hmd s; dmd := m; kmd := kmd s |}.
Definition hrecord (s : hst) (e : result) : hst :=
  match e with
  | None => s
  | Some k =>
    {| h_pc := h_pc s; h_gc := true; h_hdone := h_hdone s; h_closed := h_closed s; h_ncl := h_ncl s;
       h_err1 := match h_err1 s with None => Some k | x => x end;
       h_ret := h_ret s; h_ok := h_ok s; hmd := hmd s; dmd := dmd s; kmd := kmd s |}
  end.
Definition hclose (s : hst) : hst :=
  {| h_pc := h_pc s; h_gc := h_gc s; h_hdone := h_hdone s; h_closed := true; h_ncl := S (h_ncl s); h_err1 := h_err1 s;
     h_ret := h_ret s; h_ok := h_ok s; hmd := hmd s; dmd := dmd s; kmd := kmd s |}.
Definition hfinish (s : hst) (r : list errk) (ok : bool) : hst :=
  {| h_pc := h_pc s; h_gc := h_gc s; h_hdone := h_hdone s; h_closed := h_closed s; h_ncl := h_ncl s; h_err1 := h_err1 s;
     h_ret := r; h_ok := ok; hmd := hmd s; dmd := dmd s; kmd := KDone |}.

Inductive hwho := HH | HD | HK | HEnv.

(* [st1] / [st2]: an environment choice - the first (hello) / second (addendum) Write of the handshake STALLS (the peer
   does not read) until the connection is closed; only the watchdog's Close ends such a write *)
Definition hstep (fixed : bool) (addendum : bool) (st1 st2 : bool) (reply : hreply) (g : hwho) (alt : bool) (s : hst) : hst :=
  match g with
  | HH =>
    match hmd s with
    | H1Check => if h_gc s then hset_h s (HRet kctx) else hset_h s H1Write
    | H1Write => if h_closed s then hset_h s (HRet (Some KIO)) else if st1 then s (* stalled *) else hset_h s HRead
    | HRead =>
      if h_closed s then hset_h s (HRet (Some KIO))
      else if alt then hset_h s (HRet (Some KIO))          (* the read deadline fires *)
      else match reply with
           | HrHello => if addendum then hset_h s H2Check else hset_h s (HRet None)
           | HrExc => hset_h s (HRet (Some KExc))
           | HrBad => hset_h s (HRet (Some KOther))
           | HrEof => hset_h s (HRet (Some KIO))
           end
    | H2Check => if h_gc s then hset_h s (HRet kctx) else hset_h s H2Write
    | H2Write => if h_closed s then hset_h s (HRet (Some KIO)) else if st2 then s (* stalled *) else hset_h s (HRet None)
    | HRet e =>   (* deferred cancel() of handshakeCtx *)
      {| h_pc := h_pc s; h_gc := h_gc s; h_hdone := true; h_closed := h_closed s; h_ncl := h_ncl s; h_err1 := h_err1 s;
         h_ret := h_ret s; h_ok := h_ok s; hmd := HRec e; dmd := dmd s; kmd := kmd s |}
    | HRec e => hset_h (hrecord s e) HDone
    | HDone => s
    end
  | HD =>
    match dmd s with
    | DWait =>
      if h_hdone s && h_pc s then (if alt then hset_d s DClose else hset_d s DRet)
      else if h_hdone s then hset_d s DRet
      else if h_pc s then hset_d s DClose
      else s
    | DClose => hset_d (hclose s) DRet
    | DRet => hset_d s DDone
    | DDone => s
    end
  | HK =>
    match kmd s with
    | KWait => match hmd s, dmd s with
               | HDone, DDone =>
                 {| h_pc := h_pc s; h_gc := h_gc s; h_hdone := h_hdone s; h_closed := h_closed s; h_ncl := h_ncl s;
                    h_err1 := h_err1 s; h_ret := h_ret s; h_ok := h_ok s; hmd := hmd s; dmd := dmd s; kmd := KCheck |}
               | _, _ => s
               end
    | KCheck =>
      let errs := match h_err1 s with Some e => [e] | None => [] end in
      if fixed then
        (if h_pc s then hfinish (hclose s) (add_ctx errs) false
         else match h_err1 s with Some _ => hfinish s errs false | None => hfinish s [] true end)
      else
        match h_err1 s with
        | Some _ => if h_pc s then hfinish s (add_ctx errs) false else hfinish s errs false
        | None => hfinish s [] true
        end
    | KDone => s
    end
  | HEnv =>
    match kmd s with
    | KDone => s
    | _ => {| h_pc := true; h_gc := true; h_hdone := h_hdone s; h_closed := h_closed s; h_ncl := h_ncl s; h_err1 := h_err1 s;
              h_ret := h_ret s; h_ok := h_ok s; hmd := hmd s; dmd := dmd s; kmd := kmd s |}
    end
  end.

Fixpoint hrun (fixed addendum : bool) (st1 st2 : bool) (reply : hreply) (sched : list (hwho * bool)) (s : hst) : hst :=
  match sched with
  | [] => s
  | (g, alt) :: r => hrun fixed addendum st1 st2 reply r (hstep fixed addendum st1 st2 reply g alt s)
  end.

Definition hterminal (s : hst) : bool := match kmd s with KDone => true | _ => false end.
