(* L9b: the temporal COLUMNS of ch-go as objects (C20).  Executable definitions only.

   Hand model of
     /repo/proto/col_date.go col_date32.go        ColDate / ColDate32      .Append .AppendArr .Row
     /repo/proto/col_datetime.go                  ColDateTime              .Append .AppendRaw .AppendArr .Row .loc .Infer
     /repo/proto/col_datetime64.go                ColDateTime64            .Append .AppendRaw .AppendArr .Row .loc
                                                                           .WithPrecision .WithLocation .Infer
   written as the specification reads (a batch is a [map], an index is [nth_error]); the same methods are
   TRANSLATED from the Go source on every run (translator/minigo*.go -> gen/ScalFuns.v) and proved equal to
   these definitions in proofs/ScalFunsProofs.v.

   This file also holds the PRIMITIVES the translator maps Go's slices, strings and errors to:
     a slice                = a list; s[i] = [slice_at] = [nth_error] (None = the index panic)
     a string / ColumnType  = [bytes]; the string functions are the definitions of model/TypeStr.v:
         ColumnType.Elem        -> [ct_Elem]            = TypeStr.elem_r  (which never fails: TypeStrProofs.elem_r_ok)
         strings.Cut(s, "c")    -> [str_Cut] c s      = TypeStr.cut_byte c s
         strings.Trim(s, "cs")  -> [str_Trim] cs s    = TypeStr.trim_set cs s
         strconv.ParseUint(s, 10, 8) -> [str_ParseUint8] = TypeStr.parse_uint8
         s == t                 -> Bytes.bytes_eqb
     time.LoadLocation      = the parameter [tzdb : bytes -> option Z] (a zone name to the offset of a fixed zone)
     an error               = a bool (true = not nil; the message is not modelled)
     a *time.Location that may be nil = option Z. *)
From CH Require Import model.TypeStr gen.TypeNames.
From CH Require Import model.Scalars gen.Consts.
From Coq Require Import List ZArith NArith Bool.
Import ListNotations.
Open Scope Z_scope.

(* ---- slices -------------------------------------------------------------------------------------- *)
Definition slice_len {A} (s : list A) : Z := Z.of_nat (length s).
Definition slice_at {A} (s : list A) (i : Z) : option A :=
  if i <? 0 then None else nth_error s (Z.to_nat i).
(* the run-time check of s[i], and the element once the check has passed *)
Definition slice_oob {A} (s : list A) (i : Z) : bool :=
  match slice_at s i with None => true | Some _ => false end.
Definition slice_get (s : list Z) (i : Z) : Z :=
  match slice_at s i with Some x => x | None => 0 end.
Fixpoint list_set (s : list Z) (n : nat) (e : Z) : list Z :=
  match s, n with
  | [], _ => []
  | _ :: s', O => e :: s'
  | x :: s', S n' => x :: list_set s' n' e
  end.
(* s[i] = e once the check has passed *)
Definition slice_set (s : list Z) (i e : Z) : list Z :=
  if i <? 0 then s else list_set s (Z.to_nat i) e.
(* make([]T, n) for an integer element type, n = len(..) >= 0 *)
Definition slice_make (n : Z) : list Z := repeat 0 (Z.to_nat n).

(* ---- errors, nil-able locations ------------------------------------------------------------------- *)
Definition err_nil : bool := false.
Definition err_new : bool := true.     (* errors.Errorf / errors.Wrap / errors.New of go-faster/errors: never nil *)
Definition loc_is_nil (l : option Z) : bool := match l with None => true | Some _ => false end.

(* ---- strings --------------------------------------------------------------------------------------- *)
Definition ct_Elem (t : bytes) : bytes := match elem_r t with Ok e _ => e | _ => [] end.
Definition str_eqb (a b : bytes) : bool := bytes_eqb a b.
Definition str_Trim (cutset s : bytes) : bytes := trim_set cutset s.          (* strings.Trim(s, cutset), ASCII cutset *)
Definition str_Cut (sep : N) (s : bytes) : bytes * bytes * bool := cut_byte sep s.   (* strings.Cut(s, sep), one byte *)
(* strconv.ParseUint(s, 10, 8): (value, err); the value Go returns along with an error is not modelled *)
Definition str_ParseUint8 (s : bytes) : Z * bool :=
  match parse_uint8 s with Some n => (Z.of_N n, err_nil) | None => (0, err_new) end.
(* time.LoadLocation(name): (location, err); nil along with an error *)
Definition load_location (tzdb : bytes -> option Z) (name : bytes) : option Z * bool :=
  match tzdb name with Some l => (Some l, err_nil) | None => (None, err_new) end.

(* ---- what the Infer methods read from the type string ---------------------------------------------- *)
(* ColDateTime.Infer: None = error; Some None = no zone in the type; Some (Some l) = the zone *)
Definition parse_datetime_params (tzdb : bytes -> option Z) (t : bytes) : option (option Z) :=
  match ct_Elem t with
  | [] => Some None
  | sub => match tzdb (trim_set [39%N] sub) with
           | Some l => Some (Some l)
           | None => None
           end
  end.

(* ColDateTime64.Infer: None = error; Some (precision, zone) *)
Definition parse_datetime64_params (tzdb : bytes -> option Z) (t : bytes) : option (Z * option Z) :=
  match ct_Elem t with
  | [] => None
  | e =>
    let '(pStr, locStr, hasloc) := cut_byte 44%N e in
    match parse_uint8 (trim_set [39%N; 32%N] pStr) with
    | None => None
    | Some n =>
      if negb (n <=? precision_max)%N then None
      else if hasloc then
        match tzdb (trim_set [39%N; 32%N] locStr) with
        | Some l => Some (Z.of_N n, Some l)
        | None => None
        end
      else Some (Z.of_N n, None)
    end
  end.

(* ---- ColDate / ColDate32: type ColDate []Date ------------------------------------------------------- *)
Definition col_date_AppendV (c : list Z) (v : gotime) : list Z := c ++ [to_date v].
Definition col_date_AppendArr (c : list Z) (vs : list gotime) : list Z := c ++ map to_date vs.
Definition col_date_RowAt (c : list Z) (i : Z) : option gotime := option_map date_Time (slice_at c i).

Definition col_date32_AppendV (c : list Z) (v : gotime) : list Z := c ++ [to_date32 v].
Definition col_date32_AppendArr (c : list Z) (vs : list gotime) : list Z := c ++ map to_date32 vs.
Definition col_date32_RowAt (c : list Z) (i : Z) : option gotime := option_map date32_Time (slice_at c i).

(* ---- ColDateTime ------------------------------------------------------------------------------------ *)
Record col_dt := mkColDT { dt_Data : list Z ; dt_Location : option Z }.

Definition col_dt_loc (loc : Z) (c : col_dt) : Z := col_loc loc (dt_Location c).
Definition col_dt_AppendRaw (c : col_dt) (d : Z) : col_dt := mkColDT (dt_Data c ++ [d]) (dt_Location c).
Definition col_dt_Append (c : col_dt) (v : gotime) : col_dt := col_dt_AppendRaw c (to_datetime v).
Definition col_dt_AppendArr (c : col_dt) (vs : list gotime) : col_dt :=
  mkColDT (dt_Data c ++ map to_datetime vs) (dt_Location c).
Definition col_dt_RowAt (loc : Z) (c : col_dt) (i : Z) : option gotime :=
  option_map (col_datetime_Row loc (dt_Location c)) (slice_at (dt_Data c) i).
(* (new column, err != nil): only the zone changes, and only when the type is accepted *)
Definition col_dt_Infer (parsed : option (option Z)) (c : col_dt) : col_dt * bool :=
  match parsed with
  | None => (c, err_new)
  | Some l => (mkColDT (dt_Data c) l, err_nil)
  end.

(* ---- ColDateTime64 ---------------------------------------------------------------------------------- *)
Record col_dt64 := mkColDT64 {
  dt64_Data : list Z ; dt64_Location : option Z ; dt64_Precision : Z ; dt64_PrecisionSet : bool }.

Definition col_dt64_loc (loc : Z) (c : col_dt64) : Z := col_loc loc (dt64_Location c).
Definition col_dt64_AppendRaw (c : col_dt64) (d : Z) : col_dt64 :=
  mkColDT64 (dt64_Data c ++ [d]) (dt64_Location c) (dt64_Precision c) (dt64_PrecisionSet c).
(* None = the panic "DateTime64: no precision set" *)
Definition col_dt64_Append (c : col_dt64) (v : gotime) : option col_dt64 :=
  if dt64_PrecisionSet c then Some (col_dt64_AppendRaw c (to_datetime64 v (dt64_Precision c))) else None.
Definition col_dt64_AppendArr (c : col_dt64) (vs : list gotime) : option col_dt64 :=
  if dt64_PrecisionSet c then
    Some (mkColDT64 (dt64_Data c ++ map (fun v => to_datetime64 v (dt64_Precision c)) vs)
                    (dt64_Location c) (dt64_Precision c) (dt64_PrecisionSet c))
  else None.
Definition col_dt64_RowAt (loc : Z) (c : col_dt64) (i : Z) : option gotime :=
  if dt64_PrecisionSet c then
    option_map (col_datetime64_Row loc (dt64_Location c) (dt64_Precision c)) (slice_at (dt64_Data c) i)
  else None.
Definition col_dt64_WithPrecision (c : col_dt64) (p : Z) : col_dt64 :=
  mkColDT64 (dt64_Data c) (dt64_Location c) p true.
Definition col_dt64_WithLocation (c : col_dt64) (l : option Z) : col_dt64 :=
  mkColDT64 (dt64_Data c) l (dt64_Precision c) (dt64_PrecisionSet c).
(* (new column, err != nil): precision AND zone are replaced (a type without a zone leaves none behind,
   fix 72b3f8b), the rows stay; nothing changes when the type is rejected *)
Definition col_dt64_Infer (parsed : option (Z * option Z)) (c : col_dt64) : col_dt64 * bool :=
  match parsed with
  | None => (c, err_new)
  | Some (p, l) => (mkColDT64 (dt64_Data c) l p true, err_nil)
  end.

(* ---- histories of one column object ------------------------------------------------------------------ *)
(* the operations an application (or Client.sendInput, which calls Infer on every input column) performs on
   one ColDateTime64 object *)
Inductive dt64_op :=
| OpAppend (v : gotime)
| OpAppendArr (vs : list gotime)
| OpAppendRaw (d : Z)
| OpInfer (t : bytes)
| OpWithPrecision (p : Z)
| OpWithLocation (l : option Z).

Inductive dt_op :=
| DOpAppend (v : gotime)
| DOpAppendArr (vs : list gotime)
| DOpAppendRaw (d : Z)
| DOpInfer (t : bytes).
