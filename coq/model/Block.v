(* L4: data blocks — /repo/proto/block.go (EncodeBlock, EncodeRawBlock, DecodeBlock, DecodeRawBlock)
   and /repo/proto/results.go (Results.DecodeResult, decodeAuto).
   Type compatibility and inference live in proto/column.go and col_auto.go; here they are
   parameters of a Section, instantiated in the glue with the executable model of those
   functions (model/TypeStr.v). *)
From CH Require Export model.Columns model.Messages.
From CH Require Import gen.Features gen.Consts.
Open Scope N_scope.
Open Scope list_scope.

Record col := { c_name : bytes ; c_ty : ty ; c_data : cdata }.

(* InputColumn.EncodeStart *)
Definition enc_start (v : N) (name : bytes) (t : ty) : bytes :=
  put_str name ++ put_str (type_str t) ++
  (if gate v FeatureCustomSerialization then put_bool false else []).

(* the loop of EncodeRawBlock: None = the Go function returns an error *)
Fixpoint enc_cols (b : build) (v : N) (nrows : N) (cols : list col) : option bytes :=
  match cols with
  | [] => Some []
  | c :: cs =>
    if negb (rows (c_ty c) (c_data c) =? nrows) then None else
    match prepare (c_ty c) (c_data c) with
    | None => None
    | Some d =>
      let body := if rows (c_ty c) d =? 0 then []
                  else enc_state (c_ty c) ++ enc b (c_ty c) d in
      match enc_cols b v nrows cs with
      | Some r => Some (enc_start v (c_name c) (c_ty c) ++ body ++ r)
      | None => None
      end
    end
  end.

Definition encode_raw_block (b : build) (v : N) (nrows : N) (cols : list col) : option bytes :=
  option_map (fun r => put_int (Z.of_nat (length cols)) ++ put_int (Z.of_N nrows) ++ r)
             (enc_cols b v nrows cols).

Definition encode_block (b : build) (v : N) (i : block_info) (nrows : N) (cols : list col) : option bytes :=
  option_map (fun r => (if gate v FeatureBlockInfo then encode_BlockInfo i else []) ++ r)
             (encode_raw_block b v nrows cols).

(* ---- decoding -------------------------------------------------------------------- *)
Section Results.
  (* ColumnType.Conflicts and the Inferable hook of a typed target / ColAuto.Infer *)
  Variable conflicts : bytes -> bytes -> bool.
  Variable infer_target : ty -> bytes -> option ty.   (* t.Data.Infer(gotType); None = error *)
  Variable infer_auto : bytes -> option ty.           (* ColAuto.Infer; None = error *)

  (* name, type and the custom-serialization flag of one column *)
  Definition dec_col_header (v : N) : parser (bytes * bytes) :=
    name <- get_str ;;
    tstr <- get_str ;;
    if gate v FeatureCustomSerialization then
      cs <- get_bool ;;
      if cs then fail EInvalid else ret (name, tstr)
    else ret (name, tstr).

  (* a target of Results: name ("" = infer it), column type, current contents *)
  Definition target := col.

  (* Results.DecodeResult: the per-column loop.  Returns the targets as they are afterwards:
     targets before the failing column hold their own column's data, later ones are untouched.
     [i] counts columns still to read when there are no targets. *)
  Fixpoint dec_targets (b : build) (v : N) (nrows : N) (ts : list target) : parser (list target) :=
    match ts with
    | [] => ret []
    | t :: ts' =>
      h <- dec_col_header v ;;
      let '(name, tstr) := h in
      let tname := match c_name t with [] => name | _ => c_name t end in
      if negb (bytes_eqb tname name) then fail EInvalid else
      match infer_target (c_ty t) tstr with
      | None => fail EInvalid
      | Some ty' =>
        if conflicts tstr (type_str ty') then fail EInvalid else
        d <- (if nrows =? 0 then ret (empty ty')
              else dec_state ty' ;;; dec b ty' nrows) ;;
        r <- dec_targets b v nrows ts' ;;
        ret ({| c_name := tname ; c_ty := ty' ; c_data := d |} :: r)
      end
    end.

  Fixpoint skip_headers (v : N) (n : nat) : parser unit :=
    match n with
    | O => ret tt
    | S k => dec_col_header v ;;; skip_headers v k
    end.

  Definition decode_result (b : build) (v : N) (ncols nrows : N) (ts : list target) : parser (list target) :=
    match ts with
    | [] =>
      if negb (ncols =? 0) && negb (nrows =? 0) then fail EInvalid
      else fun s => if ncols <=? blen s then (skip_headers v (N.to_nat ncols) ;;; ret []) s
                    else match skip_headers v (length s) s with Ok _ _ => Err EEof | Err e => Err e | Crash c => Crash c end
    | _ =>
      if negb (ncols =? N.of_nat (length ts)) then fail EInvalid
      else dec_targets b v nrows ts
    end.

  (* Results.decodeAuto on an empty Results *)
  Fixpoint dec_auto_cols (b : build) (v : N) (nrows : N) (n : nat) : parser (list target) :=
    match n with
    | O => ret []
    | S k =>
      h <- dec_col_header v ;;
      let '(name, tstr) := h in
      match infer_auto tstr with
      | None => fail EInvalid
      | Some ty' =>
        d <- (if nrows =? 0 then ret (empty ty')
              else dec_state ty' ;;; dec b ty' nrows) ;;
        r <- dec_auto_cols b v nrows k ;;
        ret ({| c_name := name ; c_ty := ty' ; c_data := d |} :: r)
      end
    end.

  Definition decode_auto (b : build) (v : N) (ncols nrows : N) (ts : list target) : parser (list target) :=
    match ts with
    | [] => fun s => if ncols <=? blen s then dec_auto_cols b v nrows (N.to_nat ncols) s
                     else match dec_auto_cols b v nrows (length s) s with
                          | Ok _ _ => Err EEof | Err e => Err e | Crash c => Crash c end
    | _ => decode_result b v ncols nrows ts
    end.

  (* Block.DecodeRawBlock / DecodeBlock with a Results (auto = false) or Results.Auto() target.
     Result: block info, columns, rows and the targets afterwards. *)
  Definition decode_raw_block (auto : bool) (b : build) (v : N) (ts : list target)
    : parser (Z * Z * list target) :=
    c <- get_int ;;
    if ((maxColumnsInBlock <? c) || (c <? 0))%Z then fail EInvalid else
    r <- get_int ;;
    nrows <- check_rows r ;;
    if (c =? 0)%Z && (r =? 0)%Z then ret (c, r, ts) else
    ts' <- (if auto then decode_auto else decode_result) b v (Z.to_N c) nrows ts ;;
    ret (c, r, ts').

  Definition decode_block (auto : bool) (b : build) (v : N) (ts : list target)
    : parser (block_info * Z * Z * list target) :=
    i <- (if gate v FeatureBlockInfo then decode_BlockInfo blank_block_info else ret blank_block_info) ;;
    x <- decode_raw_block auto b v ts ;;
    let '(c, r, ts') := x in
    ret (i, c, r, ts').
End Results.
