(* L2b: the protocol messages of /repo/proto as layouts over the generated
   feature thresholds, plus the two messages with loops (Query, BlockInfo). *)
From CH Require Export model.Fields.
From CH Require Import gen.Features gen.Codes gen.Consts.
Open Scope N_scope.

Definition code_byte (z : Z) : bytes := [Z.to_N z].

Definition F (i : nat) (g : list N) (k : fkind) : field := {| fname := i ; fgates := g ; fk := k |}.

(* proto/client_hello.go *)
Definition L_ClientHello : layout :=
  [F 0 [] KStr; F 1 [] KInt; F 2 [] KInt; F 3 [] KInt; F 4 [] KStr; F 5 [] KStr; F 6 [] KStr].
Definition encode_ClientHello (xs : list fv) : bytes :=
  code_byte ClientCodeHello ++ encode_fields 0 L_ClientHello xs.
Definition decode_ClientHello : parser (list fv) := decode_fields 0 L_ClientHello.

(* proto/server_hello.go *)
Definition L_ServerHello : layout :=
  [F 0 [] KStr; F 1 [] KInt; F 2 [] KInt; F 3 [] KInt;
   F 4 [FeatureTimezone] KStr; F 5 [FeatureDisplayName] KStr; F 6 [FeatureVersionPatch] KInt].
Definition encode_ServerHello (v : N) (xs : list fv) : bytes :=
  code_byte ServerCodeHello ++ encode_fields v L_ServerHello xs.
Definition decode_ServerHello (v : N) : parser (list fv) := decode_fields v L_ServerHello.

(* proto/client_info.go.  Gate 0 stands for the value-dependent condition
   `c.Interface == InterfaceTCP`, which every decodable message satisfies
   (DecodeAware rejects any other interface). *)
Definition L_ClientInfo : layout :=
  [F 0 [] (KEnum8 [0; 1; 2]);                       (* Query kind *)
   F 1 [] KStr; F 2 [] KStr; F 3 [] KStr;           (* InitialUser, InitialQueryID, InitialAddress *)
   F 4 [FeatureQueryStartTime] KI64;                (* InitialTime *)
   F 5 [] (KEnum8 [1]);                             (* Interface: only TCP decodes *)
   F 6 [] KStr; F 7 [] KStr; F 8 [] KStr;           (* OSUser, ClientHostname, ClientName *)
   F 9 [] KInt; F 10 [] KInt; F 11 [] KInt;         (* Major, Minor, ProtocolVersion *)
   F 12 [FeatureQuotaKeyInClientInfo] KStr;
   F 13 [FeatureDistributedDepth] KInt;
   F 14 [FeatureVersionPatch; 0] KInt;
   F 15 [FeatureOpenTelemetry] KSpan;
   F 16 [FeatureParallelReplicas] KBoolInt;
   F 17 [FeatureParallelReplicas] KInt;
   F 18 [FeatureParallelReplicas] KInt].
Definition encode_ClientInfo (v : N) (xs : list fv) : bytes := encode_fields v L_ClientInfo xs.
Definition decode_ClientInfo (v : N) : parser (list fv) := decode_fields v L_ClientInfo.

(* proto/client_data.go *)
Definition L_ClientData : layout := [F 0 [FeatureTempTables] KStr].
Definition encode_ClientData (v : N) (xs : list fv) : bytes := encode_fields v L_ClientData xs.
Definition decode_ClientData (v : N) : parser (list fv) := decode_fields v L_ClientData.

(* proto/progress.go *)
Definition L_Progress : layout :=
  [F 0 [] KUVar; F 1 [] KUVar; F 2 [] KUVar;
   F 3 [FeatureClientWriteInfo] KUVar; F 4 [FeatureClientWriteInfo] KUVar;
   F 5 [FeatureServerQueryTimeInProgress] KUVar].
Definition encode_Progress (v : N) (xs : list fv) : bytes := encode_fields v L_Progress xs.
Definition decode_Progress (v : N) : parser (list fv) := decode_fields v L_Progress.

(* proto/profile.go *)
Definition L_Profile : layout :=
  [F 0 [] KUVar; F 1 [] KUVar; F 2 [] KUVar; F 3 [] KBool; F 4 [] KUVar; F 5 [] KBool].
Definition encode_Profile (xs : list fv) : bytes :=
  code_byte ServerCodeProfile ++ encode_fields 0 L_Profile xs.
Definition decode_Profile : parser (list fv) := decode_fields 0 L_Profile.

(* proto/exception.go *)
Definition L_Exception : layout :=
  [F 0 [] KI32; F 1 [] KStr; F 2 [] KStr; F 3 [] KStr; F 4 [] KBool].
Definition encode_Exception (xs : list fv) : bytes := encode_fields 0 L_Exception xs.
Definition decode_Exception : parser (list fv) := decode_fields 0 L_Exception.

(* proto/table_columns.go *)
Definition L_TableColumns : layout := [F 0 [] KStr; F 1 [] KStr].
Definition encode_TableColumns (xs : list fv) : bytes :=
  code_byte ServerCodeTableColumns ++ encode_fields 0 L_TableColumns xs.
Definition decode_TableColumns : parser (list fv) := decode_fields 0 L_TableColumns.

(* ---- proto/block.go: BlockInfo ------------------------------------------ *)
Record block_info := { bi_overflows : bool ; bi_bucket : Z }.

Definition encode_BlockInfo (i : block_info) : bytes :=
  put_uvarint (Z.to_N blockInfoOverflows) ++ put_bool (bi_overflows i) ++
  put_uvarint (Z.to_N blockInfoBucketNum) ++ put_i32 (bi_bucket i) ++
  put_uvarint (Z.to_N endField).

(* the Go loop reads field ids until endField; every iteration consumes at
   least one byte, so fuel = input length + 1 never runs out *)
Fixpoint decode_BlockInfo_loop (fuel : nat) (i : block_info) : parser block_info :=
  match fuel with
  | O => fail EFuel
  | S f =>
    id <- uvarint ;;
    if id =? Z.to_N blockInfoOverflows then
      b <- get_bool ;; decode_BlockInfo_loop f {| bi_overflows := b ; bi_bucket := bi_bucket i |}
    else if id =? Z.to_N blockInfoBucketNum then
      z <- get_i32 ;; decode_BlockInfo_loop f {| bi_overflows := bi_overflows i ; bi_bucket := z |}
    else if id =? Z.to_N endField then ret i
    else fail EInvalid
  end.
Definition decode_BlockInfo (i0 : block_info) : parser block_info :=
  fun s => decode_BlockInfo_loop (S (length s)) i0 s.

(* ---- proto/query.go ------------------------------------------------------ *)
Record setting := { s_key : bytes ; s_val : bytes ; s_imp : bool ; s_cust : bool ; s_obs : bool }.

Definition setting_flags (s : setting) : N :=
  (if s_imp s then Z.to_N settingFlagImportant else 0) +
  (if s_cust s then Z.to_N settingFlagCustom else 0) +
  (if s_obs s then Z.to_N settingFlagObsolete else 0).

Definition encode_Setting (s : setting) : bytes :=
  put_str (s_key s) ++ put_uvarint (setting_flags s) ++ put_str (s_val s).

(* Setting.Decode: an empty key ends the list and reads nothing more *)
Definition decode_Setting : parser (option setting) :=
  k <- get_str ;;
  match k with
  | [] => ret None
  | _ =>
    fl <- uvarint ;;
    v <- get_str ;;
    ret (Some {| s_key := k ; s_val := v ;
                 s_imp := N.testbit fl 0 ; s_cust := N.testbit fl 1 ; s_obs := N.testbit fl 2 |})
  end.

Fixpoint decode_Settings (fuel : nat) : parser (list setting) :=
  match fuel with
  | O => fail EFuel
  | S f =>
    o <- decode_Setting ;;
    match o with
    | None => ret []
    | Some s => r <- decode_Settings f ;; ret (s :: r)
    end
  end.

Definition param_setting (p : bytes * bytes) : setting :=
  {| s_key := fst p ; s_val := snd p ; s_imp := false ; s_cust := true ; s_obs := false |}.

Record query := {
  q_id : bytes ; q_info : list fv ; q_settings : list setting ; q_secret : bytes ;
  q_stage : N ; q_comp : N ; q_body : bytes ; q_params : list (bytes * bytes) }.

Definition stages : list N := [Z.to_N StageFetchColumns; Z.to_N StageWithMergeableState; Z.to_N StageComplete].
Definition compressions : list N := [Z.to_N CompressionDisabled; Z.to_N CompressionEnabled].

Definition gate (v g : N) : bool := g <=? v.

Definition encode_Query (v : N) (q : query) : bytes :=
  code_byte ClientCodeQuery ++
  put_str (q_id q) ++
  (if gate v FeatureClientWriteInfo then encode_ClientInfo v (q_info q) else []) ++
  (if gate v FeatureSettingsSerializedAsStrings then concat (map encode_Setting (q_settings q)) else []) ++
  put_str [] ++
  (if gate v FeatureInterServerSecret then put_str (q_secret q) else []) ++
  enc_field (KEnumUV stages) (FN (q_stage q)) ++
  enc_field (KEnumUV compressions) (FN (q_comp q)) ++
  put_str (q_body q) ++
  (if gate v FeatureParameters
   then concat (map (fun p => encode_Setting (param_setting p)) (q_params q)) ++ put_str []
   else []).

Definition blank_info : list fv := map (fun f => default_of (fk f)) L_ClientInfo.

Definition decode_Query (v : N) : parser query :=
  fun s0 =>
  (id <- get_str ;;
   info <- (if gate v FeatureClientWriteInfo then decode_ClientInfo v else ret blank_info) ;;
   if negb (gate v FeatureSettingsSerializedAsStrings) then fail EUnsupported else
   sets <- decode_Settings (S (length s0)) ;;
   secret <- (if gate v FeatureInterServerSecret then get_str else ret []) ;;
   st <- dec_field (KEnumUV stages) ;;
   cp <- dec_field (KEnumUV compressions) ;;
   body <- get_str ;;
   ps <- (if gate v FeatureParameters then decode_Settings (S (length s0)) else ret []) ;;
   ret {| q_id := id ; q_info := info ; q_settings := sets ; q_secret := secret ;
          q_stage := match st with FN n => n | _ => 0 end ;
          q_comp := match cp with FN n => n | _ => 0 end ;
          q_body := body ;
          q_params := map (fun s => (s_key s, s_val s)) ps |}) s0.

(* what a round trip at revision v preserves *)
Definition project_Query (v : N) (q : query) : query :=
  {| q_id := q_id q ;
     q_info := if gate v FeatureClientWriteInfo then project v L_ClientInfo (q_info q) else blank_info ;
     q_settings := q_settings q ;
     q_secret := if gate v FeatureInterServerSecret then q_secret q else [] ;
     q_stage := q_stage q ; q_comp := q_comp q ; q_body := q_body q ;
     q_params := if gate v FeatureParameters then q_params q else [] |}.

Definition setting_ok (s : setting) : bool :=
  negb (match s_key s with [] => true | _ => false end) && str_okb (s_key s) && str_okb (s_val s).
Definition query_ok (q : query) : bool :=
  str_okb (q_id q) && fields_typed L_ClientInfo (q_info q) &&
  forallb setting_ok (q_settings q) && str_okb (q_secret q) &&
  mem_N (q_stage q) stages && mem_N (q_comp q) compressions && str_okb (q_body q) &&
  forallb (fun p => setting_ok (param_setting p)) (q_params q).

(* ---- block header (Block.EncodeAware / first part of DecodeBlock) --------- *)
Definition encode_BlockHeader (v : N) (i : block_info) (cols rows : Z) : bytes :=
  (if gate v FeatureBlockInfo then encode_BlockInfo i else []) ++ put_int cols ++ put_int rows.

Definition blank_block_info : block_info := {| bi_overflows := false ; bi_bucket := 0 |}.

Definition decode_BlockHeader (v : N) : parser (block_info * Z * Z) :=
  i <- (if gate v FeatureBlockInfo then decode_BlockInfo blank_block_info else ret blank_block_info) ;;
  c <- get_int ;;
  (if ((maxColumnsInBlock <? c) || (c <? 0))%Z then fail EInvalid else
   r <- get_int ;;
   if (r <? 0)%Z then fail EInvalid else
   if (maxRowsInBLock <? r)%Z then fail ELimit else
   ret (i, c, r)).
