(* Transcript interface of the column histories (C16), see harness/c16.go.

   case   hist <build> <ty> <cdata0> (<op> ...)
     op ::= (app <cdata1>)        Append of the value that is row 0 of the one-row column <cdata1>
          | (apparr <cdataK>)     AppendArr of the rows of <cdataK>
          | (reset) | (prep) | (enc) | (write) | (encblock)
          | (infer <ty'>)
          | (dec <rows> xBYTES <state after a failure | ->)
   output ok <o> ...   one item per executed op:
          (ok <cdata>) | (ok <cdata> xBYTES) | (ok <cdata> <bytes left>) | (err <cdata>) | (err) | (crash)
          (<cdata> printed with Bool memory bytes as 0 / 1, see obs_cdata)
   syntax of ty / cdata: model/GlueCol.v. *)
From CH Require Import model.Sx model.Columns model.ColState model.GlueCol.
Open Scope N_scope.
Open Scope list_scope.

Definition get_op (t : ty) (x : sx) : option cop :=
  match x with
  | L [h] =>
    if is_sym h "reset" then Some OReset
    else if is_sym h "prep" then Some OPrepare
    else if is_sym h "enc" then Some OEncode
    else if is_sym h "write" then Some OWrite
    else if is_sym h "encblock" then Some OEncodeBlock
    else None
  | L [h; a] =>
    if is_sym h "app" then
      match get_cdata 64 a with
      | Some d1 => option_map OAppend (row t d1 0)
      | None => None
      end
    else if is_sym h "apparr" then
      match get_cdata 64 a with
      | Some dk => option_map OAppendArr (abs t dk)
      | None => None
      end
    else if is_sym h "infer" then option_map OInfer (get_ty 64 a)
    else None
  | L [h; n; bs; st] =>
    if is_sym h "dec" then
      match get_an n, get_ab bs with
      | Some n, Some bs =>
        if is_sym st "-" then Some (ODecode n bs (DNothing 0))
        else option_map (ODecode n bs) (get_cdata 64 st)
      | _, _ => None
      end
    else None
  | _ => None
  end.

(* the harness reads a ColBool through Go's bool: zero / non-zero.  (The default build keeps other bytes in memory
   after decoding them; the exact bytes are still compared through every encoding.) *)
Fixpoint obs_cdata (d : cdata) : cdata :=
  match d with
  | DBool vs => DBool (map (fun x => if x =? 0 then 0 else 1) vs)
  | DArr o d' => DArr o (obs_cdata d')
  | DNullable o d' => DNullable o (obs_cdata d')
  | DLowCard vs d' k ks => DLowCard vs (obs_cdata d') k ks
  | DMap o a b => DMap o (obs_cdata a) (obs_cdata b)
  | DTuple ds => DTuple (map obs_cdata ds)
  | _ => d
  end.

Definition pr_step (o : cop) (r : (ty * cdata) * cout) : sx :=
  let d := obs_cdata (snd (fst r)) in
  match snd r with
  | ONone => L [asym "ok"; pr_cdata d]
  | OBytes bs => L [asym "ok"; pr_cdata d; ab bs]
  | ODecoded lft => L [asym "ok"; pr_cdata d; an lft]
  | OErr => match o with
            | ODecode _ _ _ => L [asym "err"]
            | _ => L [asym "err"; pr_cdata d]
            end
  | OCrash => L [asym "crash"]
  end.

Fixpoint run_sx (b : build) (s : ty * cdata) (ops : list sx) : list sx :=
  match ops with
  | [] => []
  | x :: ops' =>
    match get_op (fst s) x with
    | None => [asym "badop"]
    | Some o =>
      let r := cstep b s o in
      pr_step o r :: match snd r with
                     | OCrash => []
                     | _ => run_sx b (fst r) ops'
                     end
    end
  end.

Definition run_hist (xs : list sx) : option (list sx) :=
  match xs with
  | [op; b; t; d; L ops] =>
    if is_sym op "hist" then
      match get_build b, get_ty 64 t, get_cdata 64 d with
      | Some b, Some t, Some d => Some (asym "ok" :: run_sx b (t, d) ops)
      | _, _, _ => None
      end
    else None
  | _ => None
  end.

Definition run_line (line : bytes) : bytes :=
  match parse_line line with
  | Some xs => match run_hist xs with Some out => pr_items out | None => bad_line end
  | None => bad_line
  end.
