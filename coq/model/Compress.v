(* L5: compressed frames.  Mirrors /repo/compress/{compress,writer,reader}.go
   (reader.go as it is after the three repairs: the buffer is dropped when a block is
   rejected; method None requires raw size = data size; lz4 is never handed a nil
   destination - nil and empty slices are the same list here, so that one has no
   counterpart in the model: a codec failure is [decomp ... = None] either way).

   Frame (compress.go):   checksum[16] method[1] rawSize[4] dataSize[4] payload[rawSize-9]
     checksum = CityHash128 over everything from the method byte on
     rawSize  = len(payload) + compressHeaderSize,  little-endian uint32
     dataSize = len(decompressed payload),           little-endian uint32

   External libraries are Section variables:
     H       CityHash128 (city.CH128), as a pair (Low, High)
     comp    the block compressors behind Writer.Compress (lz4 / lz4hc at a level / zstd)
     decomp  the block decompressors behind readBlock, selected by the method byte
   Executable definitions only. *)
From CH Require Export model.Prim.
From CH Require Import gen.Consts.
Open Scope N_scope.

(* ---- constants of compress/compress.go, from the generated table ------------ *)
Definition checksumSize : nat := Z.to_nat cmp_checksumSize.
Definition compressHeaderSize : N := Z.to_N cmp_compressHeaderSize.
Definition headerSize : nat := Z.to_nat cmp_headerSize.
Definition maxDataSize : N := Z.to_N cmp_maxDataSize.
Definition maxBlockSize : N := Z.to_N cmp_maxBlockSize.
Definition hRawSize : nat := Z.to_nat cmp_hRawSize.
Definition hDataSize : nat := Z.to_nat cmp_hDataSize.
Definition hMethod : nat := Z.to_nat cmp_hMethod.
Definition encNone : N := Z.to_N cmp_encodedNone.
Definition encLZ4 : N := Z.to_N cmp_encodedLZ4.
Definition encLZ4HC : N := Z.to_N cmp_encodedLZ4HC.
Definition encZSTD : N := Z.to_N cmp_encodedZSTD.

(* the layout facts the code relies on silently (checked by computation in CompressProofs) *)
Definition layout_ok : bool :=
  (hMethod =? checksumSize)%nat && (hRawSize =? checksumSize + 1)%nat && (hDataSize =? hRawSize + 4)%nat
  && (headerSize =? 25)%nat && (N.of_nat headerSize =? N.of_nat checksumSize + compressHeaderSize)
  && (compressHeaderSize =? 9) && (maxDataSize <=? 2 ^ 32) && (maxBlockSize <=? 2 ^ 32)
  && negb (encNone =? encLZ4) && negb (encNone =? encZSTD) && negb (encLZ4 =? encZSTD)
  && (encLZ4HC =? encLZ4) && (encNone <? 256) && (encLZ4 <? 256) && (encZSTD <? 256).

(* compress.Method with the writer's level (only LZ4HC uses it) *)
Inductive method := MNone | MLZ4 | MLZ4HC (level : N) | MZSTD.

(* methodTable *)
Definition method_enc (m : method) : N :=
  match m with
  | MNone => encNone
  | MLZ4 => encLZ4
  | MLZ4HC _ => encLZ4HC
  | MZSTD => encZSTD
  end.

Inductive cerr :=
| CEHeader (clean : bool)      (* io.ReadFull(header): io.EOF when no byte was there, else ErrUnexpectedEOF *)
| CEDataSize                   (* "data size should be ..." *)
| CERawSize                    (* "raw size should be ..." *)
| CEReadRaw (clean : bool)     (* io.ReadFull(raw[headerSize:]) *)
| CECorrupt (actual reference : N * N) (rawSize dataSize : N)   (* CorruptedDataErr *)
| CEUncompress                 (* codec returned an error *)
| CESizeMismatch               (* "unexpected uncompressed data size" / "unexpected data size" *)
| CEMethod                     (* "compression 0x%02x not implemented" *)
| CECompress                   (* writer: codec returned an error *)
| CEOverflow.                  (* writer: "compressed size overflows uint32" *)

Definition is_nil {A} (l : list A) : bool := match l with [] => true | _ => false end.
Definition pair_eqb (a b : N * N) : bool := (fst a =? fst b) && (snd a =? snd b).

(* copy(d[off:], v) for an in-range destination *)
Fixpoint put_at (off : nat) (v d : bytes) : bytes :=
  match off, d with
  | O, _ => v ++ skipn (length v) d
  | S k, x :: d' => x :: put_at k v d'
  | S k, [] => []
  end.

Section Codec.
Variable H : bytes -> N * N.
Variable comp : method -> bytes -> option bytes.
Variable decomp : N -> bytes -> N -> option bytes.

(* city.U128{Low, High}: two uint64 *)
Definition h128 (b : bytes) : N * N := (fst (H b) mod 2 ^ 64, snd (H b) mod 2 ^ 64).

(* ---- Writer.Compress (writer.go) ------------------------------------------ *)
Definition compress_frame (m : method) (buf : bytes) : cerr + bytes :=
  (* w.Data = make(maxSize+headerSize); w.Data[hMethod] = methodTable[w.method] *)
  (* switch w.method: n = size written to w.Data[headerSize:] *)
  match (match m with
         | MNone => Some buf                     (* n = copy(w.Data[headerSize:], buf) *)
         | _ => comp m buf
         end) with
  | None => inl CECompress
  | Some c =>
    let n := blen c in
    (* uint64(n)+uint64(compressHeaderSize) > math.MaxUint32 *)
    if 2 ^ 32 - 1 <? n + compressHeaderSize then inl CEOverflow
    else
      (* w.Data = w.Data[:n+headerSize] *)
      let d0 := put_at hMethod [method_enc m] (repeatN 0 headerSize ++ c) in
      let d1 := put_at hRawSize (le_put 4 (n + compressHeaderSize)) d0 in
      let d2 := put_at hDataSize (le_put 4 (blen buf)) d1 in      (* uint32(len(buf)): wraps *)
      let h := h128 (skipn hMethod d2) in
      let d3 := put_at 0 (le_put 8 (fst h)) d2 in
      let d4 := put_at 8 (le_put 8 (snd h)) d3 in
      inr d4
  end.

(* the switch over methodEncoding(r.header[hMethod]) at the end of readBlock *)
Definition decode_payload (m : N) (payload : bytes) (rawSize dataSize : N) : cerr + bytes :=
  if (m =? encLZ4) || (m =? encZSTD) then
    (* lz4.UncompressBlock(raw[headerSize:], r.data) (also LZ4HC) / zstd DecodeAll(raw[headerSize:], r.data[:0]) *)
    match decomp m payload dataSize with
    | None => inl CEUncompress
    | Some out => if blen out =? dataSize then inr out else inl CESizeMismatch
    end
  else if m =? encNone then
    if rawSize =? dataSize then inr payload               (* copy(r.data, r.raw[headerSize:]) *)
    else inl CESizeMismatch
  else inl CEMethod.

(* ---- Reader.readBlock (reader.go) ------------------------------------------
   result, the underlying stream afterwards, and the allocation requests made
   (sizes that come off the wire), in order *)
Definition read_block (u : bytes) : (cerr + bytes) * bytes * list N :=
  (* io.ReadFull(r.reader, r.header): a short stream is consumed whole *)
  if Nat.ltb (length u) headerSize then (inl (CEHeader (is_nil u)), [], [])
  else
    let header := firstn headerSize u in
    let u1 := skipn headerSize u in
    let rawSizeZ := (Z.of_N (le_get (firstn 4 (skipn hRawSize header))) - Z.of_N compressHeaderSize)%Z in
    let dataSize := le_get (firstn 4 (skipn hDataSize header)) in
    (* dataSize < 0 cannot happen: uint32 -> int on a 64-bit host *)
    if maxDataSize <? dataSize then (inl CEDataSize, u1, [])
    else if ((rawSizeZ <? 0) || (Z.of_N maxBlockSize <? rawSizeZ))%Z then (inl CERawSize, u1, [])
    else
      let rawSize := Z.to_N rawSizeZ in
      (* r.data = make(dataSize); r.raw = header ++ make(rawSize) *)
      let allocs := [dataSize; N.of_nat headerSize + rawSize] in
      (* io.ReadFull(r.reader, r.raw[headerSize:]) *)
      if blen u1 <? rawSize then (inl (CEReadRaw (is_nil u1)), [], allocs)
      else
        let payload := firstn (N.to_nat rawSize) u1 in
        let u2 := skipn (N.to_nat rawSize) u1 in
        let raw := header ++ payload in
        let hGot := (le_get (firstn 8 raw), le_get (firstn 8 (skipn 8 raw))) in
        let h := h128 (skipn hMethod raw) in
        if negb (pair_eqb hGot h) then (inl (CECorrupt h hGot rawSize dataSize), u2, allocs)
        else
          (decode_payload (nth hMethod header 0) payload rawSize dataSize, u2, allocs).

(* ---- Reader.Read ------------------------------------------------------------ *)
Record crd := { cr_data : bytes ; cr_pos : N ; cr_under : bytes ; cr_peak : N }.
Definition cr_init (u : bytes) : crd := {| cr_data := [] ; cr_pos := 0 ; cr_under := u ; cr_peak := 0 |}.

Inductive rres := ROk (b : bytes) | RErr (e : cerr).

Definition max_list (l : list N) (a : N) : N := fold_left N.max l a.

(* Read(p) with len(p) = n *)
Definition cr_read (n : N) (s : crd) : rres * crd :=
  if blen (cr_data s) <=? cr_pos s then
    match read_block (cr_under s) with
    | (inl e, u', al) =>
      (* r.pos = 0 (readBlock); r.data = r.data[:0] (Read, on error) *)
      (RErr e, {| cr_data := [] ; cr_pos := 0 ; cr_under := u' ; cr_peak := max_list al (cr_peak s) |})
    | (inr d, u', al) =>
      let k := N.min n (blen d) in                      (* n = copy(p, r.data[0:]) *)
      (ROk (firstn (N.to_nat k) d),
       {| cr_data := d ; cr_pos := k ; cr_under := u' ; cr_peak := max_list al (cr_peak s) |})
    end
  else
    let rest := skipn (N.to_nat (cr_pos s)) (cr_data s) in
    let k := N.min n (blen rest) in
    (ROk (firstn (N.to_nat k) rest),
     {| cr_data := cr_data s ; cr_pos := cr_pos s + k ; cr_under := cr_under s ; cr_peak := cr_peak s |}).

Fixpoint run_reads (ns : list N) (s : crd) : list rres * crd :=
  match ns with
  | [] => ([], s)
  | n :: ns' => let '(r, s1) := cr_read n s in
                let '(rs, s2) := run_reads ns' s1 in (r :: rs, s2)
  end.

(* all bytes handed out by a history of reads *)
Fixpoint data_of (rs : list rres) : bytes :=
  match rs with
  | [] => []
  | ROk b :: rs' => b ++ data_of rs'
  | RErr _ :: rs' => data_of rs'
  end.

End Codec.
