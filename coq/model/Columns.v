(* L3: column codecs of /repo/proto/col_*.go as a deep embedding.

   [ty]     column type tree (what the Go column object is)
   [cdata]  the contents of the Go column struct, field by field (slices as lists; capacity
            is not modelled)
   [val]    a Go row value (what Append takes and Row returns)

   One structural function per Go method: [rows] Rows(), [row] Row(i) (None = Go panics),
   [append] Append(v), [prepare] Prepare(), [enc_state]/[enc] EncodeState/EncodeColumn (after
   Prepare), [dec_state]/[dec] DecodeState/DecodeColumn into a reset column.
   Executable definitions only; the proofs are in proofs/ColumnsProofs.v. *)
From CH Require Export model.Prim model.Sx.
From CH Require Import gen.Codes gen.Consts.
Open Scope N_scope.
Open Scope list_scope.

Inductive build := Safe | Unsafe.      (* purego / default build of the generated codecs *)

Inductive val :=
| VN (n : N)                   (* any fixed-width scalar: its unsigned little-endian value *)
| VBool (b : bool)
| VB (b : bytes)               (* String, FixedString, UUID, Enum name *)
| VUnit                        (* Nothing *)
| VPoint (x y : N)
| VOpt (set : bool) (v : val)  (* Nullable[T]{Set, Value}: a null row still carries its Value *)
| VArr (l : list val)
| VMap (l : list (val * val))  (* []KV *)
| VTup (l : list val).

Inductive ty :=
| TFix (name : bytes) (w : nat)   (* generated codecs, Interval, DateTime(tz), Decimal(P,S), DateTime64(p): w bytes / element *)
| TBool | TUUID | TStr | TJSON
| TFixedStr (n : nat)
| TNothing | TPoint
| TEnum (name : bytes) (w : nat) (defs : list (bytes * Z))   (* ColEnum after Infer; w = 1 | 2 *)
| TArr (t : ty) | TNullable (t : ty) | TLowCard (t : ty)
| TMap (k v : ty)
| TTuple (ts : list ty)
| TNamed (name : bytes) (t : ty).   (* ColNamed: only the type string differs *)

Inductive cdata :=
| DFix (vs : list N)
| DBool (vs : list N)             (* the byte held in memory for each bool *)
| DBytes (vs : list bytes)        (* ColStr (Buf/Pos as a list of strings), ColUUID *)
| DFixedStr (buf : bytes)         (* ColFixedStr.Buf; rows = len / Size *)
| DNothing (n : N)
| DPoint (xs ys : list N)
| DEnum (vals : list bytes) (raw : list N)
| DArr (offs : list N) (d : cdata)
| DNullable (nulls : list N) (d : cdata)
| DLowCard (vals : list val) (index : cdata) (key : N) (keys : list N)
| DMap (offs : list N) (k v : cdata)
| DTuple (ds : list cdata).

(* ---- equality on values (Go's == on comparable T; map key equality) -------- *)
Fixpoint val_eqb (a b : val) : bool :=
  let fix leq (l1 l2 : list val) : bool :=
    match l1, l2 with
    | [], [] => true
    | x :: l1', y :: l2' => val_eqb x y && leq l1' l2'
    | _, _ => false
    end in
  match a, b with
  | VN x, VN y => x =? y
  | VBool x, VBool y => Bool.eqb x y
  | VB x, VB y => bytes_eqb x y
  | VUnit, VUnit => true
  | VPoint x1 y1, VPoint x2 y2 => (x1 =? x2) && (y1 =? y2)
  | VOpt s1 v1, VOpt s2 v2 => Bool.eqb s1 s2 && val_eqb v1 v2
  | VArr l1, VArr l2 => leq l1 l2
  | VTup l1, VTup l2 => leq l1 l2
  | VMap l1, VMap l2 =>
    (fix meq (l1 l2 : list (val * val)) : bool :=
       match l1, l2 with
       | [], [] => true
       | (k1, v1) :: l1', (k2, v2) :: l2' => val_eqb k1 k2 && val_eqb v1 v2 && meq l1' l2'
       | _, _ => false
       end) l1 l2
  | _, _ => false
  end.

(* first-occurrence dictionary and key lookup of ColLowCardinality.Prepare *)
Fixpoint index_of (x : val) (l : list val) : option nat :=
  match l with
  | [] => None
  | y :: l' => if val_eqb x y then Some O else option_map S (index_of x l')
  end.
Definition mem_val (x : val) (l : list val) : bool :=
  match index_of x l with Some _ => true | None => false end.
Fixpoint dedup_acc (seen : list val) (l : list val) : list val :=
  match l with
  | [] => seen
  | x :: l' => if mem_val x seen then dedup_acc seen l' else dedup_acc (seen ++ [x]) l'
  end.
Definition dedup (l : list val) : list val := dedup_acc [] l.

(* ---- small helpers ------------------------------------------------------- *)
Fixpoint chunks (w n : nat) (b : bytes) : list bytes :=
  match n with
  | O => []
  | S k => firstn w b :: chunks w k (skipn w b)
  end.

Definition last_or0 (l : list N) : N := last l 0.

(* bswap.Swap64 over a 16-byte UUID: each 8-byte half reversed *)
Definition swap16 (b : bytes) : bytes := rev (firstn 8 b) ++ rev (skipn 8 b).

(* map with failure *)
Fixpoint mapM {X Y} (f : X -> option Y) (l : list X) : option (list Y) :=
  match l with
  | [] => Some []
  | x :: l' => match f x, mapM f l' with
               | Some y, Some r => Some (y :: r)
               | _, _ => None
               end
  end.

(* ---- element-wise helpers for tuples: the function is a parameter outside the fixpoint,
   so that the column functions below can pass themselves (structural recursion on [ty]) ---- *)
Section Seq.
  Context {T D V R : Type}.
  Section S2. Variable f : T -> D -> option R.
    Fixpoint map2o (ts : list T) (ds : list D) : option (list R) :=
      match ts, ds with
      | [], [] => Some []
      | t0 :: ts', d0 :: ds' =>
        match f t0 d0, map2o ts' ds' with
        | Some x, Some r => Some (x :: r)
        | _, _ => None
        end
      | _, _ => None
      end.
  End S2.
  Section S3. Variable f : T -> D -> V -> option R.
    Fixpoint map3o (ts : list T) (ds : list D) (vs : list V) : option (list R) :=
      match ts, ds, vs with
      | [], [], [] => Some []
      | t0 :: ts', d0 :: ds', v0 :: vs' =>
        match f t0 d0 v0, map3o ts' ds' vs' with
        | Some x, Some r => Some (x :: r)
        | _, _ => None
        end
      | _, _, _ => None
      end.
  End S3.
  Section C2. Variable f : T -> D -> bytes.
    Fixpoint cat2 (ts : list T) (ds : list D) : bytes :=
      match ts, ds with
      | t0 :: ts', d0 :: ds' => f t0 d0 ++ cat2 ts' ds'
      | _, _ => []
      end.
  End C2.
  Section B2. Variable f : T -> D -> bool.
    Fixpoint all2b (ts : list T) (ds : list D) : bool :=
      match ts, ds with
      | [], [] => true
      | t0 :: ts', d0 :: ds' => f t0 d0 && all2b ts' ds'
      | _, _ => false
      end.
  End B2.
  Section P2. Variable f : T -> D -> Prop.
    Fixpoint all2 (ts : list T) (ds : list D) : Prop :=
      match ts, ds with
      | [], [] => True
      | t0 :: ts', d0 :: ds' => f t0 d0 /\ all2 ts' ds'
      | _, _ => False
      end.
  End P2.
  Section DS. Variable f : T -> parser D.
    Fixpoint dec_seq (ts : list T) : parser (list D) :=
      match ts with
      | [] => ret []
      | t0 :: ts' => d0 <- f t0 ;; r <- dec_seq ts' ;; ret (d0 :: r)
      end.
  End DS.
  Section FO. Variable f : D -> V -> option D.
    Fixpoint fold_opt (l : list V) (d : D) : option D :=
      match l with
      | [] => Some d
      | x :: l' => match f d x with Some d1 => fold_opt l' d1 | None => None end
      end.
  End FO.
  Section US. Variable f : T -> parser unit.
    Fixpoint unit_seq (ts : list T) : parser unit :=
      match ts with
      | [] => ret tt
      | t0 :: ts' => f t0 ;;; unit_seq ts'
      end.
  End US.
End Seq.

(* ---- enum definitions (ColEnum.parse fills two Go maps: last definition wins) --- *)
Fixpoint enum_str_to_raw (defs : list (bytes * Z)) (s : bytes) : option Z :=
  match defs with
  | [] => None
  | (n, z) :: defs' =>
    match enum_str_to_raw defs' s with
    | Some r => Some r
    | None => if bytes_eqb n s then Some z else None
    end
  end.
Fixpoint enum_raw_to_str (defs : list (bytes * Z)) (z : Z) : option bytes :=
  match defs with
  | [] => None
  | (n, z') :: defs' =>
    match enum_raw_to_str defs' z with
    | Some r => Some r
    | None => if (z' =? z)%Z then Some n else None
    end
  end.

(* ---- Rows() ---------------------------------------------------------------- *)
Fixpoint rows (t : ty) (d : cdata) : N :=
  match t, d with
  | TFix _ _, DFix vs => blen vs
  | TBool, DBool vs => blen vs
  | TUUID, DBytes vs | TStr, DBytes vs | TJSON, DBytes vs => N.of_nat (length vs)
  | TFixedStr n, DFixedStr buf => match n with O => 0 | _ => blen buf / N.of_nat n end
  | TNothing, DNothing n => n
  | TPoint, DPoint xs _ => blen xs
  | TEnum _ _ _, DEnum vals _ => N.of_nat (length vals)
  | TArr _, DArr offs _ => blen offs
  | TNullable _, DNullable nulls _ => blen nulls
  | TLowCard _, DLowCard vals _ _ _ => N.of_nat (length vals)
  | TMap _ _, DMap offs _ _ => blen offs
  | TTuple ts, DTuple ds =>
    match ts, ds with
    | t0 :: _, d0 :: _ => rows t0 d0
    | _, _ => 0
    end
  | TNamed _ t', _ => rows t' d
  | _, _ => 0
  end.

(* ---- fresh / Reset() ------------------------------------------------------- *)
Fixpoint empty (t : ty) : cdata :=
  match t with
  | TFix _ _ => DFix []
  | TBool => DBool []
  | TUUID | TStr | TJSON => DBytes []
  | TFixedStr _ => DFixedStr []
  | TNothing => DNothing 0
  | TPoint => DPoint [] []
  | TEnum _ _ _ => DEnum [] []
  | TArr t' => DArr [] (empty t')
  | TNullable t' => DNullable [] (empty t')
  | TLowCard t' => DLowCard [] (empty t') 0 []
  | TMap k v => DMap [] (empty k) (empty v)
  | TTuple ts => DTuple (map empty ts)
  | TNamed _ t' => empty t'
  end.

(* ---- Row(i): None where the Go accessor panics ------------------------------ *)
Fixpoint row (t : ty) (d : cdata) (i : nat) : option val :=
  match t, d with
  | TFix _ _, DFix vs => option_map VN (nth_error vs i)
  | TBool, DBool vs => option_map (fun b => VBool (negb (b =? 0))) (nth_error vs i)
  | TUUID, DBytes vs | TStr, DBytes vs | TJSON, DBytes vs => option_map VB (nth_error vs i)
  | TFixedStr n, DFixedStr buf =>
    if Nat.leb ((i + 1) * n) (length buf) then Some (VB (firstn n (skipn (i * n) buf))) else None
  | TNothing, DNothing n => if N.of_nat i <? n then Some VUnit else None
  | TPoint, DPoint xs ys =>
    match nth_error xs i, nth_error ys i with
    | Some x, Some y => Some (VPoint x y)
    | _, _ => None
    end
  | TEnum _ _ _, DEnum vals _ => option_map VB (nth_error vals i)
  | TArr t', DArr offs d' =>
    match nth_error offs i with
    | None => None
    | Some e =>
      let s := match i with O => 0 | S j => nth j offs 0 end in
      option_map VArr (mapM (row t' d') (seq (N.to_nat s) (N.to_nat e - N.to_nat s)))
    end
  | TNullable t', DNullable nulls d' =>
    match nth_error nulls i, row t' d' i with
    | Some nl, Some v => Some (VOpt (nl =? 0) v)
    | _, _ => None
    end
  | TLowCard _, DLowCard vals _ _ _ => nth_error vals i
  | TMap tk tv, DMap offs dk dv =>
    match nth_error offs i with
    | None => None
    | Some e =>
      let s := match i with O => 0 | S j => nth j offs 0 end in
      option_map VMap
        (mapM (fun idx => match row tk dk idx, row tv dv idx with
                          | Some a, Some b => Some (a, b)
                          | _, _ => None
                          end)
              (seq (N.to_nat s) (N.to_nat e - N.to_nat s)))
    end
  | TTuple ts, DTuple ds => option_map VTup (map2o (fun t0 d0 => row t0 d0 i) ts ds)
  | TNamed _ t', _ => row t' d i
  | _, _ => None
  end.

(* ---- Append(v): None = the value does not have the column's Go type ----------- *)
Fixpoint append (t : ty) (d : cdata) (v : val) : option cdata :=
  match t, d, v with
  | TFix _ w, DFix vs, VN n => if n <? 256 ^ N.of_nat w then Some (DFix (vs ++ [n])) else None
  | TBool, DBool vs, VBool b => Some (DBool (vs ++ [if b then 1 else 0]))
  | TUUID, DBytes vs, VB b => if (length b =? 16)%nat then Some (DBytes (vs ++ [b])) else None
  | TStr, DBytes vs, VB b | TJSON, DBytes vs, VB b => Some (DBytes (vs ++ [b]))
  | TFixedStr n, DFixedStr buf, VB b =>
    if (length b =? n)%nat then Some (DFixedStr (buf ++ b)) else None
  | TNothing, DNothing n, VUnit => Some (DNothing (n + 1))
  | TPoint, DPoint xs ys, VPoint x y =>
    if (x <? 2 ^ 64) && (y <? 2 ^ 64) then Some (DPoint (xs ++ [x]) (ys ++ [y])) else None
  | TEnum _ _ _, DEnum vals raw, VB s => Some (DEnum (vals ++ [s]) raw)
  | TArr t', DArr offs d', VArr l =>
    match fold_opt (append t') l d' with
    | Some d'' => Some (DArr (offs ++ [rows t' d'']) d'')
    | None => None
    end
  | TNullable t', DNullable nulls d', VOpt set x =>
    match append t' d' x with
    | Some d'' => Some (DNullable (nulls ++ [if set then 0 else 1]) d'')
    | None => None
    end
  | TLowCard _, DLowCard vals idx key keys, x => Some (DLowCard (vals ++ [x]) idx key keys)
  | TMap tk tv, DMap offs dk dv, VMap l =>
    match fold_opt (fun (ab : cdata * cdata) (xy : val * val) =>
                      match append tk (fst ab) (fst xy), append tv (snd ab) (snd xy) with
                      | Some a', Some b' => Some (a', b')
                      | _, _ => None
                      end) l (dk, dv) with
    | Some (dk', dv') => Some (DMap (offs ++ [rows tk dk']) dk' dv')
    | None => None
    end
  | TTuple ts, DTuple ds, VTup l => option_map DTuple (map3o append ts ds l)
  | TNamed _ t', _, _ => append t' d v
  | _, _, _ => None
  end.

Definition append_all (t : ty) (d : cdata) (l : list val) : option cdata := fold_opt (append t) l d.
Definition of_rows (t : ty) (l : list val) : option cdata := append_all t (empty t) l.

(* ---- Prepare(): None = error (unknown enum value) ------------------------------- *)
Definition lc_key_width (n : N) : N :=     (* math.MaxUint8 = 255 etc.; n = dictionary size *)
  if n <? 255 then Z.to_N KeyUInt8
  else if n <? 65535 then Z.to_N KeyUInt16
  else if n mod 2 ^ 32 <? 4294967295 then Z.to_N KeyUInt32
  else Z.to_N KeyUInt64.

Definition key_bytes (key : N) : nat := N.to_nat (2 ^ key).

Fixpoint prepare (t : ty) (d : cdata) : option cdata :=
  match t, d with
  | TEnum _ w defs, DEnum vals _ =>
    match mapM (enum_str_to_raw defs) vals with
    | Some zs => Some (DEnum vals (map (wrapN (8 * N.of_nat w)) zs))
    | None => None
    end
  | TArr t', DArr offs d' => option_map (DArr offs) (prepare t' d')
  | TNullable t', DNullable nulls d' => option_map (DNullable nulls) (prepare t' d')
  | TLowCard t', DLowCard vals _ _ _ =>
    let dict := dedup vals in
    match of_rows t' dict, mapM (fun v => index_of v dict) vals with
    | Some idx, Some ks =>
      Some (DLowCard vals idx (lc_key_width (N.of_nat (length dict))) (map N.of_nat ks))
    | _, _ => None
    end
  | TMap tk tv, DMap offs dk dv =>
    match prepare tk dk, prepare tv dv with
    | Some a, Some b => Some (DMap offs a b)
    | _, _ => None
    end
  | TTuple ts, DTuple ds => option_map DTuple (map2o prepare ts ds)
  | TNamed _ t', _ => prepare t' d
  | _, _ => Some d     (* not Preparable *)
  end.

(* ---- EncodeState / EncodeColumn ---------------------------------------------- *)
Fixpoint enc_state (t : ty) : bytes :=
  match t with
  | TJSON => put_u64 (Z.to_N JSONStringSerializationVersion)
  | TArr t' | TNullable t' | TNamed _ t' => enc_state t'
  | TLowCard t' => put_i64 sharedDictionariesWithAdditionalKeys ++ enc_state t'
  | TMap k v => enc_state k ++ enc_state v
  | TTuple ts => List.concat (map enc_state ts)
  | _ => []
  end.

(* little-endian host: the in-memory representation of a w-byte scalar *)
Definition host_repr (w : nat) (v : N) : bytes := le_put w v.

Definition enc_fix (b : build) (w : nat) (vs : list N) : bytes :=
  match b with
  | Safe => List.concat (map (le_put w) vs)          (* binary.LittleEndian.PutUintN per element *)
  | Unsafe => List.concat (map (host_repr w) vs)     (* memcpy of the slice's memory *)
  end.

Definition enc_bool (b : build) (vs : list N) : bytes :=
  match b with
  | Safe => map (fun x => if x =? 0 then Z.to_N boolFalse else Z.to_N boolTrue) vs
  | Unsafe => vs
  end.

Fixpoint enc (b : build) (t : ty) (d : cdata) : bytes :=
  match t, d with
  | TFix _ w, DFix vs => enc_fix b w vs
  | TBool, DBool vs => enc_bool b vs
  | TUUID, DBytes vs => List.concat (map swap16 vs)
  | TStr, DBytes vs | TJSON, DBytes vs => List.concat (map put_str vs)
  | TFixedStr _, DFixedStr buf => buf
  | TNothing, DNothing n => repeatN 0 (N.to_nat n)
  | TPoint, DPoint xs ys => enc_fix b 8 xs ++ enc_fix b 8 ys
  | TEnum _ w _, DEnum _ raw => enc_fix b w raw
  | TArr t', DArr offs d' => enc_fix b 8 offs ++ enc b t' d'
  | TNullable t', DNullable nulls d' => nulls ++ enc b t' d'
  | TLowCard t', DLowCard vals idx key keys =>
    match vals with
    | [] => []
    | _ =>
      put_i64 (cardinalityUpdateAll + Z.of_N key) ++
      put_i64 (Z.of_N (rows t' idx)) ++ enc b t' idx ++
      put_i64 (Z.of_nat (length vals)) ++ enc_fix b (key_bytes key) keys
    end
  | TMap tk tv, DMap offs dk dv =>
    match offs with
    | [] => []
    | _ => enc_fix b 8 offs ++ enc b tk dk ++ enc b tv dv
    end
  | TTuple ts, DTuple ds => cat2 (enc b) ts ds
  | TNamed _ t', _ => enc b t' d
  | _, _ => []
  end.

(* ---- DecodeState / DecodeColumn into a reset column --------------------------- *)
(* checkRows of proto/block.go on a Go int *)
Definition check_rows (z : Z) : parser N :=
  if (z <? 0)%Z then fail EInvalid
  else if (maxRowsInBLock <? z)%Z then fail ELimit
  else ret (Z.to_N z).

(* ReadRaw(n): Ensure(n) then io.ReadFull; the count is still a wire-driven number *)
Definition read_rawN (n : N) : parser bytes := alloc n ;;; read_nN n.

Definition dec_fix (w : nat) (n : N) : parser (list N) :=
  if n =? 0 then ret []
  else bs <- read_rawN (n * N.of_nat w) ;; ret (map le_get (chunks w (N.to_nat n) bs)).

(* for i := 0; i < n; i++ with n still a wire value: every iteration of the loops this is
   used for consumes at least one byte or fails, so n > input length cannot succeed *)
Definition repN {A} (n : N) (p : parser A) : parser (list A) :=
  fun s => if n <=? blen s then rep (N.to_nat n) p s else
           match rep (length s) p s with   (* runs until the error the Go loop meets *)
           | Ok _ _ => Err EEof
           | Err e => Err e
           | Crash c => Crash c
           end.

Fixpoint monotoneb (prev : N) (l : list N) : bool :=
  match l with
  | [] => true
  | x :: l' => (prev <=? x) && monotoneb x l'
  end.

Fixpoint dec_state (t : ty) : parser unit :=
  match t with
  | TJSON => v <- get_u64 ;; if v =? Z.to_N JSONStringSerializationVersion then ret tt else fail EInvalid
  | TArr t' | TNullable t' | TNamed _ t' => dec_state t'
  | TLowCard t' =>
    v <- get_i64 ;;
    if (v =? sharedDictionariesWithAdditionalKeys)%Z then dec_state t' else fail EInvalid
  | TMap k v => dec_state k ;;; dec_state v
  | TTuple ts => unit_seq dec_state ts
  | _ => ret tt
  end.

Definition dec_bool (b : build) (n : N) : parser (list N) :=
  match b with
  | Safe =>
    bs <- read_rawN n ;;
    if forallb (fun x => (x =? Z.to_N boolTrue) || (x =? Z.to_N boolFalse)) bs then ret bs else fail EInvalid
  | Unsafe => if n =? 0 then ret [] else read_rawN n
  end.

Fixpoint dec (b : build) (t : ty) (n : N) : parser cdata :=
  match t with
  | TFix _ w => pmap DFix (dec_fix w n)
  | TBool => pmap DBool (dec_bool b n)
  | TUUID =>
    match b with
    | Safe => bs <- read_rawN (n * 16) ;; ret (DBytes (map swap16 (chunks 16 (N.to_nat n) bs)))
    | Unsafe => if n =? 0 then ret (DBytes [])
                else bs <- read_rawN (n * 16) ;; ret (DBytes (map swap16 (chunks 16 (N.to_nat n) bs)))
    end
  | TStr | TJSON => pmap DBytes (repN n get_str)
  | TFixedStr sz =>
    match sz with
    | O => if 0 <? n then fail EInvalid else ret (DFixedStr [])
    | _ => pmap DFixedStr (read_rawN (n * N.of_nat sz))
    end
  | TNothing => if n =? 0 then ret (DNothing 0) else read_rawN n ;;; ret (DNothing n)
  | TPoint => xs <- dec_fix 8 n ;; ys <- dec_fix 8 n ;; ret (DPoint xs ys)
  | TEnum _ w defs =>
    raw <- dec_fix w n ;;
    match mapM (fun r => enum_raw_to_str defs (to_signed (8 * N.of_nat w) r)) raw with
    | Some vals => ret (DEnum vals raw)
    | None => fail EInvalid
    end
  | TArr t' =>
    offs <- dec_fix 8 n ;;
    if negb (monotoneb 0 offs) then fail EInvalid else
    size <- check_rows (to_i64 (last_or0 offs)) ;;
    d <- dec b t' size ;;
    ret (DArr offs d)
  | TNullable t' =>
    nulls <- dec_fix 1 n ;;
    d <- dec b t' n ;;
    ret (DNullable nulls d)
  | TLowCard t' =>
    if n =? 0 then ret (empty (TLowCard t')) else
    meta <- get_i64 ;;
    let m := wrap64 meta in
    if negb (N.testbit m 9) then fail EInvalid else        (* additional-keys bit *)
    let key := m mod 256 in
    if 3 <? key then fail EInvalid else
    irows <- get_i64 ;;
    isz <- check_rows irows ;;
    idx <- dec b t' isz ;;
    krows <- get_i64 ;;
    _ <- check_rows krows ;;
    keys <- dec_fix (key_bytes key) n ;;
    (* int64(idx) >= indexRows || idx < 0 *)
    if negb (forallb (fun k => (to_i64 (k mod 2 ^ 64) <? irows)%Z && (0 <=? to_i64 (k mod 2 ^ 64))%Z) keys)
    then fail EInvalid else
    match mapM (fun k => row t' idx (N.to_nat k)) keys with
    | Some vals => ret (DLowCard vals idx key keys)
    | None => fun _ => Crash CIndex
    end
  | TMap tk tv =>
    if n =? 0 then ret (empty (TMap tk tv)) else
    offs <- dec_fix 8 n ;;
    if negb (monotoneb 0 offs) then fail EInvalid else
    cnt <- check_rows (to_i64 (last_or0 offs)) ;;
    dk <- dec b tk cnt ;;
    dv <- dec b tv cnt ;;
    ret (DMap offs dk dv)
  | TTuple ts => pmap DTuple (dec_seq (fun t0 => dec b t0 n) ts)
  | TNamed _ t' => dec b t' n
  end.

(* ---- Type() ---------------------------------------------------------------------- *)
Definition dec_of_nat (n : nat) : bytes := dec_of_N (N.of_nat n).

Fixpoint type_str (t : ty) : bytes :=
  match t with
  | TFix name _ => name
  | TBool => s2b "Bool"
  | TUUID => s2b "UUID"
  | TStr => s2b "String"
  | TJSON => s2b "JSON"
  | TFixedStr n => s2b "FixedString(" ++ dec_of_nat n ++ s2b ")"
  | TNothing => s2b "Nothing"
  | TPoint => s2b "Point"
  | TEnum name _ _ => name
  | TArr t' => s2b "Array(" ++ type_str t' ++ s2b ")"
  | TNullable t' => s2b "Nullable(" ++ type_str t' ++ s2b ")"
  | TLowCard t' => s2b "LowCardinality(" ++ type_str t' ++ s2b ")"
  | TMap k v => s2b "Map(" ++ type_str k ++ s2b ", " ++ type_str v ++ s2b ")"
  | TTuple ts =>
    match ts with
    | [] => s2b "Tuple"            (* With() of no parameters *)
    | _ =>
      s2b "Tuple(" ++
      (fix go (ts : list ty) : bytes :=
         match ts with
         | [] => []
         | [t0] => type_str t0
         | t0 :: ts' => type_str t0 ++ s2b ", " ++ go ts'
         end) ts ++ s2b ")"
    end
  | TNamed name t' => name ++ s2b " " ++ type_str t'
  end.

(* ---- well-formedness (boolean) ----------------------------------------------------- *)
(* columns under Nullable and LowCardinality are not prepared by the library: only
   column kinds without a Prepare step are valid there *)
Fixpoint no_prepare (t : ty) : bool :=
  match t with
  | TEnum _ _ _ | TLowCard _ => false
  | TArr t' | TNullable t' | TNamed _ t' => no_prepare t'
  | TMap k v => no_prepare k && no_prepare v
  | TTuple ts => forallb no_prepare ts
  | _ => true
  end.

(* element types a LowCardinality dictionary is built over: scalars that are
   comparable in Go and have one wire row per value *)
Definition lc_elem (t : ty) : bool :=
  match t with
  | TFix _ _ | TBool | TUUID | TStr | TJSON | TNothing | TPoint => true
  | _ => false
  end.

Definition enum_defs_ok (w : nat) (defs : list (bytes * Z)) : bool :=
  forallb (fun '(n, z) => (- 2 ^ (8 * Z.of_nat w - 1) <=? z)%Z && (z <? 2 ^ (8 * Z.of_nat w - 1))%Z &&
                          match enum_str_to_raw defs n, enum_raw_to_str defs z with
                          | Some z', Some n' => (z' =? z)%Z && bytes_eqb n' n
                          | _, _ => false
                          end) defs.

Fixpoint wf_ty (t : ty) : bool :=
  match t with
  | TFix _ w => Nat.ltb 0 w && Nat.leb w 512
  | TFixedStr n => Nat.ltb 0 n && (N.of_nat n <=? 65536)
  | TEnum _ w defs => ((w =? 1)%nat || (w =? 2)%nat) && enum_defs_ok w defs
  | TArr t' => wf_ty t'
  | TNullable t' => wf_ty t'
  | TLowCard t' => wf_ty t' && lc_elem t'
  | TMap k v => wf_ty k && wf_ty v
  | TTuple ts => forallb wf_ty ts
  | TNamed _ t' => wf_ty t'
  | _ => true
  end.

(* a value has the Go type of the column's rows *)
Fixpoint has_ty (t : ty) (v : val) : bool :=
  match t, v with
  | TFix _ w, VN n => n <? 256 ^ N.of_nat w
  | TBool, VBool _ => true
  | TUUID, VB b => (length b =? 16)%nat && wf_bytesb b
  | TStr, VB b | TJSON, VB b => wf_bytesb b && (blen b <? 2 ^ 63)
  | TFixedStr n, VB b => (length b =? n)%nat && wf_bytesb b
  | TNothing, VUnit => true
  | TPoint, VPoint x y => (x <? 2 ^ 64) && (y <? 2 ^ 64)
  | TEnum _ _ defs, VB s => match enum_str_to_raw defs s with Some _ => true | None => false end
  | TArr t', VArr l => forallb (has_ty t') l
  | TNullable t', VOpt _ x => has_ty t' x
  | TLowCard t', x => has_ty t' x
  | TMap tk tv, VMap l => forallb (fun '(a, b) => has_ty tk a && has_ty tv b) l
  | TTuple ts, VTup l => all2b has_ty ts l
  | TNamed _ t', _ => has_ty t' v
  | _, _ => false
  end.
