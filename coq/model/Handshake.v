(* L7: the client side of the handshake and what the client does with the negotiated revision.
   Mirrors /repo/handshake.go (handshake, encodeAddendum), /repo/client.go (Options.setDefaults,
   Connect, Dial's error path, packet/packetTimeout, exception, ServerInfo), /repo/ping.go and the
   parts of /repo/query.go that depend on the revision (the parameter guard of Do, sendQuery,
   encodeBlankBlock, the Progress/Profile/Exception/EndOfStream arms of the receive loop).

   Time is an abstract clock in the unit of time.Duration (nanoseconds); the clock starts when
   Connect is entered.  Local computation and writes take no time; the scripted peer accepts every
   write.  The peer is the byte chunks it answers with, the gap before each, and how it ends.
   Executable definitions only. *)
From CH Require Export model.Messages.
From CH Require Import gen.Features gen.Codes gen.Consts.
Open Scope N_scope.

(* ---------- the scripted peer and the clock ------------------------------------------- *)
Inductive tail := TCut (gap : N) | TStall.     (* the stream ends (EOF) after a last gap, or stays silent *)
Record peer := { p_chunks : list (N * bytes) ; p_tail : tail }.   (* (gap before the chunk, data) *)

Definition before (t : N) (d : option N) : bool :=
  match d with None => true | Some d => t <? d end.

(* bytes a reader with deadline [d] can obtain: the chunks that arrive strictly before [d]
   ([t] = arrival time of the previous chunk) *)
Fixpoint arrived (d : option N) (t : N) (cs : list (N * bytes)) : bytes :=
  match cs with
  | [] => []
  | (g, b) :: cs' => if before (t + g) d then b ++ arrived d (t + g) cs' else []
  end.

(* what a reader meets when it wants more than [arrived]: the end of the stream, or nothing
   until the deadline *)
Inductive rd_end := EndEof | EndWait.
Fixpoint stream_end (d : option N) (t : N) (cs : list (N * bytes)) (tl : tail) : rd_end :=
  match cs with
  | [] => match tl with
          | TCut g => if before (t + g) d then EndEof else EndWait
          | TStall => EndWait
          end
  | (g, _) :: cs' => if before (t + g) d then stream_end d (t + g) cs' tl else EndWait
  end.

(* client.go packetTimeout: the read deadline of one packet code *)
Definition packet_deadline (timeout : Z) (now : N) (ctxd : option N) : option N :=
  let dl := if (0 <? timeout)%Z then Some (now + Z.to_N timeout) else None in
  match ctxd, dl with
  | Some d, Some l => if d <? l then Some d else Some l
  | Some d, None => Some d
  | None, l => l
  end.

(* proto/feature.go Feature.In on a Go int *)
Definition feature_in (f : N) (v : Z) : bool := (Z.of_N f <=? v)%Z.
(* the revision as the message codecs of Messages.v take it (every threshold is positive) *)
Definition vN (v : Z) : N := Z.to_N v.

(* ---------- records ---------------------------------------------------------------------- *)
Record server_hello := {
  sh_name : bytes ; sh_major : Z ; sh_minor : Z ; sh_revision : Z ;
  sh_tz : bytes ; sh_display : bytes ; sh_patch : Z }.
Definition sh_fields (h : server_hello) : list fv :=
  [FStr (sh_name h); FZ (sh_major h); FZ (sh_minor h); FZ (sh_revision h);
   FStr (sh_tz h); FStr (sh_display h); FZ (sh_patch h)].
Definition sh_blank : server_hello :=
  {| sh_name := [] ; sh_major := 0 ; sh_minor := 0 ; sh_revision := 0 ; sh_tz := [] ; sh_display := [] ; sh_patch := 0 |}.
Definition sh_of_fields (l : list fv) : server_hello :=
  match l with
  | [FStr n; FZ ma; FZ mi; FZ r; FStr tz; FStr d; FZ p] =>
    {| sh_name := n ; sh_major := ma ; sh_minor := mi ; sh_revision := r ; sh_tz := tz ; sh_display := d ; sh_patch := p |}
  | _ => sh_blank
  end.
(* the hello as a client speaking revision [v] sees it: the server writes, and the client reads,
   the last three fields under the gates of proto/server_hello.go *)
Definition sh_gated (v : N) (h : server_hello) : server_hello :=
  {| sh_name := sh_name h ; sh_major := sh_major h ; sh_minor := sh_minor h ; sh_revision := sh_revision h ;
     sh_tz := if gate v FeatureTimezone then sh_tz h else [] ;
     sh_display := if gate v FeatureDisplayName then sh_display h else [] ;
     sh_patch := if gate v FeatureVersionPatch then sh_patch h else 0%Z |}.

(* ch.Options, the fields the handshake uses; durations in nanoseconds *)
Record options := {
  o_rev : Z ; o_db : bytes ; o_user : bytes ; o_pw : bytes ; o_quota : bytes ; o_cname : bytes ;
  o_rt : Z ; o_ht : Z }.
(* internal/version.Get(): decided by the build, an input here *)
Record buildinfo := { b_name : bytes ; b_major : Z ; b_minor : Z ; b_patch : Z }.

Definition s_default : bytes := [100; 101; 102; 97; 117; 108; 116].                      (* "default" *)
Definition s_proto_name : bytes :=                                                         (* proto.Name *)
  [99; 108; 105; 99; 107; 104; 111; 117; 115; 101; 47; 99; 104; 45; 103; 111].            (* "clickhouse/ch-go" *)
Definition is_empty (b : bytes) : bool := match b with [] => true | _ => false end.

(* client.go Options.setDefaults *)
Definition set_defaults (o : options) : options :=
  {| o_rev := if (o_rev o =? 0)%Z then proto_Version else o_rev o ;
     o_db := if is_empty (o_db o) then s_default else o_db o ;
     o_user := if is_empty (o_user o) then s_default else o_user o ;
     o_pw := o_pw o ; o_quota := o_quota o ; o_cname := o_cname o ;
     o_rt := if (o_rt o =? 0)%Z then ch_DefaultReadTimeout else o_rt o ;
     o_ht := if (o_ht o =? 0)%Z then ch_DefaultHandshakeTimeout else o_ht o |}.

(* client.go Connect: clientName *)
Definition client_name (bi : buildinfo) (o : options) : bytes :=
  if is_empty (o_cname o) then
    if is_empty (b_name bi) then s_proto_name
    else s_proto_name ++ [32; 40] ++ b_name bi ++ [41]            (* "%s (%s)" *)
  else s_proto_name ++ [32] ++ o_cname o.                        (* "%s %s" *)

(* the Client struct, as far as the revision matters *)
Record client := {
  c_ver : Z ;                   (* protocolVersion *)
  c_server : server_hello ;     (* server, returned by ServerInfo() *)
  c_info : list fv ;            (* info: the ClientHello that was sent *)
  c_name : bytes ; c_major : Z ; c_minor : Z ; c_patch : Z ;     (* version *)
  c_quota : bytes ;
  c_rt : Z ;                    (* readTimeout *)
  c_addr : bytes ;              (* conn.LocalAddr().String() *)
  c_closed : bool ;
  c_in : bytes }.               (* inbound bytes not yet consumed (reader buffer) *)

(* ---------- reading --------------------------------------------------------------------- *)
Definition is_server_code (n : N) : bool := existsb (Z.eqb (Z.of_N n)) server_codes.

(* client.go packet: uvarint, converted to the one-byte ServerCode, then IsAServerCode *)
Definition packet : parser N :=
  n <- uvarint ;;
  let code := n mod 256 in
  if is_server_code code then ret code else fail EInvalid.

(* client.go exception: a chain, each element saying whether another follows.
   Every iteration consumes at least one byte, so fuel = input length + 1 never runs out. *)
Definition ex_nested (ex : list fv) : bool :=
  match ex with [_; _; _; _; FB true] => true | _ => false end.
Fixpoint read_exceptions (fuel : nat) : parser (list (list fv)) :=
  match fuel with
  | O => fail EFuel
  | S f =>
    ex <- decode_Exception ;;
    if ex_nested ex then (r <- read_exceptions f ;; ret (ex :: r)) else ret [ex]
  end.
Definition client_exception : parser (list (list fv)) :=
  fun s => read_exceptions (S (length s)) s.

(* ---------- the handshake ----------------------------------------------------------------- *)
Inductive tri := TriNo | TriYes | TriAny.     (* was Close called on the connection: no / yes / a race decides *)

Inductive hs_err :=
| HCtx                              (* the handshake context was over before the hello could be written *)
| HEof                              (* the answer ended early *)
| HTimeout                          (* the answer did not arrive before the deadline *)
| HBad (e : err)                    (* not a packet code / a malformed message *)
| HException (es : list (list fv))  (* the server answered with an exception: carried in the error *)
| HUnexpected (code : N)            (* a packet other than Hello or Exception *)
| HCrash (c : crash).

Inductive outcome := Connected (c : client) | Failed (e : hs_err).
Record hs_result := { r_out : outcome ; r_wrote : bytes ; r_closed : tri }.

(* handshake.go: c.packetTimeout(ctx, NoTimeout) *)
Definition hello_timeout : Z := ch_NoTimeout.

(* a read that failed.  Running out of bytes means EOF if the stream ended, else the read lasted
   until the deadline: the read of the packet code carries the deadline of the handshake context
   itself (it returns at the same instant the watchdog fires: either may win); a read of the
   message body carries no deadline and only the watchdog's conn.Close() ends it. *)
Definition read_failure (e : err) (en : rd_end) (code_stage : bool) : hs_err * tri :=
  match e with
  | EEof => match en with
            | EndEof => (HEof, TriNo)
            | EndWait => (HTimeout, if code_stage then TriAny else TriYes)
            end
  | _ => (HBad e, TriNo)
  end.

Definition hs_fail (wrote : bytes) (x : hs_err * tri) : hs_result :=
  {| r_out := Failed (fst x) ; r_wrote := wrote ; r_closed := snd x |}.

(* handshake.go encodeAddendum under the FeatureAddendum test of handshake *)
Definition addendum (ver : Z) (quota : bytes) : bytes :=
  if feature_in FeatureAddendum ver then
    (if feature_in FeatureQuotaKey ver then put_str quota else [])
  else [].

(* client.go Connect + handshake.go handshake *)
Definition connect (bi : buildinfo) (o0 : options) (addr : bytes) (p : peer) : hs_result :=
  let o := set_defaults o0 in
  let name := client_name bi o in
  let info := [FStr name; FZ (b_major bi); FZ (b_minor bi); FZ (o_rev o);
               FStr (o_db o); FStr (o_user o); FStr (o_pw o)] in
  let hd := Z.to_N (o_ht o) in                         (* context.WithTimeout(ctx, opt.HandshakeTimeout) *)
  (* c.flush(wgCtx): ctx.Err() first *)
  if negb (0 <? hd) then hs_fail [] (HCtx, TriAny) else
  let hello := encode_ClientHello info in
  (* c.packetTimeout(ctx, NoTimeout) *)
  let dcode := packet_deadline hello_timeout 0 (Some hd) in
  let inp1 := arrived dcode 0 (p_chunks p) in
  match packet inp1 with
  | Err e => hs_fail hello (read_failure e (stream_end dcode 0 (p_chunks p) (p_tail p)) true)
  | Crash c => hs_fail hello (HCrash c, TriNo)
  | Ok code rest1 =>
    (* the body is read with no deadline of its own: everything that arrives before the
       watchdog closes the connection at the end of the handshake context *)
    let inp2 := rest1 ++ skipn (length inp1) (arrived (Some hd) 0 (p_chunks p)) in
    let en2 := stream_end (Some hd) 0 (p_chunks p) (p_tail p) in
    if code =? Z.to_N ServerCodeException then
      match client_exception inp2 with
      | Ok es _ => hs_fail hello (HException es, TriNo)
      | Err e => hs_fail hello (read_failure e en2 false)
      | Crash c => hs_fail hello (HCrash c, TriNo)
      end
    else if negb (code =? Z.to_N ServerCodeHello) then hs_fail hello (HUnexpected code, TriNo)
    else
      (* c.decode(&c.server): DecodeAware at c.protocolVersion, still the client's own revision *)
      match decode_ServerHello (vN (o_rev o)) inp2 with
      | Err e => hs_fail hello (read_failure e en2 false)
      | Crash c => hs_fail hello (HCrash c, TriNo)
      | Ok fs rest2 =>
        let sh := sh_of_fields fs in
        (* if c.protocolVersion > c.server.Revision { c.protocolVersion = c.server.Revision } *)
        let ver := if (sh_revision sh <? o_rev o)%Z then sh_revision sh else o_rev o in
        {| r_out := Connected
             {| c_ver := ver ; c_server := sh ; c_info := info ;
                c_name := name ; c_major := b_major bi ; c_minor := b_minor bi ; c_patch := b_patch bi ;
                c_quota := o_quota o ; c_rt := o_rt o ; c_addr := addr ;
                c_closed := false ; c_in := rest2 |} ;
           r_wrote := hello ++ addendum ver (o_quota o) ;
           r_closed := TriNo |}
      end
  end.

(* client.go Dial (with a Dialer that succeeds): the connection belongs to Dial, so a failed
   Connect closes it *)
Definition dial (bi : buildinfo) (o : options) (addr : bytes) (p : peer) : hs_result :=
  let r := connect bi o addr p in
  match r_out r with
  | Connected _ => r
  | Failed e => {| r_out := Failed e ; r_wrote := r_wrote r ; r_closed := TriYes |}
  end.

(* Client.ServerInfo *)
Definition server_info (c : client) : server_hello := c_server c.

(* ---------- after the handshake: everything goes through c_ver ----------------------------- *)
(* inbound bytes are given flat here (the follow-up answers are present when the client reads) *)

Inductive ping_end := PingOk | PingException (es : list (list fv)) | PingFail | PingClosed.
(* ping.go *)
Definition ping (c : client) (inb : bytes) : ping_end * bytes (* written *) * bytes (* inbound left *) :=
  if c_closed c then (PingClosed, [], c_in c ++ inb) else
  let wrote := code_byte ClientCodePing in
  match packet (c_in c ++ inb) with
  | Ok code rest =>
    if code =? Z.to_N ServerCodePong then (PingOk, wrote, rest)
    else if code =? Z.to_N ServerCodeException then
      match client_exception rest with
      | Ok es rest' => (PingException es, wrote, rest')
      | _ => (PingFail, wrote, [])
      end
    else (PingFail, wrote, rest)
  | _ => (PingFail, wrote, [])
  end.

(* ch.Query, the fields sendQuery uses for a query without input, result or external data *)
Record cquery := {
  cq_id : bytes ; cq_body : bytes ; cq_quota : bytes ; cq_inituser : bytes ;
  cq_settings : list (bytes * bytes * bool) ;       (* Key, Value, Important *)
  cq_params : list (bytes * bytes) ;
  cq_span : option span }.       (* trace.SpanContextFromContext(ctx) when it is valid: a traced caller context *)

Definition cq_setting (s : bytes * bytes * bool) : setting :=
  {| s_key := fst (fst s) ; s_val := snd (fst s) ; s_imp := snd s ; s_cust := false ; s_obs := false |}.

(* query.go sendQuery: the proto.Query it builds (compression disabled; the span of the caller's context, if any) *)
Definition mk_query (c : client) (q : cquery) : query :=
  {| q_id := cq_id q ;
     q_info := [FN (Z.to_N ClientQueryInitial); FStr (cq_inituser q); FStr (cq_id q); FStr (c_addr c);
                FZ 0; FN (Z.to_N InterfaceTCP); FStr []; FStr []; FStr (c_name c);
                FZ (c_major c); FZ (c_minor c); FZ (c_ver c);
                FStr (cq_quota q); FZ 0; FZ (c_patch c); FSpan (cq_span q); FB false; FZ 0; FZ 0] ;
     q_settings := map cq_setting (cq_settings q) ;
     q_secret := [] ;
     q_stage := Z.to_N StageComplete ;
     q_comp := Z.to_N CompressionDisabled ;
     q_body := cq_body q ;
     q_params := cq_params q |}.

(* query.go encodeBlankBlock: Data code, ClientData{""}, Block{} through WriteBlock *)
Definition blank_block (v : N) : bytes :=
  code_byte ClientCodeData ++ encode_ClientData v [FStr []] ++ encode_BlockHeader v blank_block_info 0 0.

(* what Do writes for such a query *)
Definition query_bytes (c : client) (q : cquery) : bytes :=
  encode_Query (vN (c_ver c)) (mk_query c q) ++ blank_block (vN (c_ver c)).

Inductive event := EvProgress (xs : list fv) | EvProfile (xs : list fv).
Inductive do_end :=
| DoOk | DoClosed | DoNoParams
| DoException (es : list (list fv))
| DoFail                      (* a read or decode failure *)
| DoUnmodelled (code : N).    (* a packet this layer does not model (blocks, logs, ...) *)

(* the receive loop of Do for telemetry packets: every iteration consumes at least the code byte *)
Fixpoint recv_loop (fuel : nat) (ver : Z) (inp : bytes) (acc : list event) : do_end * list event * bytes :=
  match fuel with
  | O => (DoFail, acc, inp)
  | S f =>
    match packet inp with
    | Ok code rest =>
      if code =? Z.to_N ServerCodeEndOfStream then (DoOk, acc, rest)
      else if code =? Z.to_N ServerCodeProgress then
        match decode_Progress (vN ver) rest with
        | Ok xs rest' => recv_loop f ver rest' (acc ++ [EvProgress xs])
        | _ => (DoFail, acc, [])
        end
      else if code =? Z.to_N ServerCodeProfile then
        match decode_Profile rest with
        | Ok xs rest' => recv_loop f ver rest' (acc ++ [EvProfile xs])
        | _ => (DoFail, acc, [])
        end
      else if code =? Z.to_N ServerCodeException then
        match client_exception rest with
        | Ok es rest' => (DoException es, acc, rest')
        | _ => (DoFail, acc, [])
        end
      else (DoUnmodelled code, acc, rest)
    | _ => (DoFail, acc, [])
    end
  end.

Record do_result := { d_end : do_end ; d_wrote : bytes ; d_events : list event ; d_left : bytes }.

(* len(q.Parameters) > 0 *)
Definition is_nil_params (q : cquery) : bool := match cq_params q with [] => true | _ => false end.

(* query.go Do, for a query without input/result *)
Definition do_query (c : client) (q : cquery) (inb : bytes) : do_result :=
  let inp := c_in c ++ inb in
  if c_closed c then {| d_end := DoClosed ; d_wrote := [] ; d_events := [] ; d_left := inp |}
  else if negb (is_nil_params q) && negb (feature_in FeatureParameters (c_ver c))
  then {| d_end := DoNoParams ; d_wrote := [] ; d_events := [] ; d_left := inp |}
  else
    let '(e, evs, lft) := recv_loop (S (length inp)) (c_ver c) inp [] in
    {| d_end := e ; d_wrote := query_bytes c q ; d_events := evs ; d_left := lft |}.
