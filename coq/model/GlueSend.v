(* Transcript interface for the send side of Client.Do (C02, C09).  See harness/c02.go, harness/c09.go.

     c02 <cfg> <query> x<recorded> (<h> ...) (<z> ...)
        ->  sent fail                         the model's sender returns an error
          | sent ok unsupported <t|f>         below settings-as-strings no server-side parser exists:
                                              the model sender's bytes = the recorded bytes
          | sent ok t # <t|f>                 the model's reference parser reads the RECORDED bytes as exactly
                                              expected_packets, nothing left;  after '#', as a diagnostic only:
                                              whether the model sender's bytes equal the recorded ones
          | sent ok f <packets as parsed>  |  sent ok parse-err <class>
     c02m <cfg> <query> x<altered bytes> (<h> ...) (<z> ...)   ->  accept | reject
        whether the reference parser reads the altered bytes as exactly expected_packets

     c09 <cfg> <query> <t|f streaming> (<step> ...) x<recorded> (<h> ...) (<z> ...)
        step ::= (<nil|eof|weof|err> (<cdata> ...))      what one OnInput call leaves and returns
        ->  sent <ok|fail|stuck> (<n> ...) <t|f|-> x<wire>
            n     = bytes on the wire when the i-th OnInput call begins
            t|f   = the reference parser reads the RECORDED bytes as Query, external data, one Data packet
                    per round of spec_stream, terminator (only when the sender ends normally and a parser exists)
            wire  = everything the model's sender flushed
        Between rounds the model's callback overwrites the first 256 bytes of every slice captured so far.

     cfg   ::= (<rev> <off|none|lz4|lz4hc|zstd> <level> ((xK xV t|f) ...) xNAME <major> <minor> <patch> xADDR)
     query ::= (xID xBODY xQUOTA xSECRET xINITIALUSER ((xK xV t|f) ...) ((xK xV) ...) <nil|(span ...)>
                (<col> ...) xEXTTABLE (<col> ...))
     col   ::= (xNAME <ty> <cdata>)                      as in GlueCol.v
     <h>, <z>: the CityHash128 values and codec results of the frames found in the recorded bytes, as in
     GlueCmp.v; the compressor oracle of the model's sender is the inverse lookup in <z>. *)
From CH Require Import model.Sx model.Messages model.Columns model.Block model.Compress model.Writer.
From CH Require Import model.GlueMsg model.GlueCol model.GlueCmp model.Send.
From CH Require Import gen.Features.
Open Scope N_scope.
Open Scope list_scope.

Definition get_cset (x : sx) : option (bytes * bytes * bool) :=
  match x with
  | L [k; v; i] =>
    match get_ab k, get_ab v, get_abool i with
    | Some k, Some v, Some i => Some (k, v, i)
    | _, _, _ => None
    end
  | _ => None
  end.

Definition get_comp (x : sx) (lvl : N) : option (option method) :=
  if is_sym x "off" then Some None else option_map Some (method_of x lvl).

Definition get_cfg (x : sx) : option ccfg :=
  match x with
  | L [rv; m; lvl; L sets; nm; mj; mn; pt; ad] =>
    match get_an rv, get_an lvl, map_opt get_cset sets, get_ab nm, get_az mj, get_az mn, get_az pt, get_ab ad with
    | Some rv, Some lvl, Some sets, Some nm, Some mj, Some mn, Some pt, Some ad =>
      match get_comp m lvl with
      | Some c => Some {| k_rev := rv ; k_comp := c ; k_settings := sets ; k_name := nm ;
                          k_major := mj ; k_minor := mn ; k_patch := pt ; k_addr := ad |}
      | None => None
      end
    | _, _, _, _, _, _, _, _ => None
    end
  | _ => None
  end.

Definition get_col (x : sx) : option col :=
  match x with
  | L [n; t; d] =>
    match get_ab n, get_ty 64 t, get_cdata 64 d with
    | Some n, Some t, Some d => Some {| c_name := n ; c_ty := t ; c_data := d |}
    | _, _, _ => None
    end
  | _ => None
  end.

Definition get_cquery (x : sx) : option cquery :=
  match x with
  | L [id; body; quota; secret; iuser; L sets; L ps; sp; L ext; extt; L inp] =>
    match get_ab id, get_ab body, get_ab quota, get_ab secret, get_ab iuser,
          map_opt get_cset sets, map_opt get_param ps, get_fv KSpan sp,
          map_opt get_col ext, get_ab extt, map_opt get_col inp with
    | Some id, Some body, Some quota, Some secret, Some iuser, Some sets, Some ps, Some (FSpan sp),
      Some ext, Some extt, Some inp =>
      Some {| u_id := id ; u_body := body ; u_quota := quota ; u_secret := secret ; u_initial_user := iuser ;
              u_settings := sets ; u_params := ps ; u_span := sp ;
              u_ext := ext ; u_ext_table := extt ; u_input := inp |}
    | _, _, _, _, _, _, _, _, _, _, _ => None
    end
  | _ => None
  end.

Definition get_step (x : sx) : option cb_step :=
  match x with
  | L [r; L ds] =>
    match (if is_sym r "nil" then Some CbNil else if is_sym r "eof" then Some CbEof
           else if is_sym r "weof" then Some CbWrapEof else if is_sym r "err" then Some CbErr else None),
          map_opt (get_cdata 64) ds with
    | Some r, Some ds =>
      (* the adversarial callback: every slice captured so far is overwritten *)
      Some {| cb_muts := map (fun id => (id, repeat 238 256)) (seq 0 48) ; cb_data := ds ; cb_ret := r |}
    | _, _ => None
    end
  | _ => None
  end.

(* the compressor as the inverse of the recorded codec results *)
Definition comp_of (t : ztab) (m : method) (p : bytes) : option bytes :=
  match find (fun e => match e with
                       | (mb, _, ds, Some out) => (mb =? method_enc m) && (ds =? blen p) && bytes_eqb out p
                       | _ => false
                       end) t with
  | Some (_, raw, _, _) => Some raw
  | None => None
  end.

Definition pr_col (c : col) : sx := L [ab (c_name c); ab (type_str (c_ty c)); pr_cdata (c_data c)].
Definition pr_dpacket (d : dpacket) : sx :=
  L [asym "d"; ab (d_table d); pr_bi (d_info d); az (d_cols d); az (d_rows d); L (map pr_col (d_data d))].
Definition pr_packet (p : packet) : sx :=
  match p with PQuery q => L [asym "q"; pr_query q] | PData d => pr_dpacket d end.

Definition same_packets (a b : list packet) : bool :=
  bytes_eqb (pr_items (map pr_packet a)) (pr_items (map pr_packet b)).

Definition status_sym (s : sstatus) : sx :=
  asym (match s with StOk => "ok" | StErr => "fail" | StStuck => "stuck" | StPanic => "panic" end).

Definition run_c02 (k : ccfg) (u : cquery) (rec : bytes) (ht : htab) (zt : ztab) : list sx :=
  let H := H_of ht in
  match client_do H (comp_of zt) k Unsafe u false [] with
  | (evs, StOk) =>
    let beq := bytes_eqb (wire evs) rec in
    if negb (gate (k_rev k) FeatureSettingsSerializedAsStrings)
    then [asym "sent"; asym "ok"; asym "unsupported"; abool beq]
    else
      match parse_client_stream H (decomp_of zt) k Unsafe (schema_of u) rec with
      | Ok pk _ =>
        if same_packets pk (expected_packets k u)
        then [asym "sent"; asym "ok"; asym "t"; asym "#"; abool beq]
        else asym "sent" :: asym "ok" :: asym "f" :: map pr_packet pk
      | Err e => [asym "sent"; asym "ok"; asym "parse-err"; err_sym e]
      | Crash c => [asym "sent"; asym "ok"; asym "parse-crash"; crash_sym c]
      end
  | (_, s) => [asym "sent"; status_sym s]
  end.

(* bytes on the wire at every OnInput call *)
Fixpoint marks (evs : list sev) (total : N) : list N :=
  match evs with
  | [] => []
  | EvFlush b :: r => marks r (total + blen b)
  | EvCall :: r => total :: marks r total
  end.

Definition stream_expected (k : ccfg) (u : cquery) (streaming : bool) (h : list cb_step) : list packet :=
  let v := k_rev k in
  match u_input u, streaming with
  | _ :: _, true =>
    let '(bs, _, _) := spec_stream (u_input u) h in
    PQuery (project_Query v (proto_query k u)) ::
    (match u_ext u with [] => [] | _ => [PData (data_packet v (ext_table u) (u_ext u))] end) ++
    [PData (blank_packet v)] ++ map (fun c => PData (data_packet v [] c)) bs ++ [PData (blank_packet v)]
  | _, _ => expected_packets k u
  end.

Definition run_c09 (k : ccfg) (u : cquery) (streaming : bool) (h : list cb_step) (rec : bytes)
           (ht : htab) (zt : ztab) : list sx :=
  let H := H_of ht in
  let '(evs, s) := client_do H (comp_of zt) k Unsafe u streaming h in
  let flag :=
    match s with
    | StOk =>
      if negb (gate (k_rev k) FeatureSettingsSerializedAsStrings) then asym "-"
      else match parse_client_stream H (decomp_of zt) k Unsafe (schema_of u) rec with
           | Ok pk _ => abool (same_packets pk (stream_expected k u streaming h))
           | _ => asym "f"
           end
    | _ => asym "-"
    end in
  [asym "sent"; status_sym s; L (map an (marks evs 0)); flag; ab (wire evs)].

Definition run_send (xs : list sx) : option (list sx) :=
  match xs with
  | [tag; cf; q; rc; L hs; L zs] =>
    if is_sym tag "c02" then
      match get_cfg cf, get_cquery q, get_ab rc with
      | Some k, Some u, Some rec =>
        match map_opt (get_h rec) hs, map_opt (get_z rec) zs with
        | Some ht, Some zt => Some (run_c02 k u rec ht zt)
        | _, _ => None
        end
      | _, _, _ => None
      end
    else if is_sym tag "c02m" then
      (* a malformed stream: does the reference parser read it as the expected packets? *)
      match get_cfg cf, get_cquery q, get_ab rc with
      | Some k, Some u, Some rec =>
        match map_opt (get_h rec) hs, map_opt (get_z rec) zs with
        | Some ht, Some zt =>
          Some [match parse_client_stream (H_of ht) (decomp_of zt) k Unsafe (schema_of u) rec with
                | Ok pk _ => if same_packets pk (expected_packets k u) then asym "accept" else asym "reject"
                | _ => asym "reject"
                end]
        | _, _ => None
        end
      | _, _, _ => None
      end
    else None
  | [tag; cf; q; st; L steps; rc; L hs; L zs] =>
    if is_sym tag "c09" then
      match get_cfg cf, get_cquery q, get_abool st, map_opt get_step steps, get_ab rc with
      | Some k, Some u, Some st, Some h, Some rec =>
        match map_opt (get_h rec) hs, map_opt (get_z rec) zs with
        | Some ht, Some zt => Some (run_c09 k u st h rec ht zt)
        | _, _ => None
        end
      | _, _, _, _, _ => None
      end
    else None
  | _ => None
  end.

Definition run_line (line : bytes) : bytes :=
  match parse_line line with
  | Some xs => match run_send xs with Some out => pr_items out | None => bad_line end
  | None => bad_line
  end.
