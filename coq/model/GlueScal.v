(* Transcript interface for the scalar conversions (C20).  One case line = an operation name followed by
   integers (byte strings only for IP addresses); many lines describe a whole batch of instants / values so
   that exhaustive sweeps stay cheap.  Output = exactly what harness/c20.go prints for the implementation.

     civil D0 N                          -> ok  y m d back   for each day D0..D0+N-1   (back = days_from_civil y m d)
     godate y m d h mi s ns off          -> ok  unix nsec                               (time.Date in a fixed zone)
     add off ns unix d                   -> ok  unix nsec                               (Time.Add)
     date   off ns sod D0 stride N       -> ok  v u        for each local day D0+i*stride, instant = day*86400+sod-off
     date32 off ns sod D0 stride N       -> ok  v u
     dt   loc has cloc off ns U0 stride N       -> ok  v u o      for each unix second U0+i*stride
     dt64 p loc has cloc off ns U0 stride N     -> ok  v u n o
     dt64raw p loc v ...                 -> ok  u n o v'   for each raw value (v' = ToDateTime64 of the Time)
     scale p ...                         -> ok  scale valid
     i128 / u128i / i128u / u128 / i256 / u256i / u256  v ...   -> limbs and accessors
     i128raw lo hi / u128raw lo hi       -> accessors
     ipv4 v ...                          -> ok  a b c d v'
     toipv4 x<bytes> / toipv6 x<bytes> / ipv6 x<16 bytes>
     ivl scale off ns unix v ...         -> ok  u n o  for each value | crash *)
From CH Require Import model.Sx model.Scalars.
Open Scope Z_scope.

Definition bz (b : bool) : Z := if b then 1 else 0.

Fixpoint sweep (n : nat) (x stride : Z) (f : Z -> list Z) : list Z :=
  match n with
  | O => []
  | S k => f x ++ sweep k (x + stride) stride f
  end.

Definition ok_z (l : list Z) : option (list sx) := Some (asym "ok" :: map az l).

Definition civil_case (day : Z) : list Z :=
  let '(y, m, d) := civil_from_days day in [y; m; d; days_from_civil y m d].

Definition cloc_of (has cloc : Z) : option Z := if has =? 0 then None else Some cloc.

Definition i128_limbs (i : int128) : list Z := [lo128 i; hi128 i].
Definition i256_limbs (i : int256) : list Z := i128_limbs (lo256 i) ++ i128_limbs (hi256 i).

Definition nz (b : bytes) : list Z := map Z.of_N b.
Definition zn (b : list Z) : bytes := map Z.to_N b.
Definition addr_of_bytes (b : bytes) : option addr :=
  match length b with
  | O => Some AddrZero
  | 4%nat => Some (Addr4 (nz b))
  | 16%nat => Some (Addr6 (nz b))
  | _ => None
  end.

Definition run_nums (op : sx) (a : list Z) : option (list sx) :=
  if is_sym op "civil" then
    match a with
    | [d0; n] => ok_z (sweep (Z.to_nat n) d0 1 civil_case)
    | _ => None
    end
  else if is_sym op "godate" then
    match a with
    | [y; m; d; h; mi; s; ns; off] => let t := go_Date y m d h mi s ns off in ok_z [unix t; nsec t]
    | _ => None
    end
  else if is_sym op "add" then
    match a with
    | [off; ns; u; d] => let t := t_Add (mkT u ns off) d in ok_z [unix t; nsec t]
    | _ => None
    end
  else if is_sym op "date" then
    match a with
    | [off; ns; sod; d0; stride; n] =>
      ok_z (sweep (Z.to_nat n) d0 stride (fun day =>
        let t := mkT (day * 86400 + sod - off) ns off in
        let v := col_date_Append t in [v; unix (col_date_Row v)]))
    | _ => None
    end
  else if is_sym op "date32" then
    match a with
    | [off; ns; sod; d0; stride; n] =>
      ok_z (sweep (Z.to_nat n) d0 stride (fun day =>
        let t := mkT (day * 86400 + sod - off) ns off in
        let v := col_date32_Append t in [v; unix (col_date32_Row v)]))
    | _ => None
    end
  else if is_sym op "dt" then
    match a with
    | [loc; has; cloc; off; ns; u0; stride; n] =>
      ok_z (sweep (Z.to_nat n) u0 stride (fun u =>
        let v := col_datetime_Append (mkT u ns off) in
        let r := col_datetime_Row loc (cloc_of has cloc) v in [v; unix r; zoff r]))
    | _ => None
    end
  else if is_sym op "dt64" then
    match a with
    | [p; loc; has; cloc; off; ns; u0; stride; n] =>
      ok_z (sweep (Z.to_nat n) u0 stride (fun u =>
        let v := col_datetime64_Append (mkT u ns off) p in
        let r := col_datetime64_Row loc (cloc_of has cloc) p v in [v; unix r; nsec r; zoff r]))
    | _ => None
    end
  else if is_sym op "dt64raw" then
    match a with
    | p :: loc :: vs =>
      ok_z (flat_map (fun v => let r := datetime64_Time loc v p in
                               [unix r; nsec r; zoff r; to_datetime64 r p]) vs)
    | _ => None
    end
  else if is_sym op "scale" then
    ok_z (flat_map (fun p => [precision_Scale p; bz (precision_Valid p)]) a)
  else if is_sym op "i128" then
    ok_z (flat_map (fun v => let i := int128_FromInt v in i128_limbs i ++ [int128_Int i; int128_UInt64 i]) a)
  else if is_sym op "i128u" then
    ok_z (flat_map (fun v => let i := int128_FromUInt64 v in i128_limbs i ++ [int128_Int i; int128_UInt64 i]) a)
  else if is_sym op "u128i" then
    ok_z (flat_map (fun v => let i := uint128_FromInt v in i128_limbs i ++ [uint128_UInt64 i; uint128_Int i]) a)
  else if is_sym op "u128" then
    ok_z (flat_map (fun v => let i := uint128_FromUInt64 v in i128_limbs i ++ [uint128_UInt64 i; uint128_Int i]) a)
  else if is_sym op "i128raw" then
    match a with
    | [lo; hi] => let i := mk128 lo hi in ok_z [int128_Int i; int128_UInt64 i]
    | _ => None
    end
  else if is_sym op "u128raw" then
    match a with
    | [lo; hi] => let i := mk128 lo hi in ok_z [uint128_UInt64 i; uint128_Int i]
    | _ => None
    end
  else if is_sym op "i256" then ok_z (flat_map (fun v => i256_limbs (int256_FromInt v)) a)
  else if is_sym op "u256i" then ok_z (flat_map (fun v => i256_limbs (uint256_FromInt v)) a)
  else if is_sym op "u256" then ok_z (flat_map (fun v => i256_limbs (uint256_FromUInt64 v)) a)
  else if is_sym op "ipv4" then
    ok_z (flat_map (fun v =>
      let ip := ipv4_ToIP v in
      match ip with Addr4 b => b | _ => [] end ++
      [match to_IPv4 ip with Some x => x | None => -1 end]) a)
  else if is_sym op "ivl" then
    match a with
    | scale :: off :: ns :: u :: vs =>
      match map_opt (fun v => interval_Add scale v (mkT u ns off)) vs with
      | Some ts => ok_z (flat_map (fun t => [unix t; nsec t; zoff t]) ts)
      | None => Some [asym "crash"]
      end
    | _ => None
    end
  else None.

Definition run_scal (xs : list sx) : option (list sx) :=
  match xs with
  | [op; arg] =>
    match get_ab arg with
    | Some b =>
      match addr_of_bytes b with
      | None => None
      | Some ad =>
        if is_sym op "toipv4" then
          match to_IPv4 ad with Some v => ok_z [v] | None => Some [asym "crash"] end
        else if is_sym op "toipv6" then Some [asym "ok"; ab (zn (to_IPv6 ad))]
        else if is_sym op "ipv6" then
          match ad with
          | Addr6 b6 =>
            match ipv6_ToIP b6 with
            | Addr6 r => Some [asym "ok"; asym "v6"; abool (is4in6 r); ab (zn (addr_As16 (Addr6 r)))]
            | Addr4 r => Some [asym "ok"; asym "v4"; abool false; ab (zn (addr_As16 (Addr4 r)))]
            | AddrZero => Some [asym "ok"; asym "zero"]
            end
          | _ => None
          end
        else None
      end
    | None =>
      match map_opt get_az [arg] with Some a => run_nums op a | None => None end
    end
  | op :: args =>
    match map_opt get_az args with Some a => run_nums op a | None => None end
  | [] => None
  end.

Definition run_line (line : bytes) : bytes :=
  match parse_line line with
  | Some xs => match run_scal xs with Some out => pr_items out | None => bad_line end
  | None => bad_line
  end.
