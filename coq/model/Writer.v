(* L6: the vectored writer, /repo/proto/writer.go, over an explicit memory model.

   Go objects that matter here:
     - a heap of byte arrays of fixed size ([heap], array id = index); a Go slice is (array, offset, len, cap);
     - w.buf.Buf, the staging buffer: a slice at offset 0 of its array ([bufr]: array, len, cap);
     - w.bufOffset ([boff]): start of the part of the staging buffer that is not yet cut;
     - w.vec (net.Buffers): ordered list of slices to write: cuts of the staging buffer ([PBuf]) and
       caller-owned slices chained without copying ([PExt], contents live in [ext] and can be
       mutated by the caller between ChainWrite and Flush);
     - w.conn: an io.Writer ([sink]).
   append(s, d...) writes in place beyond len when it fits, else allocates a new array; whether
   and how much is an argument of the operation (an oracle), so that everything proved holds for
   EVERY reallocation behaviour, Go's included.

   Executable definitions only.  [None] = the Go code panics (slice bounds out of range). *)
From CH Require Export model.Bytes.
Open Scope nat_scope.

(* ---- arrays ------------------------------------------------------------ *)
Definition heap_t := list bytes.

Definition arr_read (a : bytes) (off len : nat) : bytes := firstn len (skipn off a).

(* copy(a[pos:], d) when pos + |d| <= |a| *)
Definition arr_write (a : bytes) (pos : nat) (d : bytes) : bytes :=
  firstn pos a ++ d ++ skipn (pos + length d) a.

Fixpoint list_upd {X} (l : list X) (i : nat) (x : X) : list X :=
  match l, i with
  | [], _ => []
  | _ :: l', O => x :: l'
  | y :: l', S j => y :: list_upd l' j x
  end.

Definition harr (h : heap_t) (a : nat) : bytes := nth a h [].

(* ---- slices ------------------------------------------------------------ *)
Record bufr := mkbuf { b_arr : nat ; b_len : nat ; b_cap : nat }.

Inductive piece :=
| PBuf (arr off len cap : nat)     (* w.buf.Buf[off : off+len : off+cap] *)
| PExt (id : nat).                 (* a caller-owned slice, whole *)

Record wst := mkw {
  heap : heap_t ;
  ext : list bytes ;
  buf : bufr ;          (* w.buf.Buf *)
  boff : nat ;          (* w.bufOffset *)
  vec : list piece      (* w.vec *)
}.

Definition set_buf (st : wst) (h : heap_t) (b : bufr) : wst :=
  mkw h (ext st) b (boff st) (vec st).

(* NewWriter(conn, &Buffer{Buf: make([]byte, len init, cap)}) with the given initial contents *)
Definition winit (init : bytes) (cap : nat) (e : list bytes) : wst :=
  let c := Nat.max cap (length init) in
  mkw [init ++ repeat 0%N (c - length init)] e (mkbuf 0 (length init) c) 0 [].

(* ---- what a ChainBuffer callback may do to the Buffer ------------------ *)
Inductive bop :=
| BApp (d : bytes) (force : bool) (extra : nat)
     (* b.Buf = append(b.Buf, d...).  Reallocates iff it does not fit or [force]; the new array has
        [extra] spare bytes.  Go: force = false. *)
| BSet (start : nat) (d : bytes)      (* copy(b.Buf[start:], d) *)
| BTrunc (n : nat).                   (* b.Buf = b.Buf[:n] *)

Definition go_append (h : heap_t) (b : bufr) (d : bytes) (force : bool) (extra : nat) : heap_t * bufr :=
  let need := b_len b + length d in
  if (need <=? b_cap b) && negb force then
    (list_upd h (b_arr b) (arr_write (harr h (b_arr b)) (b_len b) d), mkbuf (b_arr b) need (b_cap b))
  else
    (h ++ [firstn (b_len b) (harr h (b_arr b)) ++ d ++ repeat 0%N extra], mkbuf (length h) need (need + extra)).

Definition bstep (h : heap_t) (b : bufr) (o : bop) : option (heap_t * bufr) :=
  match o with
  | BApp d force extra => Some (go_append h b d force extra)
  | BSet start d =>
    if b_len b <? start then None                               (* b.Buf[start:] out of range *)
    else let d' := firstn (b_len b - start) d in                (* copy copies min(len dst, len src) *)
         Some (list_upd h (b_arr b) (arr_write (harr h (b_arr b)) start d'), b)
  | BTrunc n =>
    if b_cap b <? n then None                                   (* b.Buf[:n] beyond cap *)
    else Some (h, mkbuf (b_arr b) n (b_cap b))
  end.

Fixpoint brun (h : heap_t) (b : bufr) (os : list bop) : option (heap_t * bufr) :=
  match os with
  | [] => Some (h, b)
  | o :: os' => match bstep h b o with
                | Some (h', b') => brun h' b' os'
                | None => None
                end
  end.

(* ---- Writer methods ---------------------------------------------------- *)
(* func (w *Writer) cutBuffer() *)
Definition cut_buffer (st : wst) : option wst :=
  let newOffset := b_len (buf st) in
  if newOffset <? boff st then None            (* w.buf.Buf[w.bufOffset:newOffset:newOffset] panics *)
  else
    let n := newOffset - boff st in
    let data := PBuf (b_arr (buf st)) (boff st) n n in      (* three-index slice: cap = len *)
    if n =? 0 then Some st
    else Some (mkw (heap st) (ext st) (buf st) newOffset (vec st ++ [data])).

(* func (w *Writer) ChainWrite(data []byte) *)
Definition chain_write (st : wst) (id : nat) : option wst :=
  match cut_buffer st with
  | None => None
  | Some st1 => Some (mkw (heap st1) (ext st1) (buf st1) (boff st1) (vec st1 ++ [PExt id]))
  end.

(* func (w *Writer) ChainBuffer(cb) *)
Definition chain_buffer (st : wst) (cb : list bop) : option wst :=
  match brun (heap st) (buf st) cb with
  | None => None
  | Some (h, b) => Some (set_buf st h b)
  end.

(* ---- the io.Writer behind the writer ---------------------------------- *)
Inductive sink :=
| SAccept                              (* takes everything *)
| SFailAfter (n : nat)                 (* takes n more bytes in total, then fails: the Write that crosses
                                          the limit reports the part it took and an error *)
| SShort (k : nat) (witherr : bool).   (* takes at most k bytes per Write; a longer one is cut short, reporting
                                          io.ErrShortWrite when [witherr] (otherwise it breaks io.Writer's contract) *)

Definition sink_write (s : sink) (p : bytes) : nat * bool * sink :=
  match s with
  | SAccept => (length p, false, s)
  | SFailAfter n => if length p <=? n then (length p, false, SFailAfter (n - length p))
                    else (n, true, SFailAfter 0)
  | SShort k e => if length p <=? k then (length p, false, s) else (k, e, s)
  end.

Definition read_piece (h : heap_t) (e : list bytes) (p : piece) : bytes :=
  match p with
  | PBuf a off len _ => arr_read (harr h a) off len
  | PExt id => nth id e []
  end.

(* a sink that does append(p, scr...) on the slice it is handed: in place iff it fits in cap(p) *)
Definition scribble (h : heap_t) (p : piece) (scr : bytes) : heap_t :=
  match p with
  | PBuf a off len cap =>
    if len + length scr <=? cap then list_upd h a (arr_write (harr h a) (off + len) scr) else h
  | PExt _ => h
  end.

Definition piece_len (h : heap_t) (e : list bytes) (p : piece) : nat := length (read_piece h e p).

(* func (v *Buffers) consume(n int64): drops whole pieces, advances into the first remaining one *)
Fixpoint consume (h : heap_t) (e : list bytes) (v : list piece) (n : nat) : list piece :=
  match v with
  | [] => []
  | p :: v' =>
    let ln0 := piece_len h e p in
    if n <? ln0 then
      match p with
      | PBuf a off len cap => PBuf a (off + n) (len - n) (cap - n) :: v'
      | PExt id => p :: v'       (* position inside a caller-owned slice: not tracked, the vector is cleared next *)
      end
    else consume h e v' (n - ln0)
  end.

(* one Write call as seen from outside: the slice presented and how many bytes the sink took *)
Record flush_obs := mkfo {
  fo_calls : list (bytes * nat) ;
  fo_n : nat ;            (* n returned by Flush *)
  fo_err : bool           (* err != nil *)
}.

(* func (v *Buffers) WriteTo(w io.Writer) for a writer without writeBuffers:
     for _, b := range *v { nb, err := w.Write(b); n += nb; if err != nil { v.consume(n); return n, err } }
     v.consume(n); return n, nil *)
Fixpoint write_loop (h : heap_t) (e : list bytes) (v : list piece) (sk : sink) (scr : bytes)
         (n : nat) (calls : list (bytes * nat)) : heap_t * nat * bool * list (bytes * nat) :=
  match v with
  | [] => (h, n, false, calls)
  | p :: v' =>
    let data := read_piece h e p in
    let '(nb, err, sk') := sink_write sk data in
    let h' := scribble h p scr in
    let n' := n + nb in
    let calls' := calls ++ [(data, nb)] in
    if err then (h', n', true, calls')
    else write_loop h' e v' sk' scr n' calls'
  end.

(* func (w *Writer) reset(): bufOffset = 0; buf.Reset(); clear(vec); vec = vec[:0] *)
Definition reset (st : wst) (v_after_consume : list piece) : wst :=
  mkw (heap st) (ext st) (mkbuf (b_arr (buf st)) 0 (b_cap (buf st))) 0 (firstn 0 v_after_consume).

(* func (w *Writer) Flush() (n int64, err error) *)
Definition flush (st : wst) (sk : sink) (scr : bytes) : option (wst * flush_obs) :=
  match cut_buffer st with
  | None => None
  | Some st1 =>
    let '(h, n, err, calls) := write_loop (heap st1) (ext st1) (vec st1) sk scr 0 [] in
    let v' := consume h (ext st1) (vec st1) n in
    Some (reset (mkw h (ext st1) (buf st1) (boff st1) (vec st1)) v', mkfo calls n err)
  end.

(* ---- operations on a writer and its environment ----------------------- *)
Inductive wop :=
| WChainBuffer (cb : list bop)
| WChainWrite (id : nat)
| WMutExt (id : nat) (d : bytes)      (* the caller overwrites a slice it owns: copy(ext[id], d) *)
| WFlush (sk : sink) (scr : bytes).

Definition mut_ext (e : list bytes) (id : nat) (d : bytes) : list bytes :=
  let old := nth id e [] in
  list_upd e id (arr_write old 0 (firstn (length old) d)).

Definition wstep (st : wst) (o : wop) : option (wst * list flush_obs) :=
  match o with
  | WChainBuffer cb => match chain_buffer st cb with Some st' => Some (st', []) | None => None end
  | WChainWrite id => match chain_write st id with Some st' => Some (st', []) | None => None end
  | WMutExt id d => Some (mkw (heap st) (mut_ext (ext st) id d) (buf st) (boff st) (vec st), [])
  | WFlush sk scr => match flush st sk scr with Some (st', fo) => Some (st', [fo]) | None => None end
  end.

(* run a history; the result is the list of flush observations, and whether and where it panicked *)
Fixpoint wrun (st : wst) (ops : list wop) : option (wst * list flush_obs) :=
  match ops with
  | [] => Some (st, [])
  | o :: ops' =>
    match wstep st o with
    | None => None
    | Some (st', f1) =>
      match wrun st' ops' with
      | None => None
      | Some (st'', f2) => Some (st'', f1 ++ f2)
      end
    end
  end.

(* the same, keeping what was observed before a panic (for the transcript) *)
Fixpoint wrun_obs (st : wst) (ops : list wop) : list flush_obs * bool (* panicked *) * wst :=
  match ops with
  | [] => ([], false, st)
  | o :: ops' =>
    match wstep st o with
    | None => ([], true, st)
    | Some (st', f1) => let '(f2, c, stf) := wrun_obs st' ops' in (f1 ++ f2, c, stf)
    end
  end.

(* ======================================================================== *)
(* The specification: plain lists, no memory.  Everything appended or chained since the previous
   flush, in call order: closed items ([s_done]) and the still editable tail of the staging buffer
   ([s_tail]); [s_base] = how many staging-buffer bytes are already closed (positions given to
   BSet/BTrunc are absolute buffer positions, as in Go). *)
Inductive item := IBytes (b : bytes) | IExt (id : nat).

Record sst := mks {
  s_ext : list bytes ;
  s_done : list item ;
  s_base : nat ;
  s_tail : bytes
}.

Definition sfresh (e : list bytes) : sst := mks e [] 0 [].
Definition sinit (init : bytes) (e : list bytes) : sst := mks e [] 0 init.

(* the documented contract of a ChainBuffer callback: append, or rewrite/shrink the uncut tail *)
Definition sb_step (base : nat) (t : bytes) (o : bop) : option bytes :=
  match o with
  | BApp d _ _ => Some (t ++ d)
  | BSet start d =>
    if (base <=? start) && (start <=? base + length t)
    then Some (arr_write t (start - base) (firstn (base + length t - start) d))
    else None
  | BTrunc n =>
    if (base <=? n) && (n <=? base + length t) then Some (firstn (n - base) t) else None
  end.

Fixpoint sb_run (base : nat) (t : bytes) (os : list bop) : option bytes :=
  match os with
  | [] => Some t
  | o :: os' => match sb_step base t o with Some t' => sb_run base t' os' | None => None end
  end.

Definition close_tail (s : sst) : sst :=
  match s_tail s with
  | [] => s
  | t => mks (s_ext s) (s_done s ++ [IBytes t]) (s_base s + length t) []
  end.

Definition resolve (e : list bytes) (i : item) : bytes :=
  match i with IBytes b => b | IExt id => nth id e [] end.

(* what a flush has to deliver *)
Definition expected (s : sst) : bytes := concat (map (resolve (s_ext s)) (s_done s)) ++ s_tail s.

(* [None]: the history is outside the contract *)
Definition sstep (s : sst) (o : wop) : option (sst * list bytes) :=
  match o with
  | WChainBuffer cb =>
    match sb_run (s_base s) (s_tail s) cb with
    | Some t => Some (mks (s_ext s) (s_done s) (s_base s) t, [])
    | None => None
    end
  | WChainWrite id =>
    let s1 := close_tail s in
    Some (mks (s_ext s1) (s_done s1 ++ [IExt id]) (s_base s1) [], [])
  | WMutExt id d => Some (mks (mut_ext (s_ext s) id d) (s_done s) (s_base s) (s_tail s), [])
  | WFlush _ _ => Some (sfresh (s_ext s), [expected s])
  end.

Fixpoint srun (s : sst) (ops : list wop) : option (sst * list bytes) :=
  match ops with
  | [] => Some (s, [])
  | o :: ops' =>
    match sstep s o with
    | None => None
    | Some (s', e1) =>
      match srun s' ops' with
      | None => None
      | Some (s'', e2) => Some (s'', e1 ++ e2)
      end
    end
  end.

(* ---- reading a flush observation --------------------------------------- *)
Definition presented (fo : flush_obs) : bytes := concat (map fst (fo_calls fo)).
Definition accepted (fo : flush_obs) : bytes := concat (map (fun c => firstn (snd c) (fst c)) (fo_calls fo)).

Definition is_prefix (a b : bytes) : Prop := exists r, b = a ++ r.

(* an io.Writer that keeps its contract: a short count comes with an error *)
Definition conforming (sk : sink) : bool :=
  match sk with SShort _ e => e | _ => true end.

(* what one flush must look like, given what had been appended and chained ([e]) *)
Definition flush_ok (sk_conforming : bool) (fo : flush_obs) (e : bytes) : Prop :=
  is_prefix (presented fo) e /\
  (fo_err fo = false -> presented fo = e) /\
  fo_n fo = length (accepted fo) /\
  (sk_conforming = true ->
     is_prefix (accepted fo) e /\ (fo_err fo = false -> accepted fo = e) /\
     (fo_err fo = true -> length (accepted fo) < length e)).

Definition flush_sinks (ops : list wop) : list bool :=
  flat_map (fun o => match o with WFlush sk _ => [conforming sk] | _ => [] end) ops.

Fixpoint all_flush_ok (cs : list bool) (fos : list flush_obs) (es : list bytes) : Prop :=
  match cs, fos, es with
  | [], [], [] => True
  | c :: cs', fo :: fos', e :: es' => flush_ok c fo e /\ all_flush_ok cs' fos' es'
  | _, _, _ => False
  end.

(* ---- the refinement relation between writer and specification ----------
   W1: the pieces of vec, read from memory, are the closed items, and the uncut part of the staging
       buffer is the editable tail;
   W2: every buffer-backed piece is capacity-limited and lies below the cut point of its array if
       that array is still the staging buffer's (an array abandoned by a reallocation is never
       written again: writes go to the current array at positions >= boff, or to a new array). *)
Definition piece_ok (h : heap_t) (barr off : nat) (p : piece) (i : item) : Prop :=
  match p, i with
  | PBuf a o l c, IBytes b =>
    a < length h /\ c = l /\ o + l <= length (harr h a) /\ arr_read (harr h a) o l = b /\
    (a = barr -> o + l <= off)
  | PExt id, IExt id' => id = id'
  | _, _ => False
  end.

Definition wrel (st : wst) (s : sst) : Prop :=
  ext st = s_ext s /\
  b_arr (buf st) < length (heap st) /\
  b_cap (buf st) <= length (harr (heap st) (b_arr (buf st))) /\
  b_len (buf st) <= b_cap (buf st) /\
  boff st = s_base s /\
  boff st + length (s_tail s) = b_len (buf st) /\
  arr_read (harr (heap st) (b_arr (buf st))) (boff st) (length (s_tail s)) = s_tail s /\
  Forall2 (piece_ok (heap st) (b_arr (buf st)) (boff st)) (vec st) (s_done s).

(* ---- vocabulary of the statements in props/C14.v ------------------------ *)
Definition is_flush (o : wop) : bool := match o with WFlush _ _ => true | _ => false end.

(* a history with the reallocation oracle removed *)
Definition erase_bop (o : bop) : bop := match o with BApp d _ _ => BApp d false 0 | _ => o end.
Definition erase_oracle (o : wop) : wop :=
  match o with WChainBuffer cb => WChainBuffer (map erase_bop cb) | _ => o end.

(* operations a WriteColumn / WriteBlock issues: append-only callbacks and chained slices *)
Definition app_only (cb : list bop) : bool :=
  forallb (fun o => match o with BApp _ _ _ => true | _ => false end) cb.
Definition enc_op (o : wop) : bool :=
  match o with WChainBuffer cb => app_only cb | WChainWrite _ => true | _ => false end.
Definition cb_bytes (cb : list bop) : bytes :=
  concat (map (fun o => match o with BApp d _ _ => d | _ => [] end) cb).
(* what the same step appends to a plain Buffer *)
Definition plain (e : list bytes) (o : wop) : bytes :=
  match o with WChainBuffer cb => cb_bytes cb | WChainWrite id => nth id e [] | _ => [] end.
