(* Transcript interface for type strings (C19).
     infer x<type> ((x<zone query> x<Location.String()>) ...)  ->  ok <Go struct of Data> x<Data.Type()> | err <class> | crash <kind>
     two   x<type> (zones)                                     ->  ok x<Type() after the second header block> | err | crash
     confm (x<t1> ... x<tk>)                                   ->  ok <k*k letters, row-major: t conflict, f none, c crash, e error>
     base  x<type>                                             ->  ok x<Base()> x<Elem()>
     with  x<type> (x<p1> ...)                                 ->  ok x<With(p...)>
     isarr x<type>                                             ->  ok t|f
   The zone table is time.LoadLocation tabulated by the harness on every candidate argument of the case. *)
From CH Require Import model.Sx model.TypeStr.
Open Scope N_scope.

Definition get_pair (x : sx) : option (bytes * bytes) :=
  match x with
  | L [q; a] => match get_ab q, get_ab a with Some q, Some a => Some (q, a) | _, _ => None end
  | _ => None
  end.
Fixpoint zone_of (tbl : list (bytes * bytes)) (q : bytes) : option bytes :=
  match tbl with
  | [] => None
  | (k, v) :: tbl' => if bytes_eqb k q then Some v else zone_of tbl' q
  end.
(* strings.ToLower on ASCII; the model's answers do not depend on it (TypeStrProofs.interval_infer_lower_irrelevant) *)
Definition ascii_lower (s : bytes) : bytes := map (fun c => if (65 <=? c) && (c <=? 90) then c + 32 else c) s.

Definition pr_out {X} (p : X -> list sx) (r : res X) : list sx :=
  match r with
  | Ok a _ => asym "ok" :: p a
  | Err e => [asym "err"; err_sym e]
  | Crash c => [asym "crash"; crash_sym c]
  end.

Definition conf_letter (r : res bool) : N :=
  match r with
  | Ok true _ => 116 | Ok false _ => 102 | Err _ => 101 | Crash _ => 99
  end.

Definition run_ty (xs : list sx) : option (list sx) :=
  match xs with
  | [op; t; L zs] =>
    match get_ab t, map_opt get_pair zs with
    | Some t, Some tbl =>
      if is_sym op "infer" then
        Some (pr_out (fun i => [A (struct_name (data i)); ab (col_type (data i))]) (infer (zone_of tbl) ascii_lower t))
      else if is_sym op "two" then
        Some (pr_out (fun c => [ab (col_type c)]) (auto_two_blocks (zone_of tbl) ascii_lower t))
      else if is_sym op "with" then
        match map_opt get_ab zs with
        | Some ps => Some [asym "ok"; ab (with_params t ps)]
        | None => None
        end
      else None
    | Some t, None =>
      if is_sym op "with" then
        match map_opt get_ab zs with
        | Some ps => Some [asym "ok"; ab (with_params t ps)]
        | None => None
        end
      else None
    | _, _ => None
    end
  | [op; L ts] =>
    if is_sym op "confm" then
      match map_opt get_ab ts with
      | Some ts => Some [asym "ok"; A (flat_map (fun a => map (fun b => conf_letter (conflicts_r a b)) ts) ts)]
      | None => None
      end
    else None
  | [op; t] =>
    match get_ab t with
    | Some t =>
      if is_sym op "base" then
        Some (match base_r t, elem_r t with
              | Ok b _, Ok e _ => [asym "ok"; ab b; ab e]
              | Crash c, _ | _, Crash c => [asym "crash"; crash_sym c]
              | _, _ => [asym "err"]
              end)
      else if is_sym op "isarr" then Some [asym "ok"; abool (is_array t)]
      else None
    | None => None
    end
  | _ => None
  end.

Definition run_line (line : bytes) : bytes :=
  match parse_line line with
  | Some xs => match run_ty xs with Some out => pr_items out | None => bad_line end
  | None => bad_line
  end.
