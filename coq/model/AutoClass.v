(* L4 (C01, inference path): the class of column type trees whose printed type string
   [ColAuto.Infer] turns back into a column — /repo/proto/col_auto.go, col_auto_gen.go.

     [acol t]       the column ColAuto.Infer creates when it is handed [type_str t] (None: it refuses)
     [inferable t]  that column exists
     [norm t]       the type tree of the created column.  It is [t] itself except at Decimal leaves:
                    a column whose type is spelled `Decimal(P, S)` or `DecimalN(S)` comes back as the
                    DecimalN column of the precision class, whose Type() is the bare `DecimalN`.

   The class is read off the code and the regenerated tables:
     - the `new(ColX)` rows of inferGenerated and of the direct `switch t` of ColAuto.Infer
       (gen/InferTable.v, gen/TypeNames.v auto_switch), the bare DecimalN names, the Interval names,
       DateTime, DateTime64(p) for p <= precision_max
     - DateTime('zone'), DateTime64(p, 'zone') for zones that time.LoadLocation knows under that very name
     - Decimal(P, S) for 1 <= P <= 76, Decimal32/64/128/256(S)
     - Enum8/Enum16 with a non-empty definition list printed as ClickHouse does ('name' = value, ...) or
       compactly ('name'=value,...), names free of ',' and '=' and not beginning / ending with a quote
     - Array / Nullable / LowCardinality around an element whose created column has the helper method
       ColAuto.Infer looks up by reflection (gen/Methods.v)
     - Map(String, String) (the direct arm whose label is what ColMap.Type prints; the arm "Map(String,String)"
       creates the same column but no column prints that spelling)
   Other Maps, Tuple, Named, Point, JSON, ColFixedStr{Size} and Array(Array(..)) are outside: ColAuto.Infer
   refuses their printed types.
   Executable definitions only; proofs in proofs/AutoRoundtripProofs.v. *)
From CH Require Export model.Results.
From CH Require Import gen.InferTable gen.Methods gen.TypeNames gen.Codecs gen.Consts.
Open Scope N_scope.
Open Scope list_scope.

(* strconv.Itoa *)
Definition dec_of_Z (z : Z) : bytes :=
  match z with
  | Zneg p => 45 :: dec_of_N (Npos p)
  | _ => dec_of_N (Z.to_N z)
  end.

(* s = p ++ m ++ q : the middle *)
Fixpoint strip_prefix (p s : bytes) : option bytes :=
  match p, s with
  | [], _ => Some s
  | x :: p', y :: s' => if x =? y then strip_prefix p' s' else None
  | _ :: _, [] => None
  end.
Definition strip (p q s : bytes) : option bytes :=
  match strip_prefix p s with
  | Some r => option_map (@rev N) (strip_prefix (rev q) (rev r))
  | None => None
  end.

Fixpoint find_map {A B} (f : A -> option B) (l : list A) : option B :=
  match l with
  | [] => None
  | x :: l' => match f x with Some y => Some y | None => find_map f l' end
  end.

(* ---- printed forms ------------------------------------------------------------------- *)
(* 'name' = value with [sp] blanks around '=' and after ',' : sp = 1 is what the server prints *)
Definition enum_def_str (sp : nat) (d : bytes * Z) : bytes :=
  [39] ++ fst d ++ [39] ++ repeat 32 sp ++ [61] ++ repeat 32 sp ++ dec_of_Z (snd d).
Definition enum_base (w : nat) : bytes := if (w =? 1)%nat then T_Enum8 else T_Enum16.
Definition enum_str (w sp : nat) (defs : list (bytes * Z)) : bytes :=
  enum_base w ++ [40] ++ join_with (44 :: repeat 32 sp) (map (enum_def_str sp) defs) ++ [41].
Definition decimal_str (pr sc : N) : bytes := T_Decimal ++ [40] ++ dec_of_N pr ++ [44; 32] ++ dec_of_N sc ++ [41].
Definition decimal_n_str (T : bytes) (sc : N) : bytes := T ++ [40] ++ dec_of_N sc ++ [41].

(* ---- leaves without free parameters ---------------------------------------------------- *)
Definition ctor_cols (tbl : list (string * string)) : list TypeStr.col :=
  flat_map (fun kv => match col_of_ctor (s2b (snd kv)) with
                      | Some (CGen g) => [CGen g]
                      | Some (CDateTime None) => [CDateTime None]
                      | Some (CMap k v) =>
                        (* a Map arm counts when its case label is the type the created column prints *)
                        match eval_texpr (s2b (fst kv)) with
                        | Some t => if bytes_eqb t (col_type (CMap k v)) then [CMap k v] else []
                        | None => []
                        end
                      | _ => []
                      end) tbl.
Definition digits10 : list N := [0; 1; 2; 3; 4; 5; 6; 7; 8; 9].
Definition precisions : list N := filter (fun p => p <=? precision_max) digits10.
Definition decimal_n_cols : list (bytes * bytes) :=
  [(T_Decimal32, s2b "ColDecimal32"); (T_Decimal64, s2b "ColDecimal64");
   (T_Decimal128, s2b "ColDecimal128"); (T_Decimal256, s2b "ColDecimal256")].
Definition plain_leaves : list TypeStr.col :=
  ctor_cols infer_table ++ ctor_cols auto_switch ++ map (fun x => CGen (snd x)) decimal_n_cols
  ++ map CInterval (seq 0 (length interval_names))
  ++ map (fun p => CDateTime64 p None) precisions.

(* the created column is exactly the column [t] describes *)
Definition leaf_match (t : ty) (c : TypeStr.col) : bool :=
  match ty_of_col c, t with
  | Some (TFix n' w'), TFix n w => bytes_eqb n' n && (w' =? w)%nat
  | Some TStr, TStr | Some TBool, TBool | Some TUUID, TUUID | Some TNothing, TNothing => true
  | Some (TMap TStr TStr), TMap TStr TStr => true
  | _, _ => false
  end.

Definition decimal_class (P : N) : option bytes :=
  if (1 <=? P) && (P <? 10) then Some (s2b "ColDecimal32")
  else if (10 <=? P) && (P <? 19) then Some (s2b "ColDecimal64")
  else if (19 <=? P) && (P <? 39) then Some (s2b "ColDecimal128")
  else if (39 <=? P) && (P <? 77) then Some (s2b "ColDecimal256")
  else None.

Definition enum_name_ok (n : bytes) : bool :=
  negb (mem_byte 44 n) && negb (mem_byte 61 n) &&
  match n with [] => true | c :: _ => negb (c =? 39) && negb (last n 0 =? 39) end.

Section Class.
  Variable zone : bytes -> option bytes.      (* time.LoadLocation: Some n = a location whose String() is n *)

  Definition ends_clean (cs : list N) (z : bytes) : bool :=
    match z with [] => false | c :: _ => negb (mem_byte c cs) && negb (mem_byte (last z 0) cs) end.
  (* the zone is found under its own name and is not eaten by strings.Trim(.., "' ") *)
  Definition zone_ok (z : bytes) : bool :=
    ends_clean [39; 32] z && match zone z with Some z' => bytes_eqb z' z | None => false end.

  (* leaves with parameters, recognised on the printed name *)
  Definition param_leaf (name : bytes) : option TypeStr.col :=
    match strip (T_DateTime ++ [40; 39]) [39; 41] name with
    | Some z => if zone_ok z then Some (CDateTime (Some z)) else None
    | None =>
    match find_map (fun p => option_map (pair p) (strip (T_DateTime64 ++ [40] ++ dec_of_N p ++ [44; 32; 39]) [39; 41] name))
                   precisions with
    | Some (p, z) => if zone_ok z then Some (CDateTime64 p (Some z)) else None
    | None =>
    match strip (T_Decimal ++ [40]) [41] name with
    | Some mid =>
      let '(ps, rest, _) := cut_byte 44 mid in
      match digits_val 0 ps, strip_prefix [32] rest with
      | Some pr, Some ss =>
        match digits_val 0 ss with
        | Some sc => if bytes_eqb name (decimal_str pr sc) then option_map CGen (decimal_class pr) else None
        | None => None
        end
      | _, _ => None
      end
    | None =>
      find_map (fun Tg : bytes * bytes =>
                  match strip (fst Tg ++ [40]) [41] name with
                  | Some ss => match digits_val 0 ss with
                               | Some sc => if bytes_eqb name (decimal_n_str (fst Tg) sc) then Some (CGen (snd Tg)) else None
                               | None => None
                               end
                  | None => None
                  end) decimal_n_cols
    end
    end
    end.

  Definition enum_leaf (name : bytes) (w : nat) (defs : list (bytes * Z)) : option TypeStr.col :=
    if ((w =? 1)%nat || (w =? 2)%nat)
       && match defs with [] => false | _ => true end
       && forallb (fun d => enum_name_ok (fst d) && in_i64b (snd d)) defs
       && (bytes_eqb name (enum_str w 1 defs) || bytes_eqb name (enum_str w 0 defs))
    then Some (CEnum name (enum_base w) defs) else None.

  Definition leaf_col (t : ty) : option TypeStr.col :=
    match find (leaf_match t) plain_leaves with
    | Some c => Some c
    | None =>
      match t with
      | TFix name w =>
        match param_leaf name with
        | Some c => match ty_of_col c with
                    | Some (TFix _ w') => if (w' =? w)%nat then Some c else None
                    | _ => None
                    end
        | None => None
        end
      | TEnum name w defs => enum_leaf name w defs
      | _ => None
      end
    end.

  Definition wrap_col (h : helper) (mk : TypeStr.col -> TypeStr.col) (o : option TypeStr.col) : option TypeStr.col :=
    match o with
    | Some c => if has_method h c then Some (mk c) else None
    | None => None
    end.

  Fixpoint acol (t : ty) : option TypeStr.col :=
    match t with
    | TArr t' => wrap_col HArray CArr (acol t')
    | TNullable t' => wrap_col HNullable CNullable (acol t')
    | TLowCard t' => wrap_col HLowCardinality CLowCard (acol t')
    | TTuple _ | TNamed _ _ | TJSON | TPoint | TFixedStr _ => None
    | _ => leaf_col t
    end.

  Definition inferable (t : ty) : bool :=
    match acol t with
    | Some c => match ty_of_col c with Some _ => true | None => false end
    | None => false
    end.
  Definition norm (t : ty) : ty :=
    match acol t with
    | Some c => match ty_of_col c with Some t' => t' | None => t end
    | None => t
    end.
End Class.

(* the columns of a block as Results.Auto() holds them afterwards *)
Definition norm_col (zone : bytes -> option bytes) (c : Block.col) : Block.col :=
  {| c_name := c_name c ; c_ty := norm zone (c_ty c) ; c_data := c_data c |}.
