(* L8: the connection pool (C11).

   Two layers, mirrored from the sources:

   * puddle v2.2.2 (github.com/jackc/puddle/v2, pool.go) as an abstract machine over the resources it has
     ever constructed.  A resource is
        RIdle        in allResources, status idle, on the idle stack
        RAcquired    in allResources, status acquired, handed to a caller
        RDestroying  Resource.Destroy was called: the goroutine of destroyAcquiredResource has not finished;
                     the resource is still in allResources with status "acquired" (Stat counts it as acquired)
                     and still holds its semaphore token
        RClosing     removed from allResources by Close / by a release after Close; the goroutine that runs
                     the destructor (destructResourceValue) has not finished
        RDead        removed and destructed (the ch.Client was closed by the destructor).
     The semaphore is not a separate counter: tokens held = #RAcquired + #RDestroying (puddle's own
     bookkeeping invariant, trusted).  The idle "generational stack" is a plain LIFO list: with
     AcquireAllIdle atomic it always pops everything, so generations are never observable.
     Panics of puddle (Value / Release / Destroy on a resource that is not acquired; "bug: semaphore
     allowed more acquires than pool allows") are [PCrash].  A second Destroy of a resource whose first
     Destroy is still running passes puddle's status test and then corrupts its WaitGroup / semaphore
     (reproduced: "sync: negative WaitGroup counter"); the model reports that as [PCrash] at the call.

   * chpool (/repo/chpool/pool.go, client.go, conn.go) on top: handles (chpool.Client, field res),
     Pool.Acquire + getConn, Client.Release with its closed / lifetime test (as repaired: the handle gives
     up the resource first), Client.Do / Ping, Pool.Do / Pool.Ping (acquire, run, deferred release),
     checkIdleConnsHealth (AcquireAllIdle, then per resource Destroy / ReleaseUnused), Pool.Close.

   Time is an abstract N advanced by [PAdvance].  What ch.Client does with a request is the environment's
   choice: an operation carries [closes] (is the client closed afterwards).  A failing dial is the
   environment's choice as well ([dial_ok]).  The goroutines that puddle starts (destroy, destruct) finish
   at [PFinish r]; the health check is split into [PTickBegin] (AcquireAllIdle) and one [PTickStep] per
   resource, so holders may run in between.

   MinConns.  [pnew c dials] is newPool: createIdleResources = MinConns sequential CreateResource calls (the
   j-th dial succeeds iff the j-th element of [dials] says so, a missing element = success); the first failing
   dial closes the pool (Pool.Close on a pool without a health check goroutine) and New fails.  After the idle
   pass of a tick the health check goroutine runs checkMinConns ([PCheckMin], enabled when [hc] = Some (t, [])):
   it reads Stat().TotalResources() (constructing + idle + acquired, the latter including resources whose
   Destroy goroutine has not finished) and starts MinConns - Total goroutines ([spawned]).  Each of them calls
   puddle's CreateResource, which has two halves with the dial in between:
     [PSpawnBegin]      TryAcquire of the semaphore (else ErrNotAvailable), closed pool (ErrClosedPool), len(allResources)
                        >= MaxSize (ErrNotAvailable), else createNewResource: a resource in status "constructing" that
                        holds a token, is counted by Stat and carries creationTime = lastUsedNano = now ([constructing]
                        keeps these time stamps, oldest first);
     [PSpawnEnd i ok]   the constructor of the i-th creation in flight returns: on failure the resource is removed; on
                        success it becomes idle and is pushed on the idle stack, or, if the pool was closed meanwhile,
                        its destructor is started in a goroutine (RClosing, then PFinish) - puddle leaves that resource
                        in allResources with status idle for ever, which Stat() shows ([ghosts]).
   Both are steps of the environment and interleave with every other operation; Pool.Close waits for the health
   check goroutine only (checkMinConns included: not enabled while [hc] is Some), not for the goroutines it started. *)
From Coq Require Import List NArith Bool Arith Lia.
Import ListNotations.
Open Scope nat_scope.

Inductive rstatus := RIdle | RAcquired | RDestroying | RClosing | RDead.

Record resrc := mkRes {
  r_status : rstatus;
  r_created : N;        (* Resource.creationTime *)
  r_lastused : N;       (* Resource.lastUsedNano *)
  r_cclosed : bool      (* ch.Client.closed of the connResource's client *)
}.

Record cfg := mkCfg {
  c_max : nat;          (* Options.MaxConns -> puddle MaxSize, >= 1 *)
  c_min : nat;          (* Options.MinConns *)
  c_lifetime : N;       (* Options.MaxConnLifetime *)
  c_idletime : N        (* Options.MaxConnIdleTime *)
}.

Record pool := mkPool {
  p_cfg : cfg;
  ress : list resrc;               (* every resource ever constructed; index = connection id *)
  idle : list nat;                 (* puddle idleResources, top of the stack first *)
  handles : list (option nat);     (* chpool.Client.res of every handle ever returned, by handle id *)
  hc : option (N * list nat);      (* the tick in progress: checkIdleConnsHealth's `now` and the resources still
                                      to visit; Some (t, []) = checkMinConns is about to run *)
  pclosed : bool;                  (* puddle Pool.closed *)
  now : N;
  spawned : nat;                   (* goroutines started by checkMinConns that have not entered CreateResource yet *)
  constructing : list N;           (* CreateResource calls in flight: creationTime of the resource, oldest first *)
  ghosts : nat                     (* resources constructed by CreateResource after Close: left in allResources *)
}.

Definition pinit (c : cfg) : pool := mkPool c [] [] [] None false 0%N 0 [] 0.

Definition set_ress p x := mkPool (p_cfg p) x (idle p) (handles p) (hc p) (pclosed p) (now p) (spawned p) (constructing p) (ghosts p).
Definition set_idle p x := mkPool (p_cfg p) (ress p) x (handles p) (hc p) (pclosed p) (now p) (spawned p) (constructing p) (ghosts p).
Definition set_handles p x := mkPool (p_cfg p) (ress p) (idle p) x (hc p) (pclosed p) (now p) (spawned p) (constructing p) (ghosts p).
Definition set_hc p x := mkPool (p_cfg p) (ress p) (idle p) (handles p) x (pclosed p) (now p) (spawned p) (constructing p) (ghosts p).
Definition set_pclosed p x := mkPool (p_cfg p) (ress p) (idle p) (handles p) (hc p) x (now p) (spawned p) (constructing p) (ghosts p).
Definition set_now p x := mkPool (p_cfg p) (ress p) (idle p) (handles p) (hc p) (pclosed p) x (spawned p) (constructing p) (ghosts p).
Definition set_spawned p x := mkPool (p_cfg p) (ress p) (idle p) (handles p) (hc p) (pclosed p) (now p) x (constructing p) (ghosts p).
Definition set_constructing p x := mkPool (p_cfg p) (ress p) (idle p) (handles p) (hc p) (pclosed p) (now p) (spawned p) x (ghosts p).
Definition set_ghosts p x := mkPool (p_cfg p) (ress p) (idle p) (handles p) (hc p) (pclosed p) (now p) (spawned p) (constructing p) x.

Definition with_status x s := mkRes s (r_created x) (r_lastused x) (r_cclosed x).
Definition with_lastused x t := mkRes (r_status x) (r_created x) t (r_cclosed x).
Definition with_cclosed x b := mkRes (r_status x) (r_created x) (r_lastused x) b.

Fixpoint upd {A} (l : list A) (i : nat) (x : A) : list A :=
  match l, i with
  | [], _ => []
  | _ :: l', O => x :: l'
  | y :: l', S i' => y :: upd l' i' x
  end.

Definition get_res p r := nth_error (ress p) r.
Definition set_res p r x := set_ress p (upd (ress p) r x).

Definition is_acq (s : rstatus) : bool := match s with RAcquired => true | _ => false end.
Definition is_idle (s : rstatus) : bool := match s with RIdle => true | _ => false end.
Definition holds_token (s : rstatus) : bool := match s with RAcquired | RDestroying => true | _ => false end.
Definition in_pool (s : rstatus) : bool := match s with RIdle | RAcquired | RDestroying => true | _ => false end.

Definition cnt (f : rstatus -> bool) (l : list resrc) : nat := length (filter (fun x => f (r_status x)) l).
(* semaphore tokens taken: acquired, being destroyed, and CreateResource calls in flight *)
Definition held p := cnt holds_token (ress p) + length (constructing p).
(* puddle Stat() *)
Definition stat_constructing p := length (constructing p).
Definition stat_acquired p := cnt holds_token (ress p).  (* status acquired within allResources *)
Definition stat_idle p := cnt is_idle (ress p) + ghosts p.
(* TotalResources = constructing + acquired + idle = len(allResources) *)
Definition total p := cnt in_pool (ress p) + length (constructing p) + ghosts p.

Inductive obs := OOk | OErr | ONoHandle | ONone.
Inductive pres := POk (p : pool) (o : obs) | PCrash.

Inductive dokind := DOk | DExc | DCut | DCancel.

Inductive pop :=
| PAcquire (dial_ok : bool)                           (* Pool.Acquire; the new handle gets the next handle id *)
| PRelease (h : nat)                                  (* Client.Release, any number of times *)
| PDo (h : nat) (k : dokind) (closes : bool)          (* Client.Do *)
| PPing (h : nat)                                     (* Client.Ping *)
| PPoolDo (dial_ok : bool) (k : dokind) (closes : bool)   (* Pool.Do: acquire, run, release *)
| PPoolPing (dial_ok : bool)                          (* Pool.Ping *)
| PTickBegin                                          (* checkIdleConnsHealth: AcquireAllIdle *)
| PTickStep                                           (* ... its loop body for the next resource *)
| PAdvance (dt : N)
| PFinish (r : nat)                                   (* a goroutine started by Destroy / by a removal finishes *)
| PClose                                              (* Pool.Close *)
| PCheckMin                                           (* checkMinConns, the second half of a tick *)
| PSpawnBegin                                         (* a goroutine of checkMinConns enters CreateResource *)
| PSpawnEnd (i : nat) (dial_ok : bool).               (* the constructor of the i-th creation in flight returns *)

(* ---- puddle -------------------------------------------------------------------------------- *)
Inductive acq := AGot (p : pool) (r : nat) | AFail (p : pool) | ACrash.

(* Pool.Acquire: take a token (else wait until the context ends), refuse if closed, pop an idle resource,
   else construct one *)
Definition pd_acquire (p : pool) (dial_ok : bool) : acq :=
  if c_max (p_cfg p) <=? held p then AFail p
  else if pclosed p then AFail p
  else match idle p with
       | r :: rest =>
         match get_res p r with
         | Some x => AGot (set_idle (set_res p r (with_status x RAcquired)) rest) r
         | None => ACrash
         end
       | [] =>
         if c_max (p_cfg p) <=? total p then ACrash
         else if dial_ok then
           AGot (set_ress p (ress p ++ [mkRes RAcquired (now p) (now p) false])) (length (ress p))
         else AFail p
       end.

(* Resource.Destroy: go destroyAcquiredResource *)
Definition pd_destroy (p : pool) (r : nat) (x : resrc) : pool := set_res p r (with_status x RDestroying).

(* releaseAcquiredResource(res, lastUsedNano) *)
Definition pd_release (p : pool) (r : nat) (x : resrc) (lu : N) : pool :=
  if pclosed p then set_res p r (with_status x RClosing)
  else set_idle (set_res p r (with_status (with_lastused x lu) RIdle)) (r :: idle p).

(* the goroutines: destroyAcquiredResource = destructor, then remove and give the token back;
   destructResourceValue = destructor.  The destructor is ch.Client.Close *)
Definition pd_finish (p : pool) (r : nat) : pool :=
  match get_res p r with
  | Some x =>
    match r_status x with
    | RDestroying | RClosing => set_res p r (with_status (with_cclosed x true) RDead)
    | _ => p
    end
  | None => p
  end.

(* acquireSemAll(sem, num): all of them if available, else greedily by powers of two *)
Fixpoint sem_pow2 (i : nat) (free : nat) : nat :=
  let v := 2 ^ i in
  let got := if v <=? free then v else 0 in
  match i with
  | O => got
  | S i' => got + sem_pow2 i' (free - got)
  end.
Definition sem_all (free num : nat) : nat :=
  if num <=? free then num else sem_pow2 (Nat.log2 num) free.

(* ---- chpool -------------------------------------------------------------------------------- *)
(* Pool.Acquire + connResource.getConn *)
Definition ch_acquire (p : pool) (dial_ok : bool) : pres :=
  match pd_acquire p dial_ok with
  | AGot p' r => POk (set_handles p' (handles p' ++ [Some r])) OOk
  | AFail p' => POk (set_handles p' (handles p' ++ [None])) OErr
  | ACrash => PCrash
  end.

Definition expired_life (c : cfg) (t created : N) : bool := (c_lifetime c <? t - created)%N.
Definition expired_idle (c : cfg) (t lastused : N) : bool := (c_idletime c <? t - lastused)%N.

(* Client.Release (after the repair: res := c.res; c.res = nil; ...) *)
Definition ch_release (p : pool) (h : nat) : pres :=
  match nth_error (handles p) h with
  | Some (Some r) =>
    let p1 := set_handles p (upd (handles p) h None) in
    match get_res p1 r with
    | Some x =>
      if negb (is_acq (r_status x)) then PCrash
      else if r_cclosed x || expired_life (p_cfg p) (now p) (r_created x)
      then POk (pd_destroy p1 r x) OOk
      else POk (pd_release p1 r x (now p)) OOk
    | None => PCrash
    end
  | _ => POk p OOk
  end.

(* Client.Do / Client.Ping through c.client() = c.res.Value().client *)
Definition ch_do (p : pool) (h : nat) (k : dokind) (closes : bool) : pres :=
  match nth_error (handles p) h with
  | Some (Some r) =>
    match get_res p r with
    | Some x =>
      if negb (is_acq (r_status x)) then PCrash
      else if r_cclosed x then POk p OErr
      else POk (set_res p r (with_cclosed x closes)) (match k with DOk => OOk | _ => OErr end)
    | None => PCrash
    end
  | _ => POk p ONoHandle
  end.

(* Pool.Do / Pool.Ping: c, err := p.Acquire(ctx); if err != nil { return err }; defer c.Release(); return c.Do(...) *)
Definition pool_do (p : pool) (dial_ok : bool) (k : dokind) (closes : bool) : pres :=
  match ch_acquire p dial_ok with
  | POk p1 OOk =>
    let h := length (handles p) in
    match ch_do p1 h k closes with
    | POk p2 o => match ch_release p2 h with POk p3 _ => POk p3 o | PCrash => PCrash end
    | PCrash => PCrash
    end
  | POk p1 _ => POk p1 OErr
  | PCrash => PCrash
  end.

(* AcquireAllIdle: pop k resources, each becomes acquired and is handed to the health check *)
Definition hc_push (p : pool) (r : nat) : pool :=
  match hc p with
  | Some (t0, l) => set_hc p (Some (t0, l ++ [r]))
  | None => set_hc p (Some (now p, [r]))
  end.
Fixpoint hc_take (k : nat) (p : pool) : pool :=
  match k with
  | O => p
  | S k' =>
    match idle p with
    | r :: rest =>
      match get_res p r with
      | Some x => hc_take k' (hc_push (set_idle (set_res p r (with_status x RAcquired)) rest) r)
      | None => p
      end
    | [] => p
    end
  end.
(* the ticker fires: AcquireAllIdle.  From here to the end of checkMinConns [hc] is Some *)
Definition tick_begin (p : pool) : pool :=
  match hc p with
  | Some _ => p                                  (* one health check goroutine *)
  | None =>
    if pclosed p then p                          (* the goroutine has returned (Close waited for it) *)
    else hc_take (sem_all (c_max (p_cfg p) - held p) (length (idle p))) (set_hc p (Some (now p, [])))
  end.

Definition hc_rest (t0 : N) (rest : list nat) : option (N * list nat) := Some (t0, rest).

(* the body of `for _, res := range resources` *)
Definition tick_step (p : pool) : pres :=
  match hc p with
  | Some (t0, r :: rest) =>
    let p1 := set_hc p (hc_rest t0 rest) in
    match get_res p1 r with
    | Some x =>
      if negb (is_acq (r_status x)) then PCrash
      else if expired_life (p_cfg p) t0 (r_created x) then POk (pd_destroy p1 r x) ONone
      else if expired_idle (p_cfg p) (now p) (r_lastused x) then POk (pd_destroy p1 r x) ONone
      else POk (pd_release p1 r x (r_lastused x)) ONone
    | None => PCrash
    end
  | _ => POk p ONone
  end.

(* puddle Close: every idle resource is removed and destructed in a goroutine *)
Fixpoint close_idle (k : nat) (p : pool) : pool :=
  match k with
  | O => p
  | S k' =>
    match idle p with
    | r :: rest =>
      match get_res p r with
      | Some x => close_idle k' (set_idle (set_res p r (with_status x RClosing)) rest)
      | None => p
      end
    | [] => p
    end
  end.
(* Pool.Close: closeOnce; close(closeChan); wg.Wait() (the health check goroutine must have returned:
   while it runs Close waits, which the model renders as "not enabled"); puddle Close.  The final
   destructWG.Wait() changes nothing: it only waits for the PFinish steps *)
Definition ch_close (p : pool) : pool :=
  if pclosed p then p
  else match hc p with
       | Some _ => p
       | None => close_idle (length (idle p)) (set_pclosed p true)
       end.

(* checkMinConns: for i := MinConns - Stat().TotalResources(); i > 0; i-- { go CreateResource } *)
Definition check_min (p : pool) : pool :=
  match hc p with
  | Some (_, []) => set_spawned (set_hc p None) (spawned p + (c_min (p_cfg p) - total p))
  | _ => p
  end.

(* puddle CreateResource, first half (under the mutex), run by one of the goroutines of checkMinConns *)
Definition create_refused (p : pool) : bool :=
  (c_max (p_cfg p) <=? held p)       (* !acquireSem.TryAcquire(1): ErrNotAvailable *)
  || pclosed p                       (* ErrClosedPool *)
  || (c_max (p_cfg p) <=? total p).  (* len(allResources) >= maxSize: ErrNotAvailable *)
Definition spawn_begin (p : pool) : pool :=
  match spawned p with
  | O => p
  | S n =>
    let p1 := set_spawned p n in
    if create_refused p then p1
    else set_constructing p1 (constructing p ++ [now p])    (* createNewResource *)
  end.

Fixpoint remove_nth {A} (i : nat) (l : list A) : list A :=
  match l, i with
  | [], _ => []
  | _ :: l', O => l'
  | y :: l', S i' => y :: remove_nth i' l'
  end.

(* a resource that comes out of CreateResource: idle on top of the stack, or, into a closed pool, handed to
   destructResourceValue while staying in allResources *)
Definition add_created (p : pool) (t : N) : pool :=
  if pclosed p then set_ghosts (set_ress p (ress p ++ [mkRes RClosing t t false])) (S (ghosts p))
  else set_idle (set_ress p (ress p ++ [mkRes RIdle t t false])) (length (ress p) :: idle p).

(* ... second half: the constructor has returned *)
Definition spawn_end (p : pool) (i : nat) (dial_ok : bool) : pool :=
  match nth_error (constructing p) i with
  | None => p
  | Some t =>
    let p1 := set_constructing p (remove_nth i (constructing p)) in
    if dial_ok then add_created p1 t else p1
  end.

Definition pstep (p : pool) (o : pop) : pres :=
  match o with
  | PAcquire d => ch_acquire p d
  | PRelease h => ch_release p h
  | PDo h k c => ch_do p h k c
  | PPing h => ch_do p h DOk false
  | PPoolDo d k c => pool_do p d k c
  | PPoolPing d => pool_do p d DOk false
  | PTickBegin => POk (tick_begin p) ONone
  | PTickStep => tick_step p
  | PAdvance dt => POk (set_now p (now p + dt)%N) ONone
  | PFinish r => POk (pd_finish p r) ONone
  | PClose => POk (ch_close p) ONone
  | PCheckMin => POk (check_min p) ONone
  | PSpawnBegin => POk (spawn_begin p) ONone
  | PSpawnEnd i d => POk (spawn_end p i d) ONone
  end.

Fixpoint prun (p : pool) (ops : list pop) : option pool :=
  match ops with
  | [] => Some p
  | o :: ops' => match pstep p o with POk p' _ => prun p' ops' | PCrash => None end
  end.

(* newPool: createIdleResources(MinConns) = CreateResource called MinConns times by the caller itself (both
   halves in one go); the first error makes New close the pool and fail *)
Definition create_resource (p : pool) (dial_ok : bool) : pool * bool :=
  if create_refused p then (p, false)
  else if dial_ok then (add_created p (now p), true)
  else (p, false).
Fixpoint create_idle (k : nat) (dials : list bool) (p : pool) : pool * bool :=
  match k with
  | O => (p, true)
  | S k' =>
    match create_resource p (hd true dials) with
    | (p', true) => create_idle k' (tl dials) p'
    | (p', false) => (p', false)
    end
  end.
Definition pnew (c : cfg) (dials : list bool) : pool :=
  match create_idle (c_min c) dials (pinit c) with
  | (p, true) => p                   (* the health check goroutine is started *)
  | (p, false) => ch_close p         (* p.Close(); return nil, err *)
  end.
Definition pnew_ok (c : cfg) (dials : list bool) : bool := snd (create_idle (c_min c) dials (pinit c)).

(* the whole tick: the idle pass, then checkMinConns; and "every goroutine puddle started has finished"
   (what the sequential harness waits for after each operation) *)
Fixpoint tick_all (fuel : nat) (p : pool) : option pool :=
  match hc p, fuel with
  | Some (_, _ :: _), S f => match tick_step p with POk p' _ => tick_all f p' | PCrash => None end
  | _, _ => Some p
  end.
Definition tick_pass (p : pool) : option pool := tick_all (length (idle p)) (tick_begin p).
Definition tick_full (p : pool) : option pool := option_map check_min (tick_pass p).
(* every goroutine of checkMinConns enters CreateResource; every creation in flight completes with the
   given dial outcomes (a missing outcome = success) *)
Fixpoint spawn_begin_all (k : nat) (p : pool) : pool :=
  match k with O => p | S k' => spawn_begin_all k' (spawn_begin p) end.
Fixpoint spawn_end_all (k : nat) (dials : list bool) (p : pool) : pool :=
  match k with O => p | S k' => spawn_end_all k' (tl dials) (spawn_end p 0 (hd true dials)) end.
Definition finish_all (p : pool) : pool :=
  fold_left pd_finish (seq 0 (length (ress p))) p.

Definition handle_of (p : pool) (h : nat) : option nat :=
  match nth_error (handles p) h with Some (Some r) => Some r | _ => None end.
Definition status_of (p : pool) (r : nat) : option rstatus := option_map r_status (get_res p r).
Definition closed_of (p : pool) (r : nat) : option bool := option_map r_cclosed (get_res p r).
