(* L7 (receive side): the receiver goroutine of Client.Do — /repo/query.go (the loop of the second
   g.Go closure, decodeBlock, resultHandler, handlePacket) and /repo/client.go (packet, exception,
   progress, profile, Exception.IsCode / Unwrap), over the block layer (model/Block.v), the
   message layouts (model/Messages.v) and compressed frames (model/Compress.v).

   What is a parameter here (Section variables, instantiated in model/GlueRecv.v):
     conflicts, infer_target, infer_auto   ColumnType.Conflicts, Inferable.Infer of a bound column,
                                           ColAuto.Infer (the subject of C18/C19)
     H, decomp                             CityHash128 and the block decompressors (C05)
   User callbacks are abstract: [Some f] = the callback is set, [f k] = does its k-th invocation
   (k = 0, 1, ...) return nil.

   The reader is a flat byte stream (the bytes the server sent, in order); a read timeout
   (`continue` in the loop) is not an event of this model.
   Executable definitions only. *)
From CH Require Export model.Block model.Compress.
From CH Require Import gen.Features gen.Codes gen.Consts.
Open Scope N_scope.
Open Scope list_scope.

(* ---- configuration ------------------------------------------------------------------- *)
(* c.protocolVersion after the handshake, c.compression == CompressionEnabled, build of the codecs *)
Record cfg := { c_rev : N ; c_comp : bool ; c_build : build }.

(* ---- server exceptions (proto.Exception, ch.Exception) ---------------------------------- *)
Record exc := { e_code : Z ; e_name : bytes ; e_msg : bytes ; e_stack : bytes }.
(* ch.Exception: the top element and the flattened Next list *)
Record exception := { x_top : exc ; x_next : list exc }.

Definition exc_fields (e : exc) (nested : bool) : list fv :=
  [FZ (e_code e); FStr (e_name e); FStr (e_msg e); FStr (e_stack e); FB nested].

(* Client.exception: for { decode(&ex); list = append(list, ex); if !ex.Nested { break } } *)
Fixpoint read_exceptions (fuel : nat) : parser (list exc) :=
  match fuel with
  | O => fail EFuel
  | S f =>
    xs <- decode_Exception ;;
    match xs with
    | [FZ c; FStr n; FStr m; FStr s; FB nested] =>
      let e := {| e_code := c ; e_name := n ; e_msg := m ; e_stack := s |} in
      if nested then r <- read_exceptions f ;; ret (e :: r) else ret [e]
    | _ => fail EInvalid          (* not reachable: decode_Exception yields this shape *)
    end
  end.

Definition client_exception : parser exception :=
  fun s =>
    (l <- read_exceptions (S (length s)) ;;
     match l with
     | [] => fail EInvalid        (* not reachable: the list has at least one element *)
     | top :: next => ret {| x_top := top ; x_next := next |}
     end) s.

(* Exception.IsCode(codes...) *)
Definition is_code (e : exception) (codes : list Z) : bool :=
  match codes with
  | [] => false
  | _ => existsb (fun c => (e_code (x_top e) =? c)%Z) codes
  end.
(* Exception.Unwrap() = collectCodes(nil): own code, then the codes of Next in order
   (the elements of Next have an empty Next themselves) *)
Definition collect_codes (e : exception) : list Z := e_code (x_top e) :: map e_code (x_next e).
(* errors.Is(err, proto.Error(c)) on an error chain that reaches the *Exception:
   *Exception is not comparable to a proto.Error, so Is descends into Unwrap() []error *)
Definition errors_is (e : exception) (c : Z) : bool := existsb (fun x => (x =? c)%Z) (collect_codes e).

(* ---- telemetry rows (ProfileEvents.All, Logs.All) ---------------------------------------- *)
Record pevent := { pe_type : N ; pe_name : bytes ; pe_value : Z ; pe_host : bytes ; pe_time : N ; pe_thread : N }.
Record logrow := { lg_query : bytes ; lg_source : bytes ; lg_text : bytes ; lg_time : N ; lg_host : bytes ;
                   lg_thread : N ; lg_prio : N }.

(* ---- what the user callbacks see ---------------------------------------------------------- *)
Inductive event :=
| EvResult (info : block_info) (ncols nrows : Z) (bound : option (list col))
    (* OnResult(ctx, block): block.Info/Columns/Rows and the contents of q.Result at that moment
       (None: q.Result == nil) *)
| EvProgress (xs : list fv)
| EvProfile (xs : list fv)
| EvPEvents (l : list pevent)       (* OnProfileEvents: one batch *)
| EvPEvent (e : pevent)             (* OnProfileEvent (deprecated): one call per event *)
| EvLogs (l : list logrow)
| EvLog (e : logrow).

Record handlers := {
  on_result : option (nat -> bool) ;
  on_progress : option (nat -> bool) ;
  on_profile : option (nat -> bool) ;
  on_pevents : option (nat -> bool) ;
  on_pevent : option (nat -> bool) ;
  on_logs : option (nat -> bool) ;
  on_log : option (nat -> bool) }.

Inductive ekind := KResult | KProgress | KProfile | KPEvents | KPEvent | KLogs | KLog.
Definition kind_of (e : event) : ekind :=
  match e with
  | EvResult _ _ _ _ => KResult | EvProgress _ => KProgress | EvProfile _ => KProfile
  | EvPEvents _ => KPEvents | EvPEvent _ => KPEvent | EvLogs _ => KLogs | EvLog _ => KLog
  end.
Definition ekind_eqb (a b : ekind) : bool :=
  match a, b with
  | KResult, KResult | KProgress, KProgress | KProfile, KProfile | KPEvents, KPEvents
  | KPEvent, KPEvent | KLogs, KLogs | KLog, KLog => true
  | _, _ => false
  end.
(* how often a callback ran so far *)
Definition count_kind (k : ekind) (tr : list event) : nat :=
  length (filter (fun e => ekind_eqb (kind_of e) k) tr).

(* ---- result binding (Query.Result) -------------------------------------------------------- *)
Inductive rtarget :=
| TgNil                        (* q.Result == nil *)
| TgTyped (ts : list col)      (* proto.Results{...}: bound columns *)
| TgAuto (ts : list col).      (* (&results).Auto(): inferred from the first block *)

Definition bound_of (t : rtarget) : option (list col) :=
  match t with TgNil => None | TgTyped ts | TgAuto ts => Some ts end.

(* ---- outcome of Do's receiver --------------------------------------------------------------- *)
Inductive rerr :=
| RDecode (e : err)       (* a read / decode error (packet, decode block, progress, ...) *)
| RCrash (c : crash)
| RHandler                (* a user callback returned an error *)
| RNoOnResult             (* "no OnResult provided": second block after a non-empty one *)
| RUnexpected (code : N)  (* "unexpected packet": a known server code the client does not handle *)
| RBadCode (code : N)     (* "bad server packet type" *)
| REvents                 (* ProfileEvents.All: "unexpected type ... for metric column" *)
| RFuel.
Inductive outcome := ONil | OExc (e : exception) | OErr (e : rerr).

Record rstate := {
  r_first : bool ;            (* `first` of the default result handler *)
  r_tg : rtarget ;            (* the bound columns, as they are now *)
  r_carry : bytes ;           (* decompressed bytes not yet consumed (compress.Reader data[pos:]) *)
  r_trace : list event }.     (* callback invocations so far, oldest first *)

Definition st_init (tg : rtarget) : rstate :=
  {| r_first := true ; r_tg := tg ; r_carry := [] ; r_trace := [] |}.

Inductive step_res :=
| Continue (st : rstate) (rest : bytes)
| Done (o : outcome) (st : rstate) (rest : bytes).

(* fixed schemas of proto.ProfileEvents.Result() / proto.Logs.Result() *)
Definition mkcol (n : string) (t : ty) : col := {| c_name := s2b n ; c_ty := t ; c_data := empty t |}.
Definition T_DateTime : ty := TFix (s2b "DateTime") 4.
Definition T_UInt64 : ty := TFix (s2b "UInt64") 8.
Definition T_UInt32 : ty := TFix (s2b "UInt32") 4.
Definition T_Int8 : ty := TFix (s2b "Int8") 1.
Definition T_Int64 : ty := TFix (s2b "Int64") 8.
Definition pe_fixed : list col :=
  [mkcol "host_name" TStr; mkcol "current_time" T_DateTime; mkcol "thread_id" T_UInt64;
   mkcol "type" T_Int8; mkcol "name" TStr].
Definition pe_value_name : bytes := s2b "value".
Definition log_fixed : list col :=
  [mkcol "event_time" T_DateTime; mkcol "event_time_microseconds" T_UInt32; mkcol "host_name" TStr;
   mkcol "query_id" TStr; mkcol "thread_id" T_UInt64; mkcol "priority" T_Int8; mkcol "source" TStr;
   mkcol "text" TStr].

Definition nthN (l : list N) (i : nat) : N := nth i l 0.
Definition nthB (l : list bytes) (i : nat) : bytes := nth i l [].

(* ProfileEvents.All(): for i := range d.Type { ... }; None = the error of the type switch *)
Definition pe_all (ts : list col) : option (list pevent) :=
  match ts with
  | [h; t; th; ty_; nm; v] =>
    match c_data h, c_data t, c_data th, c_data ty_, c_data nm, c_ty v, c_data v with
    | DBytes hs, DFix tms, DFix ths, DFix tys, DBytes nms, TFix vname 8, DFix vs =>
      if bytes_eqb vname (s2b "Int64") || bytes_eqb vname (s2b "UInt64") then
        Some (map (fun i => {| pe_type := nthN tys i ; pe_name := nthB nms i ;
                               pe_value := to_i64 (nthN vs i) ; pe_host := nthB hs i ;
                               pe_time := nthN tms i ; pe_thread := nthN ths i |})
                  (seq 0 (length tys)))
      else None
    | _, _, _, _, _, _, _ => None
    end
  | _ => None
  end.

(* Logs.All(): for i := 0; i < s.Source.Rows(); i++ *)
Definition log_all (ts : list col) : list logrow :=
  match ts with
  | [t; _; h; q; th; p; src; txt] =>
    match c_data t, c_data h, c_data q, c_data th, c_data p, c_data src, c_data txt with
    | DFix tms, DBytes hs, DBytes qs, DFix ths, DFix ps, DBytes srcs, DBytes txts =>
      map (fun i => {| lg_query := nthB qs i ; lg_source := nthB srcs i ; lg_text := nthB txts i ;
                       lg_time := nthN tms i ; lg_host := nthB hs i ; lg_thread := nthN ths i ;
                       lg_prio := nthN ps i |})
          (seq 0 (length srcs))
    | _, _, _, _, _, _, _ => []
    end
  | _ => []
  end.

(* ServerCode.Compressible() *)
Definition compressible (code : N) : bool :=
  (code =? Z.to_N ServerCodeData) || (code =? Z.to_N ServerCodeTotals) || (code =? Z.to_N ServerCodeExtremes).

(* ServerCode(n).IsAServerCode() (packet() rejects anything else) *)
Definition is_server_code (n : N) : bool := existsb (fun c => Z.to_N c =? n) server_codes.

Section Recv.
  Variable conflicts : bytes -> bytes -> bool.
  Variable infer_target : ty -> bytes -> option ty.
  Variable infer_auto : bytes -> option ty.
  Variable H : bytes -> N * N.
  Variable decomp : N -> bytes -> N -> option bytes.

  (* ---- a parser running on the decompressed view of the stream ------------------------------
     compress.Reader hands out the rest of its current block and reads the next frame only when
     the caller asks for more: the parser is re-run with one more frame each time it ran out of
     input ([Err EEof] is the model's "needs more bytes").  What is left of the last frame stays
     in the reader ([carry]) for the next compressed block. *)
  Fixpoint read_comp {A} (fuel : nat) (p : parser A) (carry under : bytes) : res (A * bytes) :=
    match p carry with
    | Ok a lft => Ok (a, lft) under
    | Err EEof =>
      match fuel with
      | O => Err EFuel
      | S f =>
        match read_block H decomp under with
        | (inr d, u', _) => read_comp f p (carry ++ d) u'
        | (inl _, _, _) => Err ECorrupt         (* "read next block": CorruptedDataErr or another error *)
        end
      end
    | Err e => Err e
    | Crash c => Crash c
    end.

  (* c.reader.EnableCompression() ... defer DisableCompression() around a decode *)
  Definition via {A} (c : cfg) (cmp : bool) (p : parser A) (carry : bytes) : parser (A * bytes) :=
    fun s =>
      if c_comp c && cmp then read_comp (S (length s)) p carry s
      else match p s with
           | Ok a r => Ok (a, carry) r
           | Err e => Err e
           | Crash x => Crash x
           end.

  (* decodeBlock: the temporary-table name, which must be empty *)
  Definition temp_table (v : N) : parser unit :=
    if gate v FeatureTempTables then
      s <- get_str ;; match s with [] => ret tt | _ => fail EInvalid end
    else ret tt.

  (* Block.DecodeBlock with target == nil *)
  Definition decode_block_nil (v : N) : parser (block_info * Z * Z) :=
    i <- (if gate v FeatureBlockInfo then decode_BlockInfo blank_block_info else ret blank_block_info) ;;
    c <- get_int ;;
    if ((maxColumnsInBlock <? c) || (c <? 0))%Z then fail EInvalid else
    r <- get_int ;;
    nrows <- check_rows r ;;
    if (c =? 0)%Z && (r =? 0)%Z then ret (i, c, r) else
    if 0 <? nrows then fail EInvalid else          (* "got rows without target" *)
    (fun s => if Z.to_N c <=? blen s then skip_headers v (N.to_nat (Z.to_N c)) s
              else match skip_headers v (length s) s with
                   | Ok _ _ => Err EEof | Err e => Err e | Crash x => Crash x end) ;;;
    ret (i, c, r).

  (* Block.DecodeBlock into q.Result *)
  Definition block_parser (c : cfg) (tg : rtarget) : parser (block_info * Z * Z * rtarget) :=
    match tg with
    | TgNil => x <- decode_block_nil (c_rev c) ;; let '(i, nc, nr) := x in ret (i, nc, nr, TgNil)
    | TgTyped ts =>
      x <- decode_block conflicts infer_target infer_auto false (c_build c) (c_rev c) ts ;;
      let '(i, nc, nr, ts') := x in ret (i, nc, nr, TgTyped ts')
    | TgAuto ts =>
      x <- decode_block conflicts infer_target infer_auto true (c_build c) (c_rev c) ts ;;
      let '(i, nc, nr, ts') := x in ret (i, nc, nr, TgAuto ts')
    end.

  (* one column of a Results whose Data is a fresh *ColAuto (ProfileEvents.Value) *)
  Definition dec_auto_target (b : build) (v : N) (nrows : N) (name : bytes) : parser col :=
    h <- dec_col_header v ;;
    let '(cname, tstr) := h in
    if negb (bytes_eqb name cname) then fail EInvalid else
    match infer_auto tstr with
    | None => fail EInvalid
    | Some ty' =>
      if conflicts tstr tstr then fail EInvalid else       (* hasType = DataType = gotType *)
      d <- (if nrows =? 0 then ret (empty ty') else dec_state ty' ;;; dec b ty' nrows) ;;
      ret {| c_name := name ; c_ty := ty' ; c_data := d |}
    end.

  (* DecodeBlock into proto.ProfileEvents.Result(): five typed columns and the ColAuto *)
  Definition decode_pe_block (b : build) (v : N) : parser (block_info * Z * Z * list col) :=
    i <- (if gate v FeatureBlockInfo then decode_BlockInfo blank_block_info else ret blank_block_info) ;;
    c <- get_int ;;
    if ((maxColumnsInBlock <? c) || (c <? 0))%Z then fail EInvalid else
    r <- get_int ;;
    nrows <- check_rows r ;;
    if (c =? 0)%Z && (r =? 0)%Z then ret (i, c, r, []) else
    if negb (c =? 6)%Z then fail EInvalid else
    ts <- dec_targets conflicts infer_target (b : build) v nrows pe_fixed ;;
    t6 <- dec_auto_target b v nrows pe_value_name ;;
    ret (i, c, r, ts ++ [t6]).

  (* DecodeBlock into proto.Logs.Result() *)
  Definition decode_log_block (b : build) (v : N) : parser (block_info * Z * Z * list col) :=
    decode_block conflicts infer_target infer_auto false b v log_fixed.

  Definition lift {A} (r : res A) (st : rstate) (k : A -> bytes -> step_res) : step_res :=
    match r with
    | Ok a rest => k a rest
    | Err e => Done (OErr (RDecode e)) st []
    | Crash x => Done (OErr (RCrash x)) st []
    end.

  Definition push (st : rstate) (e : event) : rstate :=
    {| r_first := r_first st ; r_tg := r_tg st ; r_carry := r_carry st ; r_trace := r_trace st ++ [e] |}.

  (* f(ctx, x) for an optional callback: record the invocation, fail or go on *)
  Definition call (h : option (nat -> bool)) (e : event) (st : rstate) (rest : bytes)
             (k : rstate -> step_res) : step_res :=
    match h with
    | None => k st
    | Some f =>
      let n := count_kind (kind_of e) (r_trace st) in
      let st' := push st e in
      if f n then k st' else Done (OErr RHandler) st' rest
    end.

  (* for _, e := range events { if err := f(ctx, e); err != nil { return } } *)
  Fixpoint call_each {X} (h : option (nat -> bool)) (mk : X -> event) (l : list X) (st : rstate) (rest : bytes)
           (k : rstate -> step_res) : step_res :=
    match l with
    | [] => k st
    | x :: l' => call h (mk x) st rest (fun st' => call_each h mk l' st' rest k)
    end.

  (* case ServerCodeData, ServerCodeTotals: decodeBlock(Handler: onResult, Result: q.Result) *)
  Definition on_data (c : cfg) (hs : handlers) (code : N) (st : rstate) (s : bytes) : step_res :=
    lift ((temp_table (c_rev c) ;;; via c (compressible code) (block_parser c (r_tg st)) (r_carry st)) s) st
      (fun x rest =>
         let '((i, nc, nr, tg'), carry') := x in
         let st1 := {| r_first := r_first st ; r_tg := tg' ; r_carry := carry' ; r_trace := r_trace st |} in
         if (nc =? 0)%Z && (nr =? 0)%Z then Continue st1 rest           (* block.End() *)
         else
           match on_result hs with
           | Some _ =>
             call (on_result hs) (EvResult i nc nr (bound_of tg')) st1 rest (fun st2 => Continue st2 rest)
           | None =>
             (* the default handler of resultHandler *)
             if negb (r_first st1) then Done (OErr RNoOnResult) st1 rest
             else Continue {| r_first := if (0 <? nr)%Z then false else true ;
                              r_tg := tg' ; r_carry := carry' ; r_trace := r_trace st |} rest
           end).

  (* case ServerProfileEvents *)
  Definition on_pevents_pkt (c : cfg) (hs : handlers) (code : N) (st : rstate) (s : bytes) : step_res :=
    lift ((temp_table (c_rev c) ;;; via c (compressible code) (decode_pe_block (c_build c) (c_rev c)) (r_carry st)) s) st
      (fun x rest =>
         let '((i, nc, nr, ts), carry') := x in
         let st1 := {| r_first := r_first st ; r_tg := r_tg st ; r_carry := carry' ; r_trace := r_trace st |} in
         if (nc =? 0)%Z && (nr =? 0)%Z then Continue st1 rest
         else
           match on_pevents hs, on_pevent hs with
           | None, None => Continue st1 rest                          (* "No handlers, skipping." *)
           | _, _ =>
             match pe_all ts with
             | None => Done (OErr REvents) st1 rest
             | Some evs =>
               call (on_pevents hs) (EvPEvents evs) st1 rest
                    (fun st2 => call_each (on_pevent hs) EvPEvent evs st2 rest (fun st3 => Continue st3 rest))
             end
           end).

  (* case ServerCodeLog *)
  Definition on_log_pkt (c : cfg) (hs : handlers) (code : N) (st : rstate) (s : bytes) : step_res :=
    lift ((temp_table (c_rev c) ;;; via c (compressible code) (decode_log_block (c_build c) (c_rev c)) (r_carry st)) s) st
      (fun x rest =>
         let '((i, nc, nr, ts), carry') := x in
         let st1 := {| r_first := r_first st ; r_tg := r_tg st ; r_carry := carry' ; r_trace := r_trace st |} in
         if (nc =? 0)%Z && (nr =? 0)%Z then Continue st1 rest
         else
           match on_logs hs, on_log hs with
           | None, None => Continue st1 rest
           | _, _ =>
             let logs := log_all ts in
             call (on_logs hs) (EvLogs logs) st1 rest
                  (fun st2 => call_each (on_log hs) EvLog logs st2 rest (fun st3 => Continue st3 rest))
           end).

  (* the switch of Do's loop and of handlePacket on a valid server code *)
  Definition dispatch (c : cfg) (hs : handlers) (code : N) (st : rstate) (s1 : bytes) : step_res :=
    if (code =? Z.to_N ServerCodeData) || (code =? Z.to_N ServerCodeTotals) then on_data c hs code st s1
    else if code =? Z.to_N ServerCodeEndOfStream then Done ONil st s1
    else if code =? Z.to_N ServerCodeException then
      lift (client_exception s1) st (fun e s2 => Done (OExc e) st s2)
    else if code =? Z.to_N ServerCodeProgress then
      lift (decode_Progress (c_rev c) s1) st
           (fun xs s2 => call (on_progress hs) (EvProgress xs) st s2 (fun st' => Continue st' s2))
    else if code =? Z.to_N ServerCodeProfile then
      lift (decode_Profile s1) st
           (fun xs s2 => call (on_profile hs) (EvProfile xs) st s2 (fun st' => Continue st' s2))
    else if code =? Z.to_N ServerCodeTableColumns then
      lift (decode_TableColumns s1) st (fun _ s2 => Continue st s2)
    else if code =? Z.to_N ServerProfileEvents then on_pevents_pkt c hs code st s1
    else if code =? Z.to_N ServerCodeLog then on_log_pkt c hs code st s1
    else Done (OErr (RUnexpected code)) st s1.

  (* one iteration of the receive loop: packet(), then the switch *)
  Definition recv_step (c : cfg) (hs : handlers) (st : rstate) (s : bytes) : step_res :=
    lift (uvarint s) st
      (fun n s1 =>
         if negb (is_server_code n) then Done (OErr (RBadCode n)) st s1 else
         (* proto.ServerCode is a byte: ServerCode(n) truncates *)
         dispatch c hs (n mod 256) st s1).

  (* for { ... }: every iteration consumes at least the packet code *)
  Fixpoint recv_loop (fuel : nat) (c : cfg) (hs : handlers) (st : rstate) (s : bytes) : outcome * rstate * bytes :=
    match fuel with
    | O => (OErr RFuel, st, s)
    | S f =>
      match recv_step c hs st s with
      | Done o st' rest => (o, st', rest)
      | Continue st' rest => recv_loop f c hs st' rest
      end
    end.

  Definition recv (c : cfg) (hs : handlers) (tg : rtarget) (s : bytes) : outcome * rstate * bytes :=
    recv_loop (S (length s)) c hs (st_init tg) s.
End Recv.

(* ======================================================================================
   The server side and the specification
   ====================================================================================== *)
Inductive bkind := BData | BTotals | BLog | BPEvents.
Definition bkind_code (k : bkind) : Z :=
  match k with
  | BData => ServerCodeData | BTotals => ServerCodeTotals
  | BLog => ServerCodeLog | BPEvents => ServerProfileEvents
  end.

Inductive packet :=
| PBlock (k : bkind) (info : block_info) (nrows : N) (cols : list col)
| PProgress (xs : list fv)
| PProfile (xs : list fv)
| PTableColumns (xs : list fv)
| PException (top : exc) (next : list exc)
| PEnd.

(* the nested chain on the wire: every element but the last has Nested = true *)
Fixpoint encode_chain (top : exc) (next : list exc) : bytes :=
  match next with
  | [] => encode_Exception (exc_fields top false)
  | n :: next' => encode_Exception (exc_fields top true) ++ encode_chain n next'
  end.

Section Server.
  Variable H : bytes -> N * N.
  Variable comp : method -> bytes -> option bytes.
  Variable meth : method.        (* the server's compression method *)

  (* a block packet as the server writes it: code, temp-table name, block (one compressed frame
     when compression is on and the packet kind is compressible) *)
  Definition encode_block_packet (c : cfg) (k : bkind) (info : block_info) (nrows : N) (cols : list col)
    : option bytes :=
    match encode_block (c_build c) (c_rev c) info nrows cols with
    | None => None
    | Some body =>
      let payload :=
        if c_comp c && compressible (Z.to_N (bkind_code k)) then
          match compress_frame H comp meth body with inr f => Some f | inl _ => None end
        else Some body in
      match payload with
      | None => None
      | Some pl =>
        Some (code_byte (bkind_code k) ++
              (if gate (c_rev c) FeatureTempTables then put_str [] else []) ++ pl)
      end
    end.

  Definition encode_packet (c : cfg) (p : packet) : option bytes :=
    match p with
    | PBlock k info nrows cols => encode_block_packet c k info nrows cols
    | PProgress xs => Some (code_byte ServerCodeProgress ++ encode_Progress (c_rev c) xs)
    | PProfile xs => Some (encode_Profile xs)
    | PTableColumns xs => Some (encode_TableColumns xs)
    | PException top next => Some (code_byte ServerCodeException ++ encode_chain top next)
    | PEnd => Some (code_byte ServerCodeEndOfStream)
    end.

  Fixpoint encode_packets (c : cfg) (ps : list packet) : option bytes :=
    match ps with
    | [] => Some []
    | p :: ps' =>
      match encode_packet c p, encode_packets c ps' with
      | Some a, Some b => Some (a ++ b)
      | _, _ => None
      end
    end.
End Server.

(* ---- the specification: what the callbacks must see, computed from the script alone --------- *)
(* the columns a block leaves in the bound Result: the block's own columns, prepared *)
Definition prepared (cols : list col) : option (list col) :=
  mapM (fun c => match prepare (c_ty c) (c_data c) with
                 | Some d => Some {| c_name := c_name c ; c_ty := c_ty c ; c_data := d |}
                 | None => None
                 end) cols.

Definition is_end_marker (nrows : N) (cols : list col) : bool :=
  match cols with [] => nrows =? 0 | _ => false end.

(* an empty proto.Results only skips the headers and stays empty; Auto() appends what it inferred *)
Definition tg_with (tg : rtarget) (cols : list col) : rtarget :=
  match tg with
  | TgNil => TgNil
  | TgTyped [] => TgTyped []
  | TgTyped _ => TgTyped cols
  | TgAuto _ => TgAuto cols
  end.

(* the spec-level state: `first`, the bound columns, the trace *)
Record sstate := { s_first : bool ; s_tg : rtarget ; s_trace : list event }.
Definition sst_init (tg : rtarget) : sstate := {| s_first := true ; s_tg := tg ; s_trace := [] |}.

Inductive spec_res := SContinue (st : sstate) | SDone (o : outcome) (st : sstate).

Definition scall (h : option (nat -> bool)) (e : event) (st : sstate) (k : sstate -> spec_res) : spec_res :=
  match h with
  | None => k st
  | Some f =>
    let n := count_kind (kind_of e) (s_trace st) in
    let st' := {| s_first := s_first st ; s_tg := s_tg st ; s_trace := s_trace st ++ [e] |} in
    if f n then k st' else SDone (OErr RHandler) st'
  end.
Fixpoint scall_each {X} (h : option (nat -> bool)) (mk : X -> event) (l : list X) (st : sstate)
         (k : sstate -> spec_res) : spec_res :=
  match l with
  | [] => k st
  | x :: l' => scall h (mk x) st (fun st' => scall_each h mk l' st' k)
  end.

Definition info_at (v : N) (i : block_info) : block_info := if gate v FeatureBlockInfo then i else blank_block_info.

(* one packet of the script *)
Definition spec_step (c : cfg) (hs : handlers) (st : sstate) (p : packet) : spec_res :=
  match p with
  | PEnd => SDone ONil st
  | PException top next => SDone (OExc {| x_top := top ; x_next := next |}) st
  | PTableColumns _ => SContinue st
  | PProgress xs => scall (on_progress hs) (EvProgress (project (c_rev c) L_Progress xs)) st SContinue
  | PProfile xs => scall (on_profile hs) (EvProfile xs) st SContinue
  | PBlock BData info nrows cols | PBlock BTotals info nrows cols =>
    if is_end_marker nrows cols then SContinue st else
    match prepared cols with
    | None => SDone (OErr RFuel) st          (* excluded by script_ok *)
    | Some cols' =>
      let tg' := tg_with (s_tg st) cols' in
      let st1 := {| s_first := s_first st ; s_tg := tg' ; s_trace := s_trace st |} in
      match on_result hs with
      | Some _ =>
        scall (on_result hs)
              (EvResult (info_at (c_rev c) info) (Z.of_nat (length cols)) (Z.of_N nrows) (bound_of tg'))
              st1 SContinue
      | None =>
        if negb (s_first st) then SDone (OErr RNoOnResult) st1
        else SContinue {| s_first := if 0 <? nrows then false else true ; s_tg := tg' ; s_trace := s_trace st |}
      end
    end
  | PBlock BPEvents info nrows cols =>
    if is_end_marker nrows cols then SContinue st else
    match on_pevents hs, on_pevent hs with
    | None, None => SContinue st
    | _, _ =>
      match option_map pe_all (prepared cols) with
      | None => SDone (OErr RFuel) st          (* excluded by script_ok *)
      | Some None => SDone (OErr REvents) st
      | Some (Some evs) =>
        scall (on_pevents hs) (EvPEvents evs) st
              (fun st2 => scall_each (on_pevent hs) EvPEvent evs st2 SContinue)
      end
    end
  | PBlock BLog info nrows cols =>
    if is_end_marker nrows cols then SContinue st else
    match on_logs hs, on_log hs with
    | None, None => SContinue st
    | _, _ =>
      match prepared cols with
      | None => SDone (OErr RFuel) st          (* excluded by script_ok *)
      | Some cols' =>
        let logs := log_all cols' in
        scall (on_logs hs) (EvLogs logs) st (fun st2 => scall_each (on_log hs) EvLog logs st2 SContinue)
      end
    end
  end.

(* the script up to its first terminating event; [None] = the script ends without one *)
Fixpoint spec_run (c : cfg) (hs : handlers) (st : sstate) (ps : list packet) : option outcome * sstate :=
  match ps with
  | [] => (None, st)
  | p :: ps' =>
    match spec_step c hs st p with
    | SDone o st' => (Some o, st')
    | SContinue st' => spec_run c hs st' ps'
    end
  end.

Definition expected_trace (c : cfg) (hs : handlers) (tg : rtarget) (ps : list packet) : list event :=
  s_trace (snd (spec_run c hs (sst_init tg) ps)).
Definition expected_outcome (c : cfg) (hs : handlers) (tg : rtarget) (ps : list packet) : option outcome :=
  fst (spec_run c hs (sst_init tg) ps).

(* ======================================================================================
   A compressed block as several frames (C03 extension)
   A server may cut the encoding of one block anywhere and send every piece as a frame of its
   own, each with its own method (ClickHouse cuts at max_compress_block_size); the pieces are
   what compress.Reader hands to the decoder one after the other.
   ====================================================================================== *)
Section ServerFrames.
  Variable H : bytes -> N * N.
  Variable comp : method -> bytes -> option bytes.

  (* the frames of one block, in order: method and payload of each *)
  Fixpoint encode_frames (l : list (method * bytes)) : option bytes :=
    match l with
    | [] => Some []
    | (m, d) :: l' =>
      match compress_frame H comp m d, encode_frames l' with
      | inr f, Some r => Some (f ++ r)
      | _, _ => None
      end
    end.

  (* cutting a block after the given numbers of bytes; the last frame takes what is left *)
  Fixpoint cut_frames (sp : list (method * nat)) (lastm : method) (b : bytes) : list (method * bytes) :=
    match sp with
    | [] => [(lastm, b)]
    | (m, n) :: sp' => (m, firstn n b) :: cut_frames sp' lastm (skipn n b)
    end.

  (* how the block of one packet is cut (ignored unless the packet is a compressed block) *)
  Definition framing := (list (method * nat) * method)%type.

  Definition encode_block_packet_fr (c : cfg) (k : bkind) (info : block_info) (nrows : N) (cols : list col)
             (fr : framing) : option bytes :=
    match encode_block (c_build c) (c_rev c) info nrows cols with
    | None => None
    | Some body =>
      let payload :=
        if c_comp c && compressible (Z.to_N (bkind_code k))
        then encode_frames (cut_frames (fst fr) (snd fr) body)
        else Some body in
      match payload with
      | None => None
      | Some pl =>
        Some (code_byte (bkind_code k) ++
              (if gate (c_rev c) FeatureTempTables then put_str [] else []) ++ pl)
      end
    end.

  Definition encode_packet_fr (c : cfg) (p : packet) (fr : framing) : option bytes :=
    match p with
    | PBlock k info nrows cols => encode_block_packet_fr c k info nrows cols fr
    | _ => encode_packet H comp MNone c p
    end.

  (* the script with one framing per packet (missing ones: a single frame, method None) *)
  Fixpoint encode_packets_fr (c : cfg) (ps : list packet) (frs : list framing) : option bytes :=
    match ps with
    | [] => Some []
    | p :: ps' =>
      match encode_packet_fr c p (hd ([], MNone) frs), encode_packets_fr c ps' (tl frs) with
      | Some a, Some b => Some (a ++ b)
      | _, _ => None
      end
    end.
End ServerFrames.
