(* L3/L4 (C18): what a column object holds after DecodeColumn FAILED half way.

   Results.DecodeResult calls  t.Data.Reset(); DecodeState(r); DecodeColumn(r, rows)  and returns the first
   error; the target keeps whatever the decoder had stored by then.  [dec_part b t n s] is that residue for a
   reset column of type [t] asked for [n] rows from input [s], one case per DecodeColumn of /repo/proto:

     generated columns (col_*_unsafe_gen.go)   append(make([]T, rows)) then io.ReadFull into that memory: all
                                               [rows] elements exist, the bytes that arrived are in place, the
                                               rest is zero                                     [zfill]
     generated columns (col_*_safe_gen.go, and ColUInt8 in BOTH builds: col_uint8_safe_gen.go has no build
                                               tag)   ReadRaw fails before anything is appended: nothing
     ColBool        safe: the result slice is assigned only on success: nothing; unsafe: as the generated ones
     ColUUID        safe: nothing; unsafe: zero-filled and NOT byte-swapped (the swap follows the read)
     ColStr/JSON    the strings completed before the failing one (Pos is appended per row)
     ColFixedStr    Buf = make(rows*Size) then ReadFull: zero-filled, both builds; Size <= 0: untouched
     ColNothing     the row count is stored before the read
     ColPoint       X then Y (two ColFloat64)
     ColEnum        the raw codes (as the generated ColEnum8/16 leaves them); Values is assigned only on success
     ColArr         Offsets; then Data only when the offsets are monotone and the size passes checkRows
     ColNullable    Nulls (a ColUInt8); then Values
     ColLowCardinality  key; index; keysN; Values up to the first key outside the dictionary
     ColMap         Offsets; Keys; Values
     ColTuple       members in order; the members behind the failing one stay reset

   The function is total; it is meaningful (and used) only where [dec] fails.  Components that succeeded are
   taken from [dec] itself.  Executable definitions only; facts in proofs/ResultsProofs2.v. *)
From CH Require Export model.Columns.
From CH Require Import gen.Consts.
Open Scope N_scope.
Open Scope list_scope.

(* a zeroed destination of [n] bytes after an io.ReadFull that ran out of input [s] *)
Definition zfill (n : nat) (s : bytes) : bytes := firstn n s ++ repeat 0 (n - length s).

(* the generated column reads straight into its own memory (default build, any element type but UInt8) *)
Definition in_place (b : build) (u8 : bool) : bool :=
  match b with Safe => false | Unsafe => negb u8 end.

(* a generated fixed-width column after a failed DecodeColumn(r, n) *)
Definition part_fix (inpl : bool) (w : nat) (n : N) (s : bytes) : list N :=
  if inpl && negb (n =? 0) then map le_get (chunks w (N.to_nat n) (zfill (N.to_nat n * w) s)) else [].

Definition is_u8 (name : bytes) (w : nat) : bool := bytes_eqb name (s2b "UInt8") && (w =? 1)%nat.

(* the strings a ColStr completed: Pos grows by one per row read *)
Fixpoint str_prefix (fuel : nat) (s : bytes) : list bytes :=
  match fuel with
  | O => []
  | S k => match get_str s with
           | Ok x s' => x :: str_prefix k s'
           | _ => []
           end
  end.
Definition str_part (n : N) (s : bytes) : list bytes :=
  str_prefix (if n <=? blen s then N.to_nat n else length s) s.

(* ColFixedStr64 .. ColFixedStr512 are generated array columns; any other size is ColFixedStr{Size} *)
Definition gen_fixedstr (sz : nat) : bool := existsb (Nat.eqb sz) [64; 128; 256; 512]%nat.

(* ColLowCardinality: Values = append(Values, index.Row(idx)) until an idx outside [0, indexRows) *)
Fixpoint lc_vals_prefix (t' : ty) (idx : cdata) (irows : Z) (keys : list N) : list val :=
  match keys with
  | [] => []
  | k :: keys' =>
    if (to_i64 (k mod 2 ^ 64) <? irows)%Z && (0 <=? to_i64 (k mod 2 ^ 64))%Z then
      match row t' idx (N.to_nat k) with
      | Some v => v :: lc_vals_prefix t' idx irows keys'
      | None => []
      end
    else []
  end.

Section Members.
  Variable part : ty -> bytes -> cdata.          (* dec_part b t0 n *)
  Variable full : ty -> parser cdata.            (* dec b t0 n *)
  (* ColTuple.DecodeColumn *)
  Fixpoint part_seq (ts : list ty) (s : bytes) : list cdata :=
    match ts with
    | [] => []
    | t0 :: ts' =>
      match full t0 s with
      | Ok d0 s' => d0 :: part_seq ts' s'
      | _ => part t0 s :: map empty ts'
      end
    end.
End Members.

Fixpoint dec_part (b : build) (t : ty) (n : N) (s : bytes) : cdata :=
  match t with
  | TFix name w => DFix (part_fix (in_place b (is_u8 name w)) w n s)
  | TBool => DBool (part_fix (in_place b false) 1 n s)
  | TUUID => DBytes (if in_place b false && negb (n =? 0)
                     then chunks 16 (N.to_nat n) (zfill (N.to_nat n * 16) s) else [])
  | TStr | TJSON => DBytes (str_part n s)
  | TFixedStr sz =>
    match sz with
    | O => DFixedStr []
    | _ => if gen_fixedstr sz
           then DFixedStr (if in_place b false && negb (n =? 0) then zfill (N.to_nat n * sz) s else [])
           else DFixedStr (zfill (N.to_nat n * sz) s)
    end
  | TNothing => DNothing n
  | TPoint =>
    match dec_fix 8 n s with
    | Ok xs s1 => DPoint xs (part_fix (in_place b false) 8 n s1)
    | _ => DPoint (part_fix (in_place b false) 8 n s) []
    end
  | TEnum _ w _ =>
    match dec_fix w n s with
    | Ok raw _ => DEnum [] raw
    | _ => DEnum [] (part_fix (in_place b false) w n s)
    end
  | TArr t' =>
    match dec_fix 8 n s with
    | Ok offs s1 =>
      if negb (monotoneb 0 offs) then DArr offs (empty t') else
      match check_rows (to_i64 (last_or0 offs)) s1 with
      | Ok size _ => DArr offs (dec_part b t' size s1)
      | _ => DArr offs (empty t')
      end
    | _ => DArr (part_fix (in_place b false) 8 n s) (empty t')
    end
  | TNullable t' =>
    match dec_fix 1 n s with
    | Ok nulls s1 => DNullable nulls (dec_part b t' n s1)
    | _ => DNullable [] (empty t')                       (* Nulls is a ColUInt8 *)
    end
  | TLowCard t' =>
    if n =? 0 then empty (TLowCard t') else
    match get_i64 s with
    | Ok meta s1 =>
      let m := wrap64 meta in
      if negb (N.testbit m 9) then empty (TLowCard t') else
      let key := m mod 256 in
      if 3 <? key then empty (TLowCard t') else
      match (irows <- get_i64 ;; isz <- check_rows irows ;; ret (irows, isz)) s1 with
      | Ok (irows, isz) s2 =>
        match dec b t' isz s2 with
        | Ok idx s3 =>
          match (krows <- get_i64 ;; check_rows krows) s3 with
          | Ok _ s4 =>
            match dec_fix (key_bytes key) n s4 with
            | Ok keys _ => DLowCard (lc_vals_prefix t' idx irows keys) idx key keys
            | _ => DLowCard [] idx key (part_fix (in_place b (key =? 0)) (key_bytes key) n s4)
            end
          | _ => DLowCard [] idx key []
          end
        | _ => DLowCard [] (dec_part b t' isz s2) key []
        end
      | _ => DLowCard [] (empty t') key []
      end
    | _ => empty (TLowCard t')
    end
  | TMap tk tv =>
    if n =? 0 then empty (TMap tk tv) else
    match dec_fix 8 n s with
    | Ok offs s1 =>
      if negb (monotoneb 0 offs) then DMap offs (empty tk) (empty tv) else
      match check_rows (to_i64 (last_or0 offs)) s1 with
      | Ok cnt _ =>
        match dec b tk cnt s1 with
        | Ok dk s2 => DMap offs dk (dec_part b tv cnt s2)
        | _ => DMap offs (dec_part b tk cnt s1) (empty tv)
        end
      | _ => DMap offs (empty tk) (empty tv)
      end
    | _ => DMap (part_fix (in_place b false) 8 n s) (empty tk) (empty tv)
    end
  | TTuple ts => DTuple (part_seq (fun t0 => dec_part b t0 n) (fun t0 => dec b t0 n) ts s)
  | TNamed _ t' => dec_part b t' n s
  end.

(* Reset(); if rows != 0 { DecodeState; DecodeColumn } when one of the two fails: DecodeState stores nothing *)
Definition body_part (b : build) (t : ty) (nrows : N) (s : bytes) : cdata :=
  if nrows =? 0 then empty t
  else match dec_state t s with
       | Ok _ s' => dec_part b t nrows s'
       | _ => empty t
       end.

(* ---- the accessors' view of a column object: Rows() and whether Row(i) returns for every i below it ---- *)
Definition readableb (t : ty) (d : cdata) : bool :=
  forallb (fun i => match row t d i with Some _ => true | None => false end) (seq 0 (N.to_nat (rows t d))).
