(* L1, second half: the transport under proto.Reader (C08).

   Mirrors, bottom up,
     net.Conn.Read                 a list of events [Chunk bytes | Timeout], a short-read oracle choosing how
                                   many of the available bytes each Read returns, the read deadline
                                   (client.go packet(): armed only while the packet code is read)
     bufio.Reader.Read             /usr/local/go/src/bufio/bufio.go, size defaultReaderSize (proto/reader.go)
     io.ReadFull                   io.ReadAtLeast's loop
     compress.Reader.readBlock/Read  (compress/reader.go) over io.ReadFull of the raw reader
     proto.Reader                  ReadFull / readFull / ReadByte / UVarInt / Int / StrLen / StrRaw / UInt* / Bool,
                                   Enable/DisableCompression (proto/reader.go)
     Client.packet and the retry of net.OpError timeouts in the receive loop (client.go, query.go)

   Three instances of the raw reader are defined:
     L  layered: bufio over the chunked connection            (what runs in Go)
     G  gapped flat stream: bytes with gap markers, no chunking, no buffering
     F  flat stream: bytes and the error that ends them        (what every decoder of L2-L4 is written against)
   Everything above the raw reader (the decompressing reader, reader programs, packet, the receive loop) is
   written once, in Section Upper, against the raw reader's io.ReadFull.

   Executable definitions only. *)
From CH Require Export model.Prim model.Compress model.Fields.
From CH Require Import gen.Consts gen.Codes.
Open Scope N_scope.

(* ---- errors ------------------------------------------------------------------ *)
(* what a Read of the connection can fail with: io.EOF, io.ErrUnexpectedEOF (made by io.ReadFull),
   a *net.OpError whose Timeout() is true, any other network error *)
Inductive ioerr := IEof | IUnexpEof | ITimeout | INet.

Definition is_eof (e : ioerr) : bool := match e with IEof => true | _ => false end.

(* io.ReadAtLeast: if n >= min {err = nil} else if n > 0 && err == EOF {err = ErrUnexpectedEOF} *)
Definition full_err (got : bytes) (e : ioerr) : ioerr :=
  if is_nil got then e else if is_eof e then IUnexpEof else e.

Inductive serr :=
| SIo (e : ioerr)                       (* "read": the raw reader failed *)
| SFrameIo (header : bool) (e : ioerr)  (* "read next block: header" / "read raw" *)
| SFrame (e : cerr)                     (* "read next block: ..." any other rejection of a frame *)
| SDec (e : err).                       (* the decoder itself rejected a value *)

(* errors.As(err, &opErr) && opErr.Timeout(): the *net.OpError is found through every wrapper *)
Definition is_timeout (e : serr) : bool :=
  match e with
  | SIo ITimeout | SFrameIo _ ITimeout => true
  | _ => false
  end.

(* ---- the connection ------------------------------------------------------------ *)
Inductive event := Chunk (b : bytes) | Timeout.

Record conn := { c_evs : list event ; c_tl : ioerr ; c_armed : bool ; c_calls : nat }.

(* the oracle's answer k for this call: 0 = everything that is available (and fits), else at most k bytes *)
Definition read_limit (k m : nat) : nat := match k with O => m | _ => Nat.min m k end.

(* conn.Read(p), len(p) = m >= 1.  A Timeout event is a silence longer than the read timeout: with the
   deadline armed the Read fails with a timeout and the silence has elapsed; without a deadline the Read
   just keeps waiting.  An empty chunk is a Read that returns (0, nil). When the events are
   exhausted the peer has closed (or the connection failed): [tl] for ever. *)
Fixpoint conn_take (k m : nat) (armed : bool) (tl : ioerr) (evs : list event) : (bytes + ioerr) * list event :=
  match evs with
  | [] => (inr tl, [])
  | Timeout :: evs' => if armed then (inr ITimeout, evs') else conn_take k m armed tl evs'
  | Chunk b :: evs' =>
    match b with
    | [] => (inl [], evs')
    | _ => let j := read_limit k m in
           (inl (firstn j b), match skipn j b with [] => evs' | rest => Chunk rest :: evs' end)
    end
  end.

Definition conn_read (orc : nat -> nat) (m : nat) (c : conn) : (bytes + ioerr) * conn :=
  let '(r, evs') := conn_take (orc (c_calls c)) m (c_armed c) (c_tl c) (c_evs c) in
  (r, {| c_evs := evs' ; c_tl := c_tl c ; c_armed := c_armed c ; c_calls := S (c_calls c) |}).

(* ---- bufio.Reader ---------------------------------------------------------------- *)
(* b_buf = buf[r:w].  b.err is not part of the state: the connection returns data or an error, never
   both, so the error is always handed out by the very Read that received it (readErr()). *)
Record bufio := { b_buf : bytes ; b_conn : conn }.

Definition bufio_size : nat := Z.to_nat defaultReaderSize.

(* func (b *Reader) Read(p []byte), len(p) = m *)
Definition bufio_read (orc : nat -> nat) (m : nat) (s : bufio) : (bytes + ioerr) * bufio :=
  match m with
  | O => (inl [], s)                                           (* n == 0: return 0, b.readErr() *)
  | _ =>
    match b_buf s with
    | [] =>                                                    (* b.r == b.w *)
      if Nat.leb bufio_size m then
        (* Large read, empty buffer: read directly into p *)
        let '(r, c') := conn_read orc m (b_conn s) in (r, {| b_buf := [] ; b_conn := c' |})
      else
        (* One read.  Do not use b.fill, which will loop. *)
        let '(r, c') := conn_read orc bufio_size (b_conn s) in
        match r with
        | inr e => (inr e, {| b_buf := [] ; b_conn := c' |})   (* n == 0: return 0, b.readErr() *)
        | inl d => (inl (firstn m d), {| b_buf := skipn m d ; b_conn := c' |})   (* copy(p, b.buf[b.r:b.w]) *)
        end
    | buf => (inl (firstn m buf), {| b_buf := skipn m buf ; b_conn := b_conn s |})
    end
  end.

(* ---- io.ReadFull -------------------------------------------------------------------
   for n < min && err == nil { nn, err = r.Read(buf[n:]); n += nn }
   [None] = the fuel ran out (never, see StreamProofs). *)
Section IoReadFull.
Context {St E : Type}.
Variable rd : nat -> St -> (bytes + E) * St.
Variable conv : bytes -> E -> E.
(* [acc]: the pieces read so far, newest first *)
Fixpoint io_read_full (fuel n : nat) (acc : list bytes) (s : St) : option ((bytes + E) * St) :=
  match n with
  | O => Some (inl (concat (rev acc)), s)
  | _ =>
    match fuel with
    | O => None
    | S f =>
      match rd n s with
      | (inl d, s') => io_read_full f (n - length d) (d :: acc) s'
      | (inr e, s') => Some (inr (conv (concat (rev acc)) e), s')
      end
    end
  end.
End IoReadFull.

(* ---- raw reader, instance L: bufio over the connection ------------------------------ *)
Definition rfull_L (orc : nat -> nat) (n : nat) (s : bufio) : option ((bytes + ioerr) * bufio) :=
  io_read_full (bufio_read orc) full_err (S (n + length (c_evs (b_conn s)))) n [] s.

Fixpoint cat_evs (evs : list event) : bytes :=
  match evs with
  | [] => []
  | Chunk b :: evs' => b ++ cat_evs evs'
  | Timeout :: evs' => cat_evs evs'
  end.
(* the bytes still to come, in order *)
Definition flatten (s : bufio) : bytes := b_buf s ++ cat_evs (c_evs (b_conn s)).
Definition avail_L (s : bufio) : nat := length (flatten s).
Definition arm_L (a : bool) (s : bufio) : bufio :=
  {| b_buf := b_buf s ;
     b_conn := {| c_evs := c_evs (b_conn s) ; c_tl := c_tl (b_conn s) ; c_armed := a ; c_calls := c_calls (b_conn s) |} |}.

(* ---- raw reader, instance G: bytes with gap markers ---------------------------------- *)
Record gflat := { g_items : list (option N) ; g_tl : ioerr ; g_armed : bool }.

(* io.ReadFull of n more bytes: a gap in front of a byte that is still needed makes an armed read fail
   (and is over), and is waited out by a read without deadline *)
Fixpoint g_take (armed : bool) (tl : ioerr) (l : list (option N)) (n : nat) (acc : bytes) {struct l}
  : (bytes + ioerr) * list (option N) :=
  match n with
  | O => (inl acc, l)
  | S n' =>
    match l with
    | [] => (inr (full_err acc tl), [])
    | Some b :: l' => g_take armed tl l' n' (acc ++ [b])
    | None :: l' => if armed then (inr (full_err acc ITimeout), l') else g_take armed tl l' n acc
    end
  end.

Definition rfull_G (n : nat) (s : gflat) : option ((bytes + ioerr) * gflat) :=
  let '(r, l') := g_take (g_armed s) (g_tl s) (g_items s) n [] in
  Some (r, {| g_items := l' ; g_tl := g_tl s ; g_armed := g_armed s |}).

Fixpoint g_bytes (l : list (option N)) : bytes :=
  match l with
  | [] => []
  | Some b :: l' => b :: g_bytes l'
  | None :: l' => g_bytes l'
  end.
Definition avail_G (s : gflat) : nat := length (g_bytes (g_items s)).
Definition arm_G (a : bool) (s : gflat) : gflat := {| g_items := g_items s ; g_tl := g_tl s ; g_armed := a |}.

Fixpoint g_evs (evs : list event) : list (option N) :=
  match evs with
  | [] => []
  | Chunk b :: evs' => map Some b ++ g_evs evs'
  | Timeout :: evs' => None :: g_evs evs'
  end.
(* what is left of the layered reader, without its segmentation *)
Definition gfl (s : bufio) : gflat :=
  {| g_items := map Some (b_buf s) ++ g_evs (c_evs (b_conn s)) ; g_tl := c_tl (b_conn s) ; g_armed := c_armed (b_conn s) |}.

(* ---- raw reader, instance F: the flat faulty stream ----------------------------------- *)
Record flat := { f_bytes : bytes ; f_tl : ioerr }.

Definition rfull_F (n : nat) (s : flat) : option ((bytes + ioerr) * flat) :=
  if Nat.leb n (length (f_bytes s))
  then Some (inl (firstn n (f_bytes s)), {| f_bytes := skipn n (f_bytes s) ; f_tl := f_tl s |})
  else Some (inr (full_err (f_bytes s) (f_tl s)), {| f_bytes := [] ; f_tl := f_tl s |}).
Definition avail_F (s : flat) : nat := length (f_bytes s).
Definition arm_F (a : bool) (s : flat) : flat := s.

Definition gstrip (s : gflat) : flat := {| f_bytes := g_bytes (g_items s) ; f_tl := g_tl s |}.
Definition fl (s : bufio) : flat := {| f_bytes := flatten s ; f_tl := c_tl (b_conn s) |}.

(* ---- reader programs ---------------------------------------------------------------------
   A decoder is a program over proto.Reader: it can ask for exactly n bytes (every method of Reader ends in
   io.ReadFull on r.data), switch the data source, and - a ghost of the model only - look at the number of bytes
   still to come (Prim.alloc's budget and the fuel of data-dependent loops are stated in terms of it). *)
Inductive rd (A : Type) : Type :=
| RRet (a : A)
| RFail (e : err)
| RCrsh (c : crash)
| RFull (n : nat) (k : bytes -> rd A)     (* io.ReadFull(r.data, buf[:n]) *)
| RAvail (k : nat -> rd A)                 (* ghost *)
| RComp (on : bool) (k : rd A).            (* EnableCompression / DisableCompression *)
Arguments RRet {A} a.
Arguments RFail {A} e.
Arguments RCrsh {A} c.
Arguments RFull {A} n k.
Arguments RAvail {A} k.
Arguments RComp {A} on k.

Fixpoint rbind {A B} (p : rd A) (f : A -> rd B) : rd B :=
  match p with
  | RRet a => f a
  | RFail e => RFail e
  | RCrsh c => RCrsh c
  | RFull n k => RFull n (fun b => rbind (k b) f)
  | RAvail k => RAvail (fun n => rbind (k n) f)
  | RComp on k => RComp on (rbind k f)
  end.
Definition r_pmap {A B} (f : A -> B) (p : rd A) : rd B := rbind p (fun a => RRet (f a)).

(* Buffer.Ensure(n) for a size that came off the wire *)
Definition r_alloc (n : N) : rd unit := RAvail (fun av => if alloc_ok n av then RRet tt else RCrsh COom).
(* Reader.ReadFull(buf) *)
Definition r_read_n (n : nat) : rd bytes := RFull n RRet.
(* Reader.ReadRaw / readFull: Ensure(n), ReadFull *)
Definition r_read_raw (n : nat) : rd bytes := rbind (r_alloc (N.of_nat n)) (fun _ => r_read_n n).
(* Reader.ReadByte: readFull(1); b.Buf[0]  (Ensure(1) is within every budget) *)
Definition r_read_byte : rd N :=
  RFull 1 (fun bs => match bs with b :: _ => RRet b | [] => RFail EEof end).

(* binary.ReadUvarint(r) *)
Fixpoint r_get_uv (fuel : nat) (i acc : N) : rd N :=
  match fuel with
  | O => RFail EInvalid
  | S f =>
    RFull 1 (fun bs =>
      match bs with
      | [] => RFail EEof
      | b :: _ =>
        if b <? 128 then
          if (i =? 9) && (1 <? b) then RFail EInvalid
          else RRet (acc + b * 2 ^ (7 * i))
        else r_get_uv f (i + 1) (acc + (b - 128) * 2 ^ (7 * i))
      end)
  end.
Definition r_uvarint : rd N := r_get_uv 10 0 0.
Definition r_get_int : rd Z := r_pmap to_i64 r_uvarint.
Definition r_strlen : rd N :=
  rbind r_get_int (fun n => if (n <? 0)%Z then RFail EInvalid else RRet (Z.to_N n)).

(* Reader.StrRaw after StrLen:
     for len(buf) < n { chunk := min(n-len(buf), maxStrPrealloc); buf = append(buf, make(chunk)...); io.ReadFull(r.data, buf[start:]) }
   a chunk is never beyond the allocation budget; every round consumes at least one byte *)
Fixpoint r_str_loop (fuel : nat) (need : N) (acc : bytes) : rd bytes :=
  if need =? 0 then RRet acc
  else match fuel with
       | O => RFail EFuel
       | S f =>
         let chunk := N.min need str_chunk in
         RFull (N.to_nat chunk) (fun b => r_str_loop f (need - chunk) (acc ++ b))
       end.
Definition r_get_str : rd bytes :=
  rbind r_strlen (fun n => RAvail (fun av => r_str_loop (S av) n [])).

Definition r_get_u8 : rd N := r_pmap le_get (r_read_raw 1).
Definition r_get_u16 : rd N := r_pmap le_get (r_read_raw 2).
Definition r_get_u32 : rd N := r_pmap le_get (r_read_raw 4).
Definition r_get_u64 : rd N := r_pmap le_get (r_read_raw 8).
Definition r_get_u128 : rd N := r_pmap le_get (r_read_raw 16).
Definition r_get_i32 : rd Z := r_pmap to_i32 r_get_u32.
Definition r_get_i64 : rd Z := r_pmap to_i64 r_get_u64.
Definition r_get_bool : rd bool :=
  rbind r_get_u8 (fun v => if v =? 1 then RRet true else if v =? 0 then RRet false else RFail EInvalid).

Fixpoint r_rep {A} (n : nat) (p : rd A) : rd (list A) :=
  match n with
  | O => RRet []
  | S k => rbind p (fun x => rbind (r_rep k p) (fun xs => RRet (x :: xs)))
  end.

(* the DecodeAware methods of the protocol messages (Fields.dec_field / decode_fields) as reader programs *)
Definition r_dec_field (k : fkind) : rd fv :=
  match k with
  | KStr => r_pmap FStr r_get_str
  | KInt => r_pmap FZ r_get_int
  | KUVar => r_pmap FN r_uvarint
  | KU8 => r_pmap FN r_get_u8
  | KEnum8 valid => rbind r_get_u8 (fun n => if mem_N n valid then RRet (FN n) else RFail EInvalid)
  | KEnumUV valid => rbind r_uvarint (fun n => let b := n mod 256 in
                                               if mem_N b valid then RRet (FN b) else RFail EInvalid)
  | KI32 => r_pmap FZ r_get_i32
  | KI64 => r_pmap FZ r_get_i64
  | KBool => r_pmap FB r_get_bool
  | KBoolInt => r_pmap (fun z => FB (z =? 1)%Z) r_get_int
  | KSpan =>
    rbind r_get_bool (fun has =>
      if has then
        rbind (r_read_raw 16) (fun t => rbind (r_read_raw 8) (fun s => rbind r_get_str (fun st => rbind r_get_u8 (fun fl =>
          RRet (FSpan (Some {| sp_trace := swap8 t ; sp_span := swap8 s ; sp_state := st ; sp_flags := fl |}))))))
      else RRet (FSpan None))
  end.

Fixpoint r_decode_fields (v : N) (l : layout) : rd (list fv) :=
  match l with
  | [] => RRet []
  | f :: l' =>
    rbind (if gate_in v (fgates f) then r_dec_field (fk f) else RRet (default_of (fk f))) (fun x =>
    rbind (r_decode_fields v l') (fun xs => RRet (x :: xs)))
  end.

(* ServerCode.IsAServerCode *)
Definition server_codes : list N :=
  map Z.to_N [ServerCodeHello; ServerCodeData; ServerCodeException; ServerCodeProgress; ServerCodePong;
              ServerCodeEndOfStream; ServerCodeProfile; ServerCodeTotals; ServerCodeExtremes; ServerCodeTablesStatus;
              ServerCodeLog; ServerCodeTableColumns; ServerPartUUIDs; ServerReadTaskRequest; ServerProfileEvents].

(* ---- everything above the raw reader ------------------------------------------------- *)
(* proto.Reader: raw, the decompressing reader's buffer, and which of the two r.data points to *)
Record prd (St : Type) := { p_raw : St ; p_data : bytes ; p_pos : N ; p_comp : bool }.
Arguments p_raw {St} _.
Arguments p_data {St} _.
Arguments p_pos {St} _.
Arguments p_comp {St} _.

Inductive rr (St A : Type) : Type :=
| ROk (a : A) (s : prd St)
| RErr (e : serr) (s : prd St)
| RCrash (c : crash)
| RFuel.
Arguments ROk {St A} a s.
Arguments RErr {St A} e s.
Arguments RCrash {St A} c.
Arguments RFuel {St A}.

Inductive step (R : Type) := Continue | Done (r : R).
Arguments Continue {R}.
Arguments Done {R} r.

Section Upper.
Variable St : Type.
Variable rfull : nat -> St -> option ((bytes + ioerr) * St).    (* io.ReadFull(raw, buf[:n]) *)
Variable avail : St -> nat.
Variable arm : bool -> St -> St.                                  (* conn.SetReadDeadline(deadline / time.Time{}) *)
Variable H : bytes -> N * N.
Variable decomp : N -> bytes -> N -> option bytes.

Definition with_raw (s : prd St) (raw : St) : prd St :=
  {| p_raw := raw ; p_data := p_data s ; p_pos := p_pos s ; p_comp := p_comp s |}.
Definition with_comp (on : bool) (s : prd St) : prd St :=
  {| p_raw := p_raw s ; p_data := p_data s ; p_pos := p_pos s ; p_comp := on |}.
Definition p_init (raw : St) : prd St := {| p_raw := raw ; p_data := [] ; p_pos := 0 ; p_comp := false |}.

(* compress.Reader.readBlock over io.ReadFull(r.reader, ...): same statements as Compress.read_block *)
Definition zread_block (raw : St) : option ((serr + bytes) * St) :=
  match rfull headerSize raw with
  | None => None
  | Some (inr e, raw1) => Some (inl (SFrameIo true e), raw1)
  | Some (inl header, raw1) =>
    let rawSizeZ := (Z.of_N (le_get (firstn 4 (skipn hRawSize header))) - Z.of_N compressHeaderSize)%Z in
    let dataSize := le_get (firstn 4 (skipn hDataSize header)) in
    if maxDataSize <? dataSize then Some (inl (SFrame CEDataSize), raw1)
    else if ((rawSizeZ <? 0) || (Z.of_N maxBlockSize <? rawSizeZ))%Z then Some (inl (SFrame CERawSize), raw1)
    else
      let rawSize := Z.to_N rawSizeZ in
      (* io.ReadFull(r.reader, r.raw[headerSize:]).  A hostile size is never turned into a unary number: asking
         for one byte more than is still to come fails in the same way and consumes the same bytes
         (StreamProofs.rfull_F_clamp) *)
      let want := N.min rawSize (N.of_nat (avail raw1) + 1) in
      match rfull (N.to_nat want) raw1 with
      | None => None
      | Some (inr e, raw2) => Some (inl (SFrameIo false e), raw2)
      | Some (inl payload, raw2) =>
        let rawb := header ++ payload in
        let hGot := (le_get (firstn 8 rawb), le_get (firstn 8 (skipn 8 rawb))) in
        let h := h128 H (skipn hMethod rawb) in
        if negb (pair_eqb hGot h) then Some (inl (SFrame (CECorrupt h hGot rawSize dataSize)), raw2)
        else match decode_payload decomp (nth hMethod header 0) payload rawSize dataSize with
             | inl e => Some (inl (SFrame e), raw2)
             | inr d => Some (inr d, raw2)
             end
      end
  end.

(* compress.Reader.Read(p), len(p) = n *)
Definition zread (n : nat) (s : prd St) : option ((bytes + serr) * prd St) :=
  if blen (p_data s) <=? p_pos s then
    match zread_block (p_raw s) with
    | None => None
    | Some (inl e, raw') =>
      (* r.pos = 0 (readBlock); r.data = r.data[:0] (Read, on error) *)
      Some (inr e, {| p_raw := raw' ; p_data := [] ; p_pos := 0 ; p_comp := p_comp s |})
    | Some (inr d, raw') =>
      let k := Nat.min n (length d) in
      Some (inl (firstn k d), {| p_raw := raw' ; p_data := d ; p_pos := N.of_nat k ; p_comp := p_comp s |})
    end
  else
    let rest := skipn (N.to_nat (p_pos s)) (p_data s) in
    let k := Nat.min n (length rest) in
    Some (inl (firstn k rest),
          {| p_raw := p_raw s ; p_data := p_data s ; p_pos := p_pos s + N.of_nat k ; p_comp := p_comp s |}).

(* io.ReadFull over compress.Reader.Read; its errors are wrapped ("read next block"), so none of them == io.EOF *)
Fixpoint zfull (fuel n : nat) (acc : list bytes) (s : prd St) : option ((bytes + serr) * prd St) :=
  match n with
  | O => Some (inl (concat (rev acc)), s)
  | _ =>
    match fuel with
    | O => None
    | S f =>
      match zread n s with
      | None => None
      | Some (inl d, s') => zfull f (n - length d) (d :: acc) s'
      | Some (inr e, s') => Some (inr e, s')
      end
    end
  end.

Definition pending (s : prd St) : bytes := skipn (N.to_nat (p_pos s)) (p_data s).
(* ghost: bytes present (under compression: undelivered decompressed bytes plus raw bytes) *)
Definition p_avail (s : prd St) : nat :=
  if p_comp s then (length (pending s) + avail (p_raw s))%nat else avail (p_raw s).

(* io.ReadFull(r.data, buf[:n]) *)
Definition p_readfull (n : nat) (s : prd St) : option ((bytes + serr) * prd St) :=
  if p_comp s then zfull (n + avail (p_raw s) + 2) n [] s
  else match rfull n (p_raw s) with
       | None => None
       | Some (inl b, raw') => Some (inl b, with_raw s raw')
       | Some (inr e, raw') => Some (inr (SIo e), with_raw s raw')
       end.

Fixpoint run {A} (p : rd A) (s : prd St) : rr St A :=
  match p with
  | RRet a => ROk a s
  | RFail e => RErr (SDec e) s
  | RCrsh c => RCrash c
  | RFull n k =>
    match p_readfull n s with
    | None => RFuel
    | Some (inl b, s') => run (k b) s'
    | Some (inr e, s') => RErr e s'
    end
  | RAvail k => run (k (p_avail s)) s
  | RComp on k => run k (with_comp on s)
  end.

(* Client.packet (client.go): SetReadDeadline(now+ReadTimeout); defer SetReadDeadline(time.Time{});
   n := reader.UVarInt(); code := proto.ServerCode(n); if !code.IsAServerCode() { error } *)
Definition p_arm (a : bool) (s : prd St) : prd St := with_raw s (arm a (p_raw s)).
Definition packet (s : prd St) : rr St N :=
  match run r_uvarint (p_arm true s) with
  | ROk n s' => let s'' := p_arm false s' in
                let code := n mod 256 in                     (* proto.ServerCode(n): a byte *)
                if mem_N code server_codes then ROk code s'' else RErr (SDec EInvalid) s''
  | RErr e s' => RErr e (p_arm false s')
  | RCrash c => RCrash c
  | RFuel => RFuel
  end.

(* the receive loop of Client.Do (query.go):
     for { code, err := c.packet(ctx)
           if err != nil { if errors.As(err, &opErr) && opErr.Timeout() { continue }; return err }
           switch code { ... } }
   [body code] is whatever the packet's handler reads and decides *)
Fixpoint recv_loop {R} (body : N -> rd (step R)) (fuel : nat) (s : prd St) : rr St R :=
  match fuel with
  | O => RFuel
  | S f =>
    match packet s with
    | RErr e s' => if is_timeout e then recv_loop body f s' else RErr e s'
    | RCrash c => RCrash c
    | RFuel => RFuel
    | ROk code s' =>
      match run (body code) s' with
      | ROk Continue s'' => recv_loop body f s''
      | ROk (Done r) s'' => ROk r s''
      | RErr e s'' => RErr e s''
      | RCrash c => RCrash c
      | RFuel => RFuel
      end
    end
  end.

End Upper.

Arguments with_raw {St} s raw.
Arguments with_comp {St} on s.
Arguments p_init {St} raw.
Arguments pending {St} s.

(* ---- the three instances -------------------------------------------------------------- *)
Definition run_L (orc : nat -> nat) H decomp {A} := @run bufio (rfull_L orc) avail_L H decomp A.
Definition run_G H decomp {A} := @run gflat rfull_G avail_G H decomp A.
Definition run_F H decomp {A} := @run flat rfull_F avail_F H decomp A.

Definition packet_L (orc : nat -> nat) H decomp := packet bufio (rfull_L orc) avail_L arm_L H decomp.
Definition packet_G H decomp := packet gflat rfull_G avail_G arm_G H decomp.
Definition packet_F H decomp := packet flat rfull_F avail_F arm_F H decomp.

Definition recv_L (orc : nat -> nat) H decomp {R} := @recv_loop bufio (rfull_L orc) avail_L arm_L H decomp R.
Definition recv_G H decomp {R} := @recv_loop gflat rfull_G avail_G arm_G H decomp R.
Definition recv_F H decomp {R} := @recv_loop flat rfull_F avail_F arm_F H decomp R.

(* the packet-code read alone: a receive loop whose handler returns the code *)
Definition code_body_m : N -> rd (step N) := fun code => RRet (Done code).

(* ---- projections ------------------------------------------------------------------------ *)
Definition pmap_st {S1 S2} (f : S1 -> S2) (s : prd S1) : prd S2 :=
  {| p_raw := f (p_raw s) ; p_data := p_data s ; p_pos := p_pos s ; p_comp := p_comp s |}.
Definition rr_map {S1 S2 A} (f : S1 -> S2) (r : rr S1 A) : rr S2 A :=
  match r with
  | ROk a s => ROk a (pmap_st f s)
  | RErr e s => RErr e (pmap_st f s)
  | RCrash c => RCrash c
  | RFuel => RFuel
  end.

(* what the decoders of L2-L4 (Prim.parser) can see of an outcome: the value and the unread input, or the class
   of the failure *)
Definition err_class (e : serr) : err :=
  match e with
  | SDec e => e
  | SFrame _ => ECorrupt
  | _ => EEof
  end.
Definition to_res {A} (r : rr flat A) : res A :=
  match r with
  | ROk a s => Ok a (f_bytes (p_raw s))
  | RErr e _ => Err (err_class e)
  | RCrash c => Crash c
  | RFuel => Err EFuel
  end.

(* a reader program implements a flat-stream parser: from every state of the flat reader with compression
   off it returns what the parser returns on the bytes still to come, and leaves compression off *)
Definition comp_off {St A} (r : rr St A) : Prop :=
  match r with ROk _ s => p_comp s = false | _ => True end.
Definition realizes {A} (P : rd A) (p : parser A) : Prop :=
  forall H decomp (s : prd flat), p_comp s = false ->
    to_res (run_F H decomp P s) = p (f_bytes (p_raw s)) /\ comp_off (run_F H decomp P s).

(* initial states *)
Definition conn_init (evs : list event) (tl : ioerr) : bufio :=
  {| b_buf := [] ; b_conn := {| c_evs := evs ; c_tl := tl ; c_armed := false ; c_calls := 0 |} |}.
