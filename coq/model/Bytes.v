(* L0: bytes, little-endian integers, two's complement views.
   Executable definitions only (no proofs): the model still runs when a proof breaks. *)
From Coq Require Export List NArith ZArith Bool Lia.
Export ListNotations.
Open Scope N_scope.

(* notations, not definitions: [length (A:=byte)] and [length (A:=N)] must be the same term for lia/rewrite *)
Notation byte := N (only parsing).
Notation bytes := (list N) (only parsing).

Definition wf_bytes (b : bytes) : Prop := Forall (fun x => x < 256) b.
Definition wf_bytesb (b : bytes) : bool := forallb (fun x => x <? 256) b.

Definition blen (b : bytes) : N := N.of_nat (length b).

(* little-endian: [le_put k v] = the k low bytes of v *)
Fixpoint le_put (k : nat) (v : N) : bytes :=
  match k with
  | O => []
  | S k' => (v mod 256) :: le_put k' (v / 256)
  end.

Fixpoint le_get (b : bytes) : N :=
  match b with
  | [] => 0
  | x :: b' => x + 256 * le_get b'
  end.

(* two's complement *)
Definition wrapN (bits : N) (z : Z) : N := Z.to_N (z mod 2 ^ Z.of_N bits).
Definition to_signed (bits : N) (n : N) : Z :=
  if n <? 2 ^ (bits - 1) then Z.of_N n else (Z.of_N n - 2 ^ Z.of_N bits)%Z.

Definition wrap64 (z : Z) : N := wrapN 64 z.
Definition to_i64 (n : N) : Z := to_signed 64 n.
Definition wrap32 (z : Z) : N := wrapN 32 z.
Definition to_i32 (n : N) : Z := to_signed 32 n.

Definition in_i64 (z : Z) : Prop := (- 2 ^ 63 <= z < 2 ^ 63)%Z.
Definition in_i64b (z : Z) : bool := ((- 2 ^ 63 <=? z) && (z <? 2 ^ 63))%Z.
Definition in_i32 (z : Z) : Prop := (- 2 ^ 31 <= z < 2 ^ 31)%Z.
Definition in_i32b (z : Z) : bool := ((- 2 ^ 31 <=? z) && (z <? 2 ^ 31))%Z.

(* byte-swap each 8-byte group (segmentio/asm/bswap.Swap64); a trailing
   group shorter than 8 makes the real function panic *)
Fixpoint chunks8 (fuel : nat) (b : bytes) : option (list bytes) :=
  match fuel with
  | O => match b with [] => Some [] | _ => None end
  | S f =>
    match b with
    | [] => Some []
    | _ => if Nat.ltb (length b) 8 then None
           else match chunks8 f (skipn 8 b) with
                | Some r => Some (firstn 8 b :: r)
                | None => None
                end
    end
  end.

Definition bswap64 (b : bytes) : option bytes :=
  match chunks8 (length b) b with
  | Some cs => Some (concat (map (@rev byte) cs))
  | None => None
  end.

Fixpoint bytes_eqb (a b : bytes) : bool :=
  match a, b with
  | [], [] => true
  | x :: a', y :: b' => (x =? y) && bytes_eqb a' b'
  | _, _ => false
  end.

Fixpoint repeatN {A} (x : A) (n : nat) : list A :=
  match n with O => [] | S k => x :: repeatN x k end.
