(* Transcript interface for the transport layers under proto.Reader (C08).

     rd (<ev> ...) <tl> (<k> ...) (<op> ...) (<h> ...) (<z> ...)
        <ev>   x<hex> = a chunk the connection delivers, t = a silence longer than the read timeout
        <tl>   eof | net : what the connection returns once the events are exhausted
        <k>    the short-read pattern, applied cyclically to the connection's Read calls
               (0 = everything available, k = at most k bytes)
        <op>   (f n) Reader.ReadFull of n bytes     (w n) Reader.ReadRaw(n)      (u) Reader.UVarInt
               (s) Reader.StrRaw                      (b) Reader.UInt8             (k) Reader.Bool
               (i) Reader.Int32                       (q) Reader.UInt64
               (c t) / (c f) Enable/DisableCompression
               (p n) the packet-code read of Client.packet (deadline armed, UVarInt, deadline reset, IsAServerCode)
                     retried on a timeout as the receive loop does, at most n rounds
        <h> <z> hash and codec tables over the concatenated chunks, as in GlueCmp
        ->  ok <obs> ... (rest <len> x<first bytes>)
            <obs>  (d x<bytes>) | (n <value>) | (c) | (e) any error | (crash) | (fuel)
            rest = what is still unread once compression is switched off again (all ops done) *)
From CH Require Import model.Sx model.Compress model.GlueCmp model.Stream.
Open Scope N_scope.

Inductive sop := OF (n : N) | OW (n : N) | OU | OS | OB | OK | OI | OQ | OC (on : bool) | OP (n : N).

Definition get_sop (x : sx) : option sop :=
  match x with
  | L [k] =>
    if is_sym k "u" then Some OU else if is_sym k "s" then Some OS else if is_sym k "b" then Some OB
    else if is_sym k "k" then Some OK else if is_sym k "i" then Some OI else if is_sym k "q" then Some OQ else None
  | L [k; a] =>
    if is_sym k "c" then match get_abool a with Some b => Some (OC b) | None => None end
    else match get_an a with
         | Some n => if is_sym k "f" then Some (OF n) else if is_sym k "w" then Some (OW n)
                     else if is_sym k "p" then Some (OP n) else None
         | None => None
         end
  | _ => None
  end.

Definition get_ev (x : sx) : option event :=
  if is_sym x "t" then Some Timeout
  else match get_ab x with Some b => Some (Chunk b) | None => None end.

Definition orc_of (ks : list N) (i : nat) : nat :=
  match ks with
  | [] => O
  | _ => N.to_nat (nth (Nat.modulo i (length ks)) ks 0)
  end.

Inductive sobs := BData (b : bytes) | BNum (n : N) | BZ (z : Z) | BC | BErr | BCrash | BFuel.

Section Run.
Variable orc : nat -> nat.
Variable H : bytes -> N * N.
Variable decomp : N -> bytes -> N -> option bytes.

Definition lift {A} (f : A -> sobs) (r : rr bufio A) (s : prd bufio) : sobs * option (prd bufio) :=
  match r with
  | ROk a s' => (f a, Some s')
  | RErr _ s' => (BErr, Some s')
  | RCrash _ => (BCrash, None)
  | RFuel => (BFuel, None)
  end.

Definition do_sop (o : sop) (s : prd bufio) : sobs * option (prd bufio) :=
  match o with
  | OF n => lift BData (run_L orc H decomp (r_read_n (N.to_nat n)) s) s
  | OW n => lift BData (run_L orc H decomp (r_read_raw (N.to_nat n)) s) s
  | OU => lift BNum (run_L orc H decomp r_uvarint s) s
  | OS => lift BData (run_L orc H decomp r_get_str s) s
  | OB => lift BNum (run_L orc H decomp r_get_u8 s) s
  | OK => lift (fun b : bool => BNum (if b then 1 else 0)) (run_L orc H decomp r_get_bool s) s
  | OI => lift BZ (run_L orc H decomp r_get_i32 s) s
  | OQ => lift BNum (run_L orc H decomp r_get_u64 s) s
  | OC on => (BC, Some (with_comp on s))
  | OP n => lift BNum (recv_L orc H decomp code_body_m (N.to_nat n) s) s
  end.

Fixpoint run_sops (ops : list sop) (s : prd bufio) (acc : list sobs) : list sobs * option (prd bufio) :=
  match ops with
  | [] => (acc, Some s)
  | o :: ops' =>
    match do_sop o s with
    | (b, Some s') => run_sops ops' s' (b :: acc)
    | (b, None) => (b :: acc, None)
    end
  end.
End Run.

Definition pr_sobs (b : sobs) : sx :=
  match b with
  | BData d => L [asym "d"; ab d]
  | BNum n => L [asym "n"; an n]
  | BZ z => L [asym "n"; az z]
  | BC => L [asym "c"]
  | BErr => L [asym "e"]
  | BCrash => L [asym "crash"]
  | BFuel => L [asym "fuel"]
  end.

Definition get_tl (x : sx) : option ioerr :=
  if is_sym x "eof" then Some IEof else if is_sym x "net" then Some INet else None.

Definition run_stream (xs : list sx) : option (list sx) :=
  match xs with
  | [k; L evs; tl; L ks; L ops; L hs; L zs] =>
    if is_sym k "rd" then
      match map_opt get_ev evs, get_tl tl, map_opt get_an ks, map_opt get_sop ops with
      | Some evs, Some tl, Some ks, Some ops =>
        let st := cat_evs evs in
        match map_opt (get_h st) hs, map_opt (get_z st) zs with
        | Some ht, Some zt =>
          let '(obs, fin) := run_sops (orc_of ks) (H_of ht) (decomp_of zt) ops (p_init (conn_init evs tl)) [] in
          let tail := match fin with
                      | Some s => let r := flatten (arm_L false (p_raw s)) in
                                  [L [asym "rest"; an (blen r); ab (firstn 16 r)]]
                      | None => []
                      end in
          Some (asym "ok" :: map pr_sobs (rev obs) ++ tail)
        | _, _ => None
        end
      | _, _, _, _ => None
      end
    else None
  | _ => None
  end.

Definition run_line (line : bytes) : bytes :=
  match parse_line line with
  | Some xs => match run_stream xs with Some out => pr_items out | None => bad_line end
  | None => bad_line
  end.
