(* L4 (C18): binding a result block to caller-supplied targets, with the state every target is
   left in — also when decoding fails.

     Results.DecodeResult, Results.decodeAuto, ResultColumn / AutoResult      /repo/proto/results.go, block.go
     the Inferable hook of every column kind: ColEnum.Infer/parse, ColDateTime.Infer,
     ColDateTime64.Infer, ColInterval.Infer, ColArr.Infer, ColNullable.Infer, ColLowCardinality.Infer,
     ColMap.Infer, ColTuple.Infer (splitTypeArgs), ColNamed.Infer (CutPrefix), ColAuto.Infer (as a target)   /repo/proto/col_*.go

   model/Block.v has the same loop as a parser that returns the targets on success only and is
   parametrised by [conflicts], [infer_target], [infer_auto]; this file gives the three executable
   instances and a refinement of the loop that also returns what a failed call leaves behind
   (targets before the failing column hold their own column's data, the failing one is as the code
   leaves it - after a DecodeState / DecodeColumn error that is the partially decoded column of
   model/DecPart.v -, later ones are untouched).  proofs/ResultsProofs.v shows that the refinement and
   Block.decode_result agree.  Executable definitions only. *)
From CH Require Export model.Block model.TypeStr model.DecPart.
From CH Require Import gen.Features gen.Consts gen.Codecs gen.TypeNames.
Open Scope N_scope.
Open Scope list_scope.

(* ColumnType.Conflicts as a boolean (it never fails: TypeStrProofs.conflicts_r_ok) *)
Definition conflicts_b (c b : bytes) : bool :=
  match conflicts_r c b with Ok r _ => r | _ => true end.

(* outcome of an Infer call; [ICrash] = a Go slice expression out of range (unreachable, see proofs) *)
Inductive iout := IOk | IErr | ICrash.

(* which Go column a fixed-width model column is, as far as Infer is concerned *)
Inductive fixk := FPlain | FDateTime | FDateTime64 | FInterval.
Definition fix_kind (name : bytes) (w : nat) : fixk :=
  match base_r name with
  | Ok bs _ =>
    if bytes_eqb bs T_DateTime && (w =? 4)%nat then FDateTime
    else if bytes_eqb bs T_DateTime64 && (w =? 8)%nat then FDateTime64
    else if existsb (bytes_eqb name) interval_names && (w =? 8)%nat then FInterval
    else FPlain
  | _ => FPlain
  end.

(* the dynamic type implements Inferable *)
Definition inferable_ty (t : ty) : bool :=
  match t with
  | TFix name w => match fix_kind name w with FPlain => false | _ => true end
  | TEnum _ _ _ | TArr _ | TNullable _ | TLowCard _ | TMap _ _ | TTuple _ | TNamed _ _ => true
  | _ => false
  end.

(* splitTypeArgs of proto/col_map.go: the arguments of a composite type, cut at the commas that are neither nested in
   parentheses nor quoted ('...' with backslash escapes).  [cur] is the current piece, reversed. *)
Inductive smode := MNormal | MQuote | MEsc.
Fixpoint split_top (m : smode) (depth : Z) (cur : bytes) (s : bytes) : list bytes :=
  match s with
  | [] => [rev cur]
  | c :: s' =>
    match m with
    | MEsc => split_top MQuote depth (c :: cur) s'                       (* the escaped character *)
    | MQuote =>
      if c =? 92 then split_top MEsc depth (c :: cur) s'
      else if c =? 39 then split_top MNormal depth (c :: cur) s'
      else split_top MQuote depth (c :: cur) s'
    | MNormal =>
      if c =? 39 then split_top MQuote depth (c :: cur) s'
      else if c =? 40 then split_top MNormal (depth + 1) (c :: cur) s'
      else if c =? 41 then split_top MNormal (depth - 1) (c :: cur) s'
      else if (c =? 44) && (depth =? 0)%Z then rev cur :: split_top MNormal depth [] s'
      else split_top MNormal depth (c :: cur) s'
    end
  end.
Definition split_type_args (s : bytes) : list bytes := split_top MNormal 0 [] s.

(* strings.CutPrefix *)
Definition cut_prefix (p s : bytes) : option bytes :=
  if has_prefix p s then Some (skipn (length p) s) else None.

(* width of the columns ColAuto creates with new(ColX) *)
Definition gen_width (go : bytes) : option nat :=
  option_map (fun '(n, w, _, _, _, _, _) => N.to_nat w)
             (find (fun '(n, _, _, _, _, _, _) => bytes_eqb (s2b n) go) codec_table).

(* TypeStr's column-kind tree as a column type of model/Columns.v *)
Fixpoint ty_of_col (c : TypeStr.col) : option ty :=
  match c with
  | CGen go =>
    if bytes_eqb go (s2b "ColStr") then Some TStr
    else if bytes_eqb go (s2b "ColBool") then Some TBool
    else if bytes_eqb go (s2b "ColUUID") then Some TUUID
    else if bytes_eqb go (s2b "ColNothing") then Some TNothing
    else option_map (TFix (col_type c)) (gen_width go)
  | CInterval _ => Some (TFix (col_type c) 8)
  | CDateTime _ => Some (TFix (col_type c) 4)
  | CDateTime64 _ _ => Some (TFix (col_type c) 8)
  | CEnum t ebase defs => Some (TEnum t (if bytes_eqb ebase T_Enum8 then 1 else 2) defs)
  | CMap k v => match ty_of_col k, ty_of_col v with Some a, Some b => Some (TMap a b) | _, _ => None end
  | CArr d => option_map TArr (ty_of_col d)
  | CNullable d => option_map TNullable (ty_of_col d)
  | CLowCard d => option_map TLowCard (ty_of_col d)
  end.

(* DecodeState + DecodeColumn into a reset column; nothing is read for a block without rows *)
Definition dec_body (b : build) (t : ty) (nrows : N) : parser cdata :=
  if nrows =? 0 then ret (empty t) else dec_state t ;;; dec b t nrows.

(* ---- targets ------------------------------------------------------------------------ *)
(* the Data of a ResultColumn *)
Inductive tcol :=
| CTyped (t : ty) (d : cdata)                  (* a column object supplied by the caller *)
| CAutoNil                                     (* &ColAuto{} before its first Infer (AutoResult) *)
| CAutoHeld (dtype : bytes) (t : ty) (d : cdata).   (* ColAuto{Data, DataType} *)
Record rtarget := { rt_name : bytes ; rt_col : tcol }.

(* Data.Type() *)
Definition tcol_type (c : tcol) : bytes :=
  match c with
  | CTyped t _ => type_str t
  | CAutoNil => []
  | CAutoHeld dt _ _ => dt
  end.
Definition tcol_ty (c : tcol) : option ty :=
  match c with CTyped t _ | CAutoHeld _ t _ => Some t | CAutoNil => None end.
Definition tcol_data (c : tcol) : option cdata :=
  match c with CTyped _ d | CAutoHeld _ _ d => Some d | CAutoNil => None end.
Definition set_data (c : tcol) (d : cdata) : tcol :=
  match c with
  | CTyped t _ => CTyped t d
  | CAutoHeld dt t _ => CAutoHeld dt t d
  | CAutoNil => CAutoNil
  end.

(* where and why DecodeBlock gave up *)
Inductive bfail :=
| FBlock      (* block info / column count / row count unreadable or out of range *)
| FCount      (* column count differs from the number of targets *)
| FHeader     (* a column's name, type or serialization flag unreadable *)
| FCustom     (* custom serialization flag set *)
| FName       (* column name differs from the target's *)
| FInfer      (* the target's Infer rejected the type *)
| FType       (* ColumnType.Conflicts *)
| FDecode.    (* DecodeState / DecodeColumn failed *)
Inductive sout := SOk (rest : bytes) | SFail (k : bfail) (e : err) | SCrash (c : crash).
Inductive bout := BOk (rest : bytes) | BFail (i : nat) (k : bfail) (e : err) | BCrash (c : crash).

Section Res.
  Variable zone : bytes -> option bytes.      (* time.LoadLocation: Some n = a location whose String() is n *)
  Variable to_lower : bytes -> bytes.         (* strings.ToLower (irrelevant: TypeStrProofs.interval_infer_lower_irrelevant) *)

  (* ColDateTime64.Infer on a column whose Type() is [name]: nothing is stored unless the whole type is accepted;
     a type without a zone leaves no zone behind *)
  Definition dt64_infer (name : bytes) (s : bytes) : bytes * iout :=
    match elem_r s with
    | Crash _ => (name, ICrash)
    | Err _ => (name, IErr)
    | Ok e _ =>
      match e with
      | [] => (name, IErr)
      | _ =>
        let '(pStr, locStr, hasloc) := cut_byte 44 e in
        match parse_uint8 (trim_set [39; 32] pStr) with
        | None => (name, IErr)
        | Some n =>
          if negb (n <=? precision_max) then (name, IErr)
          else if hasloc then
            match zone (trim_set [39; 32] locStr) with
            | Some l => (col_type (CDateTime64 n (Some l)), IOk)
            | None => (name, IErr)
            end
          else (col_type (CDateTime64 n None), IOk)
        end
      end
    end.

  Definition of_res (dflt : ty) (w : nat) (r : res TypeStr.col) : ty * iout :=
    match r with
    | Ok c _ => (TFix (col_type c) w, IOk)
    | Err _ => (dflt, IErr)
    | Crash _ => (dflt, ICrash)
    end.

  (* x.Infer(s) for a column x whose dynamic type is Inferable: the column's parameters afterwards
     (also after a failure) and the outcome.  Contents are never touched by Infer. *)
  Fixpoint infer_st (t : ty) (s : bytes) : ty * iout :=
    match t with
    | TFix name w =>
      match fix_kind name w with
      | FPlain => (t, IOk)
      | FDateTime => of_res t w (datetime_infer zone s)                  (* ColDateTime.Infer *)
      | FInterval => of_res t w (interval_infer to_lower s)              (* ColInterval.Infer *)
      | FDateTime64 => let '(n, o) := dt64_infer name s in (TFix n w, o)  (* ColDateTime64.Infer *)
      end
    | TEnum _ _ _ =>                                                     (* ColEnum.Infer: all or nothing *)
      match enum_infer s with
      | Ok c _ => match ty_of_col c with Some t' => (t', IOk) | None => (t, IErr) end
      | Err _ => (t, IErr)
      | Crash _ => (t, ICrash)
      end
    | TArr d =>                                                          (* ColArr.Infer *)
      if inferable_ty d then
        match elem_r s with
        | Ok e _ => let '(d', o) := infer_st d e in (TArr d', o)
        | Err _ => (t, IErr)
        | Crash _ => (t, ICrash)
        end
      else (t, IOk)
    | TNullable d =>                                                     (* ColNullable.Infer *)
      if inferable_ty d then
        match elem_r s with
        | Ok e _ => let '(d', o) := infer_st d e in (TNullable d', o)
        | Err _ => (t, IErr)
        | Crash _ => (t, ICrash)
        end
      else (t, IOk)
    | TLowCard d =>                                                      (* ColLowCardinality.Infer *)
      if inferable_ty d then
        match elem_r s with
        | Ok e _ => let '(d', o) := infer_st d e in (TLowCard d', o)
        | Err _ => (t, IErr)
        | Crash _ => (t, ICrash)
        end
      else (t, IOk)
    | TMap k v =>                                                        (* ColMap.Infer *)
      match elem_r s with
      | Ok e _ =>
        match split_type_args e with
        | [kt; vt] =>
          let '(k', ok) := if inferable_ty k then infer_st k (trim_space kt) else (k, IOk) in
          match ok with
          | IOk =>
            let '(v', ov) := if inferable_ty v then infer_st v (trim_space vt) else (v, IOk) in
            (TMap k' v', ov)
          | _ => (TMap k' v, ok)
          end
        | _ => (t, IErr)                                                 (* "invalid map type" *)
        end
      | Err _ => (t, IErr)
      | Crash _ => (t, ICrash)
      end
    | TTuple ts =>                                                       (* ColTuple.Infer *)
      (* the arguments are split, and their number checked, when the loop meets the first Inferable element: nothing
         has been touched before that, so this is the same as doing it up front when there is one *)
      if existsb inferable_ty ts then
        match elem_r s with
        | Ok e _ =>
          let args := split_type_args e in
          if negb (length args =? length ts)%nat then (t, IErr)             (* the type cannot be adopted *)
          else
            let '(ts', o) :=
              (fix go (ts : list ty) (args : list bytes) : list ty * iout :=
                 match ts, args with
                 | t0 :: r, a :: ar =>                                    (* element i gets ITS argument, trimmed *)
                   let '(t0', o) := if inferable_ty t0 then infer_st t0 (trim_space a) else (t0, IOk) in
                   match o with
                   | IOk => let '(r', o') := go r ar in (t0' :: r', o')
                   | _ => (t0' :: r, o)
                   end
                 | _, _ => (ts, IOk)
                 end) ts args in
            (TTuple ts', o)
        | Err _ => (t, IErr)
        | Crash _ => (t, ICrash)
        end
      else (t, IOk)
    | TNamed n d =>                                                      (* ColNamed.Infer: an element of a named tuple is "name type" *)
      if inferable_ty d then
        match cut_prefix (n ++ [32]) s with
        | Some e => let '(d', o) := infer_st d e in (TNamed n d', o)
        | None => (t, IErr)                                              (* not an element of this name *)
        end
      else (t, IOk)
    | _ => (t, IOk)
    end.

  (* `if infer, ok := t.Data.(Inferable); ok { infer.Infer(gotType) }` of a typed target, in the
     form model/Block.v takes it *)
  Definition infer_target (t : ty) (s : bytes) : option ty :=
    if inferable_ty t then
      match infer_st t s with (t', IOk) => Some t' | _ => None end
    else Some t.

  (* ColAuto.Infer on a fresh ColAuto: the column it creates *)
  Definition infer_auto (s : bytes) : option ty :=
    match infer_col zone to_lower s with
    | Ok c _ => ty_of_col c
    | _ => None
    end.

  (* inference from scratch inside ColAuto.Infer; a failure leaves the ColAuto as it is *)
  Definition auto_fresh (c : tcol) (s : bytes) : tcol * iout :=
    match infer_auto s with
    | Some t' => (CAutoHeld s t' (empty t'), IOk)
    | None => (c, IErr)
    end.

  (* the Inferable hook of a target's Data *)
  Definition infer_tcol (c : tcol) (s : bytes) : tcol * iout :=
    match c with
    | CTyped t d =>
      if inferable_ty t then let '(t', o) := infer_st t s in (CTyped t' d, o) else (c, IOk)
    | CAutoNil => auto_fresh c s
    | CAutoHeld dt t d =>                                                 (* ColAuto.Infer *)
      if negb (conflicts_b dt s) then
        if negb (inferable_ty t) then (CAutoHeld s t d, IOk)
        else
          let '(t', o) := infer_st t s in
          match o with
          | IOk => (CAutoHeld s t' d, IOk)
          | ICrash => (CAutoHeld dt t' d, ICrash)
          | IErr => auto_fresh (CAutoHeld dt t' d) s                      (* the held column could not take it *)
          end
      else auto_fresh c s
    end.

  (* name, type and the custom-serialization flag of one column (Block.dec_col_header, with the
     failure classified) *)
  Definition read_header (v : N) (s : bytes) : (bytes * bytes * bytes) + sout :=
    match (name <- get_str ;; tstr <- get_str ;; ret (name, tstr)) s with
    | Err e => inr (SFail FHeader e)
    | Crash c => inr (SCrash c)
    | Ok (name, tstr) s1 =>
      if gate v FeatureCustomSerialization then
        match get_bool s1 with
        | Err e => inr (SFail FHeader e)
        | Crash c => inr (SCrash c)
        | Ok true _ => inr (SFail FCustom EInvalid)
        | Ok false s2 => inl (name, tstr, s2)
        end
      else inl (name, tstr, s1)
    end.

  (* one iteration of the loop of Results.DecodeResult for target [t] *)
  Definition bind_one (b : build) (v nrows : N) (t : rtarget) (s : bytes) : rtarget * sout :=
    match read_header v s with
    | inr o => (t, o)
    | inl (name, tstr, s2) =>
      let tname := match rt_name t with [] => name | _ => rt_name t end in       (* name inference, written back *)
      if negb (bytes_eqb tname name) then ({| rt_name := tname ; rt_col := rt_col t |}, SFail FName EInvalid) else
      let '(c1, o) := infer_tcol (rt_col t) tstr in
      match o with
      | ICrash => ({| rt_name := tname ; rt_col := c1 |}, SCrash CIndex)
      | IErr => ({| rt_name := tname ; rt_col := c1 |}, SFail FInfer EInvalid)
      | IOk =>
        if conflicts_b tstr (tcol_type c1) then ({| rt_name := tname ; rt_col := c1 |}, SFail FType EInvalid) else
        match tcol_ty c1 with
        | None => ({| rt_name := tname ; rt_col := c1 |}, SCrash CNeg)         (* Reset on a nil column: unreachable *)
        | Some ty' =>
          match dec_body b ty' nrows s2 with                                   (* Reset, DecodeState, DecodeColumn *)
          | Ok d s3 => ({| rt_name := tname ; rt_col := set_data c1 d |}, SOk s3)
          | Err e => ({| rt_name := tname ; rt_col := set_data c1 (body_part b ty' nrows s2) |}, SFail FDecode e)   (* what the decoder had stored: model/DecPart.v *)
          | Crash c => ({| rt_name := tname ; rt_col := set_data c1 (empty ty') |}, SCrash c)
          end
        end
      end
    end.

  (* the loop; [i] is the index of the first target of [ts] *)
  Fixpoint bind_targets (b : build) (v nrows : N) (i : nat) (ts : list rtarget) (s : bytes) : list rtarget * bout :=
    match ts with
    | [] => ([], BOk s)
    | t :: ts' =>
      match bind_one b v nrows t s with
      | (t', SOk s') => let '(r, o) := bind_targets b v nrows (S i) ts' s' in (t' :: r, o)
      | (t', SFail k e) => (t' :: ts', BFail i k e)
      | (t', SCrash c) => (t' :: ts', BCrash c)
      end
    end.

  (* headers only (no targets) *)
  Fixpoint skip_cols (v : N) (i n : nat) (s : bytes) : bout :=
    match n with
    | O => BOk s
    | S k =>
      match read_header v s with
      | inl (_, _, s2) => skip_cols v (S i) k s2
      | inr (SFail f e) => BFail i f e
      | inr (SCrash c) => BCrash c
      | inr (SOk _) => BOk s
      end
    end.

  (* Results.DecodeResult *)
  Definition bind_result (b : build) (v : N) (ncols nrows : N) (ts : list rtarget) (s : bytes) : list rtarget * bout :=
    match ts with
    | [] =>
      if negb (ncols =? 0) && negb (nrows =? 0) then ([], BFail 0 FCount EInvalid)
      else if ncols <=? blen s then ([], skip_cols v 0 (N.to_nat ncols) s)
           else ([], match skip_cols v 0 (length s) s with BOk _ => BFail 0 FHeader EEof | o => o end)
    | _ =>
      if negb (ncols =? N.of_nat (length ts)) then (ts, BFail 0 FCount EInvalid)
      else bind_targets b v nrows 0 ts s
    end.

  (* Results.decodeAuto on an empty Results: columns are appended one by one, so a failure leaves
     the columns decoded before it *)
  Fixpoint auto_cols (b : build) (v nrows : N) (i n : nat) (s : bytes) : list rtarget * bout :=
    match n with
    | O => ([], BOk s)
    | S k =>
      match read_header v s with
      | inr (SFail f e) => ([], BFail i f e)
      | inr (SCrash c) => ([], BCrash c)
      | inr (SOk _) => ([], BOk s)
      | inl (name, tstr, s2) =>
        match infer_auto tstr with
        | None => ([], BFail i FInfer EInvalid)
        | Some ty' =>
          match dec_body b ty' nrows s2 with
          | Ok d s3 =>
            let '(r, o) := auto_cols b v nrows (S i) k s3 in
            ({| rt_name := name ; rt_col := CTyped ty' d |} :: r, o)
          | Err e => ([], BFail i FDecode e)
          | Crash c => ([], BCrash c)
          end
        end
      end
    end.

  Definition auto_result (b : build) (v : N) (ncols nrows : N) (ts : list rtarget) (s : bytes) : list rtarget * bout :=
    match ts with
    | [] => if ncols <=? blen s then auto_cols b v nrows 0 (N.to_nat ncols) s
            else match auto_cols b v nrows 0 (length s) s with
                 | (r, BOk _) => (r, BFail (length r) FHeader EEof)
                 | x => x
                 end
    | _ => bind_result b v ncols nrows ts s
    end.

  (* Block.DecodeBlock with a Results (auto = false) or Results.Auto() target: block info, column
     and row count when they were read, the targets afterwards, the outcome *)
  Record block_out := { bo_info : block_info ; bo_cols : Z ; bo_rows : Z ; bo_targets : list rtarget ; bo_out : bout }.
  Definition decode_block_st (auto : bool) (b : build) (v : N) (ts : list rtarget) (s : bytes) : block_out :=
    let giveup e := {| bo_info := blank_block_info ; bo_cols := 0 ; bo_rows := 0 ; bo_targets := ts ; bo_out := e |} in
    match (if gate v FeatureBlockInfo then decode_BlockInfo blank_block_info else ret blank_block_info) s with
    | Err e => giveup (BFail 0 FBlock e)
    | Crash c => giveup (BCrash c)
    | Ok i s1 =>
      match get_int s1 with
      | Err e => giveup (BFail 0 FBlock e)
      | Crash c => giveup (BCrash c)
      | Ok c s2 =>
        if ((maxColumnsInBlock <? c) || (c <? 0))%Z then giveup (BFail 0 FBlock EInvalid) else
        match (r <- get_int ;; n <- check_rows r ;; ret (r, n)) s2 with
        | Err e => giveup (BFail 0 FBlock e)
        | Crash c => giveup (BCrash c)
        | Ok (r, nrows) s3 =>
          if ((c =? 0) && (r =? 0))%Z then
            {| bo_info := i ; bo_cols := c ; bo_rows := r ; bo_targets := ts ; bo_out := BOk s3 |}
          else
            let '(ts', o) := (if auto then auto_result else bind_result) b v (Z.to_N c) nrows ts s3 in
            {| bo_info := i ; bo_cols := c ; bo_rows := r ; bo_targets := ts' ; bo_out := o |}
        end
      end
    end.

  (* a query's blocks one after the other against the same Results *)
  Fixpoint run_blocks (auto : bool) (b : build) (v : N) (ts : list rtarget) (blocks : list bytes) : list block_out :=
    match blocks with
    | [] => []
    | s :: rest =>
      let o := decode_block_st auto b v ts s in
      o :: run_blocks auto b v (bo_targets o) rest
    end.
End Res.

(* typed targets as the columns of model/Block.v *)
Definition typed_target (c : Block.col) : rtarget :=
  {| rt_name := c_name c ; rt_col := CTyped (c_ty c) (c_data c) |}.
Definition col_of_target (t : rtarget) : option Block.col :=
  match rt_col t with
  | CTyped ty d => Some {| c_name := rt_name t ; c_ty := ty ; c_data := d |}
  | _ => None
  end.
