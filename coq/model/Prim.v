(* L1: proto.Buffer (Put* ) and proto.Reader primitives over a flat byte stream.
   Mirrors /repo/proto/buffer.go and /repo/proto/reader.go.

   Outcome of a decoder: [Ok a rest] (value and unread input), [Err e] (the Go
   function returned an error) or [Crash c] (the Go code would panic or abort:
   index out of range, negative make, allocation request beyond the budget). *)
From CH Require Export model.Bytes.
Open Scope N_scope.

Inductive err := EEof | EInvalid | ELimit | ECorrupt | EFuel | EUnsupported.
Inductive crash := CIndex | COom | CNeg.

Inductive res (A : Type) : Type :=
| Ok (a : A) (rest : bytes)
| Err (e : err)
| Crash (c : crash).
Arguments Ok {A} a rest.
Arguments Err {A} e.
Arguments Crash {A} c.

Definition parser (A : Type) := bytes -> res A.

Definition ret {A} (a : A) : parser A := fun s => Ok a s.
Definition fail {A} (e : err) : parser A := fun _ => Err e.
Definition bind {A B} (p : parser A) (f : A -> parser B) : parser B :=
  fun s => match p s with
           | Ok a s' => f a s'
           | Err e => Err e
           | Crash c => Crash c
           end.
Definition pmap {A B} (f : A -> B) (p : parser A) : parser B :=
  bind p (fun a => ret (f a)).

Declare Scope parser_scope.
Delimit Scope parser_scope with parser.
Notation "x <- p ;; q" := (bind p (fun x => q))
  (at level 61, p at next level, right associativity) : parser_scope.
Notation "p ;;; q" := (bind p (fun _ => q))
  (at level 61, right associativity) : parser_scope.
Open Scope parser_scope.

(* ---- allocation budget (C06) ------------------------------------------
   A request for [n] bytes whose size came off the wire aborts the process
   iff it is both beyond what the library's own caps allow by design and
   beyond a small multiple of the input actually present. *)
Definition alloc_cap : N := 100000000 * 512 + 1048576.   (* row cap x widest fixed element, + slack *)
Definition alloc_ok (n : N) (avail : nat) : bool :=
  (n <=? alloc_cap) || (n <=? 2 * N.of_nat avail + 4096).
Definition alloc (n : N) : parser unit :=
  fun s => if alloc_ok n (length s) then Ok tt s else Crash COom.

(* ---- reads ------------------------------------------------------------ *)
(* io.ReadFull of n bytes *)
Definition read_n (n : nat) : parser bytes :=
  fun s => if Nat.leb n (length s) then Ok (firstn n s) (skipn n s) else Err EEof.

(* the same with the count still a wire value: compare in N first, so that a hostile
   length is never turned into a unary number *)
Definition read_nN (n : N) : parser bytes :=
  fun s => if n <=? blen s then read_n (N.to_nat n) s else Err EEof.

Definition read_byte : parser byte :=
  fun s => match s with [] => Err EEof | b :: s' => Ok b s' end.

(* Reader.ReadRaw / readFull: Ensure(n) allocates before reading *)
Definition read_raw (n : nat) : parser bytes :=
  alloc (N.of_nat n) ;;; read_n n.

(* binary.ReadUvarint through Reader.ReadByte *)
Fixpoint get_uv (fuel : nat) (i : N) (acc : N) (s : bytes) : res N :=
  match fuel with
  | O => Err EInvalid                       (* overflow: more than 10 bytes *)
  | S f =>
    match s with
    | [] => Err EEof
    | b :: s' =>
      if b <? 128 then
        if (i =? 9) && (1 <? b) then Err EInvalid
        else Ok (acc + b * 2 ^ (7 * i)) s'
      else get_uv f (i + 1) (acc + (b - 128) * 2 ^ (7 * i)) s'
    end
  end.
Definition uvarint : parser N := get_uv 10 0 0.

(* Reader.Int: int(uvarint) on a 64-bit host *)
Definition get_int : parser Z := pmap to_i64 uvarint.

(* Reader.StrLen *)
Definition strlen : parser N :=
  n <- get_int ;;
  if (n <? 0)%Z then fail EInvalid else ret (Z.to_N n).

(* Reader.StrRaw / Str: Ensure(n) then io.ReadFull.
   [str_chunk]: after the repair of finding 4 the buffer grows in bounded
   steps as data arrives, so the largest request is min(n, str_chunk)
   beyond what was already read. *)
Definition str_chunk : N := 1048576.
Definition get_str : parser bytes :=
  n <- strlen ;;
  alloc (N.min n str_chunk) ;;;
  read_nN n.

Definition get_u8 : parser N := pmap le_get (read_raw 1).
Definition get_u16 : parser N := pmap le_get (read_raw 2).
Definition get_u32 : parser N := pmap le_get (read_raw 4).
Definition get_u64 : parser N := pmap le_get (read_raw 8).
Definition get_u128 : parser N := pmap le_get (read_raw 16).
Definition get_i32 : parser Z := pmap to_i32 get_u32.
Definition get_i64 : parser Z := pmap to_i64 get_u64.

Definition get_bool : parser bool :=
  v <- get_u8 ;;
  if v =? 1 then ret true else if v =? 0 then ret false else fail EInvalid.

(* ---- writes (proto.Buffer) ------------------------------------------- *)
Fixpoint put_uv (fuel : nat) (n : N) : bytes :=
  match fuel with
  | O => [n]
  | S f => if n <? 128 then [n] else (n mod 128 + 128) :: put_uv f (n / 128)
  end.
Definition put_uvarint (n : N) : bytes := put_uv 9 (n mod 2 ^ 64).
Definition put_int (z : Z) : bytes := put_uvarint (wrap64 z).
Definition put_str (s : bytes) : bytes := put_uvarint (blen s) ++ s.
Definition put_u8 (n : N) : bytes := le_put 1 n.
Definition put_u16 (n : N) : bytes := le_put 2 n.
Definition put_u32 (n : N) : bytes := le_put 4 n.
Definition put_u64 (n : N) : bytes := le_put 8 n.
Definition put_u128 (n : N) : bytes := le_put 16 n.
Definition put_i32 (z : Z) : bytes := put_u32 (wrap32 z).
Definition put_i64 (z : Z) : bytes := put_u64 (wrap64 z).
Definition put_bool (b : bool) : bytes := [if b then 1 else 0].

(* ---- loops ------------------------------------------------------------ *)
(* for i := 0; i < n; i++ { x := p(); acc = append(acc, x) } *)
Fixpoint rep {A} (n : nat) (p : parser A) : parser (list A) :=
  match n with
  | O => ret []
  | S k => x <- p ;; xs <- rep k p ;; ret (x :: xs)
  end.

Definition is_ok {A} (r : res A) : bool := match r with Ok _ _ => true | _ => false end.
Definition is_crash {A} (r : res A) : bool := match r with Crash _ => true | _ => false end.
