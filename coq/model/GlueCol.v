(* Transcript interface for columns and blocks (C01, C06, C07, C15, C16, C18).
   Types, column contents and values are s-expressions, see harness/cols.go:
     ty    ::= (fix xNAME W) | bool | uuid | str | json | (fstr N) | nothing | point
             | (enum xNAME W ((xNAME Z) ...)) | (arr ty) | (nullable ty) | (lc ty) | (map ty ty)
             | (tuple ty ...) | (named xNAME ty)
     cdata ::= (fix (N ...)) | (bool N ...) | (bytes xB ...) | (fstr xB) | (nothing N)
             | (point (N ...) (N ...)) | (enum (xB ...) (N ...)) | (arr (N ...) cdata)
             | (nullable (N ...) cdata) | (lc (val ...) cdata N (N ...)) | (map (N ...) cdata cdata)
             | (tuple cdata ...)
     val   ::= (n N) | (bool t|f) | (b xB) | unit | (pt N N) | (opt t|f val) | (arr val ...)
             | (map (val val) ...) | (tup val ...) *)
From CH Require Import model.Sx model.Columns model.Block model.TypeStr.
Open Scope N_scope.
Open Scope list_scope.

(* numbers of up to 64 bits are decimal atoms; wider ones (128/256-bit integers, FixedStringN as one
   element) are xHEX atoms: the little-endian bytes without trailing zero bytes *)
Fixpoint le_bytes (fuel : nat) (n : N) : bytes :=
  match fuel with
  | O => []
  | S f => if n =? 0 then [] else (n mod 256) :: le_bytes f (n / 256)
  end.
Definition anw (n : N) : sx :=
  if n <? 18446744073709551616 then an n else ab (le_bytes (S (N.to_nat (N.size n) / 8)) n).
Definition get_anw (x : sx) : option N :=
  match get_an x with
  | Some n => Some n
  | None => option_map le_get (get_ab x)
  end.

(* ---- parsing ------------------------------------------------------------------------- *)
Definition get_nat (x : sx) : option nat := option_map N.to_nat (get_an x).

Fixpoint get_ty (fuel : nat) (x : sx) : option ty :=
  match fuel with
  | O => None
  | S f =>
    if is_sym x "bool" then Some TBool
    else if is_sym x "uuid" then Some TUUID
    else if is_sym x "str" then Some TStr
    else if is_sym x "json" then Some TJSON
    else if is_sym x "nothing" then Some TNothing
    else if is_sym x "point" then Some TPoint
    else
    match x with
    | L (h :: rest) =>
      if is_sym h "fix" then
        match rest with
        | [a; b] => match get_ab a, get_nat b with Some n, Some w => Some (TFix n w) | _, _ => None end
        | _ => None
        end
      else if is_sym h "fstr" then match rest with [a] => option_map TFixedStr (get_nat a) | _ => None end
      else if is_sym h "arr" then match rest with [a] => option_map TArr (get_ty f a) | _ => None end
      else if is_sym h "nullable" then match rest with [a] => option_map TNullable (get_ty f a) | _ => None end
      else if is_sym h "lc" then match rest with [a] => option_map TLowCard (get_ty f a) | _ => None end
      else if is_sym h "map" then
        match rest with
        | [a; b] => match get_ty f a, get_ty f b with Some k, Some v => Some (TMap k v) | _, _ => None end
        | _ => None
        end
      else if is_sym h "named" then
        match rest with
        | [a; b] => match get_ab a, get_ty f b with Some n, Some t => Some (TNamed n t) | _, _ => None end
        | _ => None
        end
      else if is_sym h "enum" then
        match rest with
        | [a; b; L defs] =>
          match get_ab a, get_nat b,
                map_opt (fun d => match d with
                                  | L [n; z] => match get_ab n, get_az z with
                                                | Some n, Some z => Some (n, z)
                                                | _, _ => None
                                                end
                                  | _ => None
                                  end) defs with
          | Some n, Some w, Some ds => Some (TEnum n w ds)
          | _, _, _ => None
          end
        | _ => None
        end
      else if is_sym h "tuple" then option_map TTuple (map_opt (get_ty f) rest)
      else None
    | _ => None
    end
  end.

Fixpoint get_val (fuel : nat) (x : sx) : option val :=
  match fuel with
  | O => None
  | S f =>
    if is_sym x "unit" then Some VUnit else
    match x with
    | L (h :: rest) =>
      if is_sym h "n" then match rest with [a] => option_map VN (get_anw a) | _ => None end
      else if is_sym h "bool" then match rest with [a] => option_map VBool (get_abool a) | _ => None end
      else if is_sym h "b" then match rest with [a] => option_map VB (get_ab a) | _ => None end
      else if is_sym h "pt" then
        match rest with
        | [a; b] => match get_an a, get_an b with Some x, Some y => Some (VPoint x y) | _, _ => None end
        | _ => None
        end
      else if is_sym h "opt" then
        match rest with
        | [s; v] => match get_abool s, get_val f v with Some s, Some v => Some (VOpt s v) | _, _ => None end
        | _ => None
        end
      else if is_sym h "arr" then option_map VArr (map_opt (get_val f) rest)
      else if is_sym h "tup" then option_map VTup (map_opt (get_val f) rest)
      else if is_sym h "map" then
        option_map VMap (map_opt (fun p => match p with
                                           | L [k; v] => match get_val f k, get_val f v with
                                                         | Some k, Some v => Some (k, v)
                                                         | _, _ => None
                                                         end
                                           | _ => None
                                           end) rest)
      else None
    | _ => None
    end
  end.

Definition get_ns (x : sx) : option (list N) :=
  match x with L l => map_opt get_anw l | _ => None end.

Fixpoint get_cdata (fuel : nat) (x : sx) : option cdata :=
  match fuel with
  | O => None
  | S f =>
    match x with
    | L (h :: rest) =>
      if is_sym h "fix" then match rest with [a] => option_map DFix (get_ns a) | _ => None end
      else if is_sym h "bool" then option_map DBool (map_opt get_an rest)
      else if is_sym h "bytes" then option_map DBytes (map_opt get_ab rest)
      else if is_sym h "fstr" then match rest with [a] => option_map DFixedStr (get_ab a) | _ => None end
      else if is_sym h "nothing" then match rest with [a] => option_map DNothing (get_an a) | _ => None end
      else if is_sym h "point" then
        match rest with
        | [a; b] => match get_ns a, get_ns b with Some xs, Some ys => Some (DPoint xs ys) | _, _ => None end
        | _ => None
        end
      else if is_sym h "enum" then
        match rest with
        | [L vs; r] => match map_opt get_ab vs, get_ns r with Some vs, Some r => Some (DEnum vs r) | _, _ => None end
        | _ => None
        end
      else if is_sym h "arr" then
        match rest with
        | [o; d] => match get_ns o, get_cdata f d with Some o, Some d => Some (DArr o d) | _, _ => None end
        | _ => None
        end
      else if is_sym h "nullable" then
        match rest with
        | [o; d] => match get_ns o, get_cdata f d with Some o, Some d => Some (DNullable o d) | _, _ => None end
        | _ => None
        end
      else if is_sym h "lc" then
        match rest with
        | [L vs; d; k; ks] =>
          match map_opt (get_val f) vs, get_cdata f d, get_an k, get_ns ks with
          | Some vs, Some d, Some k, Some ks => Some (DLowCard vs d k ks)
          | _, _, _, _ => None
          end
        | _ => None
        end
      else if is_sym h "map" then
        match rest with
        | [o; a; b] =>
          match get_ns o, get_cdata f a, get_cdata f b with
          | Some o, Some a, Some b => Some (DMap o a b)
          | _, _, _ => None
          end
        | _ => None
        end
      else if is_sym h "tuple" then option_map DTuple (map_opt (get_cdata f) rest)
      else None
    | _ => None
    end
  end.

(* ---- printing ------------------------------------------------------------------------ *)
Definition pr_ns (l : list N) : sx := L (map anw l).

Fixpoint pr_val (v : val) : sx :=
  match v with
  | VN n => L [asym "n"; anw n]
  | VBool b => L [asym "bool"; abool b]
  | VB b => L [asym "b"; ab b]
  | VUnit => asym "unit"
  | VPoint x y => L [asym "pt"; an x; an y]
  | VOpt s v => L [asym "opt"; abool s; pr_val v]
  | VArr l => L (asym "arr" :: map pr_val l)
  | VTup l => L (asym "tup" :: map pr_val l)
  | VMap l => L (asym "map" :: map (fun p => L [pr_val (fst p); pr_val (snd p)]) l)
  end.

Fixpoint pr_cdata (d : cdata) : sx :=
  match d with
  | DFix vs => L [asym "fix"; pr_ns vs]
  | DBool vs => L (asym "bool" :: map (fun b => an (if b =? 0 then 0 else 1)) vs)   (* observed through Go's bool *)
  | DBytes vs => L (asym "bytes" :: map ab vs)
  | DFixedStr b => L [asym "fstr"; ab b]
  | DNothing n => L [asym "nothing"; an n]
  | DPoint xs ys => L [asym "point"; pr_ns xs; pr_ns ys]
  | DEnum vs raw => L [asym "enum"; L (map ab vs); pr_ns raw]
  | DArr o d => L [asym "arr"; pr_ns o; pr_cdata d]
  | DNullable o d => L [asym "nullable"; pr_ns o; pr_cdata d]
  | DLowCard vs d k ks => L [asym "lc"; L (map pr_val vs); pr_cdata d; an k; pr_ns ks]
  | DMap o a b => L [asym "map"; pr_ns o; pr_cdata a; pr_cdata b]
  | DTuple ds => L (asym "tuple" :: map pr_cdata ds)
  end.

Definition get_build (x : sx) : option build :=
  if is_sym x "safe" then Some Safe else if is_sym x "unsafe" then Some Unsafe else None.

Definition pr_res' {X} (p : X -> list sx) (r : res X) : list sx :=
  match r with
  | Ok a rest => asym "ok" :: p a ++ [an (blen rest)]
  | Err e => [asym "err"; err_sym e]
  | Crash c => [asym "crash"; crash_sym c]
  end.

Definition sx_fuel (x : sx) : nat :=
  (fix depth (fuel : nat) (x : sx) : nat :=
     match fuel with O => 0%nat | S f =>
       match x with
       | A _ => 1%nat
       | L l => S (fold_right (fun y acc => Nat.max (depth f y) acc) 0%nat l)
       end
     end) 64%nat x + 2.

(* rows: Rows() and every Row(i) below it *)
Fixpoint all_rows (t : ty) (d : cdata) (n : nat) : bool :=
  match n with
  | O => true
  | S k => match row t d k with Some _ => all_rows t d k | None => false end
  end.

(* ---- operations ---------------------------------------------------------------------- *)
(*  enc  <build> <ty> <cdata>            -> ok xSTATE xBYTES <cdata after Prepare>  |  err prepare
    dec  <build> <ty> <rows> xBYTES      -> ok <cdata> <rows reported> <all rows readable t|f> <bytes left> | err .. | crash ..
         (DecodeState then DecodeColumn when rows > 0, as Results.DecodeResult does)
    rowv <ty> <cdata> <i>                -> ok <val> | panic *)
Definition run_col (xs : list sx) : option (list sx) :=
  match xs with
  | [op; b; t; d] =>
    if is_sym op "enc" then
      match get_build b, get_ty 64 t, get_cdata 64 d with
      | Some b, Some t, Some d =>
        match prepare t d with
        | Some d' => Some [asym "ok"; ab (if rows t d' =? 0 then [] else enc_state t);
                           ab (if rows t d' =? 0 then [] else enc b t d'); pr_cdata d']
        | None => Some [asym "err"; asym "prepare"]
        end
      | _, _, _ => None
      end
    else if is_sym op "rowv" then
      match get_ty 64 b, get_cdata 64 t, get_nat d with
      | Some t, Some d, Some i =>
        match row t d i with
        | Some v => Some [asym "ok"; pr_val v]
        | None => Some [asym "panic"]
        end
      | _, _, _ => None
      end
    else None
  | [op; b; t; n; bs] =>
    if is_sym op "dec" then
      match get_build b, get_ty 64 t, get_an n, get_ab bs with
      | Some b, Some t, Some n, Some bs =>
        Some (pr_res' (fun d => [pr_cdata d; an (rows t d); abool (all_rows t d (N.to_nat (rows t d)))])
                      ((if n =? 0 then ret (empty t) else dec_state t ;;; dec b t n) bs))
      | _, _, _, _ => None
      end
    else None
  | _ => None
  end.

Definition run_line (line : bytes) : bytes :=
  match parse_line line with
  | Some xs => match run_col xs with Some out => pr_items out | None => bad_line end
  | None => bad_line
  end.
