(* Transcript interface for result blocks (C18; the kind=roundtrip sub-family is also the block-level
   correspondence of C01).  Types, contents: see model/GlueCol.v.

     target ::= (xNAME ty cdata)                 a typed column supplied by the caller
              | (xNAME auto)                     AutoResult(name) before its first block
              | (xNAME auto xDATATYPE ty cdata)  a ColAuto holding a column
     zones  ::= ((xQUERY xLocation.String()) ...)   time.LoadLocation tabulated by the harness

     encblock <build> <rev> <overflows t|f> <bucket> <rows> ((xNAME ty cdata) ...)   ->  ok xBYTES | err
     decblock <auto t|f> <build> <rev> zones (target ...) xBYTES
          ->  ok <columns> <rows> (target ...) <bytes left>  |  fail (target ...)  |  crash <kind>
     decseq   <auto t|f> <build> <rev> zones (target ...) (xBLOCK ...)
          ->  seq <one parenthesised decblock result per block, the targets carried over>
   A [fail] result is  fail (target ...) ((<Rows()> <t|f>) ...):  every target as it is afterwards - the one whose
   DecodeState / DecodeColumn failed holds the partially decoded column of model/DecPart.v - and, per target, what
   Rows() reports and whether Row(i) returns for every i below it (-1 t for a ColAuto that holds no column). *)
From CH Require Import model.Sx model.Columns model.Block model.TypeStr model.GlueCol model.GlueTy model.DecPart model.Results.
Open Scope N_scope.
Open Scope list_scope.

(* ---- printing types ------------------------------------------------------------------ *)
Fixpoint bytes_ltb (a b : bytes) : bool :=
  match a, b with
  | [], [] => false
  | [], _ :: _ => true
  | _ :: _, [] => false
  | x :: a', y :: b' => if x <? y then true else if y <? x then false else bytes_ltb a' b'
  end.
(* a Go map printed with its keys sorted: later definitions of a name replace earlier ones *)
Fixpoint ins_def (d : bytes * Z) (l : list (bytes * Z)) : list (bytes * Z) :=
  match l with
  | [] => [d]
  | e :: l' =>
    if bytes_eqb (fst d) (fst e) then d :: l'
    else if bytes_ltb (fst d) (fst e) then d :: l
    else e :: ins_def d l'
  end.
Definition canon_defs (defs : list (bytes * Z)) : list (bytes * Z) :=
  fold_left (fun acc d => ins_def d acc) defs [].

Fixpoint pr_ty (t : ty) : sx :=
  match t with
  | TFix n w => L [asym "fix"; ab n; an (N.of_nat w)]
  | TBool => asym "bool"
  | TUUID => asym "uuid"
  | TStr => asym "str"
  | TJSON => asym "json"
  | TFixedStr n => L [asym "fstr"; an (N.of_nat n)]
  | TNothing => asym "nothing"
  | TPoint => asym "point"
  | TEnum n w defs =>
    L [asym "enum"; ab n; an (N.of_nat w); L (map (fun d => L [ab (fst d); az (snd d)]) (canon_defs defs))]
  | TArr t' => L [asym "arr"; pr_ty t']
  | TNullable t' => L [asym "nullable"; pr_ty t']
  | TLowCard t' => L [asym "lc"; pr_ty t']
  | TMap k v => L [asym "map"; pr_ty k; pr_ty v]
  | TTuple ts => L (asym "tuple" :: map pr_ty ts)
  | TNamed n t' => L [asym "named"; ab n; pr_ty t']
  end.

(* ---- targets --------------------------------------------------------------------------- *)
Definition get_target (x : sx) : option rtarget :=
  match x with
  | L [n; a] =>
    match get_ab n with
    | Some n => if is_sym a "auto" then Some {| rt_name := n ; rt_col := CAutoNil |} else None
    | None => None
    end
  | L [n; t; d] =>
    match get_ab n, get_ty 64 t, get_cdata 64 d with
    | Some n, Some t, Some d => Some {| rt_name := n ; rt_col := CTyped t d |}
    | _, _, _ => None
    end
  | L [n; a; dt; t; d] =>
    if is_sym a "auto" then
      match get_ab n, get_ab dt, get_ty 64 t, get_cdata 64 d with
      | Some n, Some dt, Some t, Some d => Some {| rt_name := n ; rt_col := CAutoHeld dt t d |}
      | _, _, _, _ => None
      end
    else None
  | _ => None
  end.

(* harness/cols.go prints a bool as 0 or 1 whatever byte the default build left in memory *)
Fixpoint norm_cdata (d : cdata) : cdata :=
  match d with
  | DBool vs => DBool (map (fun x => if x =? 0 then 0 else 1) vs)
  | DArr o d' => DArr o (norm_cdata d')
  | DNullable o d' => DNullable o (norm_cdata d')
  | DLowCard vs d' k ks =>
    (* ColLowCardinality.Reset keeps the unexported key width; with no values and no keys the harness prints it as 0 *)
    DLowCard vs (norm_cdata d') (match vs, ks with [], [] => 0 | _, _ => k end) ks
  | DMap o a b => DMap o (norm_cdata a) (norm_cdata b)
  | DTuple ds => DTuple (map norm_cdata ds)
  | _ => d
  end.

(* [hide]: print the contents as ? (kept for transcripts of older harnesses; nothing is hidden any more) *)
Definition pr_target (hide : bool) (t : rtarget) : sx :=
  let data d := if hide then asym "?" else pr_cdata (norm_cdata d) in
  match rt_col t with
  | CTyped ty d => L [ab (rt_name t); pr_ty ty; data d]
  | CAutoNil => L [ab (rt_name t); asym "auto"]
  | CAutoHeld dt ty d => L [ab (rt_name t); asym "auto"; ab dt; pr_ty ty; data d]
  end.

Fixpoint pr_targets (i : nat) (hidden : option nat) (ts : list rtarget) : list sx :=
  match ts with
  | [] => []
  | t :: ts' =>
    pr_target (match hidden with Some j => Nat.eqb i j | None => false end) t :: pr_targets (S i) hidden ts'
  end.

(* Row(i) returns: [DecPart.readableb] evaluated without materialising a row whose offsets point far beyond the
   element column (a half-decoded Array / Map can hold any offsets): such a row panics on its first missing element *)
Definition leafy (t : ty) : bool :=
  match t with
  | TArr _ | TMap _ _ | TNullable _ | TTuple _ | TNamed _ _ => false
  | _ => true
  end.

Fixpoint row_ret (t : ty) (d : cdata) (i : nat) : bool :=
  (* every element idx of [s, e) can be read; for a leaf column readability is downward closed: the last one decides *)
  let range (t' : ty) (d' : cdata) (s e : N) : bool :=
    if leafy t' then row_ret t' d' (N.to_nat (e - 1))
    else forallb (row_ret t' d') (seq (N.to_nat s) (N.to_nat e - N.to_nat s)) in
  match t, d with
  | TArr t', DArr offs d' =>
    match nth_error offs i with
    | None => false
    | Some e =>
      let s := match i with O => 0 | S j => nth j offs 0 end in
      if (to_i64 (e mod 2 ^ 64) <=? to_i64 (s mod 2 ^ 64))%Z then true            (* for idx := start; idx < end *)
      else if (to_i64 (s mod 2 ^ 64) <? 0)%Z then false
      else if rows t' d' <? e then false
      else range t' d' s e
    end
  | TMap tk tv, DMap offs dk dv =>
    match nth_error offs i with
    | None => false
    | Some e =>
      let s := match i with O => 0 | S j => nth j offs 0 end in
      if (to_i64 (e mod 2 ^ 64) <=? to_i64 (s mod 2 ^ 64))%Z then true
      else if (to_i64 (s mod 2 ^ 64) <? 0)%Z then false
      else if (rows tk dk <? e) || (rows tv dv <? e) then false
      else range tk dk s e && range tv dv s e
    end
  | TNullable t', DNullable nulls d' => match nth_error nulls i with Some _ => row_ret t' d' i | None => false end
  | TTuple ts, DTuple ds => all2b (fun t0 d0 => row_ret t0 d0 i) ts ds
  | TNamed _ t', _ => row_ret t' d i
  | TFix name _, DFix _ =>
    (* ColDateTime64.Row panics while no precision is set (a column built without one that no Infer has reached) *)
    if bytes_eqb name (s2b "DateTime64") then false
    else match row t d i with Some _ => true | None => false end
  | _, _ => match row t d i with Some _ => true | None => false end
  end.
Definition readable_fast (t : ty) (d : cdata) : bool :=
  forallb (row_ret t d) (seq 0 (N.to_nat (rows t d))).

(* ColFixedStr.Row slices Buf: below a wrapper a row beyond len(Buf) but within its capacity is returned; capacity is
   not modelled, so for such targets the flag is printed ? by both sides *)
Fixpoint has_fstr (t : ty) : bool :=
  match t with
  | TFixedStr _ => true
  | TArr d | TNullable d | TLowCard d | TNamed _ d => has_fstr d
  | TMap k v => has_fstr k || has_fstr v
  | TTuple ts => existsb has_fstr ts
  | _ => false
  end.
Definition loose_fstr (t : ty) : bool := match t with TFixedStr _ => false | _ => has_fstr t end.

Definition pr_acc (t : rtarget) : sx :=
  match rt_col t with
  | CTyped ty d | CAutoHeld _ ty d =>
    L [an (rows ty d); asym (if loose_fstr ty then "?" else if readable_fast ty d then "t" else "f")]
  | CAutoNil => L [az (-1); asym "t"]
  end.

Definition pr_block_out (o : block_out) : list sx :=
  match bo_out o with
  | BOk rest => [asym "ok"; az (bo_cols o); az (bo_rows o); L (pr_targets 0 None (bo_targets o)); an (blen rest)]
  | BFail i k _ => [asym "fail"; L (pr_targets 0 None (bo_targets o)); L (map pr_acc (bo_targets o))]
  | BCrash c => [asym "crash"; crash_sym c]
  end.

Definition get_col (x : sx) : option Block.col :=
  match x with
  | L [n; t; d] =>
    match get_ab n, get_ty 64 t, get_cdata 64 d with
    | Some n, Some t, Some d => Some {| c_name := n ; c_ty := t ; c_data := d |}
    | _, _, _ => None
    end
  | _ => None
  end.

Definition get_zones (x : sx) : option (list (bytes * bytes)) :=
  match x with L zs => map_opt get_pair zs | _ => None end.

Definition run_res (xs : list sx) : option (list sx) :=
  match xs with
  | [op; b; v; ov; bk; n; L cs] =>
    if is_sym op "encblock" then
      match get_build b, get_an v, get_abool ov, get_az bk, get_an n, map_opt get_col cs with
      | Some b, Some v, Some ov, Some bk, Some n, Some cs =>
        match encode_block b v {| bi_overflows := ov ; bi_bucket := bk |} n cs with
        | Some bs => Some [asym "ok"; ab bs]
        | None => Some [asym "err"]
        end
      | _, _, _, _, _, _ => None
      end
    else None
  | _ => None
  end.

Definition run_dec (xs : list sx) : option (list sx) :=
  match xs with
  | [op; a; b; v; zs; L ts; input] =>
    match get_abool a, get_build b, get_an v, get_zones zs, map_opt get_target ts with
    | Some a, Some b, Some v, Some tbl, Some ts =>
      if is_sym op "decblock" then
        match get_ab input with
        | Some bs => Some (pr_block_out (decode_block_st (zone_of tbl) ascii_lower a b v ts bs))
        | None => None
        end
      else if is_sym op "decseq" then
        match input with
        | L blocks =>
          match map_opt get_ab blocks with
          | Some blocks =>
            Some (asym "seq" :: map (fun o => L (pr_block_out o)) (run_blocks (zone_of tbl) ascii_lower a b v ts blocks))
          | None => None
          end
        | _ => None
        end
      else None
    | _, _, _, _, _ => None
    end
  | _ => None
  end.

Definition run_line (line : bytes) : bytes :=
  match parse_line line with
  | Some xs =>
    match xs with
    | op :: _ =>
      match (if is_sym op "encblock" then run_res xs else run_dec xs) with
      | Some out => pr_items out
      | None => bad_line
      end
    | [] => bad_line
    end
  | None => bad_line
  end.
