(* L9: scalar conversions of ch-go (C20).  Executable definitions only.

   Mirrors, statement by statement,
     /repo/proto/date.go date32.go datetime.go datetime64.go   (ToX / X.Time / X.Unix / Precision.Scale)
     /repo/proto/col_date.go col_date32.go col_datetime.go col_datetime64.go   (Append / Row)
     /repo/proto/int128.go int256.go ipv4.go ipv6.go col_interval.go (Interval.Add)
   as they are after the fix: commits bf4310b (ToDate32 floors) and 5510838 (DateTime64 splits seconds /
   sub-second ticks).  Interval.Add still adds a quarter as FOUR months (known finding, not repairable:
   the pinned unit test TestInterval_Add asserts it); the model mirrors that.

   Go itself is modelled where the code mentions it:
     time.Time        = (unix seconds, nanoseconds 0..1e9-1, offset of its fixed zone in seconds)
     time.Unix        = Go's normalisation of an out-of-range nsec, truncating division included
     Time.Add         = Go's split into dsec / nsec, with addSec's saturation
     time.Date        = norm() cascades + days-from-civil (the proleptic Gregorian calendar), fixed zone
     Time.Date/.Clock = civil-from-days of floor((unix+offset)/86400)
     Time.AddDate     = Date(year+y, month+m, day+d, clock, nsec, loc)
   Go's int / int64 / uint16 / uint32 / int32 conversions and int64 multiplications are explicit wraps.
   Go's `/` and `%` are Z.quot and Z.rem (truncation toward zero); Coq's `/` and `mod` (floor) are used
   only where the mathematical calendar is meant.  [time.Local] is the parameter [loc] (an offset). *)
From CH Require Export model.Bytes.
From CH Require Import gen.Consts.
From CH Require Export gen.ScalConsts.
Open Scope Z_scope.

(* ---- machine integers -------------------------------------------------- *)
Definition two16 : Z := 65536.
Definition two31 : Z := 2147483648.
Definition two32 : Z := 4294967296.
Definition two63 : Z := 9223372036854775808.
Definition two64 : Z := 18446744073709551616.
Definition two127 : Z := 170141183460469231731687303715884105728.
Definition two128 : Z := 340282366920938463463374607431768211456.
Definition two255 : Z := 57896044618658097711785492504343953926634992332820282019728792003956564819968.
Definition two256 : Z := 115792089237316195423570985008687907853269984665640564039457584007913129639936.

Definition u16 (z : Z) : Z := z mod two16.
Definition u32 (z : Z) : Z := z mod two32.
Definition i32 (z : Z) : Z := (z + two31) mod two32 - two31.
Definition u64 (z : Z) : Z := z mod two64.
Definition i64 (z : Z) : Z := (z + two63) mod two64 - two63.
Definition maxu64 : Z := two64 - 1.
Definition maxi64 : Z := two63 - 1.

Definition ns_per_s : Z := 1000000000.

(* ---- time.Time ---------------------------------------------------------- *)
Record gotime := mkT { unix : Z ; nsec : Z ; zoff : Z }.

(* January 1, year 1, 00:00:00 UTC in unix seconds (Go's unixToInternal, negated) *)
Definition zero_unix : Z := -62135596800.

Definition t_IsZero (t : gotime) : bool := (unix t =? zero_unix) && (nsec t =? 0).
Definition t_Unix (t : gotime) : Z := unix t.
Definition t_Nanosecond (t : gotime) : Z := nsec t.
Definition t_UnixNano (t : gotime) : Z := i64 (i64 (unix t * ns_per_s) + nsec t).
Definition t_ZoneOffset (t : gotime) : Z := zoff t.
Definition t_UTC (t : gotime) : gotime := mkT (unix t) (nsec t) 0.
Definition t_In (off : Z) (t : gotime) : gotime := mkT (unix t) (nsec t) off.

(* func Unix(sec, nsec int64) Time, result in time.Local = [loc] *)
Definition time_Unix (loc sec ns : Z) : gotime :=
  if (ns <? 0) || (ns_per_s <=? ns) then
    let n := Z.quot ns ns_per_s in
    let sec := i64 (sec + n) in
    let ns := ns - n * ns_per_s in
    if ns <? 0 then mkT (i64 (sec - 1)) (ns + ns_per_s) loc
    else mkT sec ns loc
  else mkT sec ns loc.

(* func (t Time) Add(d Duration) Time; no monotonic reading (times built by time.Unix / time.Date) *)
Definition t_Add (t : gotime) (d : Z) : gotime :=
  let dsec := Z.quot d ns_per_s in
  let ns := nsec t + Z.rem d ns_per_s in
  let '(dsec, ns) :=
    if ns_per_s <=? ns then (dsec + 1, ns - ns_per_s)
    else if ns <? 0 then (dsec - 1, ns + ns_per_s)
    else (dsec, ns) in
  (* addSec: t.ext = seconds since year 1; saturates instead of overflowing *)
  let ext := unix t - zero_unix in
  let sum := i64 (ext + dsec) in
  let ext' := if Bool.eqb (ext <? sum) (0 <? dsec) then sum
              else if 0 <? dsec then maxi64 else - maxi64 in
  mkT (i64 (ext' + zero_unix)) ns (zoff t).

(* ---- the civil calendar -------------------------------------------------
   Proleptic Gregorian calendar, day 0 = 1970-01-01, over all of Z
   (the formulation of H. Hinnant's "chrono-compatible low-level date algorithms",
   with floor division instead of the era case split).  Proved to invert each
   other for every day in ScalarsProofs.v; validated against Go's time package on
   every Date32 day by the harness. *)
Definition days_from_civil (y m d : Z) : Z :=
  let y' := if m <=? 2 then y - 1 else y in
  let era := y' / 400 in
  let yoe := y' - era * 400 in
  let mp := if 2 <? m then m - 3 else m + 9 in
  let doy := (153 * mp + 2) / 5 + d - 1 in
  let doe := yoe * 365 + yoe / 4 - yoe / 100 + doy in
  era * 146097 + doe - 719468.

Definition civil_from_days (z : Z) : Z * Z * Z :=
  let z' := z + 719468 in
  let era := z' / 146097 in
  let doe := z' - era * 146097 in
  let yoe := (doe - doe / 1460 + doe / 36524 - doe / 146096) / 365 in
  let y' := yoe + era * 400 in
  let doy := doe - (365 * yoe + yoe / 4 - yoe / 100) in
  let mp := (5 * doy + 2) / 153 in
  let d := doy - (153 * mp + 2) / 5 + 1 in
  let m := if mp <? 10 then mp + 3 else mp - 9 in
  ((if m <=? 2 then y' + 1 else y'), m, d).

Definition is_leap (y : Z) : bool :=
  (y mod 4 =? 0) && (negb (y mod 100 =? 0) || (y mod 400 =? 0)).
Definition days_in_month (y m : Z) : Z :=
  if m =? 2 then (if is_leap y then 29 else 28)
  else if (m =? 4) || (m =? 6) || (m =? 9) || (m =? 11) then 30 else 31.
Definition valid_civil (y m d : Z) : Prop :=
  1 <= m <= 12 /\ 1 <= d <= days_in_month y m.

(* seconds since 1970 on the wall clock of the value's own zone *)
Definition local_sec (t : gotime) : Z := unix t + zoff t.
Definition local_day (t : gotime) : Z := local_sec t / 86400.

(* func (t Time) Date() (year, month, day) and Clock() (hour, min, sec) *)
Definition t_Date (t : gotime) : Z * Z * Z := civil_from_days (local_day t).
Definition t_Clock (t : gotime) : Z * Z * Z :=
  let s := local_sec t mod 86400 in
  (s / 3600, (s mod 3600) / 60, s mod 60).

(* func norm(hi, lo, base int) (nhi, nlo int) *)
Definition norm (hi lo base : Z) : Z * Z :=
  let '(hi, lo) :=
    if lo <? 0 then
      let n := Z.quot (- lo - 1) base + 1 in (hi - n, lo + n * base)
    else (hi, lo) in
  if base <=? lo then
    let n := Z.quot lo base in (hi + n, lo - n * base)
  else (hi, lo).

(* func Date(year, month, day, hour, min, sec, nsec, loc) for a fixed zone of offset [off] *)
Definition go_Date (year month day hour min sec ns off : Z) : gotime :=
  let '(year, m) := norm year (month - 1) 12 in
  let month := m + 1 in
  let '(sec, ns) := norm sec ns ns_per_s in
  let '(min, sec) := norm min sec 60 in
  let '(hour, min) := norm hour min 60 in
  let '(day, hour) := norm day hour 24 in
  let d := days_from_civil year month 1 + (day - 1) in
  let abs := d * 86400 + (hour * 3600 + min * 60 + sec) in
  mkT (i64 (abs - off)) ns off.

(* func (t Time) AddDate(years, months, days int) Time *)
Definition t_AddDate (t : gotime) (years months days : Z) : gotime :=
  let '(year, month, day) := t_Date t in
  let '(hour, min, sec) := t_Clock t in
  go_Date (i64 (year + years)) (i64 (month + months)) (i64 (day + days)) hour min sec (nsec t) (zoff t).

(* ---- proto/date.go ------------------------------------------------------- *)
(* func ToDate(t time.Time) Date — Date is uint16 *)
Definition to_date (t : gotime) : Z :=
  if t_IsZero t then 0
  else
    let offset := t_ZoneOffset t in
    u16 (Z.quot (i64 (t_Unix t + offset)) secInDay).

Definition date_Unix (d : Z) : Z := i64 (secInDay * d).
Definition date_Time (d : Z) : gotime := t_UTC (time_Unix 0 (date_Unix d) 0).

(* ---- proto/date32.go (after fix bf4310b) --------------------------------- *)
(* func ToDate32(t time.Time) Date32 — Date32 is int32 *)
Definition to_date32 (t : gotime) : Z :=
  if t_IsZero t then 0
  else
    let offset := t_ZoneOffset t in
    let sec := i64 (t_Unix t + offset) in
    let days := Z.quot sec secInDay in
    let days := if Z.rem sec secInDay <? 0 then days - 1 else days in
    i32 days.

Definition date32_Unix (d : Z) : Z := i64 (secInDay * d).
Definition date32_Time (d : Z) : gotime := t_UTC (time_Unix 0 (date32_Unix d) 0).

(* ---- proto/datetime.go --------------------------------------------------- *)
(* func ToDateTime(t time.Time) DateTime — DateTime is uint32 *)
Definition to_datetime (t : gotime) : Z :=
  if t_IsZero t then 0 else u32 (t_Unix t).
Definition datetime_Time (loc d : Z) : gotime := time_Unix loc d 0.

(* ---- proto/datetime64.go (after fix 5510838) ----------------------------- *)
(* func (p Precision) Scale() int64:  d := 1; for i := PrecisionNano; i > p; i-- { d *= 10 } *)
Fixpoint scale_loop (fuel : nat) (i p d : Z) : Z :=
  match fuel with
  | O => d
  | S f => if p <? i then scale_loop f (i - 1) p (d * 10) else d
  end.
Definition precision_Scale (p : Z) : Z := scale_loop (Z.to_nat PrecisionNano) PrecisionNano p 1.
Definition precision_Valid (p : Z) : bool := p <=? PrecisionMax.

Definition to_datetime64 (t : gotime) (p : Z) : Z :=
  if t_IsZero t then 0
  else
    let scale := precision_Scale p in
    let ticks := Z.quot ns_per_s scale in
    i64 (i64 (t_Unix t * ticks) + Z.quot (t_Nanosecond t) scale).

Definition datetime64_Time (loc d p : Z) : gotime :=
  let scale := precision_Scale p in
  let ticks := Z.quot ns_per_s scale in
  time_Unix loc (Z.quot d ticks) (Z.rem d ticks * scale).

(* ---- columns: Append / Row ----------------------------------------------- *)
Definition col_date_Append := to_date.
Definition col_date_Row (d : Z) : gotime := date_Time d.
Definition col_date32_Append := to_date32.
Definition col_date32_Row (d : Z) : gotime := date32_Time d.
Definition col_datetime_Append := to_datetime.
(* c.Data[i].Time().In(c.loc()); c.loc() is time.Local when Location is nil *)
Definition col_loc (loc : Z) (cloc : option Z) : Z := match cloc with Some l => l | None => loc end.
Definition col_datetime_Row (loc : Z) (cloc : option Z) (d : Z) : gotime :=
  t_In (col_loc loc cloc) (datetime_Time loc d).
Definition col_datetime64_Append := to_datetime64.
Definition col_datetime64_Row (loc : Z) (cloc : option Z) (p d : Z) : gotime :=
  t_In (col_loc loc cloc) (datetime64_Time loc d p).

(* ---- proto/int128.go, int256.go ------------------------------------------ *)
Record int128 := mk128 { lo128 : Z ; hi128 : Z }.   (* Low, High uint64; also UInt128 *)
Record int256 := mk256 { lo256 : int128 ; hi256 : int128 }.

Definition int128_FromInt (v : Z) : int128 :=
  let hi := if v <? 0 then maxu64 else 0 in
  mk128 (u64 v) hi.
Definition uint128_FromUInt64 (v : Z) : int128 := mk128 v 0.
Definition int128_FromUInt64 (v : Z) : int128 := uint128_FromUInt64 v.
Definition uint128_FromInt (v : Z) : int128 := int128_FromInt v.

Definition int128_Int (i : int128) : Z :=
  if (hi128 i =? 0) || (hi128 i =? maxu64) then i64 (lo128 i) else maxi64.
Definition int128_UInt64 (i : int128) : Z :=
  if (hi128 i =? 0) || (hi128 i =? maxu64) then u64 (i64 (lo128 i)) else maxu64.
Definition uint128_UInt64 (i : int128) : Z :=
  if 0 <? hi128 i then maxu64 else lo128 i.
Definition uint128_Int (i : int128) : Z := i64 (uint128_UInt64 i).

Definition int256_FromInt (v : Z) : int256 :=
  if v <? 0 then mk256 (mk128 (u64 v) maxu64) (mk128 maxu64 maxu64)
  else mk256 (mk128 (u64 v) 0) (mk128 0 0).
Definition uint256_FromInt (v : Z) : int256 := int256_FromInt v.
Definition uint256_FromUInt64 (v : Z) : int256 := mk256 (mk128 v 0) (mk128 0 0).

(* the numbers these limb records denote (two's complement for the signed types) *)
Definition u128_val (i : int128) : Z := lo128 i + two64 * hi128 i.
Definition i128_val (i : int128) : Z := (u128_val i + two127) mod two128 - two127.
Definition u256_val (i : int256) : Z := u128_val (lo256 i) + two128 * u128_val (hi256 i).
Definition i256_val (i : int256) : Z := (u256_val i + two255) mod two256 - two255.

(* ---- proto/ipv4.go, ipv6.go ---------------------------------------------- *)
(* netip.Addr without zones: the zero Addr, a 4-byte or a 16-byte address *)
Inductive addr := AddrZero | Addr4 (b : list Z) | Addr6 (b : list Z).

Definition be32 (b : list Z) : Z :=
  match b with
  | [a; b; c; d] => ((a * 256 + b) * 256 + c) * 256 + d
  | _ => 0
  end.
Definition put_be32 (v : Z) : list Z :=
  [(v / 16777216) mod 256; (v / 65536) mod 256; (v / 256) mod 256; v mod 256].

Definition v4in6_prefix : list Z := [0;0;0;0;0;0;0;0;0;0;255;255].
Fixpoint zs_eqb (a b : list Z) : bool :=
  match a, b with
  | [], [] => true
  | x :: a', y :: b' => (x =? y) && zs_eqb a' b'
  | _, _ => false
  end.
Definition is4in6 (b : list Z) : bool := zs_eqb (firstn 12 b) v4in6_prefix.

(* Addr.As4: panics (None) on the zero Addr and on IPv6 that is not IPv4-mapped *)
Definition addr_As4 (a : addr) : option (list Z) :=
  match a with
  | AddrZero => None
  | Addr4 b => Some b
  | Addr6 b => if is4in6 b then Some (skipn 12 b) else None
  end.
Definition addr_As16 (a : addr) : list Z :=
  match a with
  | AddrZero => [0;0;0;0;0;0;0;0;0;0;0;0;0;0;0;0]
  | Addr4 b => v4in6_prefix ++ b
  | Addr6 b => b
  end.

Definition ipv4_ToIP (v : Z) : addr := Addr4 (put_be32 v).
Definition to_IPv4 (a : addr) : option Z := option_map be32 (addr_As4 a).
Definition ipv6_ToIP (v : list Z) : addr := Addr6 v.
Definition to_IPv6 (a : addr) : list Z := addr_As16 a.

(* ---- proto/col_interval.go (quarter = 4 months: as found) --------------------------- *)
(* IntervalSecond .. IntervalYear: gen/ScalConsts.v, re-read from the const block on every run *)

Definition dur_Second : Z := 1000000000.
Definition dur_Minute : Z := 60000000000.
Definition dur_Hour : Z := 3600000000000.

(* func (i Interval) Add(t time.Time) time.Time; None = the panic of the default branch *)
Definition interval_Add (scale value : Z) (t : gotime) : option gotime :=
  if scale =? IntervalSecond then Some (t_Add t (i64 (dur_Second * value)))
  else if scale =? IntervalMinute then Some (t_Add t (i64 (dur_Minute * value)))
  else if scale =? IntervalHour then Some (t_Add t (i64 (dur_Hour * value)))
  else if scale =? IntervalDay then Some (t_AddDate t 0 0 value)
  else if scale =? IntervalWeek then Some (t_AddDate t 0 0 (i64 (value * 7)))
  else if scale =? IntervalMonth then Some (t_AddDate t 0 value 0)
  else if scale =? IntervalQuarter then Some (t_AddDate t 0 (i64 (value * 4)) 0)   (* sic: known finding *)
  else if scale =? IntervalYear then Some (t_AddDate t value 0 0)
  else None.

(* ---- vocabulary of the statements ---------------------------------------- *)
Definition wf_time (t : gotime) : Prop := 0 <= nsec t < ns_per_s.
Definition total_ns (t : gotime) : Z := unix t * ns_per_s + nsec t.
Definition in_i64z (z : Z) : Prop := - two63 <= z < two63.
