(* Transcript interface for the inference path of C01 (family c01auto).

     infcls zones ty   ->  ok t xTYPE xNORMTYPE   [ty] is in the class of model/AutoClass.v: ColAuto.Infer turns its
                                                  printed type xTYPE into a column that prints xNORMTYPE
                           ok r xTYPE xNORMTYPE   only after reading every ColFixedStr{Size: n} of a generated size as the
                                                  ColFixedStrN column (another in-memory representation: outside the theorems)
                           ok f xTYPE             ColAuto.Infer refuses the printed type
     encblock / decblock / decseq                 as in model/GlueRes.v (Results.Auto() is `decblock t`, `decseq t`)
   zones: time.LoadLocation tabulated by the harness, see model/GlueTy.v. *)
From CH Require Import model.Sx model.Columns model.Block model.TypeStr model.GlueCol model.GlueTy model.Results
  model.GlueRes model.AutoClass.
Open Scope N_scope.
Open Scope list_scope.

(* ColFixedStr{Size: n} read as the fixed-width column of n bytes *)
Fixpoint fstr_as_fix (t : ty) : ty :=
  match t with
  | TFixedStr n => TFix (type_str t) n
  | TArr t' => TArr (fstr_as_fix t')
  | TNullable t' => TNullable (fstr_as_fix t')
  | TLowCard t' => TLowCard (fstr_as_fix t')
  | _ => t
  end.

(* harness/cols.go dumps an enum's definitions as a Go map (sorted by name); the order they have in the type
   is recovered from the type string when both describe the same mapping *)
Fixpoint same_defs (a b : list (bytes * Z)) : bool :=
  match a, b with
  | [], [] => true
  | (n, z) :: a', (n', z') :: b' => bytes_eqb n n' && (z =? z')%Z && same_defs a' b'
  | _, _ => false
  end.
Definition enum_in_type_order (t : ty) : ty :=
  match t with
  | TEnum name w defs =>
    match enum_infer name with
    | Ok (CEnum _ _ ds) _ => if same_defs (canon_defs ds) (canon_defs defs) then TEnum name w ds else t
    | _ => t
    end
  | _ => t
  end.

Definition run_infcls (xs : list sx) : option (list sx) :=
  match xs with
  | [_; zs; t] =>
    match get_zones zs, get_ty 64 t with
    | Some tbl, Some t0 =>
      let z := zone_of tbl in
      let t := enum_in_type_order t0 in
      Some (if inferable z t then [asym "ok"; asym "t"; ab (type_str t); ab (type_str (norm z t))]
            else if inferable z (fstr_as_fix t)
                 then [asym "ok"; asym "r"; ab (type_str t); ab (type_str (norm z (fstr_as_fix t)))]
                 else [asym "ok"; asym "f"; ab (type_str t)])
    | _, _ => None
    end
  | _ => None
  end.

(* the last three cases are GlueRes.run_line, repeated so that the extracted evaluator has one [run_line] *)
Definition run_line (line : bytes) : bytes :=
  match parse_line line with
  | Some (op :: rest) =>
    match (if is_sym op "infcls" then run_infcls (op :: rest)
           else if is_sym op "encblock" then run_res (op :: rest) else run_dec (op :: rest)) with
    | Some out => pr_items out
    | None => bad_line
    end
  | _ => bad_line
  end.
