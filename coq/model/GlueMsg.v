(* Transcript interface for protocol messages (C17, C07).
     enc <msg> <rev> <value>     ->  x<hex>
     dec <msg> <rev> x<hex>      ->  ok <value> <bytes left>  |  err <class>  |  crash <kind>  *)
From CH Require Import model.Sx model.Messages.
Open Scope N_scope.

Definition pr_span (s : option span) : sx :=
  match s with
  | None => asym "nil"
  | Some s => L [asym "span"; ab (sp_trace s); ab (sp_span s); ab (sp_state s); an (sp_flags s)]
  end.
Definition pr_fv (x : fv) : sx :=
  match x with
  | FStr s => ab s | FZ z => az z | FN n => an n | FB b => abool b | FSpan s => pr_span s
  end.
Definition pr_fvs (xs : list fv) : sx := L (map pr_fv xs).

Definition get_fv (k : fkind) (x : sx) : option fv :=
  match k with
  | KStr => option_map FStr (get_ab x)
  | KInt | KI32 | KI64 => option_map FZ (get_az x)
  | KUVar | KU8 | KEnum8 _ | KEnumUV _ => option_map FN (get_an x)
  | KBool | KBoolInt => option_map FB (get_abool x)
  | KSpan =>
    if is_sym x "nil" then Some (FSpan None) else
    match x with
    | L [h; t; s; st; fl] =>
      if is_sym h "span" then
        match get_ab t, get_ab s, get_ab st, get_an fl with
        | Some t, Some s, Some st, Some fl =>
          Some (FSpan (Some {| sp_trace := t ; sp_span := s ; sp_state := st ; sp_flags := fl |}))
        | _, _, _, _ => None
        end
      else None
    | _ => None
    end
  end.
Fixpoint get_fvs (l : layout) (xs : list sx) : option (list fv) :=
  match l, xs with
  | [], [] => Some []
  | f :: l', x :: xs' =>
    match get_fv (fk f) x, get_fvs l' xs' with
    | Some y, Some r => Some (y :: r)
    | _, _ => None
    end
  | _, _ => None
  end.

Definition pr_setting (s : setting) : sx :=
  L [ab (s_key s); ab (s_val s); abool (s_imp s); abool (s_cust s); abool (s_obs s)].
Definition get_setting (x : sx) : option setting :=
  match x with
  | L [k; v; i; c; o] =>
    match get_ab k, get_ab v, get_abool i, get_abool c, get_abool o with
    | Some k, Some v, Some i, Some c, Some o =>
      Some {| s_key := k ; s_val := v ; s_imp := i ; s_cust := c ; s_obs := o |}
    | _, _, _, _, _ => None
    end
  | _ => None
  end.
Definition pr_param (p : bytes * bytes) : sx := L [ab (fst p); ab (snd p)].
Definition get_param (x : sx) : option (bytes * bytes) :=
  match x with
  | L [k; v] => match get_ab k, get_ab v with Some k, Some v => Some (k, v) | _, _ => None end
  | _ => None
  end.

Definition pr_query (q : query) : sx :=
  L [ab (q_id q); pr_fvs (q_info q); L (map pr_setting (q_settings q)); ab (q_secret q);
     an (q_stage q); an (q_comp q); ab (q_body q); L (map pr_param (q_params q))].
Definition get_query (x : sx) : option query :=
  match x with
  | L [id; L info; L sets; sec; st; cp; body; L ps] =>
    match get_ab id, get_fvs L_ClientInfo info, map_opt get_setting sets, get_ab sec,
          get_an st, get_an cp, get_ab body, map_opt get_param ps with
    | Some id, Some info, Some sets, Some sec, Some st, Some cp, Some body, Some ps =>
      Some {| q_id := id ; q_info := info ; q_settings := sets ; q_secret := sec ;
              q_stage := st ; q_comp := cp ; q_body := body ; q_params := ps |}
    | _, _, _, _, _, _, _, _ => None
    end
  | _ => None
  end.

Definition pr_bi (i : block_info) : sx := L [abool (bi_overflows i); az (bi_bucket i)].
Definition get_bi (x : sx) : option block_info :=
  match x with
  | L [o; b] => match get_abool o, get_az b with
                | Some o, Some b => Some {| bi_overflows := o ; bi_bucket := b |}
                | _, _ => None
                end
  | _ => None
  end.

Definition pr_res {X} (p : X -> sx) (r : res X) : list sx :=
  match r with
  | Ok a rest => [asym "ok"; p a; an (blen rest)]
  | Err e => [asym "err"; err_sym e]
  | Crash c => [asym "crash"; crash_sym c]
  end.

Definition layout_of (m : sx) : option (layout * bool (* revision-aware *) * bytes (* code prefix *)) :=
  if is_sym m "clienthello" then Some (L_ClientHello, false, code_byte gen.Codes.ClientCodeHello)
  else if is_sym m "serverhello" then Some (L_ServerHello, true, code_byte gen.Codes.ServerCodeHello)
  else if is_sym m "clientinfo" then Some (L_ClientInfo, true, [])
  else if is_sym m "clientdata" then Some (L_ClientData, true, [])
  else if is_sym m "progress" then Some (L_Progress, true, [])
  else if is_sym m "profile" then Some (L_Profile, false, code_byte gen.Codes.ServerCodeProfile)
  else if is_sym m "exception" then Some (L_Exception, false, [])
  else if is_sym m "tablecolumns" then Some (L_TableColumns, false, code_byte gen.Codes.ServerCodeTableColumns)
  else None.

Definition run_msg (xs : list sx) : option (list sx) :=
  match xs with
  | [op; m; rv; arg] =>
    match get_an rv with
    | None => None
    | Some v =>
      if is_sym op "enc" then
        match layout_of m with
        | Some (l, aware, code) =>
          match arg with
          | L vals => match get_fvs l vals with
                      | Some fs => Some [ab (code ++ encode_fields (if aware then v else 0) l fs)]
                      | None => None
                      end
          | _ => None
          end
        | None =>
          if is_sym m "query" then
            match get_query arg with Some q => Some [ab (encode_Query v q)] | None => None end
          else if is_sym m "blockinfo" then
            match get_bi arg with Some i => Some [ab (encode_BlockInfo i)] | None => None end
          else if is_sym m "blockheader" then
            match arg with
            | L [i; c; r] =>
              match get_bi i, get_az c, get_az r with
              | Some i, Some c, Some r => Some [ab (encode_BlockHeader v i c r)]
              | _, _, _ => None
              end
            | _ => None
            end
          else None
        end
      else if is_sym op "dec" then
        match get_ab arg with
        | None => None
        | Some bs =>
          match layout_of m with
          | Some (l, aware, _) => Some (pr_res pr_fvs (decode_fields (if aware then v else 0) l bs))
          | None =>
            if is_sym m "query" then Some (pr_res pr_query (decode_Query v bs))
            else if is_sym m "blockinfo" then Some (pr_res pr_bi (decode_BlockInfo blank_block_info bs))
            else if is_sym m "blockheader" then
              Some (pr_res (fun '(i, c, r) => L [pr_bi i; az c; az r]) (decode_BlockHeader v bs))
            else None
          end
        end
      else None
    end
  | _ => None
  end.

Definition run_line (line : bytes) : bytes :=
  match parse_line line with
  | Some xs => match run_msg xs with Some out => pr_items out | None => bad_line end
  | None => bad_line
  end.
