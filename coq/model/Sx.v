(* Transcript glue shared by the harness and the model evaluator.
   A transcript line is a sequence of s-expressions; atoms are
     decimal numbers (optional leading '-'),
     byte strings  x<hex>   (x alone = empty),
     symbols       lower-case words.
   Everything here is executable Gallina, so the same [run_line] functions run
   extracted to OCaml and by vm_compute inside Coq. *)
From CH Require Export model.Prim.
From Coq Require Export String Ascii.
(* String.length shadows List.length after the import above *)
Notation length := List.length (only parsing).
Notation "x ++ y" := (List.app x y) (only parsing) : list_scope.
Open Scope N_scope.
Open Scope list_scope.

Inductive sx := A (a : bytes) | L (l : list sx).
Inductive tok := TL | TR | TA (a : bytes).

Fixpoint s2b (s : string) : bytes :=
  match s with
  | EmptyString => []
  | String c s' => N_of_ascii c :: s2b s'
  end.
Fixpoint b2s (b : bytes) : string :=
  match b with
  | [] => EmptyString
  | c :: b' => String (ascii_of_N c) (b2s b')
  end.

Definition is_space (c : N) : bool := (c =? 32) || (c =? 9) || (c =? 10) || (c =? 13).

(* tokenizer: [cur] is the atom being accumulated, reversed.  [flush] is a function and is
   called only where an atom ends: extraction evaluates a [let] eagerly at every character *)
Definition flush_atom (cur : bytes) : list tok := match cur with [] => [] | _ => [TA (rev_append cur [])] end.
Fixpoint tokenize (cur : bytes) (s : bytes) : list tok :=
  match s with
  | [] => flush_atom cur
  | c :: s' =>
    if c =? 40 then flush_atom cur ++ TL :: tokenize [] s'
    else if c =? 41 then flush_atom cur ++ TR :: tokenize [] s'
    else if is_space c then flush_atom cur ++ tokenize [] s'
    else tokenize (c :: cur) s'
  end.

Fixpoint parse_items (fuel : nat) (ts : list tok) : option (list sx * list tok) :=
  match fuel with
  | O => None
  | S f =>
    match ts with
    | [] => Some ([], [])
    | TR :: _ => Some ([], ts)
    | TA a :: ts' =>
      match parse_items f ts' with
      | Some (xs, r) => Some (A a :: xs, r)
      | None => None
      end
    | TL :: ts' =>
      match parse_items f ts' with
      | Some (inner, TR :: r) =>
        match parse_items f r with
        | Some (xs, r') => Some (L inner :: xs, r')
        | None => None
        end
      | _ => None
      end
    end
  end.

Definition parse_line (s : bytes) : option (list sx) :=
  let ts := tokenize [] s in
  match parse_items (S (length ts)) ts with
  | Some (xs, []) => Some xs
  | _ => None
  end.

(* ---- printing ---------------------------------------------------------- *)
Fixpoint pr (x : sx) : bytes :=
  match x with
  | A a => a
  | L l =>
    let fix go (l : list sx) : bytes :=
      match l with
      | [] => []
      | [y] => pr y
      | y :: l' => pr y ++ 32 :: go l'
      end in
    40 :: go l ++ [41]
  end.
Fixpoint pr_items (l : list sx) : bytes :=
  match l with
  | [] => []
  | [y] => pr y
  | y :: l' => pr y ++ 32 :: pr_items l'
  end.

(* ---- atoms ------------------------------------------------------------- *)
Definition hexdig (n : N) : N := if n <? 10 then 48 + n else 87 + n.
Definition unhex (c : N) : option N :=
  if (48 <=? c) && (c <=? 57) then Some (c - 48)
  else if (97 <=? c) && (c <=? 102) then Some (c - 87)
  else None.
Fixpoint hex_of (b : bytes) : bytes :=
  match b with
  | [] => []
  | x :: b' => hexdig (x / 16) :: hexdig (x mod 16) :: hex_of b'
  end.
Fixpoint unhex_of (h : bytes) : option bytes :=
  match h with
  | [] => Some []
  | a :: b :: h' =>
    match unhex a, unhex b, unhex_of h' with
    | Some x, Some y, Some r => Some (16 * x + y :: r)
    | _, _, _ => None
    end
  | _ => None
  end.

(* byte-string atom *)
Definition ab (b : bytes) : sx := A (120 :: hex_of b).
Definition get_ab (x : sx) : option bytes :=
  match x with
  | A (120 :: h) => unhex_of h
  | _ => None
  end.

(* decimal numbers *)
Fixpoint dec_digits (fuel : nat) (n : N) (acc : bytes) : bytes :=
  match fuel with
  | O => acc
  | S f => if n <? 10 then (48 + n) :: acc
           else dec_digits f (n / 10) ((48 + n mod 10) :: acc)
  end.
Definition dec_of_N (n : N) : bytes := dec_digits (S (N.to_nat (N.size n))) n [].
Definition an (n : N) : sx := A (dec_of_N n).
Definition az (z : Z) : sx :=
  match z with
  | Zneg p => A (45 :: dec_of_N (Npos p))
  | _ => A (dec_of_N (Z.to_N z))
  end.
Fixpoint undec (acc : N) (s : bytes) : option N :=
  match s with
  | [] => Some acc
  | c :: s' => if (48 <=? c) && (c <=? 57) then undec (10 * acc + (c - 48)) s' else None
  end.
Definition get_an (x : sx) : option N :=
  match x with
  | A (c :: s) => undec 0 (c :: s)
  | _ => None
  end.
Definition get_az (x : sx) : option Z :=
  match x with
  | A (45 :: c :: s) => match undec 0 (c :: s) with Some n => Some (- Z.of_N n)%Z | None => None end
  | A (c :: s) => match undec 0 (c :: s) with Some n => Some (Z.of_N n) | None => None end
  | _ => None
  end.

(* symbols *)
Definition asym (s : string) : sx := A (s2b s).
Definition is_sym (x : sx) (s : string) : bool :=
  match x with A a => bytes_eqb a (s2b s) | _ => false end.
Definition abool (b : bool) : sx := asym (if b then "t" else "f").
Definition get_abool (x : sx) : option bool :=
  if is_sym x "t" then Some true else if is_sym x "f" then Some false else None.

Fixpoint map_opt {X Y} (f : X -> option Y) (l : list X) : option (list Y) :=
  match l with
  | [] => Some []
  | x :: l' => match f x, map_opt f l' with
               | Some y, Some r => Some (y :: r)
               | _, _ => None
               end
  end.

Definition err_sym (e : err) : sx :=
  asym (match e with
        | EEof => "eof" | EInvalid => "invalid" | ELimit => "limit"
        | ECorrupt => "corrupt" | EFuel => "fuel" | EUnsupported => "unsupported"
        end).
Definition crash_sym (c : crash) : sx :=
  asym (match c with CIndex => "index" | COom => "oom" | CNeg => "neg" end).

Definition bad_line : bytes := s2b "model-parse-error".
