(* C08, extension: the receive loop with the handlers' state, and what "a silence at a packet boundary" is.

   Executable definitions only (the theorems are in proofs/StreamProofs2.v).

   recv_st          the receive loop of Client.Do (query.go) as Stream.recv_loop, but the handlers carry a state
                    [x : X] from packet to packet (in Go: what OnResult / OnProgress / OnProfile ... have been
                    handed so far - the handlers are closures over the query).  The state reached is part of
                    every outcome, an error or an exhausted fuel included: with X = list of results it is "the
                    handler results in the order they were delivered".  Stream.recv_loop is the instance X = unit
                    (StreamProofs2.recv_loop_is_recv_st).
   erase_gaps       the event list without its Timeout events
   code_contig      the bytes of the packet code that starts here arrive without a silence between them
   gaps_shape       a sufficient condition on the shape of the stream alone: no silence directly after a byte
                    >= 128 (only such a byte can be a varint's continuation byte, so only there can a deadline be
                    armed with a part of a packet code already consumed)
   gab_check        decides (with fuel) the exact condition StreamProofs2.gaps_at_boundaries *)
From CH Require Export model.Stream.
Open Scope N_scope.

Section RecvSt.
Variable St : Type.
Variable rfull : nat -> St -> option ((bytes + ioerr) * St).
Variable avail : St -> nat.
Variable arm : bool -> St -> St.
Variable H : bytes -> N * N.
Variable decomp : N -> bytes -> N -> option bytes.
Context {X R : Type}.
Variable body : X -> N -> rd (X * step R).

(* for { code, err := c.packet(ctx); if timeout { continue }; if err != nil { return err }; switch code { handlers } } *)
Fixpoint recv_st (fuel : nat) (x : X) (s : prd St) : X * rr St R :=
  match fuel with
  | O => (x, RFuel)
  | S f =>
    match packet St rfull avail arm H decomp s with
    | RErr e s' => if is_timeout e then recv_st f x s' else (x, RErr e s')
    | RCrash c => (x, RCrash c)
    | RFuel => (x, RFuel)
    | ROk code s' =>
      match run St rfull avail H decomp (body x code) s' with
      | ROk (x', Continue) s'' => recv_st f x' s''
      | ROk (x', Done r) s'' => (x', ROk r s'')
      | RErr e s'' => (x, RErr e s'')
      | RCrash c => (x, RCrash c)
      | RFuel => (x, RFuel)
      end
    end
  end.
End RecvSt.

Definition recv_st_L (orc : nat -> nat) H decomp {X R} := @recv_st bufio (rfull_L orc) avail_L arm_L H decomp X R.
Definition recv_st_G H decomp {X R} := @recv_st gflat rfull_G avail_G arm_G H decomp X R.
Definition recv_st_F H decomp {X R} := @recv_st flat rfull_F avail_F arm_F H decomp X R.

(* a stateless handler as a handler with the trivial state *)
Definition lift_body {R} (body : N -> rd (step R)) : unit -> N -> rd (unit * step R) :=
  fun _ code => r_pmap (fun st => (tt, st)) (body code).

(* a handler that records what it decoded: the state is the list of (packet code, value), newest first *)
Definition log_body {A R} (body : N -> rd (A * step R)) : list (N * A) -> N -> rd (list (N * A) * step R) :=
  fun log code => r_pmap (fun ar => ((code, fst ar) :: log, snd ar)) (body code).

Definition res_map {X S1 S2 R} (f : S1 -> S2) (r : X * rr S1 R) : X * rr S2 R := (fst r, rr_map f (snd r)).

(* ---- the events without the silences ------------------------------------------------------ *)
Definition is_chunk (e : event) : bool := match e with Chunk _ => true | Timeout => false end.
Definition erase_gaps (evs : list event) : list event := filter is_chunk evs.
Definition count_gaps (evs : list event) : nat := length (filter (fun e => negb (is_chunk e)) evs).

Definition erase_conn (c : conn) : conn :=
  {| c_evs := erase_gaps (c_evs c) ; c_tl := c_tl c ; c_armed := c_armed c ; c_calls := c_calls c |}.
Definition erase_bufio (s : bufio) : bufio := {| b_buf := b_buf s ; b_conn := erase_conn (b_conn s) |}.

Fixpoint count_none (l : list (option N)) : nat :=
  match l with
  | [] => O
  | None :: l' => S (count_none l')
  | Some _ :: l' => count_none l'
  end.

(* ---- where a silence is harmless ------------------------------------------------------------ *)
(* binary.ReadUvarint reads byte after byte while the byte read is >= 128, at most [fuel] = 10 of them *)
Fixpoint code_contig (fuel : nat) (l : list (option N)) : bool :=
  match fuel with
  | O => true
  | S f =>
    match l with
    | [] => true
    | None :: _ => false
    | Some b :: l' => if b <? 128 then true else code_contig f l'
    end
  end.

Fixpoint gaps_shape (l : list (option N)) : bool :=
  match l with
  | [] => true
  | x :: l' =>
    match x, l' with
    | Some b, None :: _ => b <? 128
    | _, _ => true
    end && gaps_shape l'
  end.

Fixpoint no_none_b (l : list (option N)) : bool :=
  match l with
  | [] => true
  | None :: _ => false
  | Some _ :: l' => no_none_b l'
  end.

Definition set_items (s : prd gflat) (l : list (option N)) : prd gflat :=
  with_raw s {| g_items := l ; g_tl := g_tl (p_raw s) ; g_armed := g_armed (p_raw s) |}.

(* at a packet boundary: no deadline armed (Client.packet resets it on return), compression off
   (decodeBlock: defer c.reader.DisableCompression()) *)
Definition at_boundary (s : prd gflat) : bool := negb (g_armed (p_raw s)) && negb (p_comp s).

Section Check.
Variable H : bytes -> N * N.
Variable decomp : N -> bytes -> N -> option bytes.
Context {X R : Type}.
Variable body : X -> N -> rd (X * step R).

Fixpoint gab_check (fuel : nat) (x : X) (s : prd gflat) : bool :=
  match fuel with
  | O => false
  | S f =>
    negb (g_armed (p_raw s)) &&
    (no_none_b (g_items (p_raw s)) ||
     (negb (p_comp s) &&
      match g_items (p_raw s) with
      | None :: l => gab_check f x (set_items s l)
      | l => code_contig 10 l &&
             match packet_G H decomp s with
             | ROk code s' =>
               match run_G H decomp (body x code) s' with
               | ROk (x', Continue) s'' => gab_check f x' s''
               | _ => true
               end
             | _ => true
             end
      end))
  end.
End Check.
