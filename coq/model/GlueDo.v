(* Transcript interface for Client.Do (C04, C10).

   scenario   (sc <sel|ins|str|selx> <compressed t|f> <gate column t|f> <rows0> (<ok|eof|eoft|err>...)
                  ((<avail> <data|tot|prog|prof|tc|info|end|exc|unk|unx|mal> [ok|err|errx])...) <n | (k t|f)> <n | (k t|f)>
                  [(<cwf|cle>...)])
              errx: the callback fails with an error that wraps a *ch.Exception (PContX)
              selx: sendQuery fails (external data that cannot be encoded); the optional tenth element lists
              environment faults: cwf = the Write of the Cancel packet fails, cle = conn.Close reports an error
   commands   do <sc> (<coarse item>...)      ->  the observation, in the format of harness/c04.go
              ex <sc> (<coarse item>...)      ->  <state key> | <enabled coarse items> | <plan> | <observation or nonterminal> | <flags>
   coarse items: s r rt w m env.  "Release role X at its gate (rt: the held Read times out), then let every
   goroutine that is not at a gate run until it is at a gate, blocked or finished" -- this is the granularity at
   which the harness can steer the real client; each coarse item expands to a list of fine steps of model/DoLTS.v,
   so every coarse run is a run the theorems speak about. *)
From CH Require Import model.Sx model.DoLTS.
Open Scope nat_scope.

Definition get_nat (x : sx) : option nat := option_map N.to_nat (get_an x).

Definition get_cbr (x : sx) : option cbr :=
  if is_sym x "ok" then Some CbOk else if is_sym x "eof" then Some CbEof
  else if is_sym x "eoft" then Some CbEofTail else if is_sym x "err" then Some CbErr else None.

Definition get_pkt (x : sx) : option (nat * spkt) :=
  match x with
  | L (a :: k :: rest) =>
    match get_nat a with
    | None => None
    | Some a =>
      let cb := match rest with
                | [r] => if is_sym r "err" then Some false else Some true
                | _ => Some true
                end in
      if (is_sym k "data" || is_sym k "tot" || is_sym k "prog" || is_sym k "prof")
         && match rest with [r] => is_sym r "errx" | _ => false end then Some (a, PContX)
      else if is_sym k "data" || is_sym k "tot" || is_sym k "prog" || is_sym k "prof" then Some (a, PCont cb)
      else if is_sym k "tc" then Some (a, PCont None)
      else if is_sym k "info" then Some (a, PInfo)
      else if is_sym k "end" then Some (a, PEnd)
      else if is_sym k "exc" then Some (a, PExc)
      else if is_sym k "unk" || is_sym k "unx" || is_sym k "mal" then Some (a, PBad)
      else None
    end
  | _ => None
  end.

Definition get_fault (x : sx) : option (option (nat * bool)) :=
  if is_sym x "n" then Some None
  else match x with
       | L [k; b] => match get_nat k, get_abool b with Some k, Some b => Some (Some (k, b)) | _, _ => None end
       | _ => None
       end.

Definition get_kind (x : sx) : option qkind :=
  if is_sym x "sel" then Some QSel else if is_sym x "ins" then Some QIns else if is_sym x "str" then Some QStr
  else if is_sym x "selx" then Some QSelX else None.

Definition has_flag (f : string) (l : list sx) : bool := existsb (fun x => is_sym x f) l.

Definition get_scen9 (h k c g r0 : sx) (rounds script : list sx) (cutx wfx : sx) (flags : list sx) : option scen :=
    if is_sym h "sc" then
      match get_kind k, get_abool c, get_abool g, get_nat r0, map_opt get_cbr rounds, map_opt get_pkt script,
            get_fault cutx, get_fault wfx with
      | Some k, Some c, Some g, Some r0, Some rounds, Some script, Some cutv, Some wf =>
        Some {| sc_insert := match k with QSel | QSelX => false | _ => true end;
                sc_prog := compile k c g r0 rounds; sc_script := script; sc_cut := cutv; sc_wfault := wf;
                sc_cancel_wfault := has_flag "cwf" flags; sc_close_err := has_flag "cle" flags |}
      | _, _, _, _, _, _, _, _ => None
      end
    else None.

Definition get_scen (x : sx) : option scen :=
  match x with
  | L [h; k; c; g; r0; L rounds; L script; cutx; wfx] => get_scen9 h k c g r0 rounds script cutx wfx []
  | L [h; k; c; g; r0; L rounds; L script; cutx; wfx; L flags] => get_scen9 h k c g r0 rounds script cutx wfx flags
  | _ => None
  end.

(* ---------------------------------------------------------------- coarse semantics *)

Inductive citem := CS | CR | CRT | CW | CM | CEnv.

Record cst := { fine : st; hs : bool; hr : bool; hw : bool; hm : bool; ambiguous : bool;
                trace : list (who * bool) (* fine schedule so far, newest first *) }.

Definition gate_s (s : st) : option string :=
  match smd s with
  | SWriting => match pvec s with [] => None | _ => if closed s then None else Some "write"%string end
  | SAtGate => Some "col"%string
  | SAtCb _ => Some "cbin"%string
  | _ => None
  end.
Definition gate_r (s : st) : option string :=
  match rmd s with
  | RRead => if closed s then None else Some "read"%string
  | RAtCb _ => Some "cb"%string
  | RHook _ => Some "hret"%string
  | _ => None
  end.
Definition gate_w (s : st) : option string :=
  match wmd s with
  | WWake => Some "hwake"%string
  | WCancelHook => Some "hcancel"%string
  | WSkipHook => Some "hskip"%string
  | WWrite => if closed s then None else Some "wcancel"%string
  | _ => None
  end.
Definition gate_m (s : st) : option string :=
  match mmd s with
  | MCancelWrite => if closed s then None else Some "wcancel"%string
  | _ => None
  end.

Definition smode_eqb (a b : smode) : bool :=
  match a, b with
  | SRun, SRun | SWriting, SWriting | SAtGate, SAtGate | SDone, SDone => true
  | SAtCb _, SAtCb _ => true
  | SRet _, SRet _ => true
  | _, _ => false
  end.
(* a hidden step is effective when it changes the goroutine's position or what it holds *)
Definition moved_s (a b : st) : bool :=
  negb (smode_eqb (smd a) (smd b)) || negb (Nat.eqb (length (sprog a)) (length (sprog b)))
  || negb (Nat.eqb (length (pvec a)) (length (pvec b))).
Definition rmode_tag (m : rmode) : nat :=
  match m with RTop => 0 | RRead => 1 | RAtCb _ => 2 | RSendInfo => 3 | RExit1 _ => 4 | RExit2 _ => 5
             | RHook _ => 6 | RRet _ => 7 | RDone => 8 end.
Definition wmode_tag (m : wmode) : nat :=
  match m with WWait => 0 | WWake => 1 | WCancelHook => 2 | WWrite => 3 | WClose => 4 | WSkipHook => 5
             | WRet _ => 6 | WDone => 7 end.
Definition mmode_tag (m : mmode) : nat :=
  match m with MWait => 0 | MCancelWrite => 1 | MClose => 2 | MDone => 3 end.

(* the two selects with two ready cases *)
Definition ambiguous_s (s : st) : bool :=
  match smd s, sprog s with
  | SRun, AWaitInfo :: _ => (ci_item s || ci_closed s) && cancelled s
  | _, _ => false
  end.
Definition ambiguous_r (s : st) : bool :=
  match rmd s with RSendInfo => negb (ci_item s) && cancelled s | _ => false end.

Definition fx := all_fixed.

(* one pass over the four goroutines: arrivals at gates and hidden steps *)
Definition settle1 (sc : scen) (c : cst) : cst * bool :=
  let c1 :=
    if hs c then (c, false) else
    match gate_s (fine c) with
    | Some _ => ({| fine := fine c; hs := true; hr := hr c; hw := hw c; hm := hm c; ambiguous := ambiguous c; trace := trace c |}, true)
    | None =>
      let s' := step fx sc GS false (fine c) in
      if moved_s (fine c) s' then
        ({| fine := s'; hs := false; hr := hr c; hw := hw c; hm := hm c;
            ambiguous := ambiguous c || ambiguous_s (fine c); trace := (GS, false) :: trace c |}, true)
      else (c, false)
    end in
  let '(c, ch1) := c1 in
  let c2 :=
    if hr c then (c, false) else
    match gate_r (fine c) with
    | Some _ => ({| fine := fine c; hs := hs c; hr := true; hw := hw c; hm := hm c; ambiguous := ambiguous c; trace := trace c |}, true)
    | None =>
      let s' := step fx sc GR false (fine c) in
      if negb (Nat.eqb (rmode_tag (rmd (fine c))) (rmode_tag (rmd s'))) then
        ({| fine := s'; hs := hs c; hr := false; hw := hw c; hm := hm c;
            ambiguous := ambiguous c || ambiguous_r (fine c); trace := (GR, false) :: trace c |}, true)
      else (c, false)
    end in
  let '(c, ch2) := c2 in
  let c3 :=
    if hw c then (c, false) else
    match gate_w (fine c) with
    | Some _ => ({| fine := fine c; hs := hs c; hr := hr c; hw := true; hm := hm c; ambiguous := ambiguous c; trace := trace c |}, true)
    | None =>
      let s' := step fx sc GW false (fine c) in
      if negb (Nat.eqb (wmode_tag (wmd (fine c))) (wmode_tag (wmd s'))) then
        ({| fine := s'; hs := hs c; hr := hr c; hw := false; hm := hm c; ambiguous := ambiguous c; trace := (GW, false) :: trace c |}, true)
      else (c, false)
    end in
  let '(c, ch3) := c3 in
  let c4 :=
    if hm c then (c, false) else
    match gate_m (fine c) with
    | Some _ => ({| fine := fine c; hs := hs c; hr := hr c; hw := hw c; hm := true; ambiguous := ambiguous c; trace := trace c |}, true)
    | None =>
      let s' := step fx sc GM false (fine c) in
      if negb (Nat.eqb (mmode_tag (mmd (fine c))) (mmode_tag (mmd s'))) then
        ({| fine := s'; hs := hs c; hr := hr c; hw := hw c; hm := false; ambiguous := ambiguous c; trace := (GM, false) :: trace c |}, true)
      else (c, false)
    end in
  let '(c, ch4) := c4 in
  (c, ch1 || ch2 || ch3 || ch4).

Fixpoint settle (fuel : nat) (sc : scen) (c : cst) : cst :=
  match fuel with
  | O => c
  | S f => let '(c', ch) := settle1 sc c in if ch then settle f sc c' else c'
  end.

Definition settle_fuel (sc : scen) : nat := 40 + 6 * length (sc_prog sc) + 4 * length (sc_script sc).

Definition cstart (sc : scen) : cst :=
  settle (settle_fuel sc) sc {| fine := init sc; hs := false; hr := false; hw := false; hm := false; ambiguous := false; trace := [] |}.

Definition enabled (sc : scen) (c : cst) (i : citem) : bool :=
  match i with
  | CS => hs c
  | CR => hr c && match rmd (fine c) with
                  | RRead => match next_read sc (fine c) with RdBlock => false | _ => true end
                  | _ => true
                  end
  | CRT => hr c && match rmd (fine c) with
                   | RRead => match next_read sc (fine c) with RdPkt _ | RdBlock => true | _ => false end
                   | _ => false
                   end
  | CW => hw c
  | CM => hm c
  | CEnv => negb (pcancel (fine c)) && negb (terminal (fine c))
  end.

Definition cstep (sc : scen) (c : cst) (i : citem) : cst :=
  if negb (enabled sc c i) then c else
  let '(g, alt) := match i with CS => (GS, false) | CR => (GR, false) | CRT => (GR, true)
                                | CW => (GW, false) | CM => (GM, false) | CEnv => (GEnv, false) end in
  let s' := step fx sc g alt (fine c) in
  settle (settle_fuel sc) sc
    {| fine := s';
       hs := match i with CS => false | _ => hs c end;
       hr := match i with CR | CRT => false | _ => hr c end;
       hw := match i with CW => false | _ => hw c end;
       hm := match i with CM => false | _ => hm c end;
       ambiguous := ambiguous c; trace := (g, alt) :: trace c |}.

(* ---------------------------------------------------------------- plan *)

Definition sym_of (o : option string) : sx := match o with Some s => asym s | None => asym "-" end.

Definition action (sc : scen) (c : cst) (i : citem) : sx :=
  let s := fine c in
  match i with
  | CS =>
    match smd s with
    | SWriting =>
      if closed s then asym "cl"
      else match sc_wfault sc with
           | Some (k, partial) => if Nat.eqb k (nwcalls s) then L [asym "f"; abool partial] else asym "ok"
           | None => asym "ok"
           end
    | _ => asym "-"
    end
  | CRT => asym "to"
  | CR =>
    match rmd s with
    | RRead =>
      match next_read sc s with
      | RdClosed => asym "cl"
      | RdEof inside => if inside then L [asym "h"; an (N.of_nat (pos s))] else asym "eof"
      | RdPkt _ => L [asym "d"; an (N.of_nat (pos s))]
      | RdBlock => asym "to"
      end
    | _ => asym "-"
    end
  | CW => match wmd s with
          | WWrite => if closed s then asym "cl" else if sc_cancel_wfault sc then L [asym "f"; abool false] else asym "ok"
          | _ => asym "-"
          end
  | CM => match mmd s with
          | MCancelWrite => if closed s then asym "cl" else if sc_cancel_wfault sc then L [asym "f"; abool false] else asym "ok"
          | _ => asym "-"
          end
  | CEnv => asym "-"
  end.

Definition is_sdone (s : st) := match smd s with SDone => true | _ => false end.
Definition is_rdone (s : st) := match rmd s with RDone => true | _ => false end.
Definition is_wdone (s : st) := match wmd s with WDone => true | _ => false end.

(* what the harness waits for after a coarse step: arrivals at gates and goroutine exits *)
Definition expects (before after : cst) (released : option citem) : list sx :=
  let rel_s := match released with Some CS => true | _ => false end in
  let rel_r := match released with Some CR | Some CRT => true | _ => false end in
  let rel_w := match released with Some CW => true | _ => false end in
  let rel_m := match released with Some CM => true | _ => false end in
  (if hs after && (negb (hs before) || rel_s) then [asym "sg"] else []) ++
  (if hr after && (negb (hr before) || rel_r) then [asym "rg"] else []) ++
  (if hw after && (negb (hw before) || rel_w) then [asym "wg"] else []) ++
  (if hm after && (negb (hm before) || rel_m) then [asym "mg"] else []) ++
  (if is_sdone (fine after) && negb (is_sdone (fine before)) then [asym "sx"] else []) ++
  (if is_rdone (fine after) && negb (is_rdone (fine before)) then [asym "rx"] else []) ++
  (if is_wdone (fine after) && negb (is_wdone (fine before)) then [asym "wx"] else []) ++
  (if terminal (fine after) && negb (terminal (fine before)) then [asym "mx"] else []).

Definition role_sym (i : citem) : sx :=
  asym (match i with CS => "s" | CR | CRT => "r" | CW => "w" | CM => "m" | CEnv => "e" end).
Definition gate_of (c : cst) (i : citem) : sx :=
  match i with
  | CS => sym_of (gate_s (fine c))
  | CR | CRT => sym_of (gate_r (fine c))
  | CW => sym_of (gate_w (fine c))
  | CM => sym_of (gate_m (fine c))
  | CEnv => asym "-"
  end.
(* the gate kind is fixed at arrival; a connection closed in the meantime does not change it *)
Definition gate_kind (c : cst) (i : citem) : sx :=
  let s := fine c in
  match i with
  | CS => match smd s with SWriting => asym "write" | _ => gate_of c i end
  | CR | CRT => match rmd s with RRead => asym "read" | _ => gate_of c i end
  | CW => match wmd s with WWrite => asym "wcancel" | _ => gate_of c i end
  | CM => match mmd s with MCancelWrite => asym "wcancel" | _ => gate_of c i end
  | CEnv => asym "-"
  end.

Definition no_cst : cst := {| fine := init {| sc_insert := false; sc_prog := []; sc_script := []; sc_cut := None; sc_wfault := None;
                                              sc_cancel_wfault := false; sc_close_err := false |};
                              hs := false; hr := false; hw := false; hm := false; ambiguous := false; trace := [] |}.

Fixpoint crun (sc : scen) (c : cst) (items : list citem) (plan : list sx) (bad : bool) : cst * list sx * bool :=
  match items with
  | [] => (c, plan, bad)
  | i :: r =>
    if enabled sc c i then
      let c' := cstep sc c i in
      let item := match i with
                  | CEnv => L (asym "env" :: expects c c' None)
                  | _ => L (asym "rel" :: role_sym i :: gate_kind c i :: action sc c i :: expects c c' (Some i))
                  end in
      crun sc c' r (plan ++ [item]) bad
    else crun sc c r plan true
  end.

Definition get_item (x : sx) : option citem :=
  if is_sym x "s" then Some CS else if is_sym x "r" then Some CR else if is_sym x "rt" then Some CRT
  else if is_sym x "w" then Some CW else if is_sym x "m" then Some CM else if is_sym x "env" then Some CEnv else None.
Definition item_sym (i : citem) : sx :=
  asym (match i with CS => "s" | CR => "r" | CRT => "rt" | CW => "w" | CM => "m" | CEnv => "env" end).

(* ---------------------------------------------------------------- observation *)

Fixpoint pr_toks (w : list wtok) : bytes :=
  match w with
  | [] => []
  | WChunk _ :: r => 100 :: pr_toks r                  (* d *)
  | WPart :: r => 112 :: pr_toks r                     (* p *)
  | WStray :: WCancel :: r => 122 :: pr_toks r         (* z: one Write holding the stray byte and Cancel *)
  | WStray :: r => 122 :: pr_toks r
  | WCancel :: r => 99 :: pr_toks r                    (* c *)
  end%N.

Definition has_k (k : errk) (l : list errk) : bool :=
  existsb (fun x => match x, k with KCtx, KCtx | KExc, KExc => true | _, _ => false end) l.

Definition kv (k : string) (v : sx) : sx :=
  match v with A b => A (s2b k ++ 61%N :: b) | _ => v end.

Definition pr_obs (sc : scen) (s : st) : list sx :=
  if negb (terminal s) then [asym "nonterminal"] else
  [ asym "ok"; kv "e" (abool (failed s)); kv "ctx" (abool (has_k KCtx (ret s))); kv "exc" (abool (has_k KExc (ret s)));
    kv "closed" (abool (closed s)); kv "ncl" (an (N.of_nat (nclose s)));
    kv "w" (A (45%N :: pr_toks (wire s))); kv "ob" (abool (out_boundary (wire s)));
    kv "cbs" (an (N.of_nat (cbs s))); kv "dac" (an (N.of_nat (dac s)));
    kv "ping" (match fst (next_request s) with
               | ReqRejected => asym "rej"
               | ReqWrote [WChunk true] => asym "clean"
               | ReqWrote _ => asym "stale"
               end);
    kv "pong" (abool (negb (closed s) && Nat.leb (length (sc_script sc)) (pos s))) ].

(* a key identifying the coarse state (for the exploration done by checks/c04.py) *)
Definition pr_res (e : result) : sx :=
  asym (match e with None => "nil" | Some KCtx => "ctx" | Some KExc => "exc" | Some KIO => "io" | Some KClosed => "cls" | Some KOther => "oth" end).
Definition pr_key (c : cst) : sx :=
  let s := fine c in
  L [ abool (pcancel s); abool (cancelled s); abool (closed s); abool (done s); abool (gotexc s); abool (ci_item s);
      abool (ci_closed s); an (N.of_nat (length (pvec s))); abool (match ptail s with Some _ => true | None => false end);
      A (45%N :: pr_toks (wire s)); an (N.of_nat (nwcalls s)); an (N.of_nat (pos s)); abool (inb_ok s); pr_res (err1 s);
      an (N.of_nat (length (sprog s)));
      L [ asym (match smd s with SRun => "run" | SWriting => "wr" | SAtGate => "gt" | SAtCb _ => "cb" | SRet _ => "ret" | SDone => "dn" end);
          match smd s with SRet e => pr_res e | _ => asym "-" end ];
      L [ an (N.of_nat (rmode_tag (rmd s)));
          match rmd s with RExit1 e | RExit2 e | RHook e | RRet e => pr_res e | RAtCb ok => abool ok | _ => asym "-" end ];
      L [ an (N.of_nat (wmode_tag (wmd s))); match wmd s with WRet e => pr_res e | _ => asym "-" end ];
      an (N.of_nat (mmode_tag (mmd s)));
      abool (hs c); abool (hr c); abool (hw c); abool (hm c); abool (ambiguous c) ].

Definition all_items : list citem := [CS; CR; CRT; CW; CM; CEnv].

Definition bar : sx := asym "|".

Definition run_cmd (xs : list sx) : option (list sx) :=
  match xs with
  | [cmd; scx; L items] =>
    match get_scen scx, map_opt get_item items with
    | Some sc, Some items =>
      let c0 := cstart sc in
      let go := L (asym "go" :: expects no_cst c0 None) in
      let '(c, plan, bad) := crun sc c0 items [go] false in
      if is_sym cmd "do" then
        Some (if bad then [asym "disabled-item"] else pr_obs sc (fine c))
      else if is_sym cmd "ex" then
        Some ([pr_key c; bar; L (map item_sym (filter (enabled sc c) all_items)); bar; L plan; bar; L (pr_obs sc (fine c)); bar;
               L ((if bad then [asym "disabled"] else []) ++ (if ambiguous c then [asym "ambiguous"] else []))])
      else None
    | _, _ => None
    end
  | _ => None
  end.

(* ---------------------------------------------------------------- handshake
   hs <addendum t|f> <hello|exc|bad|eof> <cancel instant 0..3 | n> <watchdog first t|f>
   ->  ok res=<nil|err> ctx=<t|f> closed=<t|f>
   "watchdog first" at instant 1 / 3 = the hello / addendum Write STALLS until the connection is closed (the model's
   environment choices st1 / st2): only the watchdog's Close ends it *)
Definition get_reply (x : sx) : option hreply :=
  if is_sym x "hello" then Some HrHello else if is_sym x "exc" then Some HrExc
  else if is_sym x "bad" then Some HrBad else if is_sym x "eof" then Some HrEof else None.

Definition hs_sched (at_ : option nat) (wd : bool) : list (hwho * bool) :=
  let h n := repeat (HH, false) n in
  let d := repeat (HD, false) 4 in
  let tail := h 10 ++ d ++ repeat (HK, false) 3 in
  match at_ with
  | None => tail
  | Some O => (HEnv, false) :: tail
  | Some (S k) => h (match k with O => 1 | S O => 2 | _ => 4 end) ++ [(HEnv, false)] ++ (if wd then d else []) ++ tail
  end.

Definition run_hs (xs : list sx) : option (list sx) :=
  match xs with
  | [cmd; a; r; i; w] =>
    if is_sym cmd "hs" then
      match get_abool a, get_reply r, get_abool w with
      | Some a, Some r, Some w =>
        let at_ := if is_sym i "n" then Some None else option_map Some (get_nat i) in
        match at_ with
        | Some at_ =>
          let st1 := w && match at_ with Some 1 => true | _ => false end in
          let st2 := w && match at_ with Some 3 => true | _ => false end in
          let s := hrun true a st1 st2 r (hs_sched at_ w) hinit in
          if hterminal s then
            Some [asym "ok"; kv "res" (asym (if h_ok s then "nil" else "err"));
                  kv "ctx" (abool (has_k KCtx (h_ret s))); kv "closed" (abool (h_closed s))]
          else Some [asym "nonterminal"]
        | None => None
        end
      | _, _, _ => None
      end
    else None
  | _ => None
  end.

Definition run_line (line : bytes) : bytes :=
  match parse_line line with
  | Some xs =>
    match run_cmd xs with
    | Some out => pr_items out
    | None => match run_hs xs with Some out => pr_items out | None => bad_line end
    end
  | None => bad_line
  end.
