(* Transcript interface for the handshake (C13).

   case:  hs <connect|dial> (<pkg name> <major> <minor> <patch>)
             (<revision> <database> <user> <password> <quota key> <client name> <read timeout> <handshake timeout>)
             <local address> ((<gap> x<bytes>) ...) <stall | (cut <gap>)> <follow-up>
   follow-up:  none | (ping x<fed>) | (do (<id> <body> <quota> <initial user> ((k v imp) ...) ((k v) ...) <nil | (span ..)>) x<fed>)
   times in nanoseconds, strings as byte atoms.

   observation:
     connected (<name> <major> <minor> <revision> <timezone> <display> <patch>) x<written during the handshake> f <follow-up observation>
     failed <exception|other> (<exception chain>) x<written> <t|f|any>
   follow-up observation:
     none | (ping <ok|exception|fail|closed> (<chain>) x<written>)
          | (do <ok|closed|noparams|exception|fail|unmodelled> (<chain>) x<written> (<events>)) *)
From CH Require Import model.Sx model.Handshake.
From CH Require Import gen.Codes.
Open Scope N_scope.

Definition get_pkg (x : sx) : option buildinfo :=
  match x with
  | L [n; ma; mi; p] =>
    match get_ab n, get_az ma, get_az mi, get_az p with
    | Some n, Some ma, Some mi, Some p => Some {| b_name := n ; b_major := ma ; b_minor := mi ; b_patch := p |}
    | _, _, _, _ => None
    end
  | _ => None
  end.

Definition get_options (x : sx) : option options :=
  match x with
  | L [rv; db; us; pw; qk; cn; rt; ht] =>
    match get_az rv, get_ab db, get_ab us, get_ab pw, get_ab qk, get_ab cn, get_az rt, get_az ht with
    | Some rv, Some db, Some us, Some pw, Some qk, Some cn, Some rt, Some ht =>
      Some {| o_rev := rv ; o_db := db ; o_user := us ; o_pw := pw ; o_quota := qk ; o_cname := cn ;
              o_rt := rt ; o_ht := ht |}
    | _, _, _, _, _, _, _, _ => None
    end
  | _ => None
  end.

Definition get_chunk (x : sx) : option (N * bytes) :=
  match x with
  | L [g; b] => match get_an g, get_ab b with Some g, Some b => Some (g, b) | _, _ => None end
  | _ => None
  end.

Definition get_tail (x : sx) : option tail :=
  if is_sym x "stall" then Some TStall else
  match x with
  | L [c; g] => if is_sym c "cut" then option_map TCut (get_an g) else None
  | _ => None
  end.

Definition get_cq_setting (x : sx) : option (bytes * bytes * bool) :=
  match x with
  | L [k; v; i] => match get_ab k, get_ab v, get_abool i with
                   | Some k, Some v, Some i => Some (k, v, i)
                   | _, _, _ => None
                   end
  | _ => None
  end.
Definition get_cq_param (x : sx) : option (bytes * bytes) :=
  match x with
  | L [k; v] => match get_ab k, get_ab v with Some k, Some v => Some (k, v) | _, _ => None end
  | _ => None
  end.
(* the span of a traced caller context: nil | (span x<trace id> x<span id> x<trace state> <flags>) *)
Definition get_cq_span (x : sx) : option (option span) :=
  if is_sym x "nil" then Some None else
  match x with
  | L [h; t; s; st; fl] =>
    if is_sym h "span" then
      match get_ab t, get_ab s, get_ab st, get_an fl with
      | Some t, Some s, Some st, Some fl =>
        Some (Some {| sp_trace := t ; sp_span := s ; sp_state := st ; sp_flags := fl |})
      | _, _, _, _ => None
      end
    else None
  | _ => None
  end.
Definition get_cquery (x : sx) : option cquery :=
  match x with
  | L [id; body; qk; iu; L sets; L ps; sp] =>
    match get_ab id, get_ab body, get_ab qk, get_ab iu, map_opt get_cq_setting sets, map_opt get_cq_param ps, get_cq_span sp with
    | Some id, Some body, Some qk, Some iu, Some sets, Some ps, Some sp =>
      Some {| cq_id := id ; cq_body := body ; cq_quota := qk ; cq_inituser := iu ;
              cq_settings := sets ; cq_params := ps ; cq_span := sp |}
    | _, _, _, _, _, _, _ => None
    end
  | _ => None
  end.

Inductive followup := FNone | FPing (fed : bytes) | FDo (q : cquery) (fed : bytes).
Definition get_followup (x : sx) : option followup :=
  if is_sym x "none" then Some FNone else
  match x with
  | L [h; fed] =>
    if is_sym h "ping" then option_map FPing (get_ab fed) else None
  | L [h; q; fed] =>
    if is_sym h "do" then
      match get_cquery q, get_ab fed with Some q, Some fed => Some (FDo q fed) | _, _ => None end
    else None
  | _ => None
  end.

(* ---- printing ------------------------------------------------------------------------------ *)
Definition pr_sh (h : server_hello) : sx :=
  L [ab (sh_name h); az (sh_major h); az (sh_minor h); az (sh_revision h);
     ab (sh_tz h); ab (sh_display h); az (sh_patch h)].

(* ch.Exception: code, name, message, stack of the top exception and of each nested one *)
Definition pr_exc (ex : list fv) : sx :=
  match ex with
  | [FZ code; FStr name; FStr msg; FStr stack; _] => L [az code; ab name; ab msg; ab stack]
  | _ => asym "bad"
  end.
Definition pr_chain (es : list (list fv)) : sx := L (map pr_exc es).

Definition pr_tri (t : tri) : sx := asym (match t with TriNo => "f" | TriYes => "t" | TriAny => "any" end).

Definition pr_fvs_flat (tag : string) (xs : list fv) : sx :=
  L (asym tag :: map (fun x => match x with
                               | FN n => an n | FZ z => az z | FB b => abool b | FStr s => ab s
                               | FSpan _ => asym "span"
                               end) xs).
Definition pr_event (e : event) : sx :=
  match e with
  | EvProgress xs => pr_fvs_flat "progress" xs
  | EvProfile xs => pr_fvs_flat "profile" xs
  end.

Definition pr_followup (c : client) (f : followup) : sx :=
  match f with
  | FNone => asym "none"
  | FPing fed =>
    let '(e, wrote, _) := ping c fed in
    match e with
    | PingOk => L [asym "ping"; asym "ok"; L []; ab wrote]
    | PingException es => L [asym "ping"; asym "exception"; pr_chain es; ab wrote]
    | PingFail => L [asym "ping"; asym "fail"; L []; ab wrote]
    | PingClosed => L [asym "ping"; asym "closed"; L []; ab wrote]
    end
  | FDo q fed =>
    let r := do_query c q fed in
    let evs := L (map pr_event (d_events r)) in
    match d_end r with
    | DoOk => L [asym "do"; asym "ok"; L []; ab (d_wrote r); evs]
    | DoClosed => L [asym "do"; asym "closed"; L []; ab (d_wrote r); evs]
    | DoNoParams => L [asym "do"; asym "noparams"; L []; ab (d_wrote r); evs]
    | DoException es => L [asym "do"; asym "exception"; pr_chain es; ab (d_wrote r); evs]
    | DoFail => L [asym "do"; asym "fail"; L []; ab (d_wrote r); evs]
    | DoUnmodelled _ => L [asym "do"; asym "unmodelled"; L []; ab (d_wrote r); evs]
    end
  end.

Definition pr_result (r : hs_result) (f : followup) : list sx :=
  match r_out r with
  | Connected c =>
    [asym "connected"; pr_sh (server_info c); ab (r_wrote r); pr_tri (r_closed r); pr_followup c f]
  | Failed (HException es) =>
    [asym "failed"; asym "exception"; pr_chain es; ab (r_wrote r); pr_tri (r_closed r)]
  | Failed _ =>
    [asym "failed"; asym "other"; L []; ab (r_wrote r); pr_tri (r_closed r)]
  end.

Definition run_hs (xs : list sx) : option (list sx) :=
  match xs with
  | [h; mode; pkg; opts; addr; L chunks; tl; fu] =>
    if negb (is_sym h "hs") then None else
    match get_pkg pkg, get_options opts, get_ab addr, map_opt get_chunk chunks, get_tail tl, get_followup fu with
    | Some bi, Some o, Some addr, Some cs, Some tl, Some fu =>
      let p := {| p_chunks := cs ; p_tail := tl |} in
      if is_sym mode "connect" then Some (pr_result (connect bi o addr p) fu)
      else if is_sym mode "dial" then Some (pr_result (dial bi o addr p) fu)
      else None
    | _, _, _, _, _, _ => None
    end
  | _ => None
  end.

Definition run_line (line : bytes) : bytes :=
  match parse_line line with
  | Some xs => match run_hs xs with Some out => pr_items out | None => bad_line end
  | None => bad_line
  end.
