(* Column decoders of model/Columns.v as reader programs of model/Stream.v (C08): the same sequence of
   ReadFull calls, with the tests on the number of bytes still to come ([read_nN], [repN]) as ghost reads
   of the available count. *)
From CH Require Import model.Columns model.Stream.
From CH Require Import gen.Codes gen.Consts.
Open Scope N_scope.
Open Scope list_scope.

Definition r_read_nN (n : N) : rd bytes :=
  RAvail (fun av => if n <=? N.of_nat av then r_read_n (N.to_nat n) else RFail EEof).
Definition r_read_rawN (n : N) : rd bytes := rbind (r_alloc n) (fun _ => r_read_nN n).
Definition r_repN {A} (n : N) (P : rd A) : rd (list A) :=
  RAvail (fun av => if n <=? N.of_nat av then r_rep (N.to_nat n) P
                    else rbind (r_rep av P) (fun _ => RFail EEof)).
Definition r_dec_fix (w : nat) (n : N) : rd (list N) :=
  if n =? 0 then RRet []
  else rbind (r_read_rawN (n * N.of_nat w)) (fun bs => RRet (map le_get (chunks w (N.to_nat n) bs))).
Definition r_check_rows (z : Z) : rd N :=
  if (z <? 0)%Z then RFail EInvalid
  else if (maxRowsInBLock <? z)%Z then RFail ELimit
  else RRet (Z.to_N z).
Definition r_dec_bool (b : build) (n : N) : rd (list N) :=
  match b with
  | Safe =>
    rbind (r_read_rawN n) (fun bs =>
      if forallb (fun x => (x =? Z.to_N boolTrue) || (x =? Z.to_N boolFalse)) bs then RRet bs else RFail EInvalid)
  | Unsafe => if n =? 0 then RRet [] else r_read_rawN n
  end.

Section RSeq.
  Context {T D : Type}.
  Section DS. Variable f : T -> rd D.
    Fixpoint r_dec_seq (ts : list T) : rd (list D) :=
      match ts with
      | [] => RRet []
      | t0 :: ts' => rbind (f t0) (fun d0 => rbind (r_dec_seq ts') (fun r => RRet (d0 :: r)))
      end.
  End DS.
  Section US. Variable f : T -> rd unit.
    Fixpoint r_unit_seq (ts : list T) : rd unit :=
      match ts with
      | [] => RRet tt
      | t0 :: ts' => rbind (f t0) (fun _ => r_unit_seq ts')
      end.
  End US.
End RSeq.

Fixpoint r_dec_state (t : ty) : rd unit :=
  match t with
  | TJSON => rbind r_get_u64 (fun v => if v =? Z.to_N JSONStringSerializationVersion then RRet tt else RFail EInvalid)
  | TArr t' | TNullable t' | TNamed _ t' => r_dec_state t'
  | TLowCard t' =>
    rbind r_get_i64 (fun v => if (v =? sharedDictionariesWithAdditionalKeys)%Z then r_dec_state t' else RFail EInvalid)
  | TMap k v => rbind (r_dec_state k) (fun _ => r_dec_state v)
  | TTuple ts => r_unit_seq r_dec_state ts
  | _ => RRet tt
  end.

Fixpoint r_dec (b : build) (t : ty) (n : N) : rd cdata :=
  match t with
  | TFix _ w => r_pmap DFix (r_dec_fix w n)
  | TBool => r_pmap DBool (r_dec_bool b n)
  | TUUID =>
    match b with
    | Safe => rbind (r_read_rawN (n * 16)) (fun bs => RRet (DBytes (map swap16 (chunks 16 (N.to_nat n) bs))))
    | Unsafe => if n =? 0 then RRet (DBytes [])
                else rbind (r_read_rawN (n * 16)) (fun bs => RRet (DBytes (map swap16 (chunks 16 (N.to_nat n) bs))))
    end
  | TStr | TJSON => r_pmap DBytes (r_repN n r_get_str)
  | TFixedStr sz =>
    match sz with
    | O => if 0 <? n then RFail EInvalid else RRet (DFixedStr [])
    | _ => r_pmap DFixedStr (r_read_rawN (n * N.of_nat sz))
    end
  | TNothing => if n =? 0 then RRet (DNothing 0) else rbind (r_read_rawN n) (fun _ => RRet (DNothing n))
  | TPoint => rbind (r_dec_fix 8 n) (fun xs => rbind (r_dec_fix 8 n) (fun ys => RRet (DPoint xs ys)))
  | TEnum _ w defs =>
    rbind (r_dec_fix w n) (fun raw =>
      match mapM (fun r => enum_raw_to_str defs (to_signed (8 * N.of_nat w) r)) raw with
      | Some vals => RRet (DEnum vals raw)
      | None => RFail EInvalid
      end)
  | TArr t' =>
    rbind (r_dec_fix 8 n) (fun offs =>
      if negb (monotoneb 0 offs) then RFail EInvalid else
      rbind (r_check_rows (to_i64 (last_or0 offs))) (fun size =>
      rbind (r_dec b t' size) (fun d => RRet (DArr offs d))))
  | TNullable t' =>
    rbind (r_dec_fix 1 n) (fun nulls => rbind (r_dec b t' n) (fun d => RRet (DNullable nulls d)))
  | TLowCard t' =>
    if n =? 0 then RRet (empty (TLowCard t')) else
    rbind r_get_i64 (fun meta =>
    let m := wrap64 meta in
    if negb (N.testbit m 9) then RFail EInvalid else
    let key := m mod 256 in
    if 3 <? key then RFail EInvalid else
    rbind r_get_i64 (fun irows =>
    rbind (r_check_rows irows) (fun isz =>
    rbind (r_dec b t' isz) (fun idx =>
    rbind r_get_i64 (fun krows =>
    rbind (r_check_rows krows) (fun _ =>
    rbind (r_dec_fix (key_bytes key) n) (fun keys =>
    if negb (forallb (fun k => (to_i64 (k mod 2 ^ 64) <? irows)%Z && (0 <=? to_i64 (k mod 2 ^ 64))%Z) keys)
    then RFail EInvalid else
    match mapM (fun k => row t' idx (N.to_nat k)) keys with
    | Some vals => RRet (DLowCard vals idx key keys)
    | None => RCrsh CIndex
    end)))))))
  | TMap tk tv =>
    if n =? 0 then RRet (empty (TMap tk tv)) else
    rbind (r_dec_fix 8 n) (fun offs =>
    if negb (monotoneb 0 offs) then RFail EInvalid else
    rbind (r_check_rows (to_i64 (last_or0 offs))) (fun cnt =>
    rbind (r_dec b tk cnt) (fun dk =>
    rbind (r_dec b tv cnt) (fun dv => RRet (DMap offs dk dv)))))
  | TTuple ts => r_pmap DTuple (r_dec_seq (fun t0 => r_dec b t0 n) ts)
  | TNamed _ t' => r_dec b t' n
  end.

Definition r_dec_column (b : build) (t : ty) (n : N) : rd cdata :=
  if n =? 0 then RRet (empty t) else rbind (r_dec_state t) (fun _ => r_dec b t n).
