(* Transcript interface for the vectored writer (C14).
     wr <cap0> x<init> (x<ext0> x<ext1> ...) (<op> <op> ...)
       op   ::= (cb <bop> ...) | (cw <id>) | (mx <id> x<d>) | (fl <sink> x<scribble>)
       bop  ::= (a x<d> <t|f force-realloc> <extra cap>) | (s <start> x<d>) | (t <n>)
       sink ::= ok | (fail <n>) | (short <k> <t|f with-error>)
     ->  ok (f <n> <t|f err> x<bytes the sink took>) ... (end <len of staging buffer>) | ... (crash)  *)
From CH Require Import model.Sx model.Writer.
Open Scope nat_scope.

Definition get_nat (x : sx) : option nat := option_map N.to_nat (get_an x).

Definition get_bop (x : sx) : option bop :=
  match x with
  | L [k; d; f; e] =>
    if is_sym k "a" then
      match get_ab d, get_abool f, get_nat e with
      | Some d, Some f, Some e => Some (BApp d f e)
      | _, _, _ => None
      end
    else None
  | L [k; a; b] =>
    if is_sym k "s" then
      match get_nat a, get_ab b with Some a, Some b => Some (BSet a b) | _, _ => None end
    else None
  | L [k; a] =>
    if is_sym k "t" then option_map BTrunc (get_nat a) else None
  | _ => None
  end.

Definition get_sink (x : sx) : option sink :=
  if is_sym x "ok" then Some SAccept else
  match x with
  | L [k; n] => if is_sym k "fail" then option_map SFailAfter (get_nat n) else None
  | L [k; n; e] =>
    if is_sym k "short" then
      match get_nat n, get_abool e with Some n, Some e => Some (SShort n e) | _, _ => None end
    else None
  | _ => None
  end.

Definition get_wop (x : sx) : option wop :=
  match x with
  | L (k :: rest) =>
    if is_sym k "cb" then option_map WChainBuffer (map_opt get_bop rest)
    else if is_sym k "cw" then
      match rest with [i] => option_map WChainWrite (get_nat i) | _ => None end
    else if is_sym k "mx" then
      match rest with
      | [i; d] => match get_nat i, get_ab d with Some i, Some d => Some (WMutExt i d) | _, _ => None end
      | _ => None
      end
    else if is_sym k "fl" then
      match rest with
      | [s; scr] => match get_sink s, get_ab scr with Some s, Some scr => Some (WFlush s scr) | _, _ => None end
      | _ => None
      end
    else None
  | _ => None
  end.

Definition pr_fo (fo : flush_obs) : sx :=
  L [asym "f"; an (N.of_nat (fo_n fo)); abool (fo_err fo); ab (accepted fo)].

Definition run_wr (xs : list sx) : option (list sx) :=
  match xs with
  | [op; c; init; L exts; L ops] =>
    if is_sym op "wr" then
      match get_nat c, get_ab init, map_opt get_ab exts, map_opt get_wop ops with
      | Some c, Some init, Some exts, Some ops =>
        let '(fos, crashed, st) := wrun_obs (winit init c exts) ops in
        Some (asym "ok" :: map pr_fo fos ++
              [if crashed then L [asym "crash"] else L [asym "end"; an (N.of_nat (b_len (buf st)))]])
      | _, _, _, _ => None
      end
    else None
  | _ => None
  end.

Definition run_line (line : bytes) : bytes :=
  match parse_line line with
  | Some xs => match run_wr xs with Some out => pr_items out | None => bad_line end
  | None => bad_line
  end.
