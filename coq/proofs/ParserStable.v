(* Decoders answer "need more input" on a proper prefix of what they accept (C03, compressed blocks
   that arrive as several frames; model/Recv.v [read_comp] re-runs a decoder each time a frame arrived).

   [mono] (PrimProofs): a successful parse did not look past what it consumed.
   [stable] (here): a verdict other than "unexpected end of input" does not depend on what follows either:
   an error other than EEof and a crash persist when input is appended.  One exemption mirrors the
   allocation budget of model/Prim.v ([alloc_ok] compares a request with the input present): a COom
   crash may turn into something else when so much input is appended that it exceeds half the cap.
   From both: a parser that accepts [c] and consumes it whole returns [Err EEof] on every proper prefix
   of [c] ([prefix_eof]), for [c] below the allocation cap.

   Proved for every decoder under Block.DecodeBlock: primitives, column decoders of every type tree,
   column state, BlockInfo, the column headers, Results.DecodeResult / decodeAuto and [Recv.block_parser]. *)
From CH Require Import model.Recv.
From CH Require Import proofs.PrimProofs proofs.FieldsProofs proofs.MessagesProofs proofs.ColumnsProofs proofs.ColumnsProofs2.
From CH Require Import gen.Features gen.Codes gen.Consts.
From Coq Require Import ZifyN ZifyNat ZifyBool.
Ltac Zify.zify_post_hook ::= Z.div_mod_to_equations.
Open Scope N_scope.
Open Scope list_scope.

Definition oom_excuse (s : bytes) : Prop := alloc_cap < 2 * blen s + 4096.

Definition stable {A} (p : parser A) : Prop :=
  forall s more,
    (forall a r, p s = Ok a r -> (length r <= length s)%nat) /\
    (forall e, p s = Err e -> e <> EEof -> p (s ++ more) = Err e) /\
    (forall c, p s = Crash c -> p (s ++ more) = Crash c \/ (c = COom /\ oom_excuse (s ++ more))).

Lemma stable_ret {A} (a : A) : stable (ret a).
Proof.
  intros s more. unfold ret. split; [|split]; try discriminate.
  intros a' r [= _ <-]. lia.
Qed.

Lemma stable_fail {A} e : stable (@fail A e).
Proof.
  intros s more. unfold fail. split; [|split]; try discriminate.
  intros e' [= <-] _. reflexivity.
Qed.

Lemma stable_crash {A} c : stable (fun _ : bytes => @Crash A c).
Proof.
  intros s more. split; [|split]; try discriminate.
  intros c' [= <-]. now left.
Qed.

Lemma stable_bind {A B} (p : parser A) (f : A -> parser B) :
  mono p -> stable p -> (forall a, stable (f a)) -> stable (bind p f).
Proof.
  intros Hm Hp Hf s more. destruct (Hp s more) as (Hp1 & Hp2 & Hp3). unfold bind.
  destruct (p s) as [a r|e|c] eqn:E.
  - specialize (Hp1 a r eq_refl). rewrite (Hm _ _ _ more E).
    destruct (Hf a r more) as (Hf1 & Hf2 & Hf3).
    split; [|split].
    + intros b r2 Hb. specialize (Hf1 _ _ Hb). lia.
    + exact Hf2.
    + intros c Hc. destruct (Hf3 c Hc) as [Hl|(Hc0 & Hx)]; [now left|right]. split; [exact Hc0|].
      unfold oom_excuse, blen in *. rewrite !app_length in *. lia.
  - split; [discriminate|split; [|discriminate]].
    intros e0 [= <-] Hne. now rewrite (Hp2 e eq_refl Hne).
  - split; [discriminate|split; [discriminate|]].
    intros c0 [= <-]. destruct (Hp3 c eq_refl) as [Hl|Hr]; [left; now rewrite Hl|now right].
Qed.

Lemma stable_pmap {A B} (f : A -> B) p : mono p -> stable p -> stable (pmap f p).
Proof. intros Hm Hs. apply stable_bind; [assumption|assumption|intros; apply stable_ret]. Qed.

Lemma stable_if {A} (b : bool) (p q : parser A) : stable p -> stable q -> stable (if b then p else q).
Proof. destruct b; auto. Qed.

Lemma stable_alloc n : stable (alloc n).
Proof.
  intros s more. unfold alloc. split; [|split].
  - intros a r. destruct (alloc_ok n (length s)); [|discriminate]. intros [= _ <-]. lia.
  - intros e. destruct (alloc_ok n (length s)); discriminate.
  - destruct (alloc_ok n (length s)) eqn:E; [discriminate|]. intros c [= <-].
    destruct (alloc_ok n (length (s ++ more))) eqn:E2; [right|now left].
    split; [reflexivity|]. unfold alloc_ok, oom_excuse, blen in *. lia.
Qed.

Lemma stable_read_n n : stable (read_n n).
Proof.
  intros s more. unfold read_n. destruct (Nat.leb n (length s)) eqn:E; (split; [|split]); try discriminate.
  - intros a r [= _ <-]. rewrite skipn_length. lia.
  - intros e [= <-] Hne. congruence.
Qed.

Lemma read_n_err n s e : read_n n s = Err e -> e = EEof.
Proof. unfold read_n. destruct (Nat.leb n (length s)); [discriminate|]. now intros [= <-]. Qed.

Lemma stable_read_nN n : stable (read_nN n).
Proof.
  intros s more. unfold read_nN. destruct (n <=? blen s) eqn:E.
  - destruct (stable_read_n (N.to_nat n) s more) as (H1 & _ & _). split; [exact H1|split].
    + intros e He Hne. apply read_n_err in He. congruence.
    + unfold read_n. destruct (Nat.leb _ _); discriminate.
  - split; [discriminate|split; [|discriminate]]. intros e [= <-] Hne. congruence.
Qed.

Lemma stable_read_byte : stable read_byte.
Proof.
  intros [|b s] more; cbn [read_byte]; (split; [|split]); try discriminate.
  - intros e [= <-] Hne. congruence.
  - intros a r [= _ <-]. cbn [length]. lia.
Qed.

Lemma stable_read_raw n : stable (read_raw n).
Proof. apply stable_bind; [apply mono_alloc|apply stable_alloc|intros; apply stable_read_n]. Qed.

Lemma stable_get_uv f : forall i acc, stable (get_uv f i acc).
Proof.
  induction f as [|f IH]; intros i acc s more; cbn [get_uv].
  - split; [discriminate|split; [|discriminate]]. intros e [= <-] _. reflexivity.
  - destruct s as [|b s]; cbn [app get_uv].
    + split; [discriminate|split; [|discriminate]]. intros e [= <-] Hne. congruence.
    + destruct (b <? 128).
      * destruct ((i =? 9) && (1 <? b)).
        -- split; [discriminate|split; [|discriminate]]. intros e [= <-] _. reflexivity.
        -- split; [|split; discriminate]. intros a r [= _ <-]. cbn [length]. lia.
      * destruct (IH (i + 1) (acc + (b - 128) * 2 ^ (7 * i)) s more) as (H1 & H2 & H3).
        split; [|split]; [|exact H2|].
        -- intros a r Hr. specialize (H1 _ _ Hr). cbn [length]. lia.
        -- intros c Hc. destruct (H3 _ Hc) as [Hl|(Hc0 & Hx)]; [now left|right]. split; [exact Hc0|].
           unfold oom_excuse, blen in *. cbn [length]. lia.
Qed.

Lemma stable_uvarint : stable uvarint.
Proof. apply stable_get_uv. Qed.
Lemma stable_get_int : stable get_int.
Proof. apply stable_pmap; [apply mono_uvarint|apply stable_uvarint]. Qed.
Lemma stable_strlen : stable strlen.
Proof.
  apply stable_bind; [apply mono_get_int|apply stable_get_int|]. intros z.
  apply stable_if; [apply stable_fail|apply stable_ret].
Qed.
Lemma stable_get_str : stable get_str.
Proof.
  apply stable_bind; [apply mono_strlen|apply stable_strlen|]. intros n.
  apply stable_bind; [apply mono_alloc|apply stable_alloc|]. intros _. apply stable_read_nN.
Qed.
Lemma stable_get_u8 : stable get_u8. Proof. apply stable_pmap; [apply mono_read_raw|apply stable_read_raw]. Qed.
Lemma stable_get_u32 : stable get_u32. Proof. apply stable_pmap; [apply mono_read_raw|apply stable_read_raw]. Qed.
Lemma stable_get_u64 : stable get_u64. Proof. apply stable_pmap; [apply mono_read_raw|apply stable_read_raw]. Qed.
Lemma stable_get_i32 : stable get_i32. Proof. apply stable_pmap; [apply mono_get_u32|apply stable_get_u32]. Qed.
Lemma stable_get_i64 : stable get_i64. Proof. apply stable_pmap; [apply mono_get_u64|apply stable_get_u64]. Qed.
Lemma stable_get_bool : stable get_bool.
Proof.
  apply stable_bind; [apply mono_get_u8|apply stable_get_u8|]. intros v.
  repeat apply stable_if; try apply stable_ret; apply stable_fail.
Qed.

Lemma stable_rep {A} n (p : parser A) : mono p -> stable p -> stable (rep n p).
Proof.
  intros Hm Hp. induction n as [|n IH]; cbn [rep]; [apply stable_ret|].
  apply stable_bind; [assumption|assumption|]. intros x.
  apply stable_bind; [now apply mono_rep|assumption|]. intros xs. apply stable_ret.
Qed.

(* ---- loops whose trip count is capped by the input present ------------------------------------ *)
(* the shape of Columns.repN and of the header loops of Block.decode_result / decode_auto *)
Definition guardN {A} (n : N) (F : nat -> parser A) : parser A :=
  fun s => if n <=? blen s then F (N.to_nat n) s else
           match F (length s) s with
           | Ok _ _ => Err EEof
           | Err e => Err e
           | Crash c => Crash c
           end.

(* [q] fails wherever [p] fails, in the same way *)
Definition pers {A} (p q : parser A) : Prop :=
  forall s, (forall e, p s = Err e -> q s = Err e) /\ (forall c, p s = Crash c -> q s = Crash c).
(* a failure met within m rounds is met within any larger number of rounds *)
Definition persists {A} (F : nat -> parser A) : Prop := forall m k, pers (F m) (F (m + k)%nat).

Lemma pers_refl {A} (p : parser A) : pers p p.
Proof. intros s. split; auto. Qed.
Lemma pers_ret {A} (a : A) q : pers (ret a) q.
Proof. intros s. unfold ret. split; discriminate. Qed.
Lemma pers_bind {A B} (p : parser A) (f g : A -> parser B) :
  (forall a, pers (f a) (g a)) -> pers (bind p f) (bind p g).
Proof. intros H s. unfold bind. destruct (p s); [apply H|split; auto|split; auto]. Qed.
Lemma pers_bind_ret {A B} (p q : parser A) (h : A -> B) :
  pers p q -> pers (bind p (fun r => ret (h r))) (bind q (fun r => ret (h r))).
Proof.
  intros H s. destruct (H s) as (He & Hc). unfold bind, ret.
  destruct (p s) as [a r|e|c]; split; try discriminate.
  - intros e0 [= <-]. now rewrite (He _ eq_refl).
  - intros c0 [= <-]. now rewrite (Hc _ eq_refl).
Qed.

Lemma mono_guardN {A} n (F : nat -> parser A) : (forall m, mono (F m)) -> mono (guardN n F).
Proof.
  intros Hm s a r more H. unfold guardN in *.
  destruct (n <=? blen s) eqn:E.
  - replace (n <=? blen (s ++ more)) with true by (rewrite blen_app; lia).
    now apply Hm.
  - destruct (F (length s) s); discriminate.
Qed.

Lemma stable_guardN {A} n (F : nat -> parser A) :
  (forall m, mono (F m)) -> (forall m, stable (F m)) -> persists F -> stable (guardN n F).
Proof.
  intros Hm Hs Hp s more. unfold guardN.
  destruct (n <=? blen s) eqn:E.
  - replace (n <=? blen (s ++ more)) with true by (rewrite blen_app; lia). apply Hs.
  - assert (Hlt : (length s < N.to_nat n)%nat) by (unfold blen in E; lia).
    destruct (F (length s) s) as [a r|e|c] eqn:E0.
    + split; [discriminate|split; [|discriminate]]. intros e [= <-] Hne. congruence.
    + split; [discriminate|split; [|discriminate]]. intros e0 [= <-] Hne.
      destruct (n <=? blen (s ++ more)) eqn:E2.
      * destruct (Hp (length s) (N.to_nat n - length s)%nat s) as (Hpe & _).
        specialize (Hpe _ E0). replace (length s + (N.to_nat n - length s))%nat with (N.to_nat n) in Hpe by lia.
        destruct (Hs (N.to_nat n) s more) as (_ & H2 & _). exact (H2 _ Hpe Hne).
      * destruct (Hp (length s) (length more) s) as (Hpe & _). specialize (Hpe _ E0).
        rewrite <- app_length in Hpe.
        destruct (Hs (length (s ++ more)) s more) as (_ & H2 & _). now rewrite (H2 _ Hpe Hne).
    + split; [discriminate|split; [discriminate|]]. intros c0 [= <-].
      destruct (n <=? blen (s ++ more)) eqn:E2.
      * destruct (Hp (length s) (N.to_nat n - length s)%nat s) as (_ & Hpc).
        specialize (Hpc _ E0). replace (length s + (N.to_nat n - length s))%nat with (N.to_nat n) in Hpc by lia.
        destruct (Hs (N.to_nat n) s more) as (_ & _ & H3). exact (H3 _ Hpc).
      * destruct (Hp (length s) (length more) s) as (_ & Hpc). specialize (Hpc _ E0).
        rewrite <- app_length in Hpc.
        destruct (Hs (length (s ++ more)) s more) as (_ & _ & H3).
        destruct (H3 _ Hpc) as [Hl|Hr]; [left; now rewrite Hl|now right].
Qed.

Lemma persists_rep {A} (p : parser A) : persists (fun m => rep m p).
Proof.
  intros m. induction m as [|m IH]; intros k; cbn [Nat.add rep]; [apply pers_ret|].
  apply pers_bind. intros x. apply (pers_bind_ret _ _ (cons x)). apply IH.
Qed.

Lemma repN_guardN {A} n (p : parser A) : repN n p = guardN n (fun m => rep m p).
Proof. reflexivity. Qed.

Lemma stable_repN {A} n (p : parser A) : mono p -> stable p -> stable (repN n p).
Proof.
  intros Hm Hp. rewrite repN_guardN. apply stable_guardN.
  - intros m. now apply mono_rep.
  - intros m. now apply stable_rep.
  - apply persists_rep.
Qed.

(* ---- column decoders ------------------------------------------------------------------------- *)
Lemma stable_read_rawN n : stable (read_rawN n).
Proof. apply stable_bind; [apply mono_alloc|apply stable_alloc|intros; apply stable_read_nN]. Qed.

Lemma stable_dec_fix w n : stable (dec_fix w n).
Proof.
  unfold dec_fix. destruct (n =? 0); [apply stable_ret|].
  apply stable_bind; [apply mono_read_rawN|apply stable_read_rawN|intros; apply stable_ret].
Qed.

Lemma stable_check_rows z : stable (check_rows z).
Proof.
  unfold check_rows. destruct (z <? 0)%Z; [apply stable_fail|].
  destruct (maxRowsInBLock <? z)%Z; [apply stable_fail|apply stable_ret].
Qed.

Lemma stable_dec_seq {T D} (f : T -> parser D) ts :
  Forall (fun t => mono (f t) /\ stable (f t)) ts -> stable (dec_seq f ts).
Proof.
  induction 1 as [|t0 ts' (Hm0 & Hs0) Hts IH]; cbn [dec_seq]; [apply stable_ret|].
  apply stable_bind; [exact Hm0|exact Hs0|]. intros d0.
  apply stable_bind; [|exact IH|intros; apply stable_ret].
  apply mono_dec_seq. eapply Forall_impl; [|exact Hts]. now intros t (Hm & _).
Qed.

Lemma stable_unit_seq {T} (f : T -> parser unit) ts :
  Forall (fun t => mono (f t) /\ stable (f t)) ts -> stable (unit_seq f ts).
Proof.
  induction 1 as [|t0 ts' (Hm0 & Hs0) Hts IH]; cbn [unit_seq]; [apply stable_ret|].
  apply stable_bind; [exact Hm0|exact Hs0|]. intros _. exact IH.
Qed.

Lemma stable_dec_bool b n : stable (dec_bool b n).
Proof.
  destruct b; unfold dec_bool.
  - apply stable_bind; [apply mono_read_rawN|apply stable_read_rawN|]. intros bs.
    apply stable_if; [apply stable_ret|apply stable_fail].
  - apply stable_if; [apply stable_ret|apply stable_read_rawN].
Qed.

Ltac sb M S := apply stable_bind; [apply M|apply S|].

Theorem stable_dec b t : forall n, stable (dec b t n).
Proof.
  induction t as [name w| | | | |sz| | |name w defs|t IH|t IH|t IH|k v IHk IHv|ts IH|name t IH] using ty_ind';
    intros n; cbn [dec].
  - apply stable_pmap; [apply mono_dec_fix|apply stable_dec_fix].
  - apply stable_pmap; [apply mono_dec_bool|apply stable_dec_bool].
  - destruct b.
    + sb mono_read_rawN stable_read_rawN. intros; apply stable_ret.
    + apply stable_if; [apply stable_ret|]. sb mono_read_rawN stable_read_rawN. intros; apply stable_ret.
  - apply stable_pmap; [apply mono_repN, mono_get_str|apply stable_repN; [apply mono_get_str|apply stable_get_str]].
  - apply stable_pmap; [apply mono_repN, mono_get_str|apply stable_repN; [apply mono_get_str|apply stable_get_str]].
  - destruct sz; [apply stable_if; [apply stable_fail|apply stable_ret]|].
    apply stable_pmap; [apply mono_read_rawN|apply stable_read_rawN].
  - apply stable_if; [apply stable_ret|]. sb mono_read_rawN stable_read_rawN. intros; apply stable_ret.
  - sb mono_dec_fix stable_dec_fix. intros xs. sb mono_dec_fix stable_dec_fix. intros; apply stable_ret.
  - sb mono_dec_fix stable_dec_fix. intros raw.
    destruct (mapM _ raw); [apply stable_ret|apply stable_fail].
  - sb mono_dec_fix stable_dec_fix. intros offs.
    apply stable_if; [apply stable_fail|].
    sb mono_check_rows stable_check_rows. intros size.
    apply stable_bind; [apply mono_dec|apply IH|intros; apply stable_ret].
  - sb mono_dec_fix stable_dec_fix. intros nulls.
    apply stable_bind; [apply mono_dec|apply IH|intros; apply stable_ret].
  - apply stable_if; [apply stable_ret|].
    sb mono_get_i64 stable_get_i64. intros meta. cbv zeta.
    apply stable_if; [apply stable_fail|]. apply stable_if; [apply stable_fail|].
    sb mono_get_i64 stable_get_i64. intros irows.
    sb mono_check_rows stable_check_rows. intros isz.
    apply stable_bind; [apply mono_dec|apply IH|]. intros idx.
    sb mono_get_i64 stable_get_i64. intros krows.
    sb mono_check_rows stable_check_rows. intros _.
    sb mono_dec_fix stable_dec_fix. intros keys.
    apply stable_if; [apply stable_fail|].
    destruct (mapM _ keys); [apply stable_ret|apply stable_crash].
  - apply stable_if; [apply stable_ret|].
    sb mono_dec_fix stable_dec_fix. intros offs.
    apply stable_if; [apply stable_fail|].
    sb mono_check_rows stable_check_rows. intros cnt.
    apply stable_bind; [apply mono_dec|apply IHk|]. intros dk.
    apply stable_bind; [apply mono_dec|apply IHv|intros; apply stable_ret].
  - apply stable_pmap.
    + apply mono_dec_seq. apply Forall_forall. intros t0 _. apply mono_dec.
    + apply stable_dec_seq. eapply Forall_impl; [|exact IH]. intros t0 H0. split; [apply mono_dec|apply H0].
  - apply IH.
Qed.

Theorem stable_dec_state t : stable (dec_state t).
Proof.
  induction t as [name w| | | | |sz| | |name w defs|t IH|t IH|t IH|k v IHk IHv|ts IH|name t IH] using ty_ind';
    cbn [dec_state]; try apply stable_ret; try exact IH.
  - sb mono_get_u64 stable_get_u64. intros v. apply stable_if; [apply stable_ret|apply stable_fail].
  - sb mono_get_i64 stable_get_i64. intros v. apply stable_if; [exact IH|apply stable_fail].
  - apply stable_bind; [apply mono_dec_state|exact IHk|intros; exact IHv].
  - apply stable_unit_seq. eapply Forall_impl; [|exact IH]. intros t0 H0. split; [apply mono_dec_state|exact H0].
Qed.

(* ---- BlockInfo --------------------------------------------------------------------------------- *)
Lemma stable_BlockInfo_loop fuel : forall i, stable (decode_BlockInfo_loop fuel i).
Proof.
  induction fuel as [|fuel IH]; intros i; cbn [decode_BlockInfo_loop]; [apply stable_fail|].
  sb mono_uvarint stable_uvarint. intros id.
  apply stable_if; [apply stable_bind; [apply mono_get_bool|apply stable_get_bool|intros; apply IH]|].
  apply stable_if; [apply stable_bind; [apply mono_get_i32|apply stable_get_i32|intros; apply IH]|].
  apply stable_if; [apply stable_ret|apply stable_fail].
Qed.

(* more fuel, same answer - for every answer but "out of fuel" *)
Lemma BlockInfo_loop_more_any fuel : forall i s extra,
  decode_BlockInfo_loop fuel i s <> Err EFuel ->
  decode_BlockInfo_loop (fuel + extra) i s = decode_BlockInfo_loop fuel i s.
Proof.
  induction fuel as [|fuel IH]; intros i s extra H; [now elim H|].
  cbn [Nat.add decode_BlockInfo_loop] in *. unfold bind in *.
  destruct (uvarint s) as [id s1|e|c]; try reflexivity.
  destruct (id =? Z.to_N blockInfoOverflows).
  - destruct (get_bool s1); try reflexivity. now apply IH.
  - destruct (id =? Z.to_N blockInfoBucketNum).
    + destruct (get_i32 s1); try reflexivity. now apply IH.
    + reflexivity.
Qed.

Lemma stable_decode_BlockInfo i : stable (decode_BlockInfo i).
Proof.
  intros s more. unfold decode_BlockInfo.
  destruct (stable_BlockInfo_loop (S (length s)) i s more) as (H1 & H2 & H3).
  pose proof (BlockInfo_never_fuel i s) as Hnf. unfold decode_BlockInfo in Hnf.
  assert (Hfuel : forall r, decode_BlockInfo_loop (S (length s)) i (s ++ more) = r -> r <> Err EFuel ->
                            decode_BlockInfo_loop (S (length (s ++ more))) i (s ++ more) = r).
  { intros r Hr Hne. rewrite app_length.
    replace (S (length s + length more)) with (S (length s) + length more)%nat by lia.
    rewrite BlockInfo_loop_more_any; [exact Hr|]. now rewrite Hr. }
  split; [exact H1|split].
  - intros e He Hne. apply Hfuel; [now apply H2|].
    intros [= ->]. now apply Hnf.
  - intros c Hc. destruct (H3 _ Hc) as [Hl|Hr]; [left|now right].
    apply Hfuel; [exact Hl|discriminate].
Qed.

(* ---- blocks ------------------------------------------------------------------------------------ *)
Section BlockStable.
  Variable conflicts : bytes -> bytes -> bool.
  Variable infer_target : ty -> bytes -> option ty.
  Variable infer_auto : bytes -> option ty.

  Lemma mono_dec_col_header v : mono (dec_col_header v).
  Proof.
    unfold dec_col_header. apply mono_bind; [apply mono_get_str|]. intros name.
    apply mono_bind; [apply mono_get_str|]. intros tstr.
    apply mono_if; [|apply mono_ret].
    apply mono_bind; [apply mono_get_bool|]. intros cs. apply mono_if; [apply mono_fail|apply mono_ret].
  Qed.
  Lemma stable_dec_col_header v : stable (dec_col_header v).
  Proof.
    unfold dec_col_header. sb mono_get_str stable_get_str. intros name.
    sb mono_get_str stable_get_str. intros tstr.
    apply stable_if; [|apply stable_ret].
    sb mono_get_bool stable_get_bool. intros cs. apply stable_if; [apply stable_fail|apply stable_ret].
  Qed.

  Definition coldata (b : build) (nrows : N) (ty' : ty) : parser cdata :=
    if nrows =? 0 then ret (empty ty') else dec_state ty' ;;; dec b ty' nrows.
  Lemma mono_coldata b nrows t : mono (coldata b nrows t).
  Proof.
    unfold coldata. apply mono_if; [apply mono_ret|].
    apply mono_bind; [apply mono_dec_state|intros; apply mono_dec].
  Qed.
  Lemma stable_coldata b nrows t : stable (coldata b nrows t).
  Proof.
    unfold coldata. apply stable_if; [apply stable_ret|].
    apply stable_bind; [apply mono_dec_state|apply stable_dec_state|intros; apply stable_dec].
  Qed.

  Lemma ms_dec_targets b v nrows : forall ts,
    mono (dec_targets conflicts infer_target b v nrows ts) /\
    stable (dec_targets conflicts infer_target b v nrows ts).
  Proof.
    induction ts as [|t ts (IHm & IHs)]; cbn [dec_targets]; [split; [apply mono_ret|apply stable_ret]|].
    split.
    - apply mono_bind; [apply mono_dec_col_header|]. intros [name tstr].
      apply mono_if; [apply mono_fail|].
      destruct (infer_target (c_ty t) tstr) as [ty'|]; [|apply mono_fail].
      apply mono_if; [apply mono_fail|].
      apply mono_bind; [apply (mono_coldata b nrows ty')|]. intros d.
      apply mono_bind; [exact IHm|intros; apply mono_ret].
    - sb mono_dec_col_header stable_dec_col_header. intros [name tstr].
      apply stable_if; [apply stable_fail|].
      destruct (infer_target (c_ty t) tstr) as [ty'|]; [|apply stable_fail].
      apply stable_if; [apply stable_fail|].
      apply stable_bind; [apply (mono_coldata b nrows ty')|apply (stable_coldata b nrows ty')|]. intros d.
      apply stable_bind; [exact IHm|exact IHs|intros; apply stable_ret].
  Qed.

  Lemma ms_skip_headers v : forall n, mono (skip_headers v n) /\ stable (skip_headers v n).
  Proof.
    induction n as [|n (IHm & IHs)]; cbn [skip_headers]; [split; [apply mono_ret|apply stable_ret]|].
    split.
    - apply mono_bind; [apply mono_dec_col_header|intros; exact IHm].
    - sb mono_dec_col_header stable_dec_col_header. intros; exact IHs.
  Qed.

  Lemma persists_skip_headers v : persists (skip_headers v).
  Proof.
    intros m. induction m as [|m IH]; intros k; cbn [Nat.add skip_headers]; [apply pers_ret|].
    apply pers_bind. intros _. apply IH.
  Qed.

  Lemma ms_dec_auto_cols b v nrows : forall n,
    mono (dec_auto_cols infer_auto b v nrows n) /\ stable (dec_auto_cols infer_auto b v nrows n).
  Proof.
    induction n as [|n (IHm & IHs)]; cbn [dec_auto_cols]; [split; [apply mono_ret|apply stable_ret]|].
    split.
    - apply mono_bind; [apply mono_dec_col_header|]. intros [name tstr].
      destruct (infer_auto tstr) as [ty'|]; [|apply mono_fail].
      apply mono_bind; [apply (mono_coldata b nrows ty')|]. intros d.
      apply mono_bind; [exact IHm|intros; apply mono_ret].
    - sb mono_dec_col_header stable_dec_col_header. intros [name tstr].
      destruct (infer_auto tstr) as [ty'|]; [|apply stable_fail].
      apply stable_bind; [apply (mono_coldata b nrows ty')|apply (stable_coldata b nrows ty')|]. intros d.
      apply stable_bind; [exact IHm|exact IHs|intros; apply stable_ret].
  Qed.

  Lemma persists_dec_auto_cols b v nrows : persists (dec_auto_cols infer_auto b v nrows).
  Proof.
    intros m. induction m as [|m IH]; intros k; cbn [Nat.add dec_auto_cols]; [apply pers_ret|].
    apply pers_bind. intros [name tstr].
    destruct (infer_auto tstr) as [ty'|]; [|apply pers_refl].
    apply pers_bind. intros d.
    apply (pers_bind_ret _ _ (cons {| c_name := name ; c_ty := ty' ; c_data := d |})). apply IH.
  Qed.

  (* the header loop of an empty Results / of q.Result == nil, in guardN form *)
  Lemma skip_guard_eq {A} (a : A) v ncols s :
    (if ncols <=? blen s then (skip_headers v (N.to_nat ncols) ;;; ret a) s
     else match skip_headers v (length s) s with Ok _ _ => Err EEof | Err e => Err e | Crash c => Crash c end)
    = guardN ncols (fun m => skip_headers v m ;;; ret a) s.
  Proof.
    unfold guardN. destruct (ncols <=? blen s); [reflexivity|].
    unfold bind. destruct (skip_headers v (length s) s); reflexivity.
  Qed.

  Lemma ms_skip_ret {A} (a : A) v m : mono (skip_headers v m ;;; ret a) /\ stable (skip_headers v m ;;; ret a).
  Proof.
    destruct (ms_skip_headers v m) as (Hm & Hs). split.
    - apply mono_bind; [exact Hm|intros; apply mono_ret].
    - apply stable_bind; [exact Hm|exact Hs|intros; apply stable_ret].
  Qed.

  Lemma persists_skip_ret {A} (a : A) v : persists (fun m => skip_headers v m ;;; ret a).
  Proof. intros m k. apply (pers_bind_ret _ _ (fun _ => a)). apply persists_skip_headers. Qed.

  Lemma ms_skip_guard {A} (a : A) v ncols :
    mono (guardN ncols (fun m => skip_headers v m ;;; ret a)) /\
    stable (guardN ncols (fun m => skip_headers v m ;;; ret a)).
  Proof.
    split.
    - apply mono_guardN. intros m. apply (ms_skip_ret a v m).
    - apply stable_guardN; [intros m; apply (ms_skip_ret a v m)|intros m; apply (ms_skip_ret a v m)|apply persists_skip_ret].
  Qed.

  Lemma ext_mono {A} (p q : parser A) : (forall s, p s = q s) -> mono q -> mono p.
  Proof. intros He Hq s a r more H. rewrite He in *. now apply Hq. Qed.
  Lemma ext_stable {A} (p q : parser A) : (forall s, p s = q s) -> stable q -> stable p.
  Proof. intros He Hq s more. rewrite !He. apply Hq. Qed.

  Lemma ms_decode_result b v ncols nrows ts :
    mono (decode_result conflicts infer_target b v ncols nrows ts) /\
    stable (decode_result conflicts infer_target b v ncols nrows ts).
  Proof.
    unfold decode_result. destruct ts as [|t ts].
    - destruct (negb (ncols =? 0) && negb (nrows =? 0)); [split; [apply mono_fail|apply stable_fail]|].
      destruct (ms_skip_guard (@nil target) v ncols) as (Hm & Hs). split.
      + eapply ext_mono; [|exact Hm]. intros s. apply (skip_guard_eq (@nil target)).
      + eapply ext_stable; [|exact Hs]. intros s. apply (skip_guard_eq (@nil target)).
    - destruct (negb (ncols =? N.of_nat (length (t :: ts)))); [split; [apply mono_fail|apply stable_fail]|].
      apply ms_dec_targets.
  Qed.

  Lemma ms_decode_auto b v ncols nrows ts :
    mono (decode_auto conflicts infer_target infer_auto b v ncols nrows ts) /\
    stable (decode_auto conflicts infer_target infer_auto b v ncols nrows ts).
  Proof.
    unfold decode_auto. destruct ts as [|t ts]; [|apply ms_decode_result].
    change (fun s : bytes => if ncols <=? blen s then dec_auto_cols infer_auto b v nrows (N.to_nat ncols) s
                    else match dec_auto_cols infer_auto b v nrows (length s) s with
                         | Ok _ _ => Err EEof | Err e => Err e | Crash c => Crash c end)
      with (guardN ncols (dec_auto_cols infer_auto b v nrows)).
    split.
    - apply mono_guardN. intros m. apply ms_dec_auto_cols.
    - apply stable_guardN; [intros m; apply ms_dec_auto_cols|intros m; apply ms_dec_auto_cols|apply persists_dec_auto_cols].
  Qed.

  Lemma ms_decode_raw_block auto b v ts :
    mono (decode_raw_block conflicts infer_target infer_auto auto b v ts) /\
    stable (decode_raw_block conflicts infer_target infer_auto auto b v ts).
  Proof.
    unfold decode_raw_block. split.
    - apply mono_bind; [apply mono_get_int|]. intros c. apply mono_if; [apply mono_fail|].
      apply mono_bind; [apply mono_get_int|]. intros r.
      apply mono_bind; [apply mono_check_rows|]. intros nrows.
      apply mono_if; [apply mono_ret|].
      apply mono_bind; [|intros; apply mono_ret].
      destruct auto; [apply ms_decode_auto|apply ms_decode_result].
    - sb mono_get_int stable_get_int. intros c. apply stable_if; [apply stable_fail|].
      sb mono_get_int stable_get_int. intros r.
      sb mono_check_rows stable_check_rows. intros nrows.
      apply stable_if; [apply stable_ret|].
      apply stable_bind; [| |intros; apply stable_ret];
        (destruct auto; [apply ms_decode_auto|apply ms_decode_result]).
  Qed.

  Definition binfo (v : N) : parser block_info :=
    if gate v FeatureBlockInfo then decode_BlockInfo blank_block_info else ret blank_block_info.
  Lemma ms_binfo v : mono (binfo v) /\ stable (binfo v).
  Proof.
    unfold binfo. split.
    - apply mono_if; [apply mono_decode_BlockInfo|apply mono_ret].
    - apply stable_if; [apply stable_decode_BlockInfo|apply stable_ret].
  Qed.

  Lemma ms_decode_block auto b v ts :
    mono (decode_block conflicts infer_target infer_auto auto b v ts) /\
    stable (decode_block conflicts infer_target infer_auto auto b v ts).
  Proof.
    unfold decode_block. destruct (ms_binfo v) as (Hbm & Hbs).
    destruct (ms_decode_raw_block auto b v ts) as (Hrm & Hrs). split.
    - apply mono_bind; [exact Hbm|]. intros i. apply mono_bind; [exact Hrm|]. intros [[c r] ts']. apply mono_ret.
    - apply stable_bind; [exact Hbm|exact Hbs|]. intros i.
      apply stable_bind; [exact Hrm|exact Hrs|]. intros [[c r] ts']. apply stable_ret.
  Qed.

  Lemma ms_decode_block_nil v :
    mono (decode_block_nil v) /\ stable (decode_block_nil v).
  Proof.
    unfold decode_block_nil. destruct (ms_binfo v) as (Hbm & Hbs).
    assert (Hg : forall c : Z,
      mono (fun s => if Z.to_N c <=? blen s then skip_headers v (N.to_nat (Z.to_N c)) s
                     else match skip_headers v (length s) s with
                          | Ok _ _ => Err EEof | Err e => Err e | Crash x => Crash x end) /\
      stable (fun s => if Z.to_N c <=? blen s then skip_headers v (N.to_nat (Z.to_N c)) s
                       else match skip_headers v (length s) s with
                            | Ok _ _ => Err EEof | Err e => Err e | Crash x => Crash x end)).
    { intros c.
      change (fun s : bytes => if Z.to_N c <=? blen s then skip_headers v (N.to_nat (Z.to_N c)) s
                      else match skip_headers v (length s) s with
                           | Ok _ _ => Err EEof | Err e => Err e | Crash x => Crash x end)
        with (guardN (Z.to_N c) (skip_headers v)).
      split.
      - apply mono_guardN. intros m. apply ms_skip_headers.
      - apply stable_guardN; [intros m; apply ms_skip_headers|intros m; apply ms_skip_headers|apply persists_skip_headers]. }
    split.
    - apply mono_bind; [exact Hbm|]. intros i.
      apply mono_bind; [apply mono_get_int|]. intros c. apply mono_if; [apply mono_fail|].
      apply mono_bind; [apply mono_get_int|]. intros r.
      apply mono_bind; [apply mono_check_rows|]. intros nrows.
      apply mono_if; [apply mono_ret|]. apply mono_if; [apply mono_fail|].
      apply mono_bind; [apply Hg|intros; apply mono_ret].
    - apply stable_bind; [exact Hbm|exact Hbs|]. intros i.
      sb mono_get_int stable_get_int. intros c. apply stable_if; [apply stable_fail|].
      sb mono_get_int stable_get_int. intros r.
      sb mono_check_rows stable_check_rows. intros nrows.
      apply stable_if; [apply stable_ret|]. apply stable_if; [apply stable_fail|].
      apply stable_bind; [apply Hg|apply Hg|intros; apply stable_ret].
  Qed.

  (* Block.DecodeBlock into q.Result, whatever the binding *)
  Theorem ms_block_parser c tg :
    mono (block_parser conflicts infer_target infer_auto c tg) /\
    stable (block_parser conflicts infer_target infer_auto c tg).
  Proof.
    destruct tg as [|ts|ts]; cbn [block_parser].
    - destruct (ms_decode_block_nil (c_rev c)) as (Hm & Hs). split.
      + apply mono_bind; [exact Hm|]. intros [[i nc] nr]. apply mono_ret.
      + apply stable_bind; [exact Hm|exact Hs|]. intros [[i nc] nr]. apply stable_ret.
    - destruct (ms_decode_block false (c_build c) (c_rev c) ts) as (Hm & Hs). split.
      + apply mono_bind; [exact Hm|]. intros [[[i nc] nr] ts']. apply mono_ret.
      + apply stable_bind; [exact Hm|exact Hs|]. intros [[[i nc] nr] ts']. apply stable_ret.
    - destruct (ms_decode_block true (c_build c) (c_rev c) ts) as (Hm & Hs). split.
      + apply mono_bind; [exact Hm|]. intros [[[i nc] nr] ts']. apply mono_ret.
      + apply stable_bind; [exact Hm|exact Hs|]. intros [[[i nc] nr] ts']. apply stable_ret.
  Qed.
End BlockStable.

(* ---- the consequence: "need more input" on every proper prefix ---------------------------------- *)
Theorem prefix_eof {A} (p : parser A) pre suf a :
  mono p -> stable p -> p (pre ++ suf) = Ok a [] -> suf <> [] ->
  2 * blen (pre ++ suf) + 4096 <= alloc_cap ->
  p pre = Err EEof.
Proof.
  intros Hm Hs Hok Hne Hcap. destruct (Hs pre suf) as (_ & H2 & H3).
  destruct (p pre) as [a' r|e|c] eqn:E.
  - rewrite (Hm _ _ _ suf E) in Hok. injection Hok as _ Hr.
    destruct r; [cbn in Hr; congruence|discriminate].
  - destruct e; try (rewrite (H2 _ eq_refl) in Hok; [discriminate|discriminate]). reflexivity.
  - destruct (H3 _ eq_refl) as [Hl|(_ & Hx)]; [rewrite Hl in Hok; discriminate|].
    unfold oom_excuse in Hx. lia.
Qed.
