(* C06 at block level: decoding ANY byte string as a whole block - block info, column and row counts, per column a
   name, a hostile type STRING, the custom-serialization flag, state prefix and body - never crashes, never runs out
   of fuel, and what it accepts is consistent.  Stated for the real instances of model/Block.v's Section parameters
   (model/Results.v: [conflicts_b], [infer_target], [infer_auto]) and for the refined loop of Results.v that also returns
   the targets after a failure.

   The premises on column types are weaker than C06's [c16_ty]/[widths_ok]: a hostile enum definition gives a
   [TEnum] whose definitions are not [enum_defs_ok], so [wf_ty] cannot be an invariant of inference.  [blk_ty] keeps
   exactly what the decoders need (element widths, LowCardinality over scalars, no empty tuple, FixedString size > 0);
   it follows from the C06 premises, is preserved by every Infer hook and holds of everything ColAuto.Infer creates.
   The no-crash theorem here also drops the Bool clause ([okb]) of props/C06.v: it holds in both builds. *)
From CH Require Import model.Columns model.ColState model.Fields model.Messages model.Block model.TypeStr model.Results
  proofs.PrimProofs proofs.MessagesProofs proofs.ColumnsProofs proofs.ColumnsProofs2 proofs.ColStateProofs proofs.ColStateProofs2
  proofs.ColumnsProofs3 proofs.TypeStrProofs proofs.ResultsProofs.
From CH Require Import gen.Codes gen.Consts gen.Features gen.Codecs gen.TypeNames gen.InferTable gen.Methods.
From Coq Require Import ZifyN ZifyNat ZifyBool.
Ltac Zify.zify_post_hook ::= Z.div_mod_to_equations.
Open Scope N_scope.
Open Scope list_scope.

(* ---------- what the decoders need of a type tree ------------------------------------------------ *)
Fixpoint dty_ok (t : ty) : bool :=
  match t with
  | TFixedStr n => Nat.ltb 0 n
  | TLowCard t' => lc_elem t'
  | TArr t' | TNullable t' | TNamed _ t' => dty_ok t'
  | TMap k v => dty_ok k && dty_ok v
  | TTuple ts => match ts with [] => false | _ => forallb dty_ok ts end
  | _ => true
  end.
Definition blk_ty (t : ty) : bool := dty_ok t && widths_ok t.

Lemma c16_dty : forall t, c16_ty t = true -> dty_ok t = true.
Proof.
  unfold c16_ty.
  induction t as [name w| | | | |sz| | |name w defs|t IH|t IH|t IH|k v IHk IHv|ts IH|name t IH] using ty_ind';
    intros Hc; apply andb_true_iff in Hc as [Hw Ht]; cbn [wf_ty tuples_ok dty_ok] in *; try reflexivity.
  - now apply andb_true_iff in Hw as [Hw _].
  - apply IH. now rewrite Hw, Ht.
  - apply IH. now rewrite Hw, Ht.
  - now apply andb_true_iff in Hw as [_ Hw].
  - apply andb_true_iff in Hw as [Hwk Hwv]. apply andb_true_iff in Ht as [Htk Htv].
    rewrite IHk, IHv; [reflexivity|now rewrite Hwv, Htv|now rewrite Hwk, Htk].
  - destruct ts as [|t0 ts]; [discriminate|]. rewrite forallb_forall in Hw, Ht. apply forallb_forall. intros x Hx.
    rewrite Forall_forall in IH. apply IH; [exact Hx|]. now rewrite (Hw x Hx), (Ht x Hx).
  - apply IH. now rewrite Hw, Ht.
Qed.
Lemma c06_premises_blk t : c16_ty t = true -> widths_ok t = true -> blk_ty t = true.
Proof. intros H1 H2. unfold blk_ty. now rewrite (c16_dty t H1), H2. Qed.

(* ---------- accepted => consistent, under the weaker premise -------------------------------------- *)
Theorem dec_good_gen : forall t, dty_ok t = true -> dec_ok t.
Proof.
  induction t as [name w| | | | |sz| | |name w defs|t IH|t IH|t IH|k v IHk IHv|ts IH|name t IH] using ty_ind';
    intros Hd; cbn [dty_ok] in Hd.
  - apply dec_ok_fix.
  - apply dec_ok_bool.
  - apply dec_ok_uuid.
  - apply dec_ok_strlike. now left.
  - apply dec_ok_strlike. now right.
  - apply dec_ok_fstr. now apply Nat.ltb_lt.
  - apply dec_ok_nothing.
  - apply dec_ok_point.
  - apply dec_ok_enum.
  - apply dec_ok_arr, IH, Hd.
  - apply dec_ok_nullable, IH, Hd.
  - apply dec_ok_lc; [exact Hd|]. apply IH. destruct t; try discriminate; reflexivity.
  - apply andb_true_iff in Hd as [Hk Hv]. apply dec_ok_map; [now apply IHk|now apply IHv].
  - destruct ts as [|t0 ts]; [discriminate|]. apply dec_ok_tuple; [discriminate|].
    rewrite forallb_forall in Hd. rewrite Forall_forall in IH. apply Forall_forall. intros x Hx.
    apply IH; [exact Hx|now apply Hd].
  - apply dec_ok_named, IH, Hd.
Qed.

(* the dictionary of a LowCardinality column: whatever build decoded it, it has the declared number of entries and
   every entry is readable (a Bool byte other than 0/1 kept by the default build is still a readable row) *)
Lemma lc_index_readable b t n s d r : lc_elem t = true -> wfl s -> dec b t n s = Ok d r ->
  rows t d = n /\ readable t d.
Proof.
  intros Hlc Hs H.
  assert (Hd : dty_ok t = true) by (destruct t; try discriminate; reflexivity).
  destruct b.
  - destruct (dec_good_gen t Hd Safe n s d r eq_refl Hs H) as [_ [R1 R2]]. now split.
  - destruct (no_bool t) eqn:Eb.
    + destruct (dec_good_gen t Hd Unsafe n s d r Eb Hs H) as [_ [R1 R2]]. now split.
    + destruct t; try discriminate. cbn [dec] in H. apply bind_inv in H as [vs [s' [H1 H2]]]. inversion H2; subst.
      unfold dec_bool in H1.
      assert (Hl : blen vs = n).
      { destruct (n =? 0) eqn:En.
        - inversion H1; subst. apply N.eqb_eq in En. now subst.
        - now apply read_rawN_inv in H1 as [Hl _]. }
      cbn [rows]. split; [exact Hl|].
      intros i Hi. unfold nrows in Hi. cbn [rows row] in *. unfold blen in Hi.
      destruct (nth_error vs i) eqn:E2; [discriminate|]. apply nth_error_None in E2. lia.
Qed.

(* ---------- never a crash, in both builds ------------------------------------------------------------ *)
Theorem dec_nocrash_gen : forall t, dty_ok t = true -> widths_ok t = true ->
  forall b n, n <= max_rows -> nocrash (dec b t n).
Proof.
  induction t as [name w| | | | |sz| | |name w defs|t IH|t IH|t IH|k v IHk IHv|ts IH|name t IH] using ty_ind';
    intros Hc Hw b n Hn; cbn [dec]; cbn [dty_ok] in Hc.
  - cbn [widths_ok] in Hw. apply Nat.leb_le in Hw.
    apply nocrash_pmap; [now apply nocrash_dec_fix|apply keeps_dec_fix].
  - apply nocrash_pmap; [|apply keeps_dec_bool].
    assert (Hr : nocrash (read_rawN n)) by (apply nocrash_read_rawN; rewrite alloc_cap_val; unfold max_rows, maxRowsInBLock in Hn; lia).
    destruct b; unfold dec_bool.
    + apply nocrash_bind; [exact Hr|apply keeps_read_rawN|]. intros bs. apply nocrash_if; [apply nocrash_ret|apply nocrash_fail].
    + apply nocrash_if; [apply nocrash_ret|exact Hr].
  - assert (Hr : nocrash (read_rawN (n * 16))) by (apply nocrash_read_rawN; rewrite alloc_cap_val; unfold max_rows, maxRowsInBLock in Hn; lia).
    destruct b.
    + apply nocrash_bind; [exact Hr|apply keeps_read_rawN|intros; apply nocrash_ret].
    + apply nocrash_if; [apply nocrash_ret|]. apply nocrash_bind; [exact Hr|apply keeps_read_rawN|intros; apply nocrash_ret].
  - apply nocrash_pmap; [apply nocrash_repN; [apply nocrash_get_str|apply keeps_get_str]|apply keeps_repN, keeps_get_str].
  - apply nocrash_pmap; [apply nocrash_repN; [apply nocrash_get_str|apply keeps_get_str]|apply keeps_repN, keeps_get_str].
  - cbn [widths_ok] in Hw. apply Nat.leb_le in Hw.
    destruct sz; [apply nocrash_if; [apply nocrash_fail|apply nocrash_ret]|].
    apply nocrash_pmap; [|apply keeps_read_rawN]. apply nocrash_read_rawN.
    rewrite alloc_cap_val. unfold max_rows, maxRowsInBLock in Hn. nia.
  - apply nocrash_if; [apply nocrash_ret|].
    apply nocrash_bind; [|apply keeps_read_rawN|intros; apply nocrash_ret].
    apply nocrash_read_rawN. rewrite alloc_cap_val. unfold max_rows, maxRowsInBLock in Hn. lia.
  - apply nocrash_bind; [now apply nocrash_dec_fix; [lia|]|apply keeps_dec_fix|]. intros xs.
    apply nocrash_bind; [now apply nocrash_dec_fix; [lia|]|apply keeps_dec_fix|intros; apply nocrash_ret].
  - cbn [widths_ok] in Hw. apply Nat.leb_le in Hw.
    apply nocrash_bind; [now apply nocrash_dec_fix|apply keeps_dec_fix|]. intros raw.
    destruct (mapM _ raw); [apply nocrash_ret|apply nocrash_fail].
  - (* Array *)
    apply nocrash_bind; [apply nocrash_dec_fix; [lia|assumption]|apply keeps_dec_fix|]. intros offs.
    apply nocrash_if; [apply nocrash_fail|].
    intros s Hs. unfold bind. destruct (check_rows (to_i64 (last_or0 offs)) s) as [size r|e|c] eqn:E; try reflexivity.
    2:{ pose proof (nocrash_check_rows (to_i64 (last_or0 offs)) s Hs) as H. now rewrite E in H. }
    pose proof (check_rows_bound _ _ _ _ E) as Hsz.
    assert (Hr : wfl r) by (eapply keeps_check_rows; eassumption).
    pose proof (IH Hc Hw b size Hsz r Hr) as Hi.
    destruct (dec b t size r); [reflexivity|reflexivity|discriminate].
  - (* Nullable *)
    apply nocrash_bind; [apply nocrash_dec_fix; [lia|assumption]|apply keeps_dec_fix|]. intros nulls.
    apply nocrash_bind; [now apply IH|apply keeps_dec|intros; apply nocrash_ret].
  - (* LowCardinality *)
    assert (Hc' : dty_ok t = true) by (destruct t; try discriminate; reflexivity).
    cbn [widths_ok] in Hw.
    intros s Hs. destruct (n =? 0); [reflexivity|]. unfold bind.
    pose proof (nocrash_get_i64 s Hs) as H0.
    destruct (get_i64 s) as [meta r0|e|c] eqn:E0; [|reflexivity|discriminate].
    assert (Hr0 : wfl r0) by (eapply keeps_get_i64; eassumption). cbv zeta.
    destruct (negb (N.testbit (wrap64 meta) 9)); [reflexivity|].
    destruct (3 <? wrap64 meta mod 256) eqn:Ekey; [reflexivity|].
    pose proof (nocrash_get_i64 r0 Hr0) as H1.
    destruct (get_i64 r0) as [irows r1|e|c] eqn:E1; [|reflexivity|discriminate].
    assert (Hr1 : wfl r1) by (eapply keeps_get_i64; eassumption).
    pose proof (nocrash_check_rows irows r1 Hr1) as H2.
    destruct (check_rows irows r1) as [isz r2|e|c] eqn:E2; [|reflexivity|discriminate].
    assert (Hr2 : wfl r2) by (eapply keeps_check_rows; eassumption).
    pose proof (check_rows_bound _ _ _ _ E2) as Hisz.
    assert (Hiszv : isz = Z.to_N irows /\ (0 <= irows)%Z).
    { unfold check_rows in E2. destruct (irows <? 0)%Z eqn:En; [discriminate|].
      destruct (maxRowsInBLock <? irows)%Z; [discriminate|]. inversion E2. split; [reflexivity|lia]. }
    destruct Hiszv as [Hiszv Hirows].
    pose proof (IH Hc' Hw b isz Hisz r2 Hr2) as H3.
    destruct (dec b t isz r2) as [idx r3|e|c] eqn:E3; [|reflexivity|discriminate].
    assert (Hr3 : wfl r3) by (eapply keeps_dec; eassumption).
    destruct (lc_index_readable b t isz r2 idx r3 Hc Hr2 E3) as [Hrows Hread].
    pose proof (nocrash_get_i64 r3 Hr3) as H4.
    destruct (get_i64 r3) as [krows r4|e|c] eqn:E4; [|reflexivity|discriminate].
    assert (Hr4 : wfl r4) by (eapply keeps_get_i64; eassumption).
    pose proof (nocrash_check_rows krows r4 Hr4) as H5.
    destruct (check_rows krows r4) as [ksz r5|e|c] eqn:E5; [|reflexivity|discriminate].
    assert (Hr5 : wfl r5) by (eapply keeps_check_rows; eassumption).
    set (key := wrap64 meta mod 256) in *.
    assert (Hkw : (key_bytes key <= 8)%nat).
    { unfold key_bytes. assert (Hk3 : key <= 3) by lia.
      assert (Hp : 2 ^ key <= 2 ^ 3) by (apply N.pow_le_mono_r; lia). change (2 ^ 3) with 8 in Hp. lia. }
    pose proof (nocrash_dec_fix (key_bytes key) n ltac:(lia) Hn r5 Hr5) as H6.
    destruct (dec_fix (key_bytes key) n r5) as [keys r6|e|c] eqn:E6; [|reflexivity|discriminate].
    destruct (negb (forallb _ keys)) eqn:Ev; [reflexivity|].
    apply negb_false_iff in Ev. rewrite forallb_forall in Ev.
    assert (Hkeys : Forall (fun v => v < 256 ^ N.of_nat (key_bytes key)) keys).
    { assert (Hd : dec Safe (TFix [] (key_bytes key)) n r5 = Ok (DFix keys) r6)
        by (cbn [dec]; unfold pmap, bind; now rewrite E6).
      destruct (dec_ok_fix [] (key_bytes key) Safe n r5 (DFix keys) r6 eq_refl Hr5 Hd) as [Hg _]. exact Hg. }
    assert (Hm : mapM (fun k => row t idx (N.to_nat k)) keys <> None).
    { apply mapM_some. intros k Hk. apply Hread. unfold nrows. rewrite Hrows.
      rewrite Forall_forall in Hkeys. specialize (Hkeys k Hk). specialize (Ev k Hk).
      assert (Hk64 : k < 18446744073709551616).
      { eapply N.lt_le_trans; [exact Hkeys|].
        apply (N.le_trans _ (256 ^ 8)); [apply N.pow_le_mono_r; lia|vm_compute; discriminate]. }
      pose proof (lc_key_valid k irows Hk64 Ev) as Hlt. lia. }
    destruct (mapM (fun k => row t idx (N.to_nat k)) keys); [reflexivity|contradiction].
  - (* Map *)
    apply andb_true_iff in Hc as [Hck Hcv]. cbn [widths_ok] in Hw. apply andb_true_iff in Hw as [Hwk Hwv].
    apply nocrash_if; [apply nocrash_ret|].
    apply nocrash_bind; [apply nocrash_dec_fix; [lia|assumption]|apply keeps_dec_fix|]. intros offs.
    apply nocrash_if; [apply nocrash_fail|].
    intros s Hs. unfold bind. destruct (check_rows (to_i64 (last_or0 offs)) s) as [cnt r|e|c] eqn:E; try reflexivity.
    2:{ pose proof (nocrash_check_rows (to_i64 (last_or0 offs)) s Hs) as H. now rewrite E in H. }
    pose proof (check_rows_bound _ _ _ _ E) as Hsz.
    assert (Hr : wfl r) by (eapply keeps_check_rows; eassumption).
    pose proof (IHk Hck Hwk b cnt Hsz r Hr) as Hi.
    destruct (dec b k cnt r) as [dk r2|e|c] eqn:Ek; [|reflexivity|discriminate].
    assert (Hr2 : wfl r2) by (eapply keeps_dec; eassumption).
    pose proof (IHv Hcv Hwv b cnt Hsz r2 Hr2) as Hi2.
    destruct (dec b v cnt r2); [reflexivity|reflexivity|discriminate].
  - (* Tuple *)
    apply nocrash_pmap.
    2:{ apply keeps_dec_seq. apply Forall_forall. intros t0 _. apply keeps_dec. }
    apply nocrash_dec_seq. apply Forall_forall. intros t0 Hin.
    split; [|apply keeps_dec].
    rewrite Forall_forall in IH. apply IH; try assumption.
    + destruct ts; [destruct Hin|]. rewrite forallb_forall in Hc. now apply Hc.
    + cbn [widths_ok] in Hw. rewrite forallb_forall in Hw. now apply Hw.
  - (* Named *)
    apply IH; try assumption.
Qed.

(* state prefix + body, as Results.DecodeResult runs them on a reset column *)
Definition dec_body_p (b : build) (t : ty) (n : N) : parser cdata :=
  if n =? 0 then ret (empty t) else dec_state t ;;; dec b t n.

Lemma dec_body_p_nocrash t b n : blk_ty t = true -> n <= max_rows -> nocrash (dec_body_p b t n).
Proof.
  intros Ht Hn. unfold blk_ty in Ht. apply andb_true_iff in Ht as [Hd Hw].
  unfold dec_body_p. apply nocrash_if; [apply nocrash_ret|].
  destruct (dec_state_safe t) as [S1 S2].
  apply nocrash_bind; [exact S1|exact S2|]. intros _. now apply dec_nocrash_gen.
Qed.
Lemma dec_body_p_keeps t b n : keeps (dec_body_p b t n).
Proof.
  unfold dec_body_p. apply keeps_if; [apply keeps_ret|].
  destruct (dec_state_safe t) as [S1 S2]. apply keeps_bind; [exact S2|]. intros _. apply keeps_dec.
Qed.

(* accepted => good, the block's row count, every row readable (modulo the Bool clause of the default build) *)
Lemma dec_body_p_good t b n s d r : dty_ok t = true -> okb b t = true -> wfl s ->
  dec_body_p b t n s = Ok d r -> good t d /\ rows t d = n /\ readable t d.
Proof.
  intros Hd Hb Hs H. unfold dec_body_p in H. destruct (n =? 0) eqn:En.
  - inversion H; subst. apply N.eqb_eq in En. subst n. destruct (empty_ok t) as [G R]. split; [exact G|]. split; [exact R|].
    intros i Hi. unfold nrows in Hi. rewrite R in Hi. cbn in Hi. lia.
  - apply bind_inv in H as [u [s1 [H1 H2]]].
    assert (Hs1 : wfl s1) by (destruct (dec_state_safe t) as [_ K]; eapply K; eassumption).
    exact (dec_good_gen t Hd b n s1 d r Hb Hs1 H2).
Qed.

(* ---------- no fuel: column decoders terminate by structure ------------------------------------------ *)
Lemma nofuel_read_rawN n : nofuel (read_rawN n).
Proof. apply nofuel_bind; [apply nofuel_alloc|intros; apply nofuel_read_nN]. Qed.
Lemma nofuel_dec_fix w n : nofuel (dec_fix w n).
Proof.
  unfold dec_fix. apply nofuel_if; [apply nofuel_ret|]. apply nofuel_bind; [apply nofuel_read_rawN|intros; apply nofuel_ret].
Qed.
Lemma nofuel_check_rows z : nofuel (check_rows z).
Proof.
  unfold check_rows. apply nofuel_if; [apply nofuel_fail; discriminate|].
  apply nofuel_if; [apply nofuel_fail; discriminate|apply nofuel_ret].
Qed.
Lemma nofuel_rep {A} n (p : parser A) : nofuel p -> nofuel (rep n p).
Proof.
  intros Hp. induction n as [|n IH]; cbn [rep]; [apply nofuel_ret|].
  apply nofuel_bind; [assumption|]. intros x. apply nofuel_bind; [assumption|intros; apply nofuel_ret].
Qed.
Lemma nofuel_repN {A} n (p : parser A) : nofuel p -> nofuel (repN n p).
Proof.
  intros Hp s. unfold repN. destruct (n <=? blen s); [now apply nofuel_rep|].
  pose proof (nofuel_rep (length s) p Hp s) as H. destruct (rep (length s) p s); [discriminate|exact H|discriminate].
Qed.
Lemma nofuel_dec_seq {T D} (f : T -> parser D) ts : Forall (fun t => nofuel (f t)) ts -> nofuel (dec_seq f ts).
Proof.
  induction 1 as [|t0 ts' H0 Hts IH]; cbn [dec_seq]; [apply nofuel_ret|].
  apply nofuel_bind; [exact H0|]. intros d0. apply nofuel_bind; [exact IH|intros; apply nofuel_ret].
Qed.
Lemma nofuel_crash {A} c : nofuel (fun _ : bytes => @Crash A c).
Proof. intros s. discriminate. Qed.

Theorem dec_nofuel : forall t b n, nofuel (dec b t n).
Proof.
  induction t as [name w| | | | |sz| | |name w defs|t IH|t IH|t IH|k v IHk IHv|ts IH|name t IH] using ty_ind';
    intros b n; cbn [dec].
  - apply nofuel_pmap, nofuel_dec_fix.
  - apply nofuel_pmap. destruct b; unfold dec_bool.
    + apply nofuel_bind; [apply nofuel_read_rawN|]. intros bs. apply nofuel_if; [apply nofuel_ret|apply nofuel_fail; discriminate].
    + apply nofuel_if; [apply nofuel_ret|apply nofuel_read_rawN].
  - destruct b.
    + apply nofuel_bind; [apply nofuel_read_rawN|intros; apply nofuel_ret].
    + apply nofuel_if; [apply nofuel_ret|]. apply nofuel_bind; [apply nofuel_read_rawN|intros; apply nofuel_ret].
  - apply nofuel_pmap, nofuel_repN, nofuel_get_str.
  - apply nofuel_pmap, nofuel_repN, nofuel_get_str.
  - destruct sz; [apply nofuel_if; [apply nofuel_fail; discriminate|apply nofuel_ret]|].
    apply nofuel_pmap, nofuel_read_rawN.
  - apply nofuel_if; [apply nofuel_ret|]. apply nofuel_bind; [apply nofuel_read_rawN|intros; apply nofuel_ret].
  - apply nofuel_bind; [apply nofuel_dec_fix|]. intros xs. apply nofuel_bind; [apply nofuel_dec_fix|intros; apply nofuel_ret].
  - apply nofuel_bind; [apply nofuel_dec_fix|]. intros raw.
    destruct (mapM _ raw); [apply nofuel_ret|apply nofuel_fail; discriminate].
  - apply nofuel_bind; [apply nofuel_dec_fix|]. intros offs. apply nofuel_if; [apply nofuel_fail; discriminate|].
    apply nofuel_bind; [apply nofuel_check_rows|]. intros size. apply nofuel_bind; [apply IH|intros; apply nofuel_ret].
  - apply nofuel_bind; [apply nofuel_dec_fix|]. intros nulls. apply nofuel_bind; [apply IH|intros; apply nofuel_ret].
  - apply nofuel_if; [apply nofuel_ret|].
    apply nofuel_bind; [apply nofuel_get_i64|]. intros meta. cbv zeta.
    apply nofuel_if; [apply nofuel_fail; discriminate|]. apply nofuel_if; [apply nofuel_fail; discriminate|].
    apply nofuel_bind; [apply nofuel_get_i64|]. intros irows.
    apply nofuel_bind; [apply nofuel_check_rows|]. intros isz.
    apply nofuel_bind; [apply IH|]. intros idx.
    apply nofuel_bind; [apply nofuel_get_i64|]. intros krows.
    apply nofuel_bind; [apply nofuel_check_rows|]. intros _.
    apply nofuel_bind; [apply nofuel_dec_fix|]. intros keys.
    apply nofuel_if; [apply nofuel_fail; discriminate|].
    destruct (mapM _ keys); [apply nofuel_ret|apply nofuel_crash].
  - apply nofuel_if; [apply nofuel_ret|].
    apply nofuel_bind; [apply nofuel_dec_fix|]. intros offs. apply nofuel_if; [apply nofuel_fail; discriminate|].
    apply nofuel_bind; [apply nofuel_check_rows|]. intros cnt.
    apply nofuel_bind; [apply IHk|]. intros dk. apply nofuel_bind; [apply IHv|intros; apply nofuel_ret].
  - apply nofuel_pmap, nofuel_dec_seq. apply Forall_forall. intros t0 Hin. rewrite Forall_forall in IH. now apply IH.
  - apply IH.
Qed.

Lemma dec_state_nofuel : forall t, nofuel (dec_state t).
Proof.
  induction t as [name w| | | | |sz| | |name w defs|t IH|t IH|t IH|k v IHk IHv|ts IH|name t IH] using ty_ind';
    cbn [dec_state]; try apply nofuel_ret; try exact IH.
  - apply nofuel_bind; [apply nofuel_get_u64|]. intros v. apply nofuel_if; [apply nofuel_ret|apply nofuel_fail; discriminate].
  - apply nofuel_bind; [apply nofuel_get_i64|]. intros v. apply nofuel_if; [exact IH|apply nofuel_fail; discriminate].
  - apply nofuel_bind; [exact IHk|intros; exact IHv].
  - induction IH as [|t0 ts' H0 Hts IHts]; cbn [unit_seq]; [apply nofuel_ret|].
    apply nofuel_bind; [exact H0|intros; exact IHts].
Qed.
Lemma dec_body_p_nofuel t b n : nofuel (dec_body_p b t n).
Proof.
  unfold dec_body_p. apply nofuel_if; [apply nofuel_ret|].
  apply nofuel_bind; [apply dec_state_nofuel|intros; apply dec_nofuel].
Qed.

(* ---------- every column ColAuto.Infer creates satisfies the premises ---------------------------------- *)
Lemma codec_widths : forallb (fun '(_, w, _, _, _, _, _) => w <=? 512) codec_table = true.
Proof. vm_compute. reflexivity. Qed.

Lemma gen_width_le go w : gen_width go = Some w -> (w <= 512)%nat.
Proof.
  unfold gen_width. destruct (find _ codec_table) as [p|] eqn:E; [|discriminate].
  apply find_some in E as [Hin _]. pose proof codec_widths as H. rewrite forallb_forall in H. specialize (H _ Hin).
  destruct p as [[[[[[n0 w0] x1] x2] x3] x4] x5]. cbn [option_map]. intros [= <-]. lia.
Qed.

Lemma blk_fix name w : (w <= 512)%nat -> blk_ty (TFix name w) = true.
Proof. intros H. unfold blk_ty. cbn [dty_ok widths_ok andb]. now apply Nat.leb_le. Qed.

Lemma cgen_ty go t : ty_of_col (CGen go) = Some t -> blk_ty t = true /\ lc_elem t = true.
Proof.
  cbn [ty_of_col].
  destruct (bytes_eqb go (s2b "ColStr")); [intros [= <-]; split; reflexivity|].
  destruct (bytes_eqb go (s2b "ColBool")); [intros [= <-]; split; reflexivity|].
  destruct (bytes_eqb go (s2b "ColUUID")); [intros [= <-]; split; reflexivity|].
  destruct (bytes_eqb go (s2b "ColNothing")); [intros [= <-]; split; reflexivity|].
  destruct (gen_width go) as [w|] eqn:E; cbn [option_map]; [|discriminate]. intros [= <-].
  split; [apply blk_fix; now apply gen_width_le in E|reflexivity].
Qed.

Definition col_ok (c : TypeStr.col) : Prop := forall t, ty_of_col c = Some t -> blk_ty t = true.

(* LowCardinality() exists only on scalar columns *)
Lemma lc_method c t : has_method HLowCardinality c = true -> ty_of_col c = Some t -> lc_elem t = true.
Proof.
  destruct c as [go|k|l|p l|tn e d|k v|d|d|d]; intros Hm Ht.
  - now apply cgen_ty in Ht.
  - cbn [ty_of_col] in Ht. now inversion Ht.
  - cbn [ty_of_col] in Ht. now inversion Ht.
  - cbn [ty_of_col] in Ht. now inversion Ht.
  - vm_compute in Hm. discriminate.
  - vm_compute in Hm. discriminate.
  - vm_compute in Hm. discriminate.
  - vm_compute in Hm. discriminate.
  - vm_compute in Hm. discriminate.
Qed.

Definition row_ty (kv : string * string) : bool :=
  match col_of_ctor (s2b (snd kv)) with
  | Some c => match ty_of_col c with Some t => blk_ty t | None => true end
  | None => true
  end.
Lemma infer_table_ty : forallb row_ty infer_table = true.
Proof. vm_compute. reflexivity. Qed.
Lemma auto_switch_ty : forallb row_ty auto_switch = true.
Proof. vm_compute. reflexivity. Qed.
Lemma table_ty tbl t e c : forallb row_ty tbl = true -> switch_on t tbl = Some e -> col_of_ctor e = Some c -> col_ok c.
Proof.
  intros Htbl Hs Hc ty Hty. destruct (switch_on_in t tbl e Hs) as (k & v & Hin & -> & Hk).
  rewrite forallb_forall in Htbl. specialize (Htbl _ Hin). unfold row_ty in Htbl. cbn [fst snd] in Htbl.
  now rewrite Hc, Hty in Htbl.
Qed.

Lemma enum_infer_enum s c r : enum_infer s = Ok c r -> exists t e d, c = CEnum t e d.
Proof.
  unfold enum_infer. rewrite base_r_ok. cbn [rbind rok].
  destruct (negb (has_prefix _ _)); [discriminate|]. destruct (negb (_ || _)); [discriminate|].
  rewrite elem_r_ok. cbn [rbind rok]. destruct (enum_parse _) as [ds|]; [|discriminate].
  intros [= <- <-]. eauto.
Qed.
Lemma blk_enum t e d ty : ty_of_col (CEnum t e d) = Some ty -> blk_ty ty = true /\ no_bool ty = true.
Proof. cbn [ty_of_col]. intros [= <-]. destruct (bytes_eqb e T_Enum8); split; reflexivity. Qed.

Section AutoTy.
  Variable zone : bytes -> option bytes.
  Variable tl : bytes -> bytes.
  Notation infer_f := (infer_f zone tl).

  Lemma wrap_infer_ty n h mk t c r :
    (forall t c r, infer_f n t = Ok c r -> col_ok c) ->
    (forall d, col_ok d -> has_method h d = true -> col_ok (mk d)) ->
    wrap_infer (infer_f n) h mk t = Ok c r -> col_ok c.
  Proof.
    intros IH Hmk. unfold wrap_infer. rewrite elem_r_ok. cbn [rbind rok].
    destruct (infer_f n (elem t)) as [inner rest| |] eqn:Er; cbn [rbind]; try discriminate.
    destruct (has_method h inner) eqn:Eh; [|discriminate]. intros [= <- <-].
    apply Hmk; [exact (IH _ _ _ Er)|exact Eh].
  Qed.

  Lemma mk_arr_ok d : col_ok d -> col_ok (CArr d).
  Proof.
    intros Hd ty. cbn [ty_of_col]. destruct (ty_of_col d) as [t0|] eqn:E; cbn [option_map]; [|discriminate].
    intros [= <-]. exact (Hd t0 E).
  Qed.
  Lemma mk_nullable_ok d : col_ok d -> col_ok (CNullable d).
  Proof.
    intros Hd ty. cbn [ty_of_col]. destruct (ty_of_col d) as [t0|] eqn:E; cbn [option_map]; [|discriminate].
    intros [= <-]. exact (Hd t0 E).
  Qed.
  Lemma mk_lc_ok d : col_ok d -> has_method HLowCardinality d = true -> col_ok (CLowCard d).
  Proof.
    intros Hd Hm ty. cbn [ty_of_col]. destruct (ty_of_col d) as [t0|] eqn:E; cbn [option_map]; [|discriminate].
    intros [= <-]. pose proof (Hd t0 E) as H0. pose proof (lc_method d t0 Hm E) as Hl.
    unfold blk_ty in *. cbn [dty_ok widths_ok]. apply andb_true_iff in H0 as [_ H0]. now rewrite Hl, H0.
  Qed.

  Lemma infer_f_ty n : forall t c r, infer_f n t = Ok c r -> col_ok c.
  Proof.
    induction n as [|n IH]; intros t c r; cbn [TypeStr.infer_f]; [discriminate|].
    unfold infer_step.
    destruct (switch_on t infer_table) as [e|] eqn:E1; cbn [of_ctor].
    { destruct (col_of_ctor e) as [c0|] eqn:Ec; [|discriminate]. intros [= <- <-].
      exact (table_ty _ _ _ _ infer_table_ty E1 Ec). }
    destruct (has_prefix T_Interval t).
    { unfold interval_infer. destruct (interval_scale_string tl t) as [k|]; [|discriminate].
      destruct (bytes_eqb (nth k interval_names []) t); [|discriminate]. intros [= <- <-].
      intros ty. cbn [ty_of_col]. intros [= <-]. apply blk_fix. lia. }
    destruct (switch_on t auto_switch) as [e|] eqn:E2; cbn [of_ctor].
    { destruct (col_of_ctor e) as [c0|] eqn:Ec; [|discriminate]. intros [= <- <-].
      exact (table_ty _ _ _ _ auto_switch_ty E2 Ec). }
    rewrite base_r_ok. cbn [rbind rok].
    destruct (bytes_eqb (base t) T_Array).
    { apply (wrap_infer_ty n); [exact IH|]. intros d Hd _. now apply mk_arr_ok. }
    destruct (bytes_eqb (base t) T_Nullable).
    { apply (wrap_infer_ty n); [exact IH|]. intros d Hd _. now apply mk_nullable_ok. }
    destruct (bytes_eqb (base t) T_LowCardinality).
    { apply (wrap_infer_ty n); [exact IH|]. intros d Hd Hm. now apply mk_lc_ok. }
    destruct (bytes_eqb (base t) T_DateTime).
    { unfold datetime_infer. rewrite elem_r_ok. cbn [rbind rok].
      destruct (elem t) as [|x sub].
      - intros [= <- <-] ty. cbn [ty_of_col]. intros [= <-]. apply blk_fix. lia.
      - destruct (zone _) as [l|]; [|discriminate]. intros [= <- <-] ty. cbn [ty_of_col]. intros [= <-]. apply blk_fix. lia. }
    destruct (bytes_eqb (base t) T_Decimal).
    { rewrite elem_r_ok. cbn [rbind rok].
      destruct (decimal_prec (elem t)) as [p|]; [|discriminate].
      destruct ((1 <=? p)%Z && (p <? 10)%Z); [intros [= <- <-] ty Hty; exact (proj1 (cgen_ty _ _ Hty))|].
      destruct ((10 <=? p)%Z && (p <? 19)%Z); [intros [= <- <-] ty Hty; exact (proj1 (cgen_ty _ _ Hty))|].
      destruct ((19 <=? p)%Z && (p <? 39)%Z); [intros [= <- <-] ty Hty; exact (proj1 (cgen_ty _ _ Hty))|].
      destruct ((39 <=? p)%Z && (p <? 77)%Z); [intros [= <- <-] ty Hty; exact (proj1 (cgen_ty _ _ Hty))|discriminate]. }
    destruct (bytes_eqb (base t) T_Decimal32); [intros [= <- <-] ty Hty; exact (proj1 (cgen_ty _ _ Hty))|].
    destruct (bytes_eqb (base t) T_Decimal64); [intros [= <- <-] ty Hty; exact (proj1 (cgen_ty _ _ Hty))|].
    destruct (bytes_eqb (base t) T_Decimal128); [intros [= <- <-] ty Hty; exact (proj1 (cgen_ty _ _ Hty))|].
    destruct (bytes_eqb (base t) T_Decimal256); [intros [= <- <-] ty Hty; exact (proj1 (cgen_ty _ _ Hty))|].
    destruct (bytes_eqb (base t) T_Enum8 || bytes_eqb (base t) T_Enum16).
    { intros H. destruct (enum_infer_enum _ _ _ H) as (tn & e & d & ->). intros ty Hty. exact (proj1 (blk_enum _ _ _ _ Hty)). }
    destruct (bytes_eqb (base t) T_DateTime64); [|discriminate].
    unfold datetime64_infer. rewrite elem_r_ok. cbn [rbind rok].
    destruct (elem t) as [|x e]; [discriminate|].
    destruct (cut_byte 44 (x :: e)) as [[pStr locStr] hasloc].
    destruct (parse_uint8 _) as [p|]; [|discriminate].
    destruct (negb (p <=? precision_max)); [discriminate|].
    destruct hasloc.
    - destruct (zone _) as [l|]; [|discriminate]. intros [= <- <-] ty. cbn [ty_of_col]. intros [= <-]. apply blk_fix. lia.
    - intros [= <- <-] ty. cbn [ty_of_col]. intros [= <-]. apply blk_fix. lia.
  Qed.

  (* ColAuto.Infer on a hostile type string: whatever it creates is within the premises of the decoders *)
  Theorem auto_ty_ok s t : infer_auto zone tl s = Some t -> blk_ty t = true.
  Proof.
    unfold infer_auto, infer_col. destruct (infer_f (S (length s)) s) as [c r| |] eqn:E; try discriminate.
    intros H. exact (infer_f_ty _ _ _ _ E t H).
  Qed.
End AutoTy.

(* ---------- the Infer hook of a typed target preserves the premises (also when it fails) -------------------- *)
Definition pres (t t' : ty) : Prop :=
  (dty_ok t = true -> dty_ok t' = true) /\ (widths_ok t = true -> widths_ok t' = true) /\ no_bool t' = no_bool t /\
  (lc_elem t = true -> lc_elem t' = true).
Lemma pres_refl t : pres t t. Proof. repeat split; auto. Qed.
Lemma pres_fix n n' w : pres (TFix n w) (TFix n' w). Proof. repeat split; auto. Qed.
Lemma pres_arr d d' : pres d d' -> pres (TArr d) (TArr d').
Proof. intros (A1 & A2 & A3 & _). repeat split; auto. Qed.
Lemma pres_nullable d d' : pres d d' -> pres (TNullable d) (TNullable d').
Proof. intros (A1 & A2 & A3 & _). repeat split; auto. Qed.
Lemma pres_lc d d' : pres d d' -> pres (TLowCard d) (TLowCard d').
Proof. intros (A1 & A2 & A3 & A4). repeat split; auto. Qed.
Lemma pres_named n d d' : pres d d' -> pres (TNamed n d) (TNamed n d').
Proof. intros (A1 & A2 & A3 & _). repeat split; auto. Qed.
Lemma pres_map k k' v v' : pres k k' -> pres v v' -> pres (TMap k v) (TMap k' v').
Proof.
  intros (A1 & A2 & A3 & _) (B1 & B2 & B3 & _). unfold pres. cbn [dty_ok widths_ok no_bool lc_elem]. rewrite A3, B3.
  repeat split; auto; intros H; try discriminate; apply andb_true_iff in H as [H1 H2]; apply andb_true_iff; split; auto.
Qed.
Lemma pres_tuple ts ts' : Forall2 pres ts ts' -> pres (TTuple ts) (TTuple ts').
Proof.
  intros H. unfold pres. cbn [dty_ok widths_ok no_bool].
  assert (A : (forallb dty_ok ts = true -> forallb dty_ok ts' = true) /\
              (forallb widths_ok ts = true -> forallb widths_ok ts' = true) /\
              forallb no_bool ts' = forallb no_bool ts).
  { induction H as [|t t' l l' (P1 & P2 & P3 & _) Hl (I1 & I2 & I3)]; cbn [forallb]; [auto|].
    rewrite P3, I3. repeat split; auto; intros X; apply andb_true_iff in X as [X1 X2]; apply andb_true_iff; split; auto. }
  destruct A as (A1 & A2 & A3). cbn [lc_elem]. repeat split; auto; try discriminate.
  destruct H as [|t t' l l' Ht Hl]; [auto|]. exact A1.
Qed.

(* what Infer may change in a column object: type parameters only.  [dkeep t t']: the contents mean the same *)
Definition dkeep (t t' : ty) : Prop :=
  (forall d, rows t' d = rows t d) /\ (forall d i, row t' d i = row t d i) /\
  (dty_ok t = true -> forall d, good t d -> good t' d) /\
  (lc_elem t = true -> forall v, has_ty t' v = has_ty t v).
Lemma dkeep_refl t : dkeep t t. Proof. repeat split; auto. Qed.
Lemma dkeep_fix n n' w : dkeep (TFix n w) (TFix n' w). Proof. repeat split; auto. Qed.
Lemma dkeep_enum n w ds n' w' ds' : dkeep (TEnum n w ds) (TEnum n' w' ds').
Proof. repeat split; auto. cbn [lc_elem]. discriminate. Qed.
Lemma dkeep_arr t t' : dkeep t t' -> dkeep (TArr t) (TArr t').
Proof.
  intros (R & W & G & _). split; [reflexivity|]. split; [|split; [|cbn [lc_elem]; discriminate]].
  - intros d i. destruct d; try reflexivity. cbn [row]. destruct (nth_error offs i); [|reflexivity]. f_equal.
    apply mapM_ext_in. intros; apply W.
  - cbn [dty_ok]. intros Hd d. destruct d; cbn [good]; try contradiction. intros [Hm [Hr Hg]]. rewrite R. repeat split; auto.
Qed.
Lemma dkeep_nullable t t' : dkeep t t' -> dkeep (TNullable t) (TNullable t').
Proof.
  intros (R & W & G & _). split; [reflexivity|]. split; [|split; [|cbn [lc_elem]; discriminate]].
  - intros d i. destruct d; try reflexivity. cbn [row]. now rewrite W.
  - cbn [dty_ok]. intros Hd d. destruct d; cbn [good]; try contradiction. intros [Hl [Hn Hg]]. rewrite R. repeat split; auto.
Qed.
Lemma dkeep_lc t t' : dkeep t t' -> dkeep (TLowCard t) (TLowCard t').
Proof.
  intros (R & W & G & Hh). split; [reflexivity|]. split; [reflexivity|]. split; [|cbn [lc_elem]; discriminate].
  cbn [dty_ok]. intros Hlc d. destruct d; cbn [good]; try contradiction. intros Hg. rewrite <- Hg.
  clear Hg. induction vals as [|x vals IHv]; cbn [forallb]; [reflexivity|]. now rewrite IHv, (Hh Hlc x).
Qed.
Lemma dkeep_named n t t' : dkeep t t' -> dkeep (TNamed n t) (TNamed n t').
Proof. intros (R & W & G & _). repeat split; auto. cbn [lc_elem]. discriminate. Qed.
Lemma dkeep_map k k' v v' : dkeep k k' -> dkeep v v' -> dkeep (TMap k v) (TMap k' v').
Proof.
  intros (Rk & Wk & Gk & _) (Rv & Wv & Gv & _). split; [reflexivity|]. split; [|split; [|cbn [lc_elem]; discriminate]].
  - intros d i. destruct d; try reflexivity. cbn [row]. destruct (nth_error offs i); [|reflexivity]. f_equal.
    apply mapM_ext_in. intros x _. now rewrite Wk, Wv.
  - cbn [dty_ok]. intros Hd d. apply andb_true_iff in Hd as [Hdk Hdv].
    destruct d; cbn [good]; try contradiction. intros [Hm [Hrk [Hrv [Hgk Hgv]]]]. rewrite Rk, Rv. repeat split; auto.
Qed.
Lemma dkeep_tuple ts ts' : Forall2 dkeep ts ts' -> dkeep (TTuple ts) (TTuple ts').
Proof.
  intros H.
  assert (A : (forall ds i, map2o (fun t0 d0 => row t0 d0 i) ts' ds = map2o (fun t0 d0 => row t0 d0 i) ts ds) /\
              (forallb dty_ok ts = true -> forall ds n, all2 (fun t0 d0 => good t0 d0 /\ rows t0 d0 = n) ts ds ->
                                                        all2 (fun t0 d0 => good t0 d0 /\ rows t0 d0 = n) ts' ds) /\
              (forall ds, rows (TTuple ts') (DTuple ds) = rows (TTuple ts) (DTuple ds))).
  { induction H as [|t0 t0' l l' (R0 & W0 & G0 & _) Hl (W & G & _)].
    - repeat split; auto.
    - split; [|split].
      + intros [|d0 ds] i; cbn [map2o]; [reflexivity|]. now rewrite W0, W.
      + cbn [forallb]. intros Hd. apply andb_true_iff in Hd as [Hd0 Hd].
        intros [|d0 ds] n; cbn [all2]; [auto|]. intros [[Ga Gb] Gc]. split; [split; [now apply G0|now rewrite R0]|now apply G].
      + intros [|d0 ds]; cbn [rows]; [reflexivity|apply R0]. }
  destruct A as (W & G & R). split; [|split; [|split; [|cbn [lc_elem]; discriminate]]].
  - intros d. destruct d; try reflexivity. apply R.
  - intros d i. destruct d; try reflexivity. cbn [row]. now rewrite W.
  - cbn [dty_ok]. intros Hd d. destruct d; cbn [good]; try contradiction. rewrite R. apply G.
    destruct ts; [discriminate|exact Hd].
Qed.

Section InferPres.
  Variable zone : bytes -> option bytes.
  Variable tl : bytes -> bytes.

  Section Rel.
    Variable R : ty -> ty -> Prop.
    Hypothesis R_refl : forall t, R t t.
    Hypothesis R_fix : forall n n' w, R (TFix n w) (TFix n' w).
    Hypothesis R_enum : forall n w ds n' ds', R (TEnum n w ds) (TEnum n' 1 ds') /\ R (TEnum n w ds) (TEnum n' 2 ds').
    Hypothesis R_arr : forall t t', R t t' -> R (TArr t) (TArr t').
    Hypothesis R_nullable : forall t t', R t t' -> R (TNullable t) (TNullable t').
    Hypothesis R_lc : forall t t', R t t' -> R (TLowCard t) (TLowCard t').
    Hypothesis R_map : forall k k' v v', R k k' -> R v v' -> R (TMap k v) (TMap k' v').
    Hypothesis R_tuple : forall ts ts', Forall2 R ts ts' -> R (TTuple ts) (TTuple ts').
    Hypothesis R_named : forall n t t', R t t' -> R (TNamed n t) (TNamed n t').

    Theorem infer_st_rel : forall t s, R t (fst (infer_st zone tl t s)).
    Proof.
      induction t as [name w| | | | |sz| | |name w defs|t IH|t IH|t IH|k v IHk IHv|ts IH|name t IH] using ty_ind';
        intros s; cbn [infer_st]; try apply R_refl.
      - destruct (fix_kind name w).
        + apply R_refl.
        + destruct (datetime_infer zone s); cbn [of_res fst]; first [apply R_fix|apply R_refl].
        + destruct (dt64_infer zone name s) as [n o]. cbn [fst]. apply R_fix.
        + destruct (interval_infer tl s); cbn [of_res fst]; first [apply R_fix|apply R_refl].
      - destruct (enum_infer s) as [c r| |] eqn:E; cbn [fst]; try apply R_refl.
        destruct (enum_infer_enum _ _ _ E) as (tn & e & d & ->).
        destruct (ty_of_col (CEnum tn e d)) as [t'|] eqn:Et; cbn [fst]; [|apply R_refl].
        cbn [ty_of_col] in Et. inversion Et; subst. destruct (bytes_eqb e T_Enum8); apply R_enum.
      - destruct (inferable_ty t); [|apply R_refl].
        destruct (elem_r s) as [e r| |]; cbn [fst]; try apply R_refl.
        specialize (IH e). destruct (infer_st zone tl t e) as [d' o]. cbn [fst] in *. now apply R_arr.
      - destruct (inferable_ty t); [|apply R_refl].
        destruct (elem_r s) as [e r| |]; cbn [fst]; try apply R_refl.
        specialize (IH e). destruct (infer_st zone tl t e) as [d' o]. cbn [fst] in *. now apply R_nullable.
      - destruct (inferable_ty t); [|apply R_refl].
        destruct (elem_r s) as [e r| |]; cbn [fst]; try apply R_refl.
        specialize (IH e). destruct (infer_st zone tl t e) as [d' o]. cbn [fst] in *. now apply R_lc.
      - destruct (elem_r s) as [e r| |]; cbn [fst]; try apply R_refl.
        destruct (split_type_args e) as [|kt [|vt [|x l]]]; cbn [fst]; try apply R_refl.
        assert (Hk : R k (fst (if inferable_ty k then infer_st zone tl k (trim_space kt) else (k, IOk))))
          by (destruct (inferable_ty k); [apply IHk|apply R_refl]).
        destruct (if inferable_ty k then infer_st zone tl k (trim_space kt) else (k, IOk)) as [k' ok]. cbn [fst] in Hk.
        assert (Hv : R v (fst (if inferable_ty v then infer_st zone tl v (trim_space vt) else (v, IOk))))
          by (destruct (inferable_ty v); [apply IHv|apply R_refl]).
        destruct ok; cbn [fst].
        + destruct (if inferable_ty v then infer_st zone tl v (trim_space vt) else (v, IOk)) as [v' ov]. cbn [fst] in *.
          now apply R_map.
        + apply R_map; [exact Hk|apply R_refl].
        + apply R_map; [exact Hk|apply R_refl].
      - change (R (TTuple ts) (fst (infer_st zone tl (TTuple ts) s))). rewrite infer_st_tuple.
        destruct (existsb inferable_ty ts); [|apply R_refl]. destruct (negb _); [apply R_refl|].
        pose proof (tup_infer_rel zone tl R R_refl ts IH (split_type_args (elem s))) as HG.
        destruct (tup_infer zone tl ts _) as [ts' o]; cbn [fst] in *; now apply R_tuple.
      - destruct (inferable_ty t); [|apply R_refl]. destruct (cut_prefix _ s) as [e|]; [|apply R_refl].
        specialize (IH e). destruct (infer_st zone tl t e) as [d' o]. cbn [fst] in *. now apply R_named.
    Qed.
  End Rel.

  Theorem infer_st_pres : forall t s, pres t (fst (infer_st zone tl t s)).
  Proof.
    apply infer_st_rel; [apply pres_refl|apply pres_fix| |apply pres_arr|apply pres_nullable|apply pres_lc|apply pres_map|apply pres_tuple|apply pres_named].
    intros; split; repeat split; auto; discriminate.
  Qed.
  (* the contents of the column object keep their meaning through Infer, failed or not *)
  Theorem infer_st_dkeep : forall t s, dkeep t (fst (infer_st zone tl t s)).
  Proof.
    apply infer_st_rel; [apply dkeep_refl|apply dkeep_fix| |apply dkeep_arr|apply dkeep_nullable|apply dkeep_lc|apply dkeep_map|apply dkeep_tuple|apply dkeep_named].
    intros; split; apply dkeep_enum.
  Qed.

  Lemma pres_blk t t' : pres t t' -> blk_ty t = true -> blk_ty t' = true.
  Proof.
    intros (P1 & P2 & _) H. unfold blk_ty in *. apply andb_true_iff in H as [H1 H2]. now rewrite P1, P2.
  Qed.
  Lemma pres_okb b t t' : pres t t' -> okb b t' = okb b t.
  Proof. intros (_ & _ & P3 & _). destruct b; [reflexivity|exact P3]. Qed.

  Lemma infer_target_pres t s t' : infer_target zone tl t s = Some t' -> pres t t'.
  Proof.
    unfold infer_target. destruct (inferable_ty t); [|intros [= <-]; apply pres_refl].
    pose proof (infer_st_pres t s) as H. destruct (infer_st zone tl t s) as [t1 o]. cbn [fst] in H.
    destruct o; try discriminate. now intros [= <-].
  Qed.
End InferPres.

(* ---------- combinators that remember where a value came from ------------------------------------------------ *)
Lemma nocrash_bind_from {A B} (p : parser A) (f : A -> parser B) :
  nocrash p -> keeps p -> (forall a, (exists s r, p s = Ok a r) -> nocrash (f a)) -> nocrash (bind p f).
Proof.
  intros Hp Hk Hf s Hs. unfold bind. specialize (Hp s Hs).
  destruct (p s) as [a r|e|c] eqn:E; try reflexivity; [|discriminate].
  apply Hf; [eauto|]. eapply Hk; eassumption.
Qed.

Lemma nocrash_bind_last {A B} (p : parser A) (f : A -> parser B) :
  nocrash p -> (forall a s, is_crash (f a s) = false) -> nocrash (bind p f).
Proof.
  intros Hp Hf s Hs. unfold bind. specialize (Hp s Hs).
  destruct (p s) as [a r|e|c]; [apply Hf|reflexivity|discriminate].
Qed.

(* ---------- one column header: name, hostile type string, custom-serialization flag -------------------------- *)
Lemma header_nocrash v : nocrash (dec_col_header v).
Proof.
  unfold dec_col_header. apply nocrash_bind; [apply nocrash_get_str|apply keeps_get_str|]. intros name.
  apply nocrash_bind; [apply nocrash_get_str|apply keeps_get_str|]. intros tstr.
  apply nocrash_if; [|apply nocrash_ret].
  apply nocrash_bind; [apply nocrash_get_bool|apply keeps_get_bool|]. intros cs.
  apply nocrash_if; [apply nocrash_fail|apply nocrash_ret].
Qed.
Lemma header_keeps v : keeps (dec_col_header v).
Proof.
  unfold dec_col_header. apply keeps_bind; [apply keeps_get_str|]. intros name.
  apply keeps_bind; [apply keeps_get_str|]. intros tstr.
  apply keeps_if; [|apply keeps_ret].
  apply keeps_bind; [apply keeps_get_bool|]. intros cs. apply keeps_if; [apply keeps_fail|apply keeps_ret].
Qed.
Lemma header_nofuel v : nofuel (dec_col_header v).
Proof.
  unfold dec_col_header. apply nofuel_bind; [apply nofuel_get_str|]. intros name.
  apply nofuel_bind; [apply nofuel_get_str|]. intros tstr.
  apply nofuel_if; [|apply nofuel_ret].
  apply nofuel_bind; [apply nofuel_get_bool|]. intros cs. apply nofuel_if; [apply nofuel_fail; discriminate|apply nofuel_ret].
Qed.

Lemma skip_headers_safe v n : nocrash (skip_headers v n) /\ keeps (skip_headers v n) /\ nofuel (skip_headers v n).
Proof.
  induction n as [|n (I1 & I2 & I3)]; cbn [skip_headers].
  - split; [apply nocrash_ret|split; [apply keeps_ret|apply nofuel_ret]].
  - split; [|split].
    + apply nocrash_bind; [apply header_nocrash|apply header_keeps|intros; exact I1].
    + apply keeps_bind; [apply header_keeps|intros; exact I2].
    + apply nofuel_bind; [apply header_nofuel|intros; exact I3].
Qed.

(* BlockInfo: a loop over attacker-chosen field ids *)
Lemma BlockInfo_loop_safe fuel : forall i, nocrash (decode_BlockInfo_loop fuel i) /\ keeps (decode_BlockInfo_loop fuel i).
Proof.
  induction fuel as [|fuel IH]; intros i; cbn [decode_BlockInfo_loop].
  - split; [apply nocrash_fail|apply keeps_fail].
  - split.
    + apply nocrash_bind; [apply nocrash_uvarint|apply keeps_get_uv|]. intros id.
      apply nocrash_if.
      { apply nocrash_bind; [apply nocrash_get_bool|apply keeps_get_bool|]. intros b. apply IH. }
      apply nocrash_if.
      { apply nocrash_bind; [apply nocrash_get_i32|apply keeps_get_i32|]. intros z. apply IH. }
      apply nocrash_if; [apply nocrash_ret|apply nocrash_fail].
    + apply keeps_bind; [apply keeps_get_uv|]. intros id.
      apply keeps_if.
      { apply keeps_bind; [apply keeps_get_bool|]. intros b. apply IH. }
      apply keeps_if.
      { apply keeps_bind; [apply keeps_get_i32|]. intros z. apply IH. }
      apply keeps_if; [apply keeps_ret|apply keeps_fail].
Qed.
Lemma BlockInfo_nocrash i : nocrash (decode_BlockInfo i).
Proof. intros s Hs. unfold decode_BlockInfo. now apply BlockInfo_loop_safe. Qed.
Lemma BlockInfo_keeps i : keeps (decode_BlockInfo i).
Proof. intros s a r Hs H. unfold decode_BlockInfo in H. eapply BlockInfo_loop_safe; eassumption. Qed.
Lemma BlockInfo_nofuel i : nofuel (decode_BlockInfo i).
Proof. intros s. apply BlockInfo_never_fuel. Qed.

(* ================================================================================================================ *)
(* Block.v's DecodeBlock over the real instances of its parameters                                                   *)
(* ================================================================================================================ *)
Section BlockLevel.
  Variable zone : bytes -> option bytes.      (* time.LoadLocation, any function *)
  Variable tl : bytes -> bytes.               (* strings.ToLower, any function *)
  Notation it := (infer_target zone tl).
  Notation ia := (infer_auto zone tl).
  Notation dec_targets := (dec_targets conflicts_b it).
  Notation decode_result := (decode_result conflicts_b it).
  Notation dec_auto_cols := (dec_auto_cols ia).
  Notation decode_auto := (decode_auto conflicts_b it ia).
  Notation decode_raw_block := (decode_raw_block conflicts_b it ia).
  Notation decode_block := (decode_block conflicts_b it ia).

  Definition tys_ok (ts : list target) : Prop := Forall (fun t => blk_ty (c_ty t) = true) ts.

  Lemma c06_premises_tys ts :
    Forall (fun t => c16_ty (c_ty t) = true /\ widths_ok (c_ty t) = true) ts -> tys_ok ts.
  Proof. intros H. eapply Forall_impl; [|exact H]. intros t [H1 H2]. now apply c06_premises_blk. Qed.

  (* ---- typed targets ---- *)
  Lemma dec_targets_keeps b v n : forall ts, keeps (dec_targets b v n ts).
  Proof.
    induction ts as [|t ts IH]; cbn [Block.dec_targets]; [apply keeps_ret|].
    apply keeps_bind; [apply header_keeps|]. intros [name tstr].
    apply keeps_if; [apply keeps_fail|].
    destruct (it (c_ty t) tstr) as [ty'|]; [|apply keeps_fail].
    apply keeps_if; [apply keeps_fail|].
    apply keeps_bind; [apply (dec_body_p_keeps ty' b n)|]. intros d.
    apply keeps_bind; [exact IH|intros; apply keeps_ret].
  Qed.

  Lemma dec_targets_nocrash b v n : n <= max_rows -> forall ts, tys_ok ts -> nocrash (dec_targets b v n ts).
  Proof.
    intros Hn. induction ts as [|t ts IH]; intros Hts; cbn [Block.dec_targets]; [apply nocrash_ret|].
    inversion Hts as [|? ? Ht Hts']; subst.
    apply nocrash_bind; [apply header_nocrash|apply header_keeps|]. intros [name tstr].
    apply nocrash_if; [apply nocrash_fail|].
    destruct (it (c_ty t) tstr) as [ty'|] eqn:Ei; [|apply nocrash_fail].
    apply nocrash_if; [apply nocrash_fail|].
    assert (Hty : blk_ty ty' = true) by (eapply pres_blk; [eapply infer_target_pres; exact Ei|exact Ht]).
    apply nocrash_bind; [apply (dec_body_p_nocrash ty' b n Hty Hn)|apply (dec_body_p_keeps ty' b n)|]. intros d.
    apply nocrash_bind; [now apply IH|apply dec_targets_keeps|intros; apply nocrash_ret].
  Qed.

  Lemma dec_targets_nofuel b v n : forall ts, nofuel (dec_targets b v n ts).
  Proof.
    induction ts as [|t ts IH]; cbn [Block.dec_targets]; [apply nofuel_ret|].
    apply nofuel_bind; [apply header_nofuel|]. intros [name tstr].
    apply nofuel_if; [apply nofuel_fail; discriminate|].
    destruct (it (c_ty t) tstr) as [ty'|]; [|apply nofuel_fail; discriminate].
    apply nofuel_if; [apply nofuel_fail; discriminate|].
    apply nofuel_bind; [apply (dec_body_p_nofuel ty' b n)|]. intros d.
    apply nofuel_bind; [exact IH|intros; apply nofuel_ret].
  Qed.

  (* ---- Results.DecodeResult ---- *)
  Lemma decode_result_nocrash b v ncols n ts : n <= max_rows -> tys_ok ts -> nocrash (decode_result b v ncols n ts).
  Proof.
    intros Hn Hts. unfold Block.decode_result. destruct ts as [|t ts].
    - apply nocrash_if; [apply nocrash_fail|]. intros s Hs.
      destruct (ncols <=? blen s).
      + destruct (skip_headers_safe v (N.to_nat ncols)) as (S1 & S2 & _).
        apply (nocrash_bind _ _ S1 S2); [intros; apply nocrash_ret|exact Hs].
      + destruct (skip_headers_safe v (length s)) as (S1 & _ & _). specialize (S1 s Hs).
        destruct (skip_headers v (length s) s); [reflexivity|reflexivity|exact S1].
    - apply nocrash_if; [apply nocrash_fail|]. now apply dec_targets_nocrash.
  Qed.
  Lemma decode_result_nofuel b v ncols n ts : nofuel (decode_result b v ncols n ts).
  Proof.
    unfold Block.decode_result. destruct ts as [|t ts].
    - apply nofuel_if; [apply nofuel_fail; discriminate|]. intros s.
      destruct (ncols <=? blen s).
      + destruct (skip_headers_safe v (N.to_nat ncols)) as (_ & _ & S3).
        apply (nofuel_bind _ _ S3). intros; apply nofuel_ret.
      + destruct (skip_headers_safe v (length s)) as (_ & _ & S3). specialize (S3 s).
        destruct (skip_headers v (length s) s) as [u r|e|c]; [discriminate| |discriminate].
        intros E. inversion E; subst. now apply S3.
    - apply nofuel_if; [apply nofuel_fail; discriminate|]. apply dec_targets_nofuel.
  Qed.

  (* ---- Results.decodeAuto on an empty Results: the column is created from the hostile type string ---- *)
  Lemma dec_auto_cols_keeps b v n : forall k, keeps (dec_auto_cols b v n k).
  Proof.
    induction k as [|k IH]; cbn [Block.dec_auto_cols]; [apply keeps_ret|].
    apply keeps_bind; [apply header_keeps|]. intros [name tstr].
    destruct (ia tstr) as [ty'|]; [|apply keeps_fail].
    apply keeps_bind; [apply (dec_body_p_keeps ty' b n)|]. intros d.
    apply keeps_bind; [exact IH|intros; apply keeps_ret].
  Qed.
  Lemma dec_auto_cols_nocrash b v n : n <= max_rows -> forall k, nocrash (dec_auto_cols b v n k).
  Proof.
    intros Hn. induction k as [|k IH]; cbn [Block.dec_auto_cols]; [apply nocrash_ret|].
    apply nocrash_bind; [apply header_nocrash|apply header_keeps|]. intros [name tstr].
    destruct (ia tstr) as [ty'|] eqn:Ei; [|apply nocrash_fail].
    pose proof (auto_ty_ok zone tl tstr ty' Ei) as Hty.
    apply nocrash_bind; [apply (dec_body_p_nocrash ty' b n Hty Hn)|apply (dec_body_p_keeps ty' b n)|]. intros d.
    apply nocrash_bind; [exact IH|apply dec_auto_cols_keeps|intros; apply nocrash_ret].
  Qed.
  Lemma dec_auto_cols_nofuel b v n : forall k, nofuel (dec_auto_cols b v n k).
  Proof.
    induction k as [|k IH]; cbn [Block.dec_auto_cols]; [apply nofuel_ret|].
    apply nofuel_bind; [apply header_nofuel|]. intros [name tstr].
    destruct (ia tstr) as [ty'|]; [|apply nofuel_fail; discriminate].
    apply nofuel_bind; [apply (dec_body_p_nofuel ty' b n)|]. intros d.
    apply nofuel_bind; [exact IH|intros; apply nofuel_ret].
  Qed.

  Lemma decode_auto_nocrash b v ncols n ts : n <= max_rows -> tys_ok ts -> nocrash (decode_auto b v ncols n ts).
  Proof.
    intros Hn Hts. unfold Block.decode_auto. destruct ts as [|t ts]; [|now apply decode_result_nocrash].
    intros s Hs. destruct (ncols <=? blen s); [now apply dec_auto_cols_nocrash|].
    pose proof (dec_auto_cols_nocrash b v n Hn (length s) s Hs) as H.
    destruct (Block.dec_auto_cols ia b v n (length s) s); [reflexivity|reflexivity|exact H].
  Qed.
  Lemma decode_auto_nofuel b v ncols n ts : nofuel (decode_auto b v ncols n ts).
  Proof.
    unfold Block.decode_auto. destruct ts as [|t ts]; [|apply decode_result_nofuel].
    intros s. destruct (ncols <=? blen s); [apply dec_auto_cols_nofuel|].
    pose proof (dec_auto_cols_nofuel b v n (length s) s) as H.
    destruct (Block.dec_auto_cols ia b v n (length s) s); [discriminate|exact H|discriminate].
  Qed.

  (* ---- Block.DecodeRawBlock / DecodeBlock ---- *)
  Lemma decode_raw_block_nocrash auto b v ts : tys_ok ts -> nocrash (decode_raw_block auto b v ts).
  Proof.
    intros Hts. unfold Block.decode_raw_block.
    apply nocrash_bind; [apply nocrash_get_int|apply keeps_get_int|]. intros c.
    apply nocrash_if; [apply nocrash_fail|].
    apply nocrash_bind; [apply nocrash_get_int|apply keeps_get_int|]. intros r.
    apply nocrash_bind_from; [apply nocrash_check_rows|apply keeps_check_rows|]. intros n (s0 & r0 & Hn).
    apply check_rows_bound in Hn.
    apply nocrash_if; [apply nocrash_ret|].
    apply nocrash_bind_last; [|intros; reflexivity].
    destruct auto; [now apply decode_auto_nocrash|now apply decode_result_nocrash].
  Qed.
  Lemma decode_raw_block_nofuel auto b v ts : nofuel (decode_raw_block auto b v ts).
  Proof.
    unfold Block.decode_raw_block.
    apply nofuel_bind; [apply nofuel_get_int|]. intros c.
    apply nofuel_if; [apply nofuel_fail; discriminate|].
    apply nofuel_bind; [apply nofuel_get_int|]. intros r.
    apply nofuel_bind; [apply nofuel_check_rows|]. intros n.
    apply nofuel_if; [apply nofuel_ret|].
    apply nofuel_bind; [|intros; apply nofuel_ret].
    destruct auto; [apply decode_auto_nofuel|apply decode_result_nofuel].
  Qed.

  (* 1. any in-memory byte string, any revision, both builds, Results or Results.Auto(), any typed targets within
        the premises: DecodeBlock returns a result or an error *)
  Theorem decode_block_nocrash auto b v ts : tys_ok ts -> nocrash (decode_block auto b v ts).
  Proof.
    intros Hts. unfold Block.decode_block.
    apply nocrash_bind.
    - apply nocrash_if; [apply BlockInfo_nocrash|apply nocrash_ret].
    - apply keeps_if; [apply BlockInfo_keeps|apply keeps_ret].
    - intros i. apply nocrash_bind_last; [now apply decode_raw_block_nocrash|].
      intros [[c r] ts'] s. reflexivity.
  Qed.

  (* 2. termination is by structure: no decoder of a block ever reports fuel exhaustion, for any input and any targets *)
  Theorem decode_block_nofuel auto b v ts : nofuel (decode_block auto b v ts).
  Proof.
    unfold Block.decode_block. apply nofuel_bind.
    - apply nofuel_if; [apply BlockInfo_nofuel|apply nofuel_ret].
    - intros i. apply nofuel_bind; [apply decode_raw_block_nofuel|]. intros [[c r] ts']. apply nofuel_ret.
  Qed.

  (* the type-string functions the block decoder calls on hostile strings neither panic nor exhaust their fuel
     (Block.v takes them as total functions; this is what makes the three instances faithful) *)
  Theorem block_type_functions_total s :
    is_crash (infer_col zone tl s) = false /\ infer_col zone tl s <> Err EFuel /\
    (forall c, exists r, conflicts_r s c = rok r) /\
    (forall t, snd (infer_st zone tl t s) <> ICrash).
  Proof.
    split; [apply infer_f_no_crash|]. split.
    - unfold infer_col. pose proof (infer_f_fuel zone tl (S (length s)) s (Nat.lt_succ_diag_r _)) as H.
      intros E. rewrite E in H. discriminate.
    - split; [intros c; apply conflicts_r_no_panic|intros t; apply infer_st_no_crash].
  Qed.

  (* 3. what is accepted is consistent *)
  Definition tgt_consistent (b : build) (n : N) (t : target) : Prop :=
    blk_ty (c_ty t) = true /\
    (okb b (c_ty t) = true -> good (c_ty t) (c_data t) /\ rows (c_ty t) (c_data t) = n /\ readable (c_ty t) (c_data t)).
  Definition tgt_kept (b : build) (t t' : target) : Prop :=
    (c_name t <> [] -> c_name t' = c_name t) /\ okb b (c_ty t') = okb b (c_ty t).

  Lemma blk_dty t : blk_ty t = true -> dty_ok t = true.
  Proof. unfold blk_ty. intros H. now apply andb_true_iff in H as [H _]. Qed.

  Lemma dec_targets_consistent b v n : forall ts s ts' rest, wfl s -> tys_ok ts ->
    dec_targets b v n ts s = Ok ts' rest ->
    Forall (tgt_consistent b n) ts' /\ Forall2 (tgt_kept b) ts ts'.
  Proof.
    induction ts as [|t ts IH]; intros s ts' rest Hs Hts H; cbn [Block.dec_targets] in H.
    - inversion H; subst. split; constructor.
    - inversion Hts as [|? ? Ht Hts']; subst.
      apply bind_inv in H as [[name tstr] [s1 [H1 H2]]].
      assert (Hs1 : wfl s1) by (eapply header_keeps; eassumption).
      destruct (negb (bytes_eqb _ name)) eqn:En; [discriminate|].
      destruct (it (c_ty t) tstr) as [ty'|] eqn:Ei; [|discriminate].
      destruct (conflicts_b tstr (type_str ty')); [discriminate|].
      pose proof (infer_target_pres zone tl _ _ _ Ei) as Hp.
      assert (Hty : blk_ty ty' = true) by (eapply pres_blk; eassumption).
      apply bind_inv in H2 as [d [s2 [H2 H3]]].
      change (dec_body_p b ty' n s1 = Ok d s2) in H2.
      assert (Hs2 : wfl s2) by (eapply dec_body_p_keeps; eassumption).
      apply bind_inv in H3 as [r [s3 [H3 H4]]]. inversion H4; subst.
      destruct (IH _ _ _ Hs2 Hts' H3) as [A B].
      split; constructor; try assumption.
      + split; [exact Hty|]. cbn [c_ty c_data]. intros Hb.
        exact (dec_body_p_good ty' b n s1 d s2 (blk_dty _ Hty) Hb Hs1 H2).
      + split; cbn [c_name c_ty].
        * intros Hne. destruct (c_name t); [contradiction|reflexivity].
        * now apply pres_okb.
  Qed.

  Lemma dec_auto_cols_consistent b v n : forall k s ts' rest, wfl s ->
    dec_auto_cols b v n k s = Ok ts' rest -> Forall (tgt_consistent b n) ts' /\ length ts' = k.
  Proof.
    induction k as [|k IH]; intros s ts' rest Hs H; cbn [Block.dec_auto_cols] in H.
    - inversion H; subst. split; [constructor|reflexivity].
    - apply bind_inv in H as [[name tstr] [s1 [H1 H2]]].
      assert (Hs1 : wfl s1) by (eapply header_keeps; eassumption).
      destruct (ia tstr) as [ty'|] eqn:Ei; [|discriminate].
      pose proof (auto_ty_ok zone tl tstr ty' Ei) as Hty.
      apply bind_inv in H2 as [d [s2 [H2 H3]]].
      change (dec_body_p b ty' n s1 = Ok d s2) in H2.
      assert (Hs2 : wfl s2) by (eapply dec_body_p_keeps; eassumption).
      apply bind_inv in H3 as [r [s3 [H3 H4]]]. inversion H4; subst.
      destruct (IH _ _ _ Hs2 H3) as [A B].
      split; [constructor; [|exact A]|cbn [length]; now rewrite B].
      split; [exact Hty|]. cbn [c_ty c_data]. intros Hb.
      exact (dec_body_p_good ty' b n s1 d s2 (blk_dty _ Hty) Hb Hs1 H2).
  Qed.

  Lemma Forall2_length {A B} (R : A -> B -> Prop) l l' : Forall2 R l l' -> length l' = length l.
  Proof. induction 1; cbn [length]; congruence. Qed.

  Theorem decode_block_consistent auto b v ts s i c r ts' rest :
    wfl s -> tys_ok ts ->
    decode_block auto b v ts s = Ok (i, c, r, ts') rest -> ((c =? 0) && (r =? 0))%Z = false ->
    (0 <= c <= maxColumnsInBlock)%Z /\ (0 <= r <= maxRowsInBLock)%Z /\
    Forall (tgt_consistent b (Z.to_N r)) ts' /\
    match ts with
    | [] => if auto then Z.of_nat (length ts') = c else ts' = [] /\ (c = 0 \/ r = 0)%Z
    | _ => Z.of_nat (length ts') = c /\ Forall2 (tgt_kept b) ts ts'
    end.
  Proof.
    intros Hs Hts H Hend. unfold Block.decode_block in H.
    apply bind_inv in H as [i0 [s0 [H0 H]]].
    assert (Hs0 : wfl s0).
    { destruct (gate v FeatureBlockInfo); [eapply BlockInfo_keeps; eassumption|inversion H0; now subst]. }
    apply bind_inv in H as [[[c0 r0] ts0] [s4 [H H5]]]. inversion H5; subst. clear H5.
    unfold Block.decode_raw_block in H.
    apply bind_inv in H as [c0 [s1 [H1 H]]].
    assert (Hs1 : wfl s1) by (eapply keeps_get_int; eassumption).
    destruct ((maxColumnsInBlock <? c0) || (c0 <? 0))%Z eqn:Ec; [discriminate|].
    apply bind_inv in H as [r0 [s2 [H2 H]]].
    assert (Hs2 : wfl s2) by (eapply keeps_get_int; eassumption).
    apply bind_inv in H as [n [s3 [H3 H]]].
    assert (Hs3 : wfl s3) by (eapply keeps_check_rows; eassumption).
    pose proof (check_rows_bound _ _ _ _ H3) as Hn.
    apply check_rows_inv in H3 as (Hr0 & -> & ->).
    destruct ((c0 =? 0) && (r0 =? 0))%Z eqn:E0.
    { inversion H; subst. rewrite E0 in Hend. discriminate. }
    apply bind_inv in H as [ts1 [s5 [H H6]]]. inversion H6; subst. clear H6.
    unfold maxColumnsInBlock in Ec |- *. unfold max_rows in Hn. unfold maxRowsInBLock in Hn |- *.
    split; [lia|]. split; [lia|].
    destruct auto.
    - unfold Block.decode_auto in H. destruct ts as [|t ts].
      + destruct (Z.to_N c <=? blen s2); [|destruct (Block.dec_auto_cols ia b v (Z.to_N r) (length s2) s2); discriminate].
        destruct (dec_auto_cols_consistent _ _ _ _ _ _ _ Hs2 H) as [A B]. split; [exact A|]. rewrite B. lia.
      + unfold Block.decode_result in H.
        destruct (negb (Z.to_N c =? N.of_nat (length (t :: ts)))) eqn:El; [discriminate|].
        destruct (dec_targets_consistent _ _ _ _ _ _ _ Hs2 Hts H) as [A B]. split; [exact A|]. split; [|exact B].
        rewrite (Forall2_length _ _ _ B). apply negb_false_iff in El. lia.
    - unfold Block.decode_result in H. destruct ts as [|t ts].
      + destruct (negb (Z.to_N c =? 0) && negb (Z.to_N r =? 0)) eqn:Ez; [discriminate|].
        assert (Hts' : ts' = []).
        { destruct (Z.to_N c <=? blen s2).
          - apply bind_inv in H as [u [s6 [_ H]]]. now inversion H.
          - destruct (skip_headers v (length s2) s2); discriminate. }
        subst ts'. split; [constructor|]. split; [reflexivity|]. lia.
      + destruct (negb (Z.to_N c =? N.of_nat (length (t :: ts)))) eqn:El; [discriminate|].
        destruct (dec_targets_consistent _ _ _ _ _ _ _ Hs2 Hts H) as [A B]. split; [exact A|]. split; [|exact B].
        rewrite (Forall2_length _ _ _ B). apply negb_false_iff in El. lia.
  Qed.

  (* the same with the premises of props/C06.v on the targets *)
  Corollary decode_block_consistent_c06 auto b v ts s i c r ts' rest :
    wfl s -> Forall (fun t => c16_ty (c_ty t) = true /\ widths_ok (c_ty t) = true /\ okb b (c_ty t) = true) ts -> ts <> [] ->
    decode_block auto b v ts s = Ok (i, c, r, ts') rest -> ((c =? 0) && (r =? 0))%Z = false ->
    Z.of_nat (length ts') = c /\
    Forall2 (fun t t' => (c_name t <> [] -> c_name t' = c_name t) /\
                         good (c_ty t') (c_data t') /\ rows (c_ty t') (c_data t') = Z.to_N r /\ readable (c_ty t') (c_data t')) ts ts'.
  Proof.
    intros Hs Hts Hne H Hend.
    assert (Hts1 : tys_ok ts).
    { eapply Forall_impl; [|exact Hts]. intros t (H1 & H2 & _). now apply c06_premises_blk. }
    destruct (decode_block_consistent _ _ _ _ _ _ _ _ _ _ Hs Hts1 H Hend) as (_ & _ & A & B).
    destruct ts as [|t0 ts0]; [contradiction|]. destruct B as [B1 B2]. split; [exact B1|].
    clear -Hts A B2. revert A Hts. induction B2 as [|t t' l l' [K1 K2] Hl IH]; intros A Hts; [constructor|].
    inversion A as [|? ? [_ A1] A2]; subst. inversion Hts as [|? ? (_ & _ & Hb) Hts2]; subst.
    constructor; [|now apply IH]. split; [exact K1|]. apply A1. now rewrite K2.
  Qed.
End BlockLevel.

(* ================================================================================================================ *)
(* Results.v's refined loop: the same three statements, and what the targets hold after a FAILED block               *)
(* ================================================================================================================ *)
Section Refined.
  Variable zone : bytes -> option bytes.
  Variable tl : bytes -> bytes.
  Notation infer_tcol := (infer_tcol zone tl).
  Notation bind_one := (bind_one zone tl).
  Notation bind_targets := (bind_targets zone tl).
  Notation bind_result := (bind_result zone tl).
  Notation auto_cols := (auto_cols zone tl).
  Notation auto_result := (auto_result zone tl).
  Notation decode_block_st := (decode_block_st zone tl).
  Notation run_blocks := (run_blocks zone tl).

  (* a target column object is usable: its type is within the premises, and (modulo the Bool clause of the default
     build) its contents satisfy the column invariant and every Row(i), i < Rows(), is defined *)
  Definition tcol_ok (b : build) (c : tcol) : Prop :=
    match c with
    | CTyped t d => blk_ty t = true /\ (okb b t = true -> good t d /\ readable t d)
    | CAutoNil => True
    | CAutoHeld _ t d => blk_ty t = true /\ (okb b t = true -> good t d /\ readable t d)
    end.
  (* ... and reports [n] rows *)
  Definition tcol_rows (b : build) (n : N) (c : tcol) : Prop :=
    match c with
    | CTyped t d => okb b t = true -> rows t d = n
    | CAutoNil => False
    | CAutoHeld _ t d => okb b t = true -> rows t d = n
    end.
  Definition targets_ok (b : build) (ts : list rtarget) : Prop := Forall (fun t => tcol_ok b (rt_col t)) ts.
  Definition targets_rows (b : build) (n : N) (ts : list rtarget) : Prop := Forall (fun t => tcol_rows b n (rt_col t)) ts.

  (* the type premise alone: this is what survives a failed DecodeColumn (the half-decoded column the implementation
     leaves - model/DecPart.v - need not be readable: ResultsProofs2.residue_unreadable_in_general) *)
  Definition tcol_ty_ok (c : tcol) : Prop :=
    match c with
    | CTyped t _ => blk_ty t = true
    | CAutoNil => True
    | CAutoHeld _ t _ => blk_ty t = true
    end.
  Definition targets_ty_ok (ts : list rtarget) : Prop := Forall (fun t => tcol_ty_ok (rt_col t)) ts.
  Lemma tcol_ok_ty b c : tcol_ok b c -> tcol_ty_ok c.
  Proof. destruct c; cbn; tauto. Qed.
  Lemma targets_ok_ty b ts : targets_ok b ts -> targets_ty_ok ts.
  Proof. intros H. eapply Forall_impl; [|exact H]. intros t. apply tcol_ok_ty. Qed.

  Lemma empty_usable t : good t (empty t) /\ readable t (empty t).
  Proof.
    destruct (empty_ok t) as [G R]. split; [exact G|]. intros i Hi. unfold nrows in Hi. rewrite R in Hi. cbn in Hi. lia.
  Qed.

  Lemma dkeep_usable t t' d : dty_ok t = true -> dkeep t t' -> good t d /\ readable t d -> good t' d /\ readable t' d.
  Proof.
    intros Hd (R & W & G & _) [Hg Hr]. split; [now apply G|]. intros i Hi. unfold nrows in Hi. rewrite R in Hi. rewrite W. now apply Hr.
  Qed.

  Lemma typed_after_infer_ty t s : blk_ty t = true -> blk_ty (fst (infer_st zone tl t s)) = true.
  Proof. intros Hb. eapply pres_blk; [apply infer_st_pres|exact Hb]. Qed.

  Lemma typed_after_infer b t d s : blk_ty t = true /\ (okb b t = true -> good t d /\ readable t d) ->
    let t' := fst (infer_st zone tl t s) in blk_ty t' = true /\ (okb b t' = true -> good t' d /\ readable t' d).
  Proof.
    intros [Hb Hg]. cbv zeta. pose proof (infer_st_pres zone tl t s) as P. pose proof (infer_st_dkeep zone tl t s) as K.
    split; [eapply pres_blk; eassumption|]. intros Ho. rewrite (pres_okb b _ _ P) in Ho.
    eapply dkeep_usable; [exact (blk_dty _ Hb)|exact K|now apply Hg].
  Qed.

  Lemma auto_fresh_ok b c s : tcol_ok b c -> tcol_ok b (fst (auto_fresh zone tl c s)).
  Proof.
    intros Hc. unfold auto_fresh. destruct (infer_auto zone tl s) as [t'|] eqn:E; cbn [fst]; [|exact Hc].
    cbn [tcol_ok]. split; [exact (auto_ty_ok zone tl s t' E)|]. intros _. apply empty_usable.
  Qed.
  Lemma auto_fresh_ty c s : tcol_ty_ok c -> tcol_ty_ok (fst (auto_fresh zone tl c s)).
  Proof.
    intros Hc. unfold auto_fresh. destruct (infer_auto zone tl s) as [t'|] eqn:E; cbn [fst]; [|exact Hc].
    exact (auto_ty_ok zone tl s t' E).
  Qed.

  Lemma infer_tcol_ok b c s : tcol_ok b c -> tcol_ok b (fst (infer_tcol c s)).
  Proof.
    intros Hc. destruct c as [t d| |dt t d]; cbn [Results.infer_tcol].
    - destruct (inferable_ty t); [|exact Hc].
      pose proof (typed_after_infer b t d s Hc) as H. destruct (infer_st zone tl t s) as [t' o]. exact H.
    - now apply auto_fresh_ok.
    - destruct (negb (conflicts_b dt s)); [|now apply auto_fresh_ok].
      destruct (negb (inferable_ty t)); [exact Hc|].
      pose proof (typed_after_infer b t d s Hc) as H. destruct (infer_st zone tl t s) as [t' o]. cbn [fst] in H.
      destruct o; cbn [fst]; [exact H| |exact H].
      apply auto_fresh_ok. exact H.
  Qed.
  Lemma infer_tcol_ty c s : tcol_ty_ok c -> tcol_ty_ok (fst (infer_tcol c s)).
  Proof.
    intros Hc. destruct c as [t d| |dt t d]; cbn [Results.infer_tcol].
    - destruct (inferable_ty t); [|exact Hc].
      pose proof (typed_after_infer_ty t s Hc) as H. destruct (infer_st zone tl t s) as [t' o]. exact H.
    - now apply auto_fresh_ty.
    - destruct (negb (conflicts_b dt s)); [|now apply auto_fresh_ty].
      destruct (negb (inferable_ty t)); [exact Hc|].
      pose proof (typed_after_infer_ty t s Hc) as H. destruct (infer_st zone tl t s) as [t' o]. cbn [fst] in H.
      destruct o; cbn [fst]; [exact H| |exact H].
      apply auto_fresh_ty. exact H.
  Qed.

  Lemma infer_tcol_held c s c1 : infer_tcol c s = (c1, IOk) -> tcol_ty c1 <> None.
  Proof.
    destruct c as [t d| |dt t d]; cbn [Results.infer_tcol].
    - destruct (inferable_ty t); [destruct (infer_st zone tl t s)|]; intros H; inversion H; subst; discriminate.
    - unfold auto_fresh. destruct (infer_auto zone tl s); intros H; inversion H; subst; discriminate.
    - destruct (negb (conflicts_b dt s)).
      + destruct (negb (inferable_ty t)); [intros H; inversion H; subst; discriminate|].
        destruct (infer_st zone tl t s) as [t' o]. destruct o; [intros H; inversion H; subst; discriminate| |intros H; inversion H].
        unfold auto_fresh. destruct (infer_auto zone tl s); intros H; inversion H; subst; discriminate.
      + unfold auto_fresh. destruct (infer_auto zone tl s); intros H; inversion H; subst; discriminate.
  Qed.

  Lemma set_data_ok b c ty' d : tcol_ty c = Some ty' -> tcol_ty_ok c ->
    (okb b ty' = true -> good ty' d /\ readable ty' d) -> tcol_ok b (set_data c d).
  Proof. destruct c as [t d0| |dt t d0]; cbn; try discriminate; intros [= ->] H Hd; split; assumption. Qed.
  Lemma set_data_ty c ty' d : tcol_ty c = Some ty' -> tcol_ty_ok c -> tcol_ty_ok (set_data c d).
  Proof. destruct c as [t d0| |dt t d0]; cbn; try discriminate; intros [= ->] H; assumption. Qed.
  Lemma set_data_rows b n c ty' d : tcol_ty c = Some ty' -> (okb b ty' = true -> rows ty' d = n) -> tcol_rows b n (set_data c d).
  Proof. destruct c as [t d0| |dt t d0]; cbn; try discriminate; intros [= ->] Hd; assumption. Qed.
  Lemma tcol_ty_blk c ty' : tcol_ty c = Some ty' -> tcol_ty_ok c -> blk_ty ty' = true.
  Proof. destruct c as [t d0| |dt t d0]; cbn; try discriminate; intros [= ->] H; exact H. Qed.

  (* one iteration of the loop.  Only the type premise is asked of the target as it comes in: its contents may be the
     residue of an earlier failed block *)
  Lemma bind_one_safe b v n t s : n <= max_rows -> wfl s -> tcol_ty_ok (rt_col t) ->
    tcol_ty_ok (rt_col (fst (bind_one b v n t s))) /\
    match snd (bind_one b v n t s) with
    | SOk s' => wfl s' /\ tcol_ok b (rt_col (fst (bind_one b v n t s))) /\ tcol_rows b n (rt_col (fst (bind_one b v n t s)))
    | SFail k e => e <> EFuel /\ (k <> FDecode -> tcol_ok b (rt_col t) -> tcol_ok b (rt_col (fst (bind_one b v n t s))))
    | SCrash _ => False
    end.
  Proof.
    intros Hn Hs Ht. unfold Results.bind_one. pose proof (read_header_spec v s) as Hh.
    destruct (read_header v s) as [[[name tstr] s2]|o].
    2:{ cbn [fst snd]. split; [exact Ht|]. destruct o as [r|k e|c].
        - contradiction.
        - split; [intros ->; exact (header_nofuel v s Hh)|auto].
        - pose proof (header_nocrash v s Hs) as Hc. rewrite Hh in Hc. discriminate. }
    assert (Hs2 : wfl s2) by (eapply header_keeps; eassumption).
    destruct (negb (bytes_eqb _ name)); [cbn [fst snd rt_col]; split; [exact Ht|split; [discriminate|auto]]|].
    pose proof (infer_tcol_ty (rt_col t) tstr Ht) as Hc1.
    pose proof (infer_tcol_ok b (rt_col t) tstr) as Hc1ok.
    pose proof (infer_tcol_no_crash zone tl (rt_col t) tstr) as Hnc.
    pose proof (infer_tcol_held (rt_col t) tstr) as Hheld.
    destruct (infer_tcol (rt_col t) tstr) as [c1 o]. cbn [fst snd] in Hc1, Hc1ok, Hnc.
    destruct o; [|cbn [fst snd rt_col]; split; [exact Hc1|split; [discriminate|auto]]|contradiction].
    destruct (conflicts_b tstr (tcol_type c1)); [cbn [fst snd rt_col]; split; [exact Hc1|split; [discriminate|auto]]|].
    specialize (Hheld c1 eq_refl).
    destruct (tcol_ty c1) as [ty'|] eqn:Ety; [|contradiction].
    pose proof (tcol_ty_blk c1 ty' Ety Hc1) as Hty.
    change (Results.dec_body b ty' n s2) with (dec_body_p b ty' n s2).
    pose proof (dec_body_p_nocrash ty' b n Hty Hn s2 Hs2) as Hcr.
    pose proof (dec_body_p_nofuel ty' b n s2) as Hfu.
    destruct (dec_body_p b ty' n s2) as [d s3|e|c] eqn:Ed; cbn [fst snd rt_col].
    - assert (Hgood : okb b ty' = true -> good ty' d /\ rows ty' d = n /\ readable ty' d).
      { intros Hb. exact (dec_body_p_good ty' b n s2 d s3 (blk_dty _ Hty) Hb Hs2 Ed). }
      split; [now apply (set_data_ty c1 ty')|]. split; [|split].
      + eapply dec_body_p_keeps; eassumption.
      + apply (set_data_ok b c1 ty' d Ety Hc1). intros Hb. destruct (Hgood Hb) as (G & _ & R). now split.
      + apply (set_data_rows b n c1 ty' d Ety). intros Hb. now destruct (Hgood Hb) as (_ & R & _).
    - split; [now apply (set_data_ty c1 ty')|]. split; [intros ->; now apply Hfu|]. intros Hk. now contradiction Hk.
    - discriminate.
  Qed.

  Definition bout_fine (o : bout) : Prop :=
    match o with BOk _ => True | BFail _ _ e => e <> EFuel | BCrash _ => False end.

  (* after a failure: every target is usable except, when a DecodeState / DecodeColumn failed, that one target *)
  Definition all_but_failing (b : build) (k : bfail) (ts : list rtarget) : Prop :=
    exists pre x post, ts = pre ++ x :: post /\ targets_ok b pre /\ targets_ok b post /\ (k <> FDecode -> tcol_ok b (rt_col x)).

  Lemma bind_targets_safe b v n : n <= max_rows -> forall ts i s, wfl s -> targets_ty_ok ts ->
    targets_ty_ok (fst (bind_targets b v n i ts s)) /\ bout_fine (snd (bind_targets b v n i ts s)) /\
    match snd (bind_targets b v n i ts s) with
    | BOk s' => wfl s' /\ targets_ok b (fst (bind_targets b v n i ts s)) /\ targets_rows b n (fst (bind_targets b v n i ts s)) /\
                length (fst (bind_targets b v n i ts s)) = length ts
    | BFail _ k _ => targets_ok b ts -> all_but_failing b k (fst (bind_targets b v n i ts s))
    | BCrash _ => True
    end.
  Proof.
    intros Hn. induction ts as [|t ts IH]; intros i s Hs Hts; cbn [Results.bind_targets].
    - cbn [fst snd]. split; [constructor|]. split; [exact I|]. split; [exact Hs|]. split; [constructor|]. split; [constructor|reflexivity].
    - inversion Hts as [|? ? Ht Hts']; subst.
      pose proof (bind_one_safe b v n t s Hn Hs Ht) as [H1 H2].
      destruct (bind_one b v n t s) as [t' o]. cbn [fst snd] in H1, H2.
      destruct o as [s'|k e|c]; cbn [fst snd].
      + destruct H2 as (Hs' & Hok & Hr). specialize (IH (S i) s' Hs' Hts').
        destruct (bind_targets b v n (S i) ts s') as [r o]. cbn [fst snd] in *. destruct IH as (A & B & C).
        split; [constructor; assumption|]. split; [exact B|].
        destruct o as [s''|j k e|c].
        * destruct C as (C1 & C2 & C3 & C4). split; [exact C1|]. split; [constructor; assumption|]. split; [constructor; assumption|].
          cbn [length]. now rewrite C4.
        * intros Hall. inversion Hall as [|? ? _ Hall']; subst. destruct (C Hall') as (pre & x & post & -> & P1 & P2 & P3).
          exists (t' :: pre), x, post. split; [reflexivity|]. split; [constructor; assumption|]. split; assumption.
        * exact I.
      + destruct H2 as [He Hk]. split; [constructor; assumption|]. split; [exact He|].
        intros Hall. inversion Hall as [|? ? Hok Hall']; subst. exists [], t', ts. split; [reflexivity|]. split; [constructor|].
        split; [exact Hall'|]. intros Hd. now apply Hk.
      + contradiction.
  Qed.

  Lemma skip_cols_safe v : forall k i s, wfl s ->
    bout_fine (skip_cols v i k s) /\ match skip_cols v i k s with BOk s' => wfl s' | _ => True end.
  Proof.
    induction k as [|k IH]; intros i s Hs; cbn [skip_cols]; [split; [exact I|exact Hs]|].
    pose proof (read_header_spec v s) as Hh.
    destruct (read_header v s) as [[[name tstr] s2]|o].
    - apply IH. eapply header_keeps; eassumption.
    - destruct o as [r|f e|c]; [contradiction| |].
      + split; [|exact I]. cbn. intros ->. exact (header_nofuel v s Hh).
      + pose proof (header_nocrash v s Hs) as Hc. rewrite Hh in Hc. discriminate.
  Qed.

  (* what one call leaves, in one statement *)
  Definition call_safe (b : build) (n : N) (ts : list rtarget) (r : list rtarget * bout) : Prop :=
    targets_ty_ok (fst r) /\ bout_fine (snd r) /\
    match snd r with
    | BOk s' => wfl s' /\ targets_ok b (fst r) /\ targets_rows b n (fst r)
    | BFail _ k _ => targets_ok b ts -> targets_ok b (fst r) \/ all_but_failing b k (fst r)
    | BCrash _ => True
    end.

  Lemma bind_result_safe b v ncols n ts s : n <= max_rows -> wfl s -> targets_ty_ok ts ->
    call_safe b n ts (bind_result b v ncols n ts s).
  Proof.
    intros Hn Hs Hts. unfold Results.bind_result, call_safe. destruct ts as [|t ts].
    - destruct (negb (ncols =? 0) && negb (n =? 0)); cbn [fst snd]; [split; [constructor|split; [discriminate|left; constructor]]|].
      destruct (ncols <=? blen s); cbn [fst snd].
      + destruct (skip_cols_safe v (N.to_nat ncols) 0%nat s Hs) as [A B]. split; [constructor|]. split; [exact A|].
        destruct (skip_cols v 0 (N.to_nat ncols) s); [|left; constructor|exact I]. split; [exact B|]. split; constructor.
      + destruct (skip_cols_safe v (length s) 0%nat s Hs) as [A B]. split; [constructor|].
        destruct (skip_cols v 0 (length s) s); cbn; [split; [discriminate|left; constructor]|split; [exact A|left; constructor]|contradiction].
    - destruct (negb (ncols =? N.of_nat (length (t :: ts)))); cbn [fst snd]; [split; [exact Hts|split; [discriminate|intros H; left; exact H]]|].
      destruct (bind_targets_safe b v n Hn (t :: ts) 0%nat s Hs Hts) as (A & B & C). split; [exact A|]. split; [exact B|].
      destruct (snd (bind_targets b v n 0 (t :: ts) s)); [|intros H; right; now apply C|exact I].
      destruct C as (C1 & C2 & C3 & _). now split.
  Qed.

  Lemma auto_cols_safe b v n : n <= max_rows -> forall k i s, wfl s ->
    targets_ok b (fst (auto_cols b v n i k s)) /\ bout_fine (snd (auto_cols b v n i k s)) /\
    match snd (auto_cols b v n i k s) with
    | BOk s' => wfl s' /\ targets_rows b n (fst (auto_cols b v n i k s)) /\ length (fst (auto_cols b v n i k s)) = k
    | _ => True
    end.
  Proof.
    intros Hn. induction k as [|k IH]; intros i s Hs; cbn [Results.auto_cols].
    - cbn [fst snd]. split; [constructor|]. split; [exact I|]. split; [exact Hs|]. split; [constructor|reflexivity].
    - pose proof (read_header_spec v s) as Hh.
      destruct (read_header v s) as [[[name tstr] s2]|o].
      2:{ destruct o as [r|f e|c]; [contradiction| |].
          - cbn [fst snd]. split; [constructor|]. split; [|exact I]. cbn. intros ->. exact (header_nofuel v s Hh).
          - pose proof (header_nocrash v s Hs) as Hc. rewrite Hh in Hc. discriminate. }
      assert (Hs2 : wfl s2) by (eapply header_keeps; eassumption).
      destruct (infer_auto zone tl tstr) as [ty'|] eqn:Ei; [|cbn [fst snd]; split; [constructor|split; [discriminate|exact I]]].
      pose proof (auto_ty_ok zone tl tstr ty' Ei) as Hty.
      change (Results.dec_body b ty' n s2) with (dec_body_p b ty' n s2).
      pose proof (dec_body_p_nocrash ty' b n Hty Hn s2 Hs2) as Hcr.
      pose proof (dec_body_p_nofuel ty' b n s2) as Hfu.
      destruct (dec_body_p b ty' n s2) as [d s3|e|c] eqn:Ed.
      + assert (Hs3 : wfl s3) by (eapply dec_body_p_keeps; eassumption).
        specialize (IH (S i) s3 Hs3). destruct (auto_cols b v n (S i) k s3) as [r o]. cbn [fst snd] in *.
        destruct IH as (A & B & C).
        assert (Hgood : okb b ty' = true -> good ty' d /\ rows ty' d = n /\ readable ty' d).
        { intros Hb. exact (dec_body_p_good ty' b n s2 d s3 (blk_dty _ Hty) Hb Hs2 Ed). }
        split; [constructor; [|exact A]|].
        { cbn [rt_col tcol_ok]. split; [exact Hty|]. intros Hb. destruct (Hgood Hb) as (G & _ & R). now split. }
        split; [exact B|]. destruct o; try exact I. destruct C as (C1 & C2 & C3). split; [exact C1|].
        split; [constructor; [|exact C2]|cbn [length]; now rewrite C3].
        cbn [rt_col tcol_rows]. intros Hb. now destruct (Hgood Hb) as (_ & R & _).
      + cbn [fst snd]. split; [constructor|]. split; [|exact I]. cbn. intros ->. now apply Hfu.
      + discriminate.
  Qed.

  Lemma auto_result_safe b v ncols n ts s : n <= max_rows -> wfl s -> targets_ty_ok ts ->
    call_safe b n ts (auto_result b v ncols n ts s).
  Proof.
    intros Hn Hs Hts. unfold Results.auto_result. destruct ts as [|t ts]; [|now apply bind_result_safe].
    unfold call_safe. destruct (ncols <=? blen s).
    - destruct (auto_cols_safe b v n Hn (N.to_nat ncols) 0%nat s Hs) as (A & B & C).
      split; [now apply (targets_ok_ty b)|]. split; [exact B|].
      destruct (snd (auto_cols b v n 0 (N.to_nat ncols) s)); [|intros _; left; exact A|exact I].
      destruct C as (C1 & C2 & _). now split.
    - destruct (auto_cols_safe b v n Hn (length s) 0%nat s Hs) as (A & B & C).
      destruct (auto_cols b v n 0 (length s) s) as [r o]. cbn [fst snd] in *.
      destruct o; cbn [fst snd].
      + split; [now apply (targets_ok_ty b)|]. split; [discriminate|]. intros _. left. exact A.
      + split; [now apply (targets_ok_ty b)|]. split; [exact B|]. intros _. left. exact A.
      + contradiction.
  Qed.

  (* 4. Block.DecodeBlock, refined.  Whatever the bytes and whatever an earlier failed block left in the targets (only
        their types are constrained): no crash, no fuel exhaustion; an accepted block leaves EVERY target usable and
        reporting the block's row count; after a failure the targets that were usable still are (Infer changes parameters
        only, see infer_keeps_contents) except the one whose DecodeState / DecodeColumn failed, which holds the partially
        decoded column of model/DecPart.v (C18: the residue theorems of ResultsProofs2) *)
  Theorem decode_block_st_safe auto b v ts s : wfl s -> targets_ty_ok ts ->
    let o := decode_block_st auto b v ts s in
    targets_ty_ok (bo_targets o) /\ bout_fine (bo_out o) /\
    match bo_out o with
    | BOk rest => wfl rest /\
                  (((bo_cols o =? 0) && (bo_rows o =? 0))%Z = false ->
                   targets_ok b (bo_targets o) /\ targets_rows b (Z.to_N (bo_rows o)) (bo_targets o))
    | BFail _ k _ => targets_ok b ts -> targets_ok b (bo_targets o) \/ all_but_failing b k (bo_targets o)
    | BCrash _ => True
    end.
  Proof.
    intros Hs Hts. cbv zeta. unfold Results.decode_block_st.
    assert (Hi : nocrash (if gate v FeatureBlockInfo then decode_BlockInfo blank_block_info else ret blank_block_info) /\
                 keeps (if gate v FeatureBlockInfo then decode_BlockInfo blank_block_info else ret blank_block_info) /\
                 nofuel (if gate v FeatureBlockInfo then decode_BlockInfo blank_block_info else ret blank_block_info)).
    { destruct (gate v FeatureBlockInfo); [split; [apply BlockInfo_nocrash|split; [apply BlockInfo_keeps|apply BlockInfo_nofuel]]|
                                           split; [apply nocrash_ret|split; [apply keeps_ret|apply nofuel_ret]]]. }
    destruct Hi as (I1 & I2 & I3). specialize (I1 s Hs). specialize (I3 s).
    destruct ((if gate v FeatureBlockInfo then decode_BlockInfo blank_block_info else ret blank_block_info) s) as [i s1|e|c] eqn:Ei;
      cbn [bo_targets bo_out]; [|split; [exact Hts|split; [cbn; congruence|intros H; left; exact H]]|discriminate].
    assert (Hs1 : wfl s1) by (eapply I2; eassumption).
    pose proof (nocrash_get_int s1 Hs1) as G1. pose proof (nofuel_get_int s1) as F1.
    destruct (get_int s1) as [c s2|e|k] eqn:Ec; cbn [bo_targets bo_out]; [|split; [exact Hts|split; [cbn; congruence|intros H; left; exact H]]|discriminate].
    assert (Hs2 : wfl s2) by (eapply keeps_get_int; eassumption).
    destruct ((maxColumnsInBlock <? c) || (c <? 0))%Z; cbn [bo_targets bo_out]; [split; [exact Hts|split; [cbn; discriminate|intros H; left; exact H]]|].
    assert (Hr : nocrash (r <- get_int ;; n <- check_rows r ;; ret (r, n)) /\ nofuel (r <- get_int ;; n <- check_rows r ;; ret (r, n))).
    { split.
      - apply nocrash_bind; [apply nocrash_get_int|apply keeps_get_int|]. intros r.
        apply nocrash_bind; [apply nocrash_check_rows|apply keeps_check_rows|intros; apply nocrash_ret].
      - apply nofuel_bind; [apply nofuel_get_int|]. intros r. apply nofuel_bind; [apply nofuel_check_rows|intros; apply nofuel_ret]. }
    destruct Hr as [R1 R2]. specialize (R1 s2 Hs2). specialize (R2 s2).
    destruct ((r <- get_int ;; n <- check_rows r ;; ret (r, n)) s2) as [[r n] s3|e|k] eqn:Er; cbn [bo_targets bo_out];
      [|split; [exact Hts|split; [cbn; congruence|intros H; left; exact H]]|discriminate].
    apply bind_inv in Er as [r0 [s2' [Er1 Er2]]]. apply bind_inv in Er2 as [n0 [s3' [Er2 Er3]]]. inversion Er3; subst. clear Er3.
    assert (Hs2' : wfl s2') by (eapply keeps_get_int; eassumption).
    pose proof (check_rows_bound _ _ _ _ Er2) as Hn. apply check_rows_inv in Er2 as (Hr0 & -> & ->).
    destruct ((c =? 0) && (r =? 0))%Z eqn:E0; cbn [bo_targets bo_out bo_cols bo_rows].
    { split; [exact Hts|]. split; [exact I|]. split; [exact Hs2'|]. intros Hx. rewrite E0 in Hx. discriminate. }
    assert (Hcall : call_safe b (Z.to_N r) ts ((if auto then auto_result else bind_result) b v (Z.to_N c) (Z.to_N r) ts s2')).
    { destruct auto; [now apply auto_result_safe|now apply bind_result_safe]. }
    destruct ((if auto then auto_result else bind_result) b v (Z.to_N c) (Z.to_N r) ts s2') as [ts' o].
    destruct Hcall as (A & B & C). cbn [fst snd bo_targets bo_out bo_cols bo_rows] in *.
    split; [exact A|]. split; [exact B|]. destruct o; [|exact C|exact I].
    destruct C as (C1 & C2 & C3). split; [exact C1|]. intros _. now split.
  Qed.

  (* any sequence of hostile blocks against the same (reused) targets: never a crash, never fuel, and whatever earlier
     failures left behind, every accepted block leaves all targets usable with the block's row count *)
  Definition block_out_safe (b : build) (o : block_out) : Prop :=
    targets_ty_ok (bo_targets o) /\ bout_fine (bo_out o) /\
    match bo_out o with
    | BOk _ => ((bo_cols o =? 0) && (bo_rows o =? 0))%Z = false ->
               targets_ok b (bo_targets o) /\ targets_rows b (Z.to_N (bo_rows o)) (bo_targets o)
    | _ => True
    end.
  Theorem run_blocks_safe auto b v : forall blocks ts, Forall wfl blocks -> targets_ty_ok ts ->
    Forall (block_out_safe b) (run_blocks auto b v ts blocks).
  Proof.
    induction blocks as [|s blocks IH]; intros ts Hb Hts; cbn [Results.run_blocks]; [constructor|].
    inversion Hb as [|? ? Hs Hb']; subst.
    destruct (decode_block_st_safe auto b v ts s Hs Hts) as (A & B & C).
    constructor; [|now apply IH].
    split; [exact A|]. split; [exact B|]. destruct (bo_out (decode_block_st auto b v ts s)); try exact I. now destruct C.
  Qed.
End Refined.

(* ---------- the statements of props/C06.v, with its premises -------------------------------------------------- *)
Theorem decode_block_nocrash_c06 zone tl auto b v ts :
  Forall (fun t => c16_ty (c_ty t) = true /\ widths_ok (c_ty t) = true) ts ->
  forall s, wfl s -> is_crash (decode_block conflicts_b (infer_target zone tl) (infer_auto zone tl) auto b v ts s) = false.
Proof. intros H. apply decode_block_nocrash. now apply c06_premises_tys. Qed.

Theorem decode_block_nofuel_all zone tl auto b v ts s :
  decode_block conflicts_b (infer_target zone tl) (infer_auto zone tl) auto b v ts s <> Err EFuel.
Proof. apply decode_block_nofuel. Qed.

Theorem infer_target_keeps_premises zone tl t s t' : infer_target zone tl t s = Some t' ->
  (blk_ty t = true -> blk_ty t' = true) /\ (forall b, okb b t' = okb b t).
Proof.
  intros H. pose proof (infer_target_pres zone tl t s t' H) as P. split; [now apply pres_blk|]. intros b. now apply pres_okb.
Qed.

(* ---------- non-vacuity material -------------------------------------------------------------------------------- *)
Definition no_zone : bytes -> option bytes := fun _ => None.
Definition c06x_rev : N := 54460.
Definition c06x_hdr (name ty : string) : bytes := put_str (s2b name) ++ put_str (s2b ty) ++ put_bool false.
(* a block of two columns and one row; the second column declares Array(LowCardinality(FixedString(16))) and a
   dictionary of 2^40 entries *)
Definition c06x_hostile_block : bytes :=
  encode_BlockInfo {| bi_overflows := false ; bi_bucket := 0 |} ++ put_int 2 ++ put_int 1 ++
  c06x_hdr "a" "UInt8" ++ [7] ++
  c06x_hdr "b" "Array(LowCardinality(FixedString(16)))" ++
  put_i64 sharedDictionariesWithAdditionalKeys ++ put_u64 1 ++
  put_i64 cardinalityUpdateAll ++ put_i64 (2 ^ 40).
(* a block of one column and one row whose type string is [ty] *)
Definition c06x_type_block (ty : bytes) : bytes :=
  encode_BlockInfo {| bi_overflows := false ; bi_bucket := 0 |} ++ put_int 1 ++ put_int 1 ++
  put_str (s2b "c") ++ put_str ty ++ put_bool false ++ repeat 0 64.
Definition c06x_auto (s : bytes) :=
  decode_block conflicts_b (infer_target no_zone (fun x => x)) (infer_auto no_zone (fun x => x)) true Unsafe c06x_rev [] s.
Definition c06x_nested (n : nat) (inner : bytes) : bytes :=
  List.concat (repeat (s2b "Array(") n) ++ inner ++ repeat 41 n.
