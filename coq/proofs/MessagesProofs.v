(* Round trips, exact consumption, monotonicity and gate signatures for the protocol messages. *)
From CH Require Import model.Messages proofs.PrimProofs proofs.FieldsProofs.
From CH Require Import gen.Features gen.Codes gen.Consts gen.GateSig.
From Coq Require Import ZifyN ZifyNat ZifyBool.
Ltac Zify.zify_post_hook ::= Z.div_mod_to_equations.
Open Scope N_scope.

(* ---------- layout messages: direct corollaries ---------------------------------- *)
Section Layouts.
Variable v : N.
Variable rest : bytes.

Lemma ClientHello_rt xs : fields_typed L_ClientHello xs = true ->
  exists b, encode_ClientHello xs = Z.to_N ClientCodeHello :: b /\
            decode_ClientHello (b ++ rest) = Ok (project 0 L_ClientHello xs) rest.
Proof. intros H. eexists; split; [reflexivity|]. now apply fields_roundtrip. Qed.

Lemma ServerHello_rt xs : fields_typed L_ServerHello xs = true ->
  exists b, encode_ServerHello v xs = Z.to_N ServerCodeHello :: b /\
            decode_ServerHello v (b ++ rest) = Ok (project v L_ServerHello xs) rest.
Proof. intros H. eexists; split; [reflexivity|]. now apply fields_roundtrip. Qed.

Lemma ClientInfo_rt xs : fields_typed L_ClientInfo xs = true ->
  decode_ClientInfo v (encode_ClientInfo v xs ++ rest) = Ok (project v L_ClientInfo xs) rest.
Proof. now apply fields_roundtrip. Qed.

Lemma ClientData_rt xs : fields_typed L_ClientData xs = true ->
  decode_ClientData v (encode_ClientData v xs ++ rest) = Ok (project v L_ClientData xs) rest.
Proof. now apply fields_roundtrip. Qed.

Lemma Progress_rt xs : fields_typed L_Progress xs = true ->
  decode_Progress v (encode_Progress v xs ++ rest) = Ok (project v L_Progress xs) rest.
Proof. now apply fields_roundtrip. Qed.

Lemma Profile_rt xs : fields_typed L_Profile xs = true ->
  exists b, encode_Profile xs = Z.to_N ServerCodeProfile :: b /\
            decode_Profile (b ++ rest) = Ok (project 0 L_Profile xs) rest.
Proof. intros H. eexists; split; [reflexivity|]. now apply fields_roundtrip. Qed.

Lemma Exception_rt xs : fields_typed L_Exception xs = true ->
  decode_Exception (encode_Exception xs ++ rest) = Ok (project 0 L_Exception xs) rest.
Proof. now apply fields_roundtrip. Qed.

Lemma TableColumns_rt xs : fields_typed L_TableColumns xs = true ->
  exists b, encode_TableColumns xs = Z.to_N ServerCodeTableColumns :: b /\
            decode_TableColumns (b ++ rest) = Ok (project 0 L_TableColumns xs) rest.
Proof. intros H. eexists; split; [reflexivity|]. now apply fields_roundtrip. Qed.
End Layouts.

(* messages without gates survive unchanged *)
Lemma project_nogate v l xs :
  forallb (fun f => match fgates f with [] => true | _ => false end) l = true ->
  fields_typed l xs = true -> project v l xs = xs.
Proof.
  revert xs; induction l as [|f l IH]; intros xs Hg Ht.
  - destruct xs; [reflexivity|discriminate].
  - destruct xs as [|x xs]; [discriminate|].
    cbn [forallb] in Hg. apply andb_true_iff in Hg as [Hf Hg].
    cbn [fields_typed] in Ht. apply andb_true_iff in Ht as [_ Ht].
    cbn [project]. destruct (fgates f); [|discriminate]. cbn [gate_in forallb].
    now rewrite IH.
Qed.

(* ---------- BlockInfo ---------------------------------------------------------------- *)
Lemma BlockInfo_loop_rt fuel i0 i rest :
  (3 <= fuel)%nat -> in_i32 (bi_bucket i) ->
  decode_BlockInfo_loop fuel i0 (encode_BlockInfo i ++ rest) = Ok i rest.
Proof.
  intros Hf Hb. destruct fuel as [|[|[|fuel]]]; try lia.
  unfold encode_BlockInfo. rewrite <- !app_assoc.
  cbn [decode_BlockInfo_loop]. unfold bind at 1.
  rewrite uvarint_put by (cbv; reflexivity).
  change (Z.to_N blockInfoOverflows =? Z.to_N blockInfoOverflows) with true. cbv iota.
  unfold bind at 1. rewrite get_bool_put.
  unfold bind at 1. rewrite uvarint_put by (cbv; reflexivity).
  change (Z.to_N blockInfoBucketNum =? Z.to_N blockInfoOverflows) with false.
  change (Z.to_N blockInfoBucketNum =? Z.to_N blockInfoBucketNum) with true. cbv iota.
  unfold bind at 1. rewrite get_i32_put by assumption.
  unfold bind at 1. rewrite uvarint_put by (cbv; reflexivity).
  change (Z.to_N endField =? Z.to_N blockInfoOverflows) with false.
  change (Z.to_N endField =? Z.to_N blockInfoBucketNum) with false.
  change (Z.to_N endField =? Z.to_N endField) with true. cbv iota.
  unfold ret. destruct i; reflexivity.
Qed.

Lemma BlockInfo_rt i0 i rest :
  in_i32 (bi_bucket i) -> decode_BlockInfo i0 (encode_BlockInfo i ++ rest) = Ok i rest.
Proof.
  intros H. unfold decode_BlockInfo. apply BlockInfo_loop_rt; [|assumption].
  rewrite app_length. unfold encode_BlockInfo. rewrite !app_length.
  change (length (put_bool (bi_overflows i))) with 1%nat.
  unfold put_i32, put_u32. rewrite le_put_length. lia.
Qed.

(* the loop never runs out of fuel: every iteration consumes a byte *)
Lemma BlockInfo_loop_fuel fuel : forall i s,
  (length s < fuel)%nat -> decode_BlockInfo_loop fuel i s <> Err EFuel.
Proof.
  induction fuel as [|fuel IH]; intros i s Hf; [lia|].
  cbn [decode_BlockInfo_loop]. unfold bind at 1.
  destruct (uvarint s) as [id s1|e|c] eqn:E1; try discriminate.
  - apply uvarint_consumes in E1.
    destruct (id =? Z.to_N blockInfoOverflows).
    + unfold bind at 1. destruct (get_bool s1) as [b s2|e|c] eqn:E2; try discriminate.
      * apply shrinks_get_bool in E2. apply IH. lia.
      * intros H; inversion H; subst. exact (nofuel_get_bool _ E2).
    + destruct (id =? Z.to_N blockInfoBucketNum).
      * unfold bind at 1. destruct (get_i32 s1) as [z s2|e|c] eqn:E2; try discriminate.
        -- apply shrinks_get_i32 in E2. apply IH. lia.
        -- intros H; inversion H; subst. exact (nofuel_get_i32 _ E2).
      * destruct (id =? Z.to_N endField); discriminate.
  - intros H; inversion H; subst. exact (nofuel_uvarint _ E1).
Qed.
Theorem BlockInfo_never_fuel i s : decode_BlockInfo i s <> Err EFuel.
Proof. unfold decode_BlockInfo. apply BlockInfo_loop_fuel. lia. Qed.

(* ---------- Settings / Query ---------------------------------------------------------- *)
Lemma setting_ok_spec s : setting_ok s = true ->
  s_key s <> [] /\ blen (s_key s) < 2 ^ 63 /\ blen (s_val s) < 2 ^ 63.
Proof.
  unfold setting_ok. intros H. apply andb_true_iff in H as [H H3]. apply andb_true_iff in H as [H1 H2].
  apply str_okb_spec in H2 as [_ H2]. apply str_okb_spec in H3 as [_ H3].
  split; [|split]; try assumption. destruct (s_key s); [discriminate|discriminate].
Qed.

Lemma flags_lt s : setting_flags s < 2 ^ 64.
Proof. unfold setting_flags. destruct (s_imp s), (s_cust s), (s_obs s); cbv; reflexivity. Qed.

Lemma decode_Setting_enc s rest : setting_ok s = true ->
  decode_Setting (encode_Setting s ++ rest) = Ok (Some s) rest.
Proof.
  intros H. apply setting_ok_spec in H as [Hk [Hkl Hvl]].
  unfold decode_Setting, encode_Setting. rewrite <- !app_assoc.
  unfold bind at 1. rewrite get_str_put by assumption.
  destruct (s_key s) as [|k0 ks] eqn:Ek; [contradiction|].
  unfold bind at 1. rewrite uvarint_put by apply flags_lt.
  unfold bind at 1. rewrite get_str_put by assumption.
  unfold ret. f_equal. f_equal.
  destruct s as [k vl i c o]. cbn [s_key s_val s_imp s_cust s_obs] in *. subst k.
  unfold setting_flags; cbn [s_imp s_cust s_obs].
  destruct i, c, o; reflexivity.
Qed.

Lemma decode_Settings_enc : forall ss fuel rest,
  (length ss < fuel)%nat -> forallb setting_ok ss = true ->
  decode_Settings fuel (concat (map encode_Setting ss) ++ put_str [] ++ rest) = Ok ss rest.
Proof.
  induction ss as [|s ss IH]; intros fuel rest Hf Hok.
  - destruct fuel as [|fuel]; [cbn in Hf; lia|].
    cbn [map concat app decode_Settings]. unfold bind at 1. unfold decode_Setting. unfold bind at 1.
    rewrite (get_str_put [] rest) by (cbv; reflexivity). reflexivity.
  - destruct fuel as [|fuel]; [cbn in Hf; lia|].
    cbn [forallb] in Hok. apply andb_true_iff in Hok as [Hs Hss].
    cbn [map concat decode_Settings]. rewrite <- app_assoc.
    unfold bind at 1. rewrite decode_Setting_enc by assumption.
    unfold bind at 1. rewrite IH by (try assumption; cbn in Hf; lia). reflexivity.
Qed.

Lemma encode_Setting_nonempty s : (1 <= length (encode_Setting s))%nat.
Proof.
  unfold encode_Setting, put_str, put_uvarint. rewrite !app_length.
  pose proof (put_uv_nonempty 9 (blen (s_key s) mod 2 ^ 64)) as H.
  destruct (put_uv 9 (blen (s_key s) mod 2 ^ 64)); [contradiction|cbn; lia].
Qed.
Lemma settings_length ss : (length ss <= length (concat (map encode_Setting ss)))%nat.
Proof.
  induction ss as [|s ss IH]; [cbn; lia|].
  cbn [map concat length]. rewrite app_length. pose proof (encode_Setting_nonempty s). lia.
Qed.
Lemma settings_length_f {X} (f : X -> setting) ps :
  (length ps <= length (concat (map (fun p => encode_Setting (f p)) ps)))%nat.
Proof.
  induction ps as [|s ss IH]; [cbn; lia|].
  cbn [map concat length]. rewrite app_length. pose proof (encode_Setting_nonempty (f s)). lia.
Qed.

Lemma mem_stage_lt n : mem_N n stages = true -> n < 256.
Proof. intros H. apply mem_N_lt in H. cbv in H. intuition subst; reflexivity. Qed.
Lemma mem_comp_lt n : mem_N n compressions = true -> n < 256.
Proof. intros H. apply mem_N_lt in H. cbv in H. intuition subst; reflexivity. Qed.

Theorem Query_rt v q rest :
  query_ok q = true -> gate v FeatureSettingsSerializedAsStrings = true ->
  exists b, encode_Query v q = Z.to_N ClientCodeQuery :: b /\
            decode_Query v (b ++ rest) = Ok (project_Query v q) rest.
Proof.
  intros Hok Hg. eexists; split; [reflexivity|].
  unfold query_ok in Hok. do 7 (apply andb_true_iff in Hok as [Hok ?]).
  match goal with H : str_okb (q_secret q) = true |- _ => apply str_okb_spec in H as [_ Hsec] end.
  match goal with H : str_okb (q_body q) = true |- _ => apply str_okb_spec in H as [_ Hbody] end.
  apply str_okb_spec in Hok as [_ Hid].
  unfold decode_Query.
  match goal with |- context [decode_Settings ?f] => set (fuel := f) end.
  assert (Hfuel1 : (length (q_settings q) < fuel)%nat).
  { subst fuel. rewrite Hg. rewrite !app_length. pose proof (settings_length (q_settings q)). lia. }
  assert (Hfuel2 : gate v FeatureParameters = true ->
                   (length (map param_setting (q_params q)) < fuel)%nat).
  { intros Hp. subst fuel. rewrite Hp. rewrite map_length, !app_length.
    pose proof (settings_length_f param_setting (q_params q)). lia. }
  clearbody fuel.
  rewrite Hg. cbn [negb].
  rewrite <- !app_assoc.
  unfold bind at 1. rewrite get_str_put by assumption.
  unfold bind at 1.
  assert (Hinfo : forall r, (if gate v FeatureClientWriteInfo then decode_ClientInfo v else ret blank_info)
             ((if gate v FeatureClientWriteInfo then encode_ClientInfo v (q_info q) else []) ++ r)
           = Ok (if gate v FeatureClientWriteInfo then project v L_ClientInfo (q_info q) else blank_info) r).
  { intros r. destruct (gate v FeatureClientWriteInfo); [now apply ClientInfo_rt|reflexivity]. }
  rewrite Hinfo.
  unfold bind at 1. rewrite decode_Settings_enc by assumption.
  unfold bind at 1.
  assert (Hsecret : forall r, (if gate v FeatureInterServerSecret then get_str else ret [])
             ((if gate v FeatureInterServerSecret then put_str (q_secret q) else []) ++ r)
           = Ok (if gate v FeatureInterServerSecret then q_secret q else []) r).
  { intros r. destruct (gate v FeatureInterServerSecret); [now apply get_str_put|reflexivity]. }
  rewrite Hsecret.
  unfold bind at 1. rewrite dec_enc_field
    by (cbn [fv_typed]; apply andb_true_iff; split; [assumption|]; apply N.ltb_lt; now apply mem_stage_lt).
  unfold bind at 1. rewrite dec_enc_field
    by (cbn [fv_typed]; apply andb_true_iff; split; [assumption|]; apply N.ltb_lt; now apply mem_comp_lt).
  unfold bind at 1. rewrite get_str_put by assumption.
  unfold bind at 1.
  assert (Hps : (if gate v FeatureParameters then decode_Settings fuel else ret [])
                ((if gate v FeatureParameters
                  then concat (map (fun p => encode_Setting (param_setting p)) (q_params q)) ++ put_str []
                  else []) ++ rest)
              = Ok (if gate v FeatureParameters then map param_setting (q_params q) else []) rest).
  { destruct (gate v FeatureParameters); [|reflexivity].
    rewrite <- app_assoc. rewrite <- (map_map param_setting encode_Setting).
    apply decode_Settings_enc.
    - now apply Hfuel2.
    - rewrite forallb_forall. intros s Hs. apply in_map_iff in Hs as [p [<- Hp]].
      match goal with H : forallb _ (q_params q) = true |- _ => rewrite forallb_forall in H; now apply H end. }
  rewrite Hps. unfold ret, project_Query. f_equal. f_equal.
  destruct (gate v FeatureParameters); [|reflexivity].
  rewrite map_map. cbn [param_setting s_key s_val]. rewrite <- (map_id (q_params q)) at 2.
  apply map_ext. intros [a b]; reflexivity.
Qed.

Theorem Query_unsupported_below v s :
  gate v FeatureSettingsSerializedAsStrings = false -> is_ok (decode_Query v s) = false.
Proof.
  intros Hg. unfold decode_Query. rewrite Hg. cbn [negb].
  unfold bind at 1. destruct (get_str s) as [id s1|e|c]; try reflexivity.
  unfold bind at 1.
  destruct ((if gate v FeatureClientWriteInfo then decode_ClientInfo v else ret blank_info) s1); reflexivity.
Qed.

(* ---------- block header ------------------------------------------------------------------ *)
Theorem BlockHeader_rt v i cols rows rest :
  in_i32 (bi_bucket i) -> (0 <= cols <= maxColumnsInBlock)%Z -> (0 <= rows <= maxRowsInBLock)%Z ->
  decode_BlockHeader v (encode_BlockHeader v i cols rows ++ rest)
  = Ok ((if gate v FeatureBlockInfo then i else blank_block_info), cols, rows) rest.
Proof.
  intros Hi Hc Hr. unfold decode_BlockHeader, encode_BlockHeader. rewrite <- !app_assoc.
  unfold bind at 1.
  assert (H : forall r, (if gate v FeatureBlockInfo then decode_BlockInfo blank_block_info else ret blank_block_info)
                ((if gate v FeatureBlockInfo then encode_BlockInfo i else []) ++ r)
              = Ok (if gate v FeatureBlockInfo then i else blank_block_info) r).
  { intros r. destruct (gate v FeatureBlockInfo); [now apply BlockInfo_rt|reflexivity]. }
  rewrite H. unfold bind at 1.
  assert (Hc64 : in_i64 cols) by (unfold in_i64; change maxColumnsInBlock with 1000000%Z in Hc; lia).
  assert (Hr64 : in_i64 rows) by (unfold in_i64; change maxRowsInBLock with 100000000%Z in Hr; lia).
  rewrite get_int_put by assumption.
  replace ((maxColumnsInBlock <? cols) || (cols <? 0))%Z with false by lia.
  unfold bind at 1. rewrite get_int_put by assumption.
  replace (rows <? 0)%Z with false by lia.
  replace (maxRowsInBLock <? rows)%Z with false by lia.
  reflexivity.
Qed.

(* ---------- monotonicity of every message decoder ------------------------------------------ *)
Lemma mono_decode_BlockInfo_loop fuel : forall i, mono (decode_BlockInfo_loop fuel i).
Proof.
  induction fuel as [|fuel IH]; intros i; cbn [decode_BlockInfo_loop]; [apply mono_fail|].
  apply mono_bind; [apply mono_uvarint|]. intros id.
  apply mono_if; [apply mono_bind; [apply mono_get_bool|intros; apply IH]|].
  apply mono_if; [apply mono_bind; [apply mono_get_i32|intros; apply IH]|].
  apply mono_if; [apply mono_ret|apply mono_fail].
Qed.

(* fuel: more fuel, same answer *)
Lemma BlockInfo_loop_more fuel : forall i s a r extra,
  decode_BlockInfo_loop fuel i s = Ok a r -> decode_BlockInfo_loop (fuel + extra) i s = Ok a r.
Proof.
  induction fuel as [|fuel IH]; intros i s a r extra H; [discriminate|].
  cbn [Nat.add decode_BlockInfo_loop] in *. unfold bind in *.
  destruct (uvarint s) as [id s1|e|c]; try discriminate.
  destruct (id =? Z.to_N blockInfoOverflows).
  - destruct (get_bool s1); try discriminate. now apply IH.
  - destruct (id =? Z.to_N blockInfoBucketNum).
    + destruct (get_i32 s1); try discriminate. now apply IH.
    + exact H.
Qed.

Lemma mono_decode_BlockInfo i : mono (decode_BlockInfo i).
Proof.
  intros s a r more H. unfold decode_BlockInfo in *.
  apply (mono_decode_BlockInfo_loop _ i _ _ _ more) in H.
  rewrite app_length. replace (S (length s + length more)) with (S (length s) + length more)%nat by lia.
  now apply BlockInfo_loop_more.
Qed.

Lemma mono_decode_Setting : mono decode_Setting.
Proof.
  apply mono_bind; [apply mono_get_str|]. intros [|k0 ks]; [apply mono_ret|].
  apply mono_bind; [apply mono_uvarint|]. intros fl.
  apply mono_bind; [apply mono_get_str|]. intros vl. apply mono_ret.
Qed.
Lemma mono_decode_Settings fuel : mono (decode_Settings fuel).
Proof.
  induction fuel as [|fuel IH]; cbn [decode_Settings]; [apply mono_fail|].
  apply mono_bind; [apply mono_decode_Setting|]. intros [s|]; [|apply mono_ret].
  apply mono_bind; [assumption|]. intros; apply mono_ret.
Qed.
Lemma decode_Settings_more fuel : forall s a r extra,
  decode_Settings fuel s = Ok a r -> decode_Settings (fuel + extra) s = Ok a r.
Proof.
  induction fuel as [|fuel IH]; intros s a r extra H; [discriminate|].
  cbn [Nat.add decode_Settings] in *. unfold bind in *.
  destruct (decode_Setting s) as [[x|] s1|e|c]; try discriminate; [|exact H].
  destruct (decode_Settings fuel s1) as [xs s2|e|c] eqn:E; try discriminate.
  now rewrite (IH _ _ _ extra E).
Qed.

Lemma mono_decode_Query v : mono (decode_Query v).
Proof.
  intros s0 a r more H. unfold decode_Query in *.
  rewrite app_length.
  replace (S (length s0 + length more)) with (S (length s0) + length more)%nat by lia.
  revert H. generalize (S (length s0)). intros fuel H.
  unfold bind in *.
  destruct (get_str s0) as [id s1|e|c] eqn:E1; try discriminate.
  rewrite (mono_get_str _ _ _ more E1).
  destruct ((if gate v FeatureClientWriteInfo then decode_ClientInfo v else ret blank_info) s1)
    as [info s2|e|c] eqn:E2; try discriminate.
  assert (M2 : mono (if gate v FeatureClientWriteInfo then decode_ClientInfo v else ret blank_info))
    by (apply mono_if; [apply mono_decode_fields|apply mono_ret]).
  rewrite (M2 _ _ _ more E2).
  destruct (negb (gate v FeatureSettingsSerializedAsStrings)); [discriminate|].
  destruct (decode_Settings fuel s2) as [sets s3|e|c] eqn:E3; try discriminate.
  rewrite (decode_Settings_more _ _ _ _ (length more) (mono_decode_Settings _ _ _ _ more E3)).
  destruct ((if gate v FeatureInterServerSecret then get_str else ret []) s3) as [sec s4|e|c] eqn:E4; try discriminate.
  assert (M4 : mono (if gate v FeatureInterServerSecret then get_str else ret []))
    by (apply mono_if; [apply mono_get_str|apply mono_ret]).
  rewrite (M4 _ _ _ more E4).
  destruct (dec_field (KEnumUV stages) s4) as [st s5|e|c] eqn:E5; try discriminate.
  rewrite (mono_dec_field _ _ _ _ more E5).
  destruct (dec_field (KEnumUV compressions) s5) as [cp s6|e|c] eqn:E6; try discriminate.
  rewrite (mono_dec_field _ _ _ _ more E6).
  destruct (get_str s6) as [body s7|e|c] eqn:E7; try discriminate.
  rewrite (mono_get_str _ _ _ more E7).
  destruct (gate v FeatureParameters).
  - destruct (decode_Settings fuel s7) as [ps s8|e|c] eqn:E8; try discriminate.
    rewrite (decode_Settings_more _ _ _ _ (length more) (mono_decode_Settings _ _ _ _ more E8)).
    unfold ret in *. inversion H; subst. reflexivity.
  - unfold ret in *. inversion H; subst. reflexivity.
Qed.

Lemma mono_decode_BlockHeader v : mono (decode_BlockHeader v).
Proof.
  apply mono_bind.
  - apply mono_if; [apply mono_decode_BlockInfo|apply mono_ret].
  - intros i. apply mono_bind; [apply mono_get_int|]. intros c.
    apply mono_if; [apply mono_fail|].
    apply mono_bind; [apply mono_get_int|]. intros r.
    apply mono_if; [apply mono_fail|]. apply mono_if; [apply mono_fail|apply mono_ret].
Qed.

(* ---------- gate signatures regenerated from the Go source --------------------------------- *)
From Coq Require Import String.
Open Scope string_scope.
Definition enc_prim (k : fkind) : list string :=
  match k with
  | KStr => ["PutString"] | KInt => ["PutInt"] | KUVar => ["PutUVarInt"] | KU8 => ["PutByte"]
  | KEnum8 _ => ["PutByte"] | KEnumUV _ => ["call"] | KI32 => ["PutInt32"] | KI64 => ["PutInt64"]
  | KBool => ["PutBool"] | KBoolInt => ["PutInt"; "PutInt"]
  | KSpan => ["PutByte"; "Swap64"; "Swap64"; "PutString"; "PutByte"; "PutByte"]
  end.
Definition dec_prim (k : fkind) : list string :=
  match k with
  | KStr => ["Str"] | KInt => ["Int"] | KUVar => ["UVarInt"] | KU8 => ["UInt8"]
  | KEnum8 _ => ["UInt8"] | KEnumUV _ => ["UVarInt"] | KI32 => ["Int32"] | KI64 => ["Int64"]
  | KBool => ["Bool"] | KBoolInt => ["Int"]
  | KSpan => ["Bool"; "ReadRaw"; "Swap64"; "ReadRaw"; "Swap64"; "Str"; "Byte"]
  end.
Definition sig_of (prims : fkind -> list string) (l : layout) : list (list N * string) :=
  flat_map (fun f => map (fun p => (fgates f, p)) (prims (fk f))) l.

Fixpoint listN_eqb (a b : list N) : bool :=
  match a, b with
  | [], [] => true
  | x :: a', y :: b' => (x =? y)%N && listN_eqb a' b'
  | _, _ => false
  end.
Fixpoint sig_eqb (a b : list (list N * string)) : bool :=
  match a, b with
  | [], [] => true
  | (g1, p1) :: a', (g2, p2) :: b' => listN_eqb g1 g2 && String.eqb p1 p2 && sig_eqb a' b'
  | _, _ => false
  end.
(* drop a leading packet-code call from an encoder signature *)
Definition drop_code (s : list (list N * string)) : list (list N * string) :=
  match s with
  | (_, p) :: s' => if String.prefix "call:" p then s' else s
  | [] => []
  end.

Definition gatesigs_ok : bool :=
  sig_eqb (drop_code sig_ClientHello_Encode) (sig_of enc_prim L_ClientHello) &&
  sig_eqb sig_ClientHello_Decode (sig_of dec_prim L_ClientHello) &&
  sig_eqb (drop_code sig_ServerHello_EncodeAware) (sig_of enc_prim L_ServerHello) &&
  sig_eqb sig_ServerHello_DecodeAware (sig_of dec_prim L_ServerHello) &&
  sig_eqb sig_ClientInfo_EncodeAware (sig_of enc_prim L_ClientInfo) &&
  sig_eqb sig_ClientInfo_DecodeAware (sig_of dec_prim L_ClientInfo) &&
  sig_eqb sig_ClientData_EncodeAware (sig_of enc_prim L_ClientData) &&
  sig_eqb sig_ClientData_DecodeAware (sig_of dec_prim L_ClientData) &&
  sig_eqb sig_Progress_EncodeAware (sig_of enc_prim L_Progress) &&
  sig_eqb sig_Progress_DecodeAware (sig_of dec_prim L_Progress) &&
  sig_eqb (drop_code sig_Profile_EncodeAware) (sig_of enc_prim L_Profile) &&
  sig_eqb sig_Profile_DecodeAware (sig_of dec_prim L_Profile) &&
  sig_eqb sig_Exception_EncodeAware (sig_of enc_prim L_Exception) &&
  sig_eqb sig_Exception_DecodeAware (sig_of dec_prim L_Exception) &&
  sig_eqb (drop_code sig_TableColumns_EncodeAware) (sig_of enc_prim L_TableColumns) &&
  sig_eqb sig_TableColumns_DecodeAware (sig_of dec_prim L_TableColumns) &&
  (* the hand-modelled messages: the source must still have the shape the model mirrors *)
  sig_eqb sig_Query_EncodeAware
    [([], "call:ClientCodeQuery"); ([], "PutString"); ([FeatureClientWriteInfo], "call:q.Info");
     ([FeatureSettingsSerializedAsStrings], "loop{"); ([FeatureSettingsSerializedAsStrings], "call:s");
     ([FeatureSettingsSerializedAsStrings], "}"); ([], "PutString");
     ([FeatureInterServerSecret], "PutString"); ([], "call:q.Stage"); ([], "call:q.Compression");
     ([], "PutString"); ([FeatureParameters], "loop{"); ([FeatureParameters], "call:p");
     ([FeatureParameters], "}"); ([FeatureParameters], "PutString")] &&
  sig_eqb sig_Query_DecodeAware
    [([], "Str"); ([FeatureClientWriteInfo], "call:q.Info"); ([], "loop{"); ([], "call:s"); ([], "}");
     ([FeatureInterServerSecret], "Str"); ([], "UVarInt"); ([], "UVarInt"); ([], "Str");
     ([FeatureParameters], "loop{"); ([FeatureParameters], "call:p"); ([FeatureParameters], "}")] &&
  sig_eqb sig_Setting_Encode [([], "PutString"); ([], "PutUVarInt"); ([], "PutString")] &&
  sig_eqb sig_Setting_Decode [([], "Str"); ([], "UVarInt"); ([], "Str")] &&
  sig_eqb sig_Parameter_Decode [([], "call:s")] &&
  sig_eqb sig_BlockInfo_Encode
    [([], "PutUVarInt"); ([], "PutBool"); ([], "PutUVarInt"); ([], "PutInt32"); ([], "PutUVarInt")] &&
  sig_eqb sig_BlockInfo_Decode
    [([], "loop{"); ([], "UVarInt"); ([], "Bool"); ([], "Int32"); ([], "}")] &&
  sig_eqb sig_Block_EncodeAware [([FeatureBlockInfo], "call:b.Info"); ([], "PutInt"); ([], "PutInt")] &&
  sig_eqb sig_InputColumn_EncodeStart
    [([], "PutString"); ([], "PutString"); ([FeatureCustomSerialization], "PutBool")].
