(* C08 for the column layer: every column decoder of model/Columns.v is realised by a reader program, so
   decode_chunk_independent applies to it - for every type tree, build and declared row count. *)
From CH Require Import model.Columns model.Stream model.StreamCols proofs.PrimProofs proofs.ColumnsProofs proofs.ColumnsProofs2
  proofs.StreamProofs.
From CH Require Import gen.Codes gen.Consts.
Open Scope N_scope.
Open Scope list_scope.

Lemma realizes_read_nN n : realizes (r_read_nN n) (read_nN n).
Proof.
  unfold r_read_nN.
  apply (realizes_ext _ (fun s => (fun av => if n <=? N.of_nat av then read_n (N.to_nat n) else fail EEof) (length s) s)).
  - intros s. unfold read_nN, blen, fail. destruct (n <=? N.of_nat (length s)); reflexivity.
  - apply (realizes_avail (fun av => if n <=? N.of_nat av then r_read_n (N.to_nat n) else RFail EEof)
                          (fun av => if n <=? N.of_nat av then read_n (N.to_nat n) else fail EEof)).
    intros av. apply realizes_if; [apply realizes_read_n|apply realizes_fail].
Qed.

Lemma realizes_read_rawN n : realizes (r_read_rawN n) (read_rawN n).
Proof. apply realizes_bind; [apply realizes_alloc|intros _; apply realizes_read_nN]. Qed.

Lemma realizes_repN {A} n (P : rd A) p : realizes P p -> realizes (r_repN n P) (repN n p).
Proof.
  intros HP. unfold r_repN.
  apply (realizes_ext _ (fun s => (fun av => if n <=? N.of_nat av then rep (N.to_nat n) p
                                            else bind (rep av p) (fun _ => fail EEof)) (length s) s)).
  - intros s. unfold repN, blen, bind, fail. destruct (n <=? N.of_nat (length s)); [reflexivity|].
    destruct (rep (length s) p s); reflexivity.
  - apply (realizes_avail (fun av => if n <=? N.of_nat av then r_rep (N.to_nat n) P
                                     else rbind (r_rep av P) (fun _ => RFail EEof))
                          (fun av => if n <=? N.of_nat av then rep (N.to_nat n) p
                                     else bind (rep av p) (fun _ => fail EEof))).
    intros av. apply realizes_if; [now apply realizes_rep|].
    apply realizes_bind; [now apply realizes_rep|intros; apply realizes_fail].
Qed.

Lemma realizes_dec_fix w n : realizes (r_dec_fix w n) (dec_fix w n).
Proof.
  unfold r_dec_fix, dec_fix. apply realizes_if; [apply realizes_ret|].
  apply realizes_bind; [apply realizes_read_rawN|intros; apply realizes_ret].
Qed.

Lemma realizes_check_rows z : realizes (r_check_rows z) (check_rows z).
Proof.
  unfold r_check_rows, check_rows. apply realizes_if; [apply realizes_fail|].
  apply realizes_if; [apply realizes_fail|apply realizes_ret].
Qed.

Lemma realizes_dec_bool b n : realizes (r_dec_bool b n) (dec_bool b n).
Proof.
  destruct b; unfold r_dec_bool, dec_bool.
  - apply realizes_bind; [apply realizes_read_rawN|]. intros bs. apply realizes_if; [apply realizes_ret|apply realizes_fail].
  - apply realizes_if; [apply realizes_ret|apply realizes_read_rawN].
Qed.

Lemma realizes_crash {A} c : realizes (@RCrsh A c) (fun _ => Crash c).
Proof. intros H decomp s Hc. cbn. split; [reflexivity|exact I]. Qed.

Lemma realizes_dec_seq {T D} (F : T -> rd D) (f : T -> parser D) ts :
  Forall (fun t => realizes (F t) (f t)) ts -> realizes (r_dec_seq F ts) (dec_seq f ts).
Proof.
  induction 1 as [|t0 ts' H0 Hts IH]; cbn [r_dec_seq dec_seq]; [apply realizes_ret|].
  apply realizes_bind; [exact H0|]. intros d0. apply realizes_bind; [exact IH|intros; apply realizes_ret].
Qed.

Lemma realizes_unit_seq {T} (F : T -> rd unit) (f : T -> parser unit) ts :
  Forall (fun t => realizes (F t) (f t)) ts -> realizes (r_unit_seq F ts) (unit_seq f ts).
Proof.
  induction 1 as [|t0 ts' H0 Hts IH]; cbn [r_unit_seq unit_seq]; [apply realizes_ret|].
  apply realizes_bind; [exact H0|intros; exact IH].
Qed.

Theorem realizes_dec_state t : realizes (r_dec_state t) (dec_state t).
Proof.
  induction t as [name w| | | | |sz| | |name w defs|t IH|t IH|t IH|k v IHk IHv|ts IH|name t IH] using ty_ind';
    cbn [r_dec_state dec_state]; try apply realizes_ret; try exact IH.
  - apply realizes_bind; [apply realizes_get_u64|]. intros v. apply realizes_if; [apply realizes_ret|apply realizes_fail].
  - apply realizes_bind; [apply realizes_get_i64|]. intros v. apply realizes_if; [exact IH|apply realizes_fail].
  - apply realizes_bind; [exact IHk|intros; exact IHv].
  - now apply realizes_unit_seq.
Qed.

Theorem realizes_dec b t : forall n, realizes (r_dec b t n) (dec b t n).
Proof.
  induction t as [name w| | | | |sz| | |name w defs|t IH|t IH|t IH|k v IHk IHv|ts IH|name t IH] using ty_ind';
    intros n; cbn [r_dec dec].
  - apply realizes_pmap, realizes_dec_fix.
  - apply realizes_pmap, realizes_dec_bool.
  - destruct b.
    + apply realizes_bind; [apply realizes_read_rawN|intros; apply realizes_ret].
    + apply realizes_if; [apply realizes_ret|]. apply realizes_bind; [apply realizes_read_rawN|intros; apply realizes_ret].
  - apply realizes_pmap, realizes_repN, realizes_get_str.
  - apply realizes_pmap, realizes_repN, realizes_get_str.
  - destruct sz; [apply realizes_if; [apply realizes_fail|apply realizes_ret]|apply realizes_pmap, realizes_read_rawN].
  - apply realizes_if; [apply realizes_ret|]. apply realizes_bind; [apply realizes_read_rawN|intros; apply realizes_ret].
  - apply realizes_bind; [apply realizes_dec_fix|]. intros xs. apply realizes_bind; [apply realizes_dec_fix|intros; apply realizes_ret].
  - apply realizes_bind; [apply realizes_dec_fix|]. intros raw.
    destruct (mapM _ raw); [apply realizes_ret|apply realizes_fail].
  - apply realizes_bind; [apply realizes_dec_fix|]. intros offs.
    apply realizes_if; [apply realizes_fail|].
    apply realizes_bind; [apply realizes_check_rows|]. intros size.
    apply realizes_bind; [apply IH|intros; apply realizes_ret].
  - apply realizes_bind; [apply realizes_dec_fix|]. intros nulls.
    apply realizes_bind; [apply IH|intros; apply realizes_ret].
  - apply realizes_if; [apply realizes_ret|].
    apply realizes_bind; [apply realizes_get_i64|]. intros meta. cbv zeta.
    apply realizes_if; [apply realizes_fail|]. apply realizes_if; [apply realizes_fail|].
    apply realizes_bind; [apply realizes_get_i64|]. intros irows.
    apply realizes_bind; [apply realizes_check_rows|]. intros isz.
    apply realizes_bind; [apply IH|]. intros idx.
    apply realizes_bind; [apply realizes_get_i64|]. intros krows.
    apply realizes_bind; [apply realizes_check_rows|]. intros _.
    apply realizes_bind; [apply realizes_dec_fix|]. intros keys.
    apply realizes_if; [apply realizes_fail|].
    destruct (mapM _ keys); [apply realizes_ret|apply realizes_crash].
  - apply realizes_if; [apply realizes_ret|].
    apply realizes_bind; [apply realizes_dec_fix|]. intros offs.
    apply realizes_if; [apply realizes_fail|].
    apply realizes_bind; [apply realizes_check_rows|]. intros cnt.
    apply realizes_bind; [apply IHk|]. intros dk.
    apply realizes_bind; [apply IHv|intros; apply realizes_ret].
  - apply realizes_pmap, realizes_dec_seq. eapply Forall_impl; [|exact IH]. intros t0 H0. apply H0.
  - apply IH.
Qed.

Theorem realizes_dec_column b t n : realizes (r_dec_column b t n) (dec_column b t n).
Proof.
  unfold r_dec_column, dec_column. apply realizes_if; [apply realizes_ret|].
  apply realizes_bind; [apply realizes_dec_state|intros; apply realizes_dec].
Qed.
