(* Round trip of the column codecs (C01), for every type tree and every well-formed contents. *)
From CH Require Import model.Columns proofs.PrimProofs.
From CH Require Import gen.Codes gen.Consts.
From Coq Require Import ZifyN ZifyNat ZifyBool.
Ltac Zify.zify_post_hook ::= Z.div_mod_to_equations.
Open Scope N_scope.
Open Scope list_scope.

(* ---------- an induction principle that reaches inside tuples ---------------- *)
Section TyInd.
  Variable P : ty -> Prop.
  Hypothesis Hfix : forall name w, P (TFix name w).
  Hypothesis Hbool : P TBool.
  Hypothesis Huuid : P TUUID.
  Hypothesis Hstr : P TStr.
  Hypothesis Hjson : P TJSON.
  Hypothesis Hfs : forall n, P (TFixedStr n).
  Hypothesis Hnothing : P TNothing.
  Hypothesis Hpoint : P TPoint.
  Hypothesis Henum : forall name w defs, P (TEnum name w defs).
  Hypothesis Harr : forall t, P t -> P (TArr t).
  Hypothesis Hnull : forall t, P t -> P (TNullable t).
  Hypothesis Hlc : forall t, P t -> P (TLowCard t).
  Hypothesis Hmap : forall k v, P k -> P v -> P (TMap k v).
  Hypothesis Htuple : forall ts, Forall P ts -> P (TTuple ts).
  Hypothesis Hnamed : forall name t, P t -> P (TNamed name t).

  Fixpoint ty_ind' (t : ty) : P t :=
    match t with
    | TFix name w => Hfix name w
    | TBool => Hbool | TUUID => Huuid | TStr => Hstr | TJSON => Hjson
    | TFixedStr n => Hfs n
    | TNothing => Hnothing | TPoint => Hpoint
    | TEnum name w defs => Henum name w defs
    | TArr t' => Harr t' (ty_ind' t')
    | TNullable t' => Hnull t' (ty_ind' t')
    | TLowCard t' => Hlc t' (ty_ind' t')
    | TMap k v => Hmap k v (ty_ind' k) (ty_ind' v)
    | TTuple ts =>
      Htuple ts ((fix go (ts : list ty) : Forall P ts :=
                    match ts with
                    | [] => Forall_nil P
                    | t0 :: ts' => Forall_cons t0 (ty_ind' t0) (go ts')
                    end) ts)
    | TNamed name t' => Hnamed name t' (ty_ind' t')
    end.
End TyInd.

(* ---------- lists of fixed-width chunks ------------------------------------------ *)
Lemma chunks_concat (w : nat) (l : list bytes) rest :
  Forall (fun x => length x = w) l ->
  chunks w (length l) (List.concat l ++ rest) = l.
Proof.
  induction 1 as [|x l Hx Hl IH]; cbn [List.concat length chunks]; [reflexivity|].
  rewrite <- app_assoc. subst w.
  rewrite firstn_app, Nat.sub_diag, firstn_all, firstn_O, app_nil_r.
  rewrite skipn_app, Nat.sub_diag, skipn_all, skipn_O. cbn [app].
  now rewrite IH.
Qed.

Lemma concat_length_const (w : nat) (l : list bytes) :
  Forall (fun x => length x = w) l -> length (List.concat l) = (length l * w)%nat.
Proof.
  induction 1 as [|x l Hx Hl IH]; cbn [List.concat length]; [reflexivity|].
  rewrite app_length, IH. lia.
Qed.

Lemma enc_fix_eq b w vs : enc_fix b w vs = List.concat (map (le_put w) vs).
Proof. destruct b; reflexivity. Qed.

Lemma enc_fix_length b w vs : length (enc_fix b w vs) = (length vs * w)%nat.
Proof.
  rewrite enc_fix_eq, (concat_length_const w).
  - now rewrite map_length.
  - apply Forall_forall. intros x Hx. apply in_map_iff in Hx as [v [<- _]]. apply le_put_length.
Qed.

Lemma alloc_present n s : n <= blen s -> alloc n s = Ok tt s.
Proof.
  unfold alloc, alloc_ok, blen. intros H.
  replace (n <=? 2 * N.of_nat (length s) + 4096) with true by lia.
  now rewrite orb_true_r.
Qed.

Lemma read_rawN_app a rest : read_rawN (blen a) (a ++ rest) = Ok a rest.
Proof.
  unfold read_rawN, bind. rewrite alloc_present.
  - apply read_nN_app.
  - unfold blen. rewrite app_length. lia.
Qed.

Lemma dec_fix_enc b w vs rest :
  Forall (fun v => v < 256 ^ N.of_nat w) vs ->
  dec_fix w (blen vs) (enc_fix b w vs ++ rest) = Ok vs rest.
Proof.
  intros Hvs. unfold dec_fix.
  destruct (blen vs =? 0) eqn:E.
  - destruct vs; [|unfold blen in E; cbn [length] in E; lia]. rewrite enc_fix_eq. reflexivity.
  - unfold bind.
    replace (blen vs * N.of_nat w) with (blen (enc_fix b w vs))
      by (unfold blen; rewrite enc_fix_length; lia).
    rewrite read_rawN_app. unfold ret. f_equal.
    unfold blen. rewrite Nat2N.id.
    rewrite <- (app_nil_r (enc_fix b w vs)), enc_fix_eq.
    rewrite <- (map_length (le_put w) vs).
    rewrite chunks_concat.
    + rewrite map_map. rewrite <- (map_id vs) at 2. apply map_ext_in.
      intros v Hv. apply le_get_put_small. rewrite Forall_forall in Hvs. now apply Hvs.
    + apply Forall_forall. intros x Hx. apply in_map_iff in Hx as [v [<- _]]. apply le_put_length.
Qed.

(* ---------- equality tests --------------------------------------------------------- *)
Lemma bytes_eqb_eq a : forall b, bytes_eqb a b = true -> a = b.
Proof.
  induction a as [|x a IH]; intros [|y b] H; cbn [bytes_eqb] in H; try discriminate; [reflexivity|].
  apply andb_true_iff in H as [H1 H2]. apply N.eqb_eq in H1. subst. f_equal. now apply IH.
Qed.
Lemma bytes_eqb_refl a : bytes_eqb a a = true.
Proof. induction a as [|x a IH]; cbn [bytes_eqb]; [reflexivity|]. now rewrite N.eqb_refl, IH. Qed.

(* values of the element types a dictionary is built over *)
Definition flat (v : val) : Prop :=
  match v with VN _ | VBool _ | VB _ | VUnit | VPoint _ _ => True | _ => False end.

Lemma val_eqb_eq_flat a b : flat a -> val_eqb a b = true -> a = b.
Proof.
  destruct a, b; cbn; intros Hf H; try discriminate; try contradiction.
  - apply N.eqb_eq in H. now subst.
  - apply Bool.eqb_prop in H. now subst.
  - apply bytes_eqb_eq in H. now subst.
  - reflexivity.
  - apply andb_true_iff in H as [H1 H2]. apply N.eqb_eq in H1, H2. now subst.
Qed.

Lemma val_eqb_refl_flat a : flat a -> val_eqb a a = true.
Proof.
  destruct a; cbn; intros Hf; try contradiction.
  - apply N.eqb_refl.
  - apply Bool.eqb_reflx.
  - apply bytes_eqb_refl.
  - reflexivity.
  - now rewrite !N.eqb_refl.
Qed.

Lemma has_ty_flat t v : lc_elem t = true -> has_ty t v = true -> flat v.
Proof. destruct t, v; cbn; intros; try discriminate; exact I. Qed.

(* ---------- dedup / index_of --------------------------------------------------------- *)
Lemma index_of_nth x l k : index_of x l = Some k ->
  exists y, nth_error l k = Some y /\ val_eqb x y = true.
Proof.
  revert k; induction l as [|y l IH]; intros k H; cbn [index_of] in H; [discriminate|].
  destruct (val_eqb x y) eqn:E.
  - injection H as <-. exists y. now split.
  - destruct (index_of x l) as [j|] eqn:Ej; [|discriminate]. injection H as <-.
    destruct (IH j eq_refl) as [z [Hz Hxz]]. exists z. now split.
Qed.

Lemma index_of_complete x l : flat x -> In x l -> exists k, index_of x l = Some k.
Proof.
  intros Hf. induction l as [|y l IH]; intros Hin; [destruct Hin|].
  cbn [index_of]. destruct (val_eqb x y) eqn:E; [now exists O|].
  destruct Hin as [->|Hin].
  - now rewrite val_eqb_refl_flat in E.
  - destruct (IH Hin) as [k Hk]. rewrite Hk. now exists (S k).
Qed.

Lemma mem_val_in x l : flat x -> mem_val x l = true -> In x l.
Proof.
  unfold mem_val. intros Hf H. destruct (index_of x l) as [k|] eqn:E; [|discriminate].
  destruct (index_of_nth _ _ _ E) as [y [Hy Hxy]].
  apply val_eqb_eq_flat in Hxy; [|assumption]. subst y. eapply nth_error_In; eassumption.
Qed.

Lemma dedup_acc_prefix l : forall seen,
  exists ext, dedup_acc seen l = seen ++ ext /\ (forall x, In x ext -> In x l) /\ (length ext <= length l)%nat.
Proof.
  induction l as [|y l IH]; intros seen; cbn [dedup_acc].
  - exists []. rewrite app_nil_r. repeat split; [intros x []|cbn; lia].
  - destruct (mem_val y seen).
    + destruct (IH seen) as [ext [E [Hin Hlen]]]. exists ext. repeat split; [exact E| |cbn [length]; lia].
      intros x Hx. right. now apply Hin.
    + destruct (IH (seen ++ [y])) as [ext [E [Hin Hlen]]]. exists (y :: ext).
      rewrite E, <- app_assoc. repeat split; [|cbn [length]; lia].
      intros x [->|Hx]; [now left|right; now apply Hin].
Qed.

Lemma dedup_acc_covers l : forall seen, Forall flat l ->
  forall x, In x l -> In x (dedup_acc seen l).
Proof.
  induction l as [|y l IH]; intros seen Hfl x Hx; [destruct Hx|].
  inversion Hfl as [|? ? Hy Hl]; subst. cbn [dedup_acc].
  destruct Hx as [->|Hx].
  - destruct (mem_val x seen) eqn:E.
    + apply mem_val_in in E; [|assumption].
      destruct (dedup_acc_prefix l seen) as [ext [-> _]]. apply in_or_app. now left.
    + destruct (dedup_acc_prefix l (seen ++ [x])) as [ext [-> _]].
      apply in_or_app. left. apply in_or_app. right. now left.
  - destruct (mem_val y seen); now apply IH.
Qed.

Lemma dedup_sub l x : In x (dedup l) -> In x l.
Proof.
  unfold dedup. destruct (dedup_acc_prefix l []) as [ext [-> [Hin _]]]. cbn [app]. apply Hin.
Qed.
Lemma dedup_length l : (length (dedup l) <= length l)%nat.
Proof.
  unfold dedup. destruct (dedup_acc_prefix l []) as [ext [-> [_ Hlen]]]. cbn [app]. exact Hlen.
Qed.
Lemma dedup_index l : Forall flat l -> forall x, In x l ->
  exists k, index_of x (dedup l) = Some k /\ nth_error (dedup l) k = Some x.
Proof.
  intros Hfl x Hx.
  assert (Hf : flat x) by (rewrite Forall_forall in Hfl; now apply Hfl).
  destruct (index_of_complete x (dedup l) Hf (dedup_acc_covers l [] Hfl x Hx)) as [k Hk].
  exists k. split; [exact Hk|].
  destruct (index_of_nth _ _ _ Hk) as [y [Hy Hxy]].
  apply val_eqb_eq_flat in Hxy; [|assumption]. now subst y.
Qed.

(* ---------- well-formed column contents ------------------------------------------------ *)
Definition max_rows : N := Z.to_N maxRowsInBLock.

(* [wfd t n d]: d is what a prepared column object of type t with exactly n rows holds *)
Fixpoint wfd (t : ty) (n : N) (d : cdata) : Prop :=
  match t, d with
  | TFix _ w, DFix vs => blen vs = n /\ Forall (fun v => v < 256 ^ N.of_nat w) vs
  | TBool, DBool vs => blen vs = n /\ Forall (fun v => v = 0 \/ v = 1) vs
  | TUUID, DBytes vs =>
    N.of_nat (length vs) = n /\ Forall (fun x => length x = 16%nat /\ wf_bytes x) vs
  | TStr, DBytes vs | TJSON, DBytes vs =>
    N.of_nat (length vs) = n /\ Forall (fun x => wf_bytes x /\ blen x < 2 ^ 63) vs
  | TFixedStr sz, DFixedStr buf => blen buf = n * N.of_nat sz /\ wf_bytes buf
  | TNothing, DNothing m => m = n
  | TPoint, DPoint xs ys =>
    blen xs = n /\ blen ys = n /\ Forall (fun v => v < 2 ^ 64) xs /\ Forall (fun v => v < 2 ^ 64) ys
  | TEnum _ w defs, DEnum vals raw =>
    N.of_nat (length vals) = n /\
    exists zs, mapM (enum_str_to_raw defs) vals = Some zs /\ raw = map (wrapN (8 * N.of_nat w)) zs
  | TArr t', DArr offs d' =>
    blen offs = n /\ monotoneb 0 offs = true /\ last_or0 offs <= max_rows /\ wfd t' (last_or0 offs) d'
  | TNullable t', DNullable nulls d' =>
    blen nulls = n /\ Forall (fun v => v < 256) nulls /\ wfd t' n d'
  | TLowCard t', DLowCard vals idx key keys =>
    N.of_nat (length vals) = n /\ forallb (has_ty t') vals = true /\ prepare t d = Some d
  | TMap tk tv, DMap offs dk dv =>
    blen offs = n /\ monotoneb 0 offs = true /\ last_or0 offs <= max_rows /\
    wfd tk (last_or0 offs) dk /\ wfd tv (last_or0 offs) dv
  | TTuple ts, DTuple ds => all2 (fun t0 d0 => wfd t0 n d0) ts ds
  | TNamed _ t', _ => wfd t' n d
  | _, _ => False
  end.

Lemma blen_0 {A} (l : list A) : N.of_nat (length l) = 0 -> l = [].
Proof. destruct l; [reflexivity|cbn [length]; lia]. Qed.

Lemma last_or0_nil : last_or0 [] = 0. Proof. reflexivity. Qed.

(* a column with no rows holds nothing: it is the reset column *)
Lemma wfd_zero t : forall d, wf_ty t = true -> wfd t 0 d -> d = empty t.
Proof.
  induction t as [name w| | | | |sz| | |name w defs|t IH|t IH|t IH|k v IHk IHv|ts IH|name t IH] using ty_ind';
    intros d Hwt H; cbn [empty];
    lazymatch goal with
    | H : wfd (TNamed _ _) _ _ |- _ => idtac
    | _ => destruct d; cbn [wfd] in H; try contradiction
    end.
  - destruct H as [H _]. apply blen_0 in H. now subst.
  - destruct H as [H _]. apply blen_0 in H. now subst.
  - destruct H as [H _]. apply blen_0 in H. now subst.
  - destruct H as [H _]. apply blen_0 in H. now subst.
  - destruct H as [H _]. apply blen_0 in H. now subst.
  - destruct H as [H _]. unfold blen in H. destruct buf; [reflexivity|cbn [length] in H; lia].
  - now subst.
  - destruct H as [H1 [H2 _]]. apply blen_0 in H1, H2. now subst.
  - destruct H as [H1 [zs [H2 H3]]]. apply blen_0 in H1. subst vals. cbn [mapM] in H2.
    injection H2 as <-. now subst raw.
  - destruct H as [H1 [_ [_ H4]]]. apply blen_0 in H1. subst offs. rewrite last_or0_nil in H4.
    cbn [wf_ty] in Hwt. now rewrite (IH d Hwt H4).
  - destruct H as [H1 [_ H3]]. apply blen_0 in H1. subst nulls.
    cbn [wf_ty] in Hwt. now rewrite (IH d Hwt H3).
  - destruct H as [H1 [_ H3]]. apply blen_0 in H1. subst vals.
    cbn in H3. unfold of_rows in H3. cbn in H3. now injection H3 as <- <- <-.
  - destruct H as [H1 [_ [_ [H4 H5]]]]. apply blen_0 in H1. subst offs. rewrite last_or0_nil in H4, H5.
    cbn [wf_ty] in Hwt. apply andb_true_iff in Hwt as [Hk Hv].
    now rewrite (IHk _ Hk H4), (IHv _ Hv H5).
  - f_equal. cbn [wf_ty] in Hwt. revert ds H.
    induction IH as [|t0 ts' Ht0 Hts IHts]; intros [|d0 ds] H; try contradiction; [reflexivity|].
    cbn [forallb] in Hwt. apply andb_true_iff in Hwt as [Hw0 Hws].
    destruct H as [H0 H]. cbn [map]. f_equal; [now apply Ht0|now apply IHts].
  - cbn [wf_ty] in Hwt. cbn [wfd] in H. now apply IH.
Qed.

Lemma enc_empty b t : enc b t (empty t) = [].
Proof.
  induction t as [name w| | | | |sz| | |name w defs|t IH|t IH|t IH|k v IHk IHv|ts IH|name t IH] using ty_ind';
    cbn [enc empty]; try reflexivity; try (destruct b; reflexivity).
  - rewrite IH. destruct b; reflexivity.
  - rewrite IH. reflexivity.
  - induction IH as [|t0 ts' Ht0 Hts IHts]; cbn [map cat2]; [reflexivity|]. now rewrite Ht0, IHts.
  - exact IH.
Qed.

Lemma read_rawN_0 s : read_rawN 0 s = Ok [] s.
Proof.
  unfold read_rawN, bind. rewrite alloc_present by lia. unfold read_nN.
  replace (0 <=? blen s) with true by lia. reflexivity.
Qed.

Lemma dec_fix_0 w s : dec_fix w 0 s = Ok [] s.
Proof. reflexivity. Qed.

Lemma check_rows_ok n : n <= max_rows -> forall s, check_rows (Z.of_N n) s = Ok n s.
Proof.
  unfold max_rows, check_rows, maxRowsInBLock. intros H s.
  replace (Z.of_N n <? 0)%Z with false by lia.
  replace (100000000 <? Z.of_N n)%Z with false by lia.
  unfold ret. now rewrite N2Z.id.
Qed.

Lemma to_i64_small' n : n <= max_rows -> to_i64 n = Z.of_N n.
Proof. intros H. apply to_i64_small. unfold max_rows, maxRowsInBLock in H. lia. Qed.

Lemma dec_zero b t : forall s, dec b t 0 s = Ok (empty t) s.
Proof.
  induction t as [name w| | | | |sz| | |name w defs|t IH|t IH|t IH|k v IHk IHv|ts IH|name t IH] using ty_ind';
    intros s; cbn [dec empty]; try reflexivity.
  - destruct b; [|reflexivity]. unfold pmap, dec_bool, bind. rewrite read_rawN_0. reflexivity.
  - destruct b; [|reflexivity]. unfold bind. change (0 * 16) with 0. rewrite read_rawN_0. reflexivity.
  - unfold pmap, bind, repN. replace (0 <=? blen s) with true by lia. reflexivity.
  - unfold pmap, bind, repN. replace (0 <=? blen s) with true by lia. reflexivity.
  - destruct sz; [reflexivity|]. unfold pmap, bind. change (0 * N.of_nat (S sz)) with 0.
    rewrite read_rawN_0. reflexivity.
  - unfold bind. rewrite dec_fix_0. cbn [monotoneb negb last_or0 last].
    change (to_i64 0) with (Z.of_N 0). rewrite check_rows_ok by (cbv; discriminate). now rewrite IH.
  - unfold bind. rewrite dec_fix_0. now rewrite IH.
  - unfold pmap, bind.
    assert (H : forall s', dec_seq (fun t0 => dec b t0 0) ts s' = Ok (map empty ts) s').
    { induction IH as [|t0 ts' Ht0 Hts IHts]; intros s'; cbn [dec_seq map]; [reflexivity|].
      unfold bind. rewrite Ht0, IHts. reflexivity. }
    now rewrite H.
  - apply IH.
Qed.

(* ---------- columns of scalar element types built by Append ----------------------------- *)
Definition unN (v : val) : N := match v with VN n => n | _ => 0 end.
Definition unB (v : val) : bytes := match v with VB b => b | _ => [] end.
Definition unBool (v : val) : N := match v with VBool true => 1 | _ => 0 end.
Definition unX (v : val) : N := match v with VPoint x _ => x | _ => 0 end.
Definition unY (v : val) : N := match v with VPoint _ y => y | _ => 0 end.

Definition flat_data (t : ty) (l : list val) : cdata :=
  match t with
  | TFix _ _ => DFix (map unN l)
  | TBool => DBool (map unBool l)
  | TUUID | TStr | TJSON => DBytes (map unB l)
  | TNothing => DNothing (N.of_nat (length l))
  | TPoint => DPoint (map unX l) (map unY l)
  | _ => empty t
  end.

Lemma append_flat t l v : lc_elem t = true -> has_ty t v = true ->
  append t (flat_data t l) v = Some (flat_data t (l ++ [v])).
Proof.
  destruct t; cbn [lc_elem]; try discriminate; intros _ H; destruct v; cbn [has_ty] in H; try discriminate;
    cbn [append flat_data]; rewrite ?map_app; cbn [map unN unB unBool unX unY].
  - now rewrite H.
  - destruct b; reflexivity.
  - apply andb_true_iff in H as [H _]. now rewrite H.
  - reflexivity.
  - reflexivity.
  - rewrite app_length. cbn [length]. do 2 f_equal. lia.
  - now rewrite H.
Qed.

Lemma append_all_flat t : lc_elem t = true -> forall l acc, forallb (has_ty t) l = true ->
  append_all t (flat_data t acc) l = Some (flat_data t (acc ++ l)).
Proof.
  intros Hlc. unfold append_all. induction l as [|v l IH]; intros acc H; cbn [fold_opt].
  - now rewrite app_nil_r.
  - cbn [forallb] in H. apply andb_true_iff in H as [Hv Hl].
    rewrite (append_flat t acc v Hlc Hv). rewrite IH by assumption. now rewrite <- app_assoc.
Qed.

Lemma flat_data_nil t : lc_elem t = true -> flat_data t [] = empty t.
Proof. destruct t; cbn; try discriminate; reflexivity. Qed.

Lemma of_rows_flat t l : lc_elem t = true -> forallb (has_ty t) l = true ->
  of_rows t l = Some (flat_data t l).
Proof.
  intros Hlc H. unfold of_rows. rewrite <- (flat_data_nil t Hlc).
  now rewrite (append_all_flat t Hlc l [] H).
Qed.

Lemma rows_flat t l : lc_elem t = true -> rows t (flat_data t l) = N.of_nat (length l).
Proof.
  destruct t; cbn [lc_elem]; try discriminate; intros _; cbn [rows flat_data]; unfold blen;
    now rewrite ?map_length.
Qed.

Lemma row_flat t l i : lc_elem t = true -> forallb (has_ty t) l = true ->
  row t (flat_data t l) i = nth_error l i.
Proof.
  intros Hlc H.
  assert (Hall : forall v, In v l -> has_ty t v = true) by (now apply forallb_forall).
  destruct t; cbn [lc_elem] in Hlc; try discriminate; cbn [row flat_data].
  - rewrite nth_error_map. destruct (nth_error l i) as [v|] eqn:E; [|reflexivity].
    apply nth_error_In, Hall in E. destruct v; cbn in E; try discriminate. reflexivity.
  - rewrite nth_error_map. destruct (nth_error l i) as [v|] eqn:E; [|reflexivity].
    apply nth_error_In, Hall in E. destruct v; cbn in E; try discriminate. now destruct b.
  - rewrite nth_error_map. destruct (nth_error l i) as [v|] eqn:E; [|reflexivity].
    apply nth_error_In, Hall in E. destruct v; cbn in E; try discriminate. reflexivity.
  - rewrite nth_error_map. destruct (nth_error l i) as [v|] eqn:E; [|reflexivity].
    apply nth_error_In, Hall in E. destruct v; cbn in E; try discriminate. reflexivity.
  - rewrite nth_error_map. destruct (nth_error l i) as [v|] eqn:E; [|reflexivity].
    apply nth_error_In, Hall in E. destruct v; cbn in E; try discriminate. reflexivity.
  - destruct (N.of_nat i <? N.of_nat (length l)) eqn:E.
    + destruct (nth_error l i) as [v|] eqn:E2.
      * apply nth_error_In, Hall in E2. destruct v; cbn in E2; try discriminate. reflexivity.
      * apply nth_error_None in E2. lia.
    + symmetry. apply nth_error_None. lia.
  - rewrite !nth_error_map. destruct (nth_error l i) as [v|] eqn:E; [|reflexivity].
    apply nth_error_In, Hall in E. destruct v; cbn in E; try discriminate. reflexivity.
Qed.

Lemma wfd_flat t l : lc_elem t = true -> forallb (has_ty t) l = true ->
  wfd t (N.of_nat (length l)) (flat_data t l).
Proof.
  intros Hlc H.
  assert (Hall : forall v, In v l -> has_ty t v = true) by (now apply forallb_forall).
  destruct t; cbn [lc_elem] in Hlc; try discriminate; cbn [wfd flat_data]; unfold blen; rewrite ?map_length.
  - split; [reflexivity|]. apply Forall_forall. intros x Hx. apply in_map_iff in Hx as [v [<- Hv]].
    apply Hall in Hv. destruct v; cbn [has_ty] in Hv; try discriminate. cbn [unN]. now apply N.ltb_lt.
  - split; [reflexivity|]. apply Forall_forall. intros x Hx. apply in_map_iff in Hx as [v [<- Hv]].
    destruct v; cbn [unBool]; auto. destruct b; auto.
  - split; [reflexivity|]. apply Forall_forall. intros x Hx. apply in_map_iff in Hx as [v [<- Hv]].
    apply Hall in Hv. destruct v; cbn [has_ty] in Hv; try discriminate. cbn [unB].
    apply andb_true_iff in Hv as [H1 H2]. split; [now apply Nat.eqb_eq|now apply wf_bytesb_spec].
  - split; [reflexivity|]. apply Forall_forall. intros x Hx. apply in_map_iff in Hx as [v [<- Hv]].
    apply Hall in Hv. destruct v; cbn [has_ty] in Hv; try discriminate. cbn [unB].
    apply andb_true_iff in Hv as [H1 H2]. split; [now apply wf_bytesb_spec|now apply N.ltb_lt].
  - split; [reflexivity|]. apply Forall_forall. intros x Hx. apply in_map_iff in Hx as [v [<- Hv]].
    apply Hall in Hv. destruct v; cbn [has_ty] in Hv; try discriminate. cbn [unB].
    apply andb_true_iff in Hv as [H1 H2]. split; [now apply wf_bytesb_spec|now apply N.ltb_lt].
  - reflexivity.
  - repeat split; apply Forall_forall; intros x Hx; apply in_map_iff in Hx as [v [<- Hv]];
      apply Hall in Hv; destruct v; cbn [has_ty] in Hv; try discriminate; cbn [unX unY];
      apply andb_true_iff in Hv as [H1 H2]; apply N.ltb_lt in H1, H2; assumption.
Qed.

(* ---------- per-kind round trips ------------------------------------------------------------ *)
Lemma enc_bool_id b vs : Forall (fun v => v = 0 \/ v = 1) vs -> enc_bool b vs = vs.
Proof.
  destruct b; [|reflexivity]. induction 1 as [|x l Hx Hl IH]; cbn [enc_bool map]; [reflexivity|].
  cbn [enc_bool] in IH. rewrite IH. destruct Hx as [->| ->]; reflexivity.
Qed.

Lemma rt_bool b n vs rest : blen vs = n -> Forall (fun v => v = 0 \/ v = 1) vs ->
  dec_bool b n (vs ++ rest) = Ok vs rest.
Proof.
  intros <- Hvs. destruct b; unfold dec_bool.
  - unfold bind. rewrite read_rawN_app.
    replace (forallb _ vs) with true; [reflexivity|].
    symmetry. apply forallb_forall. intros x Hx. rewrite Forall_forall in Hvs.
    destruct (Hvs x Hx) as [->| ->]; reflexivity.
  - destruct (blen vs =? 0) eqn:E.
    + apply N.eqb_eq, blen_0 in E. subst. reflexivity.
    + apply read_rawN_app.
Qed.

Lemma swap16_length x : length x = 16%nat -> length (swap16 x) = 16%nat.
Proof.
  intros H. unfold swap16. rewrite app_length, !rev_length, firstn_length, skipn_length. lia.
Qed.
Lemma swap16_invol x : length x = 16%nat -> swap16 (swap16 x) = x.
Proof.
  intros H. unfold swap16.
  assert (Ha : length (rev (firstn 8 x)) = 8%nat) by (rewrite rev_length, firstn_length; lia).
  rewrite firstn_app, Ha, Nat.sub_diag, firstn_O, app_nil_r, firstn_all2 by lia.
  rewrite skipn_app, Ha, Nat.sub_diag, skipn_O, skipn_all2 by lia. cbn [app].
  rewrite !rev_involutive. apply firstn_skipn.
Qed.

Lemma rt_uuid vs rest :
  Forall (fun x => length x = 16%nat /\ wf_bytes x) vs ->
  read_rawN (N.of_nat (length vs) * 16) (List.concat (map swap16 vs) ++ rest)
  = Ok (List.concat (map swap16 vs)) rest /\
  map swap16 (chunks 16 (length vs) (List.concat (map swap16 vs))) = vs.
Proof.
  intros H.
  assert (Hl : Forall (fun x => length x = 16%nat) (map swap16 vs)).
  { apply Forall_forall. intros x Hx. apply in_map_iff in Hx as [y [<- Hy]].
    rewrite Forall_forall in H. apply swap16_length, H, Hy. }
  split.
  - replace (N.of_nat (length vs) * 16) with (blen (List.concat (map swap16 vs))).
    + apply read_rawN_app.
    + unfold blen. rewrite (concat_length_const 16) by assumption. rewrite map_length. lia.
  - rewrite <- (app_nil_r (List.concat _)). rewrite <- (map_length swap16 vs).
    rewrite chunks_concat by assumption. rewrite map_map.
    rewrite <- (map_id vs) at 2. apply map_ext_in. intros x Hx.
    rewrite Forall_forall in H. apply swap16_invol, H, Hx.
Qed.

Lemma put_str_nonempty s : put_str s <> [].
Proof.
  unfold put_str, put_uvarint. intros H. apply app_eq_nil in H as [H _].
  now apply put_uv_nonempty in H.
Qed.

Lemma rep_get_str vs rest :
  Forall (fun x => wf_bytes x /\ blen x < 2 ^ 63) vs ->
  rep (length vs) get_str (List.concat (map put_str vs) ++ rest) = Ok vs rest.
Proof.
  induction 1 as [|x l [Hx1 Hx2] Hl IH]; cbn [length rep map List.concat]; [reflexivity|].
  unfold bind. rewrite <- app_assoc. rewrite get_str_put by assumption.
  unfold bind in IH. rewrite IH. reflexivity.
Qed.

Lemma concat_put_str_length vs : (length vs <= length (List.concat (map put_str vs)))%nat.
Proof.
  induction vs as [|x l IH]; cbn [map List.concat length]; [lia|].
  rewrite app_length. pose proof (put_str_nonempty x) as H.
  destruct (put_str x); [contradiction|cbn [length]; lia].
Qed.

Lemma rt_str vs rest :
  Forall (fun x => wf_bytes x /\ blen x < 2 ^ 63) vs ->
  repN (N.of_nat (length vs)) get_str (List.concat (map put_str vs) ++ rest) = Ok vs rest.
Proof.
  intros H. unfold repN.
  pose proof (concat_put_str_length vs) as Hlen.
  replace (N.of_nat (length vs) <=? blen (List.concat (map put_str vs) ++ rest)) with true
    by (unfold blen; rewrite app_length; lia).
  rewrite Nat2N.id. now apply rep_get_str.
Qed.

Lemma repeatN_length {A} (x : A) n : length (repeatN x n) = n.
Proof. induction n as [|n IH]; cbn [repeatN length]; [reflexivity|now rewrite IH]. Qed.

Lemma concat_le_put_1 l : Forall (fun v => v < 256) l -> List.concat (map (le_put 1) l) = l.
Proof.
  induction 1 as [|x l Hx Hl IH]; cbn [map List.concat]; [reflexivity|].
  rewrite IH. change (le_put 1 x) with [x mod 256]. cbn [app]. f_equal. now apply N.mod_small.
Qed.

Lemma monotone_le_last l : forall p, monotoneb p l = true -> Forall (fun v => v <= last l p) l /\ p <= last l p.
Proof.
  induction l as [|x l IH]; intros p H; cbn [monotoneb] in H; [split; [constructor|cbn; lia]|].
  apply andb_true_iff in H as [H1 H2]. apply N.leb_le in H1.
  destruct (IH x H2) as [Ha Hb].
  assert (Hlast : last (x :: l) p = last l x).
  { destruct l; [reflexivity|]. cbn [last]. clear. revert n p x. induction l; intros; cbn [last]; [reflexivity|]. apply IHl. }
  rewrite Hlast. split; [constructor; [exact Hb|exact Ha]|lia].
Qed.

(* ---------- enum ------------------------------------------------------------------------------ *)
Lemma enum_str_to_raw_in defs s z : enum_str_to_raw defs s = Some z ->
  exists n, In (n, z) defs /\ bytes_eqb n s = true.
Proof.
  induction defs as [|[n z'] defs IH]; cbn [enum_str_to_raw]; [discriminate|].
  destruct (enum_str_to_raw defs s) as [r|] eqn:E.
  - intros H. injection H as ->. destruct (IH eq_refl) as [m [Hm1 Hm2]]. exists m. split; [now right|exact Hm2].
  - destruct (bytes_eqb n s) eqn:E2; [|discriminate]. intros H. injection H as ->.
    exists n. split; [now left|exact E2].
Qed.

Lemma to_signed_wrapN_8 z : (-128 <= z < 128)%Z -> to_signed 8 (wrapN 8 z) = z.
Proof.
  unfold to_signed, wrapN. intros H. change (Z.of_N 8) with 8%Z. change (2 ^ (8 - 1)) with 128.
  destruct (Z.to_N (z mod 2 ^ 8) <? 128) eqn:E; lia.
Qed.
Lemma to_signed_wrapN_16 z : (-32768 <= z < 32768)%Z -> to_signed 16 (wrapN 16 z) = z.
Proof.
  unfold to_signed, wrapN. intros H. change (Z.of_N 16) with 16%Z. change (2 ^ (16 - 1)) with 32768.
  destruct (Z.to_N (z mod 2 ^ 16) <? 32768) eqn:E; lia.
Qed.

Lemma enum_value_rt w defs s z :
  (w = 1 \/ w = 2)%nat -> enum_defs_ok w defs = true -> enum_str_to_raw defs s = Some z ->
  enum_raw_to_str defs (to_signed (8 * N.of_nat w) (wrapN (8 * N.of_nat w) z)) = Some s /\
  wrapN (8 * N.of_nat w) z < 256 ^ N.of_nat w.
Proof.
  intros Hw Hok Hs.
  destruct (enum_str_to_raw_in _ _ _ Hs) as [n [Hin Hn]]. apply bytes_eqb_eq in Hn. subst n.
  unfold enum_defs_ok in Hok. rewrite forallb_forall in Hok. specialize (Hok _ Hin). cbv beta iota in Hok.
  apply andb_true_iff in Hok as [Hrange Hmaps]. apply andb_true_iff in Hrange as [Hlo Hhi].
  rewrite Hs in Hmaps. destruct (enum_raw_to_str defs z) as [n'|] eqn:Er; [|discriminate].
  apply andb_true_iff in Hmaps as [_ Hn']. apply bytes_eqb_eq in Hn'. subst n'.
  destruct Hw as [-> | ->].
  - change (8 * N.of_nat 1) with 8. change (8 * Z.of_nat 1 - 1)%Z with 7%Z in *.
    rewrite to_signed_wrapN_8 by lia. split; [exact Er|].
    unfold wrapN. change (Z.of_N 8) with 8%Z. change (256 ^ N.of_nat 1) with 256. lia.
  - change (8 * N.of_nat 2) with 16. change (8 * Z.of_nat 2 - 1)%Z with 15%Z in *.
    rewrite to_signed_wrapN_16 by lia. split; [exact Er|].
    unfold wrapN. change (Z.of_N 16) with 16%Z. change (256 ^ N.of_nat 2) with 65536. lia.
Qed.

Lemma mapM_length {X Y} (f : X -> option Y) l r : mapM f l = Some r -> length r = length l.
Proof.
  revert r; induction l as [|x l IH]; intros r H; cbn [mapM] in H.
  - now injection H as <-.
  - destruct (f x); [|discriminate]. destruct (mapM f l) as [r'|]; [|discriminate].
    injection H as <-. cbn [length]. now rewrite (IH r' eq_refl).
Qed.

Lemma mapM_Forall2 {X Y} (f : X -> option Y) l r : mapM f l = Some r -> Forall2 (fun x y => f x = Some y) l r.
Proof.
  revert r; induction l as [|x l IH]; intros r H; cbn [mapM] in H.
  - injection H as <-. constructor.
  - destruct (f x) as [y|] eqn:E; [|discriminate]. destruct (mapM f l) as [r'|]; [|discriminate].
    injection H as <-. constructor; [exact E|now apply IH].
Qed.

Lemma rt_enum b w defs vals raw rest :
  (w = 1 \/ w = 2)%nat -> enum_defs_ok w defs = true ->
  mapM (enum_str_to_raw defs) vals = Some raw ->
  let rawn := map (wrapN (8 * N.of_nat w)) raw in
  dec_fix w (N.of_nat (length vals)) (enc_fix b w rawn ++ rest) = Ok rawn rest /\
  mapM (fun r => enum_raw_to_str defs (to_signed (8 * N.of_nat w) r)) rawn = Some vals.
Proof.
  intros Hw Hok Hm rawn.
  pose proof (mapM_Forall2 _ _ _ Hm) as HF.
  split.
  - replace (N.of_nat (length vals)) with (blen rawn)
      by (unfold blen, rawn; rewrite map_length, (mapM_length _ _ _ Hm); reflexivity).
    apply dec_fix_enc. unfold rawn. apply Forall_forall. intros x Hx.
    apply in_map_iff in Hx as [z [<- Hz]].
    clear Hm. induction HF as [|s z' l r Hs HF IH]; [destruct Hz|].
    destruct Hz as [->|Hz]; [|now apply IH]. now destruct (enum_value_rt w defs s z Hw Hok Hs).
  - unfold rawn. clear Hm rawn. induction HF as [|s z l r Hs HF IH]; cbn [map mapM]; [reflexivity|].
    destruct (enum_value_rt w defs s z Hw Hok Hs) as [-> _]. now rewrite IH.
Qed.

(* ---------- LowCardinality ------------------------------------------------------------------------ *)
Lemma lc_key_cases n : n <= max_rows ->
  let key := lc_key_width n in
  wrap64 (cardinalityUpdateAll + Z.of_N key) mod 256 = key /\
  (3 <? key) = false /\
  N.testbit (wrap64 (cardinalityUpdateAll + Z.of_N key)) 9 = true /\
  in_i64 (cardinalityUpdateAll + Z.of_N key) /\
  (forall k, k < n -> k < 256 ^ N.of_nat (key_bytes key)).
Proof.
  unfold max_rows, maxRowsInBLock, lc_key_width. intros H.
  assert (Hi : forall z, (0 <= z < 4000)%Z -> in_i64 z) by (intros z Hz; unfold in_i64; lia).
  destruct (n <? 255) eqn:E1; [|destruct (n <? 65535) eqn:E2; [|destruct (n mod 2 ^ 32 <? 4294967295) eqn:E3]];
    cbv zeta.
  - split; [reflexivity|]. split; [reflexivity|]. split; [reflexivity|].
    split; [apply Hi; vm_compute; split; [discriminate|reflexivity]|].
    intros k Hk. change (256 ^ N.of_nat (key_bytes (Z.to_N KeyUInt8))) with 256. lia.
  - split; [reflexivity|]. split; [reflexivity|]. split; [reflexivity|].
    split; [apply Hi; vm_compute; split; [discriminate|reflexivity]|].
    intros k Hk. change (256 ^ N.of_nat (key_bytes (Z.to_N KeyUInt16))) with 65536. lia.
  - split; [reflexivity|]. split; [reflexivity|]. split; [reflexivity|].
    split; [apply Hi; vm_compute; split; [discriminate|reflexivity]|].
    intros k Hk. change (256 ^ N.of_nat (key_bytes (Z.to_N KeyUInt32))) with 4294967296. lia.
  - exfalso. change (2 ^ 32) with 4294967296 in E3. lia.
Qed.

Lemma lc_rows_of_keys t' dict vals ks :
  lc_elem t' = true -> forallb (has_ty t') dict = true -> forallb (has_ty t') vals = true ->
  Forall2 (fun v k => index_of v dict = Some k) vals ks ->
  Forall (fun k => (k < length dict)%nat) ks /\
  mapM (fun k => row t' (flat_data t' dict) (N.to_nat k)) (map N.of_nat ks) = Some vals.
Proof.
  intros Hlc Hd Hv HF.
  induction HF as [|v k vals ks Hk HF IH]; cbn [map mapM]; [split; [constructor|reflexivity]|].
  cbn [forallb] in Hv. apply andb_true_iff in Hv as [Hv0 Hv].
  destruct (IH Hv) as [IH1 IH2].
  destruct (index_of_nth _ _ _ Hk) as [y [Hy Hvy]].
  apply val_eqb_eq_flat in Hvy; [|now apply (has_ty_flat t')]. subst y.
  split.
  - constructor; [|exact IH1]. apply nth_error_Some. now rewrite Hy.
  - rewrite Nat2N.id, row_flat, Hy, IH2 by assumption. reflexivity.
Qed.

Lemma forallb_sub {A} (f : A -> bool) l l' : (forall x, In x l' -> In x l) -> forallb f l = true -> forallb f l' = true.
Proof. intros Hs H. apply forallb_forall. intros x Hx. rewrite forallb_forall in H. apply H, Hs, Hx. Qed.

Lemma rt_lowcard b b' t' vals idx key keys rest :
  lc_elem t' = true ->
  (forall m d r, m <= max_rows -> wfd t' m d -> dec b' t' m (enc b t' d ++ r) = Ok d r) ->
  vals <> [] -> N.of_nat (length vals) <= max_rows ->
  forallb (has_ty t') vals = true ->
  prepare (TLowCard t') (DLowCard vals idx key keys) = Some (DLowCard vals idx key keys) ->
  dec b' (TLowCard t') (N.of_nat (length vals)) (enc b (TLowCard t') (DLowCard vals idx key keys) ++ rest)
  = Ok (DLowCard vals idx key keys) rest.
Proof.
  intros Hlc IH Hne Hmax Hty Hprep.
  cbn [prepare] in Hprep.
  assert (Hdty : forallb (has_ty t') (dedup vals) = true)
    by (apply (forallb_sub _ vals); [apply dedup_sub|assumption]).
  rewrite (of_rows_flat t' _ Hlc Hdty) in Hprep.
  destruct (mapM (fun v => index_of v (dedup vals)) vals) as [ks|] eqn:Eks; [|discriminate].
  injection Hprep as Hidx Hkey Hkeys.
  pose proof (dedup_length vals) as Hdl.
  assert (Hdmax : N.of_nat (length (dedup vals)) <= max_rows) by lia.
  destruct (lc_key_cases _ Hdmax) as [Hk1 [Hk2 [Hk3 [Hk4 Hk5]]]]. cbv zeta in *. rewrite Hkey in *.
  destruct (lc_rows_of_keys t' (dedup vals) vals ks Hlc Hdty Hty (mapM_Forall2 _ _ _ Eks)) as [Hlt Hrows].
  assert (Hrowsidx : rows t' idx = N.of_nat (length (dedup vals))) by (rewrite <- Hidx; now apply rows_flat).
  assert (Hwidx : wfd t' (N.of_nat (length (dedup vals))) idx) by (rewrite <- Hidx; now apply wfd_flat).
  assert (Hklen : blen keys = N.of_nat (length vals))
    by (unfold blen; rewrite <- Hkeys, map_length, (mapM_length _ _ _ Eks); reflexivity).
  assert (Hkb : Forall (fun k => k < N.of_nat (length (dedup vals))) keys).
  { rewrite <- Hkeys. apply Forall_forall. intros x Hx. apply in_map_iff in Hx as [k [<- Hkin]].
    rewrite Forall_forall in Hlt. specialize (Hlt _ Hkin). lia. }
  cbn [enc dec]. destruct vals as [|v0 vals']; [contradiction|].
  set (vals := v0 :: vals') in *.
  replace (N.of_nat (length vals) =? 0) with false by (unfold vals; cbn [length]; lia).
  rewrite <- !app_assoc. unfold bind.
  rewrite get_i64_put by exact Hk4. cbv zeta. rewrite Hk3. cbn [negb]. rewrite Hk1, Hk2.
  rewrite Hrowsidx.
  rewrite get_i64_put by (unfold in_i64, max_rows, maxRowsInBLock in *; lia).
  rewrite check_rows_ok by exact Hdmax.
  rewrite IH by assumption.
  rewrite get_i64_put by (unfold in_i64, max_rows, maxRowsInBLock in *; lia).
  rewrite <- nat_N_Z. rewrite check_rows_ok by exact Hmax.
  rewrite <- Hklen. rewrite dec_fix_enc.
  2:{ apply Forall_forall. intros k Hk. rewrite Forall_forall in Hkb. apply Hk5, Hkb, Hk. }
  replace (forallb _ keys) with true.
  2:{ symmetry. apply forallb_forall. intros k Hk. rewrite Forall_forall in Hkb. specialize (Hkb _ Hk).
      assert (Hk64 : k mod 2 ^ 64 = k) by (apply N.mod_small; unfold max_rows, maxRowsInBLock in *; lia).
      rewrite Hk64, to_i64_small' by lia. lia. }
  cbn [negb]. rewrite Hidx, Hkeys in Hrows. rewrite Hrows. reflexivity.
Qed.

(* ---------- the round trip, for every type tree ------------------------------------------------------ *)
Lemma offs_bound offs : monotoneb 0 offs = true -> last_or0 offs <= max_rows ->
  Forall (fun v => v < 256 ^ N.of_nat 8) offs.
Proof.
  intros Hm Hl. destruct (monotone_le_last offs 0 Hm) as [Ha _].
  unfold last_or0 in Hl. eapply Forall_impl; [|exact Ha]. intros a Ha'. cbv beta in Ha'.
  change (256 ^ N.of_nat 8) with 18446744073709551616. unfold max_rows, maxRowsInBLock in Hl. lia.
Qed.

Theorem col_roundtrip : forall t, wf_ty t = true -> forall b b' n d rest,
  n <= max_rows -> wfd t n d -> dec b' t n (enc b t d ++ rest) = Ok d rest.
Proof.
  induction t as [name w| | | | |sz| | |name w defs|t IH|t IH|t IH|k v IHk IHv|ts IH|name t IH] using ty_ind';
    intros Hwt b b' n d rest Hn Hd;
    lazymatch goal with
    | H : wfd (TNamed _ _) _ _ |- _ => idtac
    | _ => destruct d; cbn [wfd] in Hd; try contradiction
    end.
  - (* fixed width *) destruct Hd as [<- Hvs]. cbn [dec enc]. unfold pmap, bind. now rewrite dec_fix_enc.
  - (* Bool *) destruct Hd as [Hl Hvs]. cbn [dec enc]. unfold pmap, bind.
    rewrite (enc_bool_id b vs Hvs), (rt_bool b' n vs rest Hl Hvs). reflexivity.
  - (* UUID *) destruct Hd as [<- Hvs]. cbn [dec enc].
    destruct (rt_uuid vs rest Hvs) as [H1 H2].
    destruct b'.
    + unfold bind. rewrite H1. unfold ret. rewrite Nat2N.id, H2. reflexivity.
    + destruct (N.of_nat (length vs) =? 0) eqn:E.
      * apply N.eqb_eq, blen_0 in E. subst. reflexivity.
      * unfold bind. rewrite H1. unfold ret. rewrite Nat2N.id, H2. reflexivity.
  - (* String *) destruct Hd as [<- Hvs]. cbn [dec enc]. unfold pmap, bind. now rewrite rt_str.
  - (* JSON *) destruct Hd as [<- Hvs]. cbn [dec enc]. unfold pmap, bind. now rewrite rt_str.
  - (* FixedString *) destruct Hd as [Hl Hb]. cbn [dec enc]. cbn [wf_ty] in Hwt.
    destruct sz; [discriminate|]. unfold pmap, bind. rewrite <- Hl, read_rawN_app. reflexivity.
  - (* Nothing *) subst n0. cbn [dec enc].
    destruct (n =? 0) eqn:E.
    + apply N.eqb_eq in E. subst. reflexivity.
    + unfold bind.
      replace n with (blen (repeatN 0 (N.to_nat n))) at 1 by (unfold blen; rewrite repeatN_length; lia).
      rewrite read_rawN_app. reflexivity.
  - (* Point *) destruct Hd as [Hx [Hy [Hxs Hys]]]. cbn [dec enc]. unfold bind.
    rewrite <- app_assoc. rewrite <- Hx at 1. rewrite dec_fix_enc by exact Hxs.
    rewrite <- Hy. now rewrite dec_fix_enc by exact Hys.
  - (* Enum *) destruct Hd as [Hl [zs [Ezs Hraw]]]. cbn [wf_ty] in Hwt.
    apply andb_true_iff in Hwt as [Hw Hok].
    assert (Hw' : (w = 1 \/ w = 2)%nat).
    { apply orb_true_iff in Hw as [Hw|Hw]; apply Nat.eqb_eq in Hw; auto. }
    destruct (rt_enum b w defs vals zs rest Hw' Hok Ezs) as [H1 H2]. cbv zeta in H1, H2.
    cbn [dec enc]. unfold bind. rewrite <- Hl, Hraw, H1, H2. reflexivity.
  - (* Array *) destruct Hd as [Hl [Hm [Hlast Hd]]]. cbn [wf_ty] in Hwt. cbn [dec enc]. unfold bind.
    rewrite <- app_assoc, <- Hl, dec_fix_enc by now apply offs_bound.
    rewrite Hm. cbn [negb]. rewrite to_i64_small', check_rows_ok by assumption.
    rewrite IH by assumption. reflexivity.
  - (* Nullable *) destruct Hd as [Hl [Hnulls Hd]]. cbn [wf_ty] in Hwt.
    cbn [dec enc]. unfold bind. rewrite <- app_assoc.
    rewrite <- (concat_le_put_1 nulls Hnulls) at 1. rewrite <- (enc_fix_eq Safe 1 nulls).
    rewrite <- Hl at 1. rewrite dec_fix_enc by exact Hnulls.
    rewrite IH by assumption. reflexivity.
  - (* LowCardinality *) destruct Hd as [Hl [Hty Hp]]. cbn [wf_ty] in Hwt. apply andb_true_iff in Hwt as [Hwt Hlc].
    destruct vals as [|v0 vals'].
    + cbn [length] in Hl. subst n.
      match goal with Hp' : prepare _ ?D = _ |- _ =>
        assert (Hz : D = empty (TLowCard t));
          [apply wfd_zero; [cbn [wf_ty]; now rewrite Hwt, Hlc|cbn [wfd]; now repeat split]|] end.
      rewrite Hz, enc_empty. apply dec_zero.
    + subst n. apply rt_lowcard; try assumption; [|discriminate].
      intros m dd r Hm Hdd. now apply IH.
  - (* Map *) destruct Hd as [Hl [Hm [Hlast [Hdk Hdv]]]]. cbn [wf_ty] in Hwt. apply andb_true_iff in Hwt as [Hwk Hwv].
    destruct offs as [|o0 offs'].
    + cbn [length] in Hl. unfold blen in Hl. cbn [length] in Hl. subst n.
      rewrite last_or0_nil in Hdk, Hdv.
      rewrite (wfd_zero k _ Hwk Hdk), (wfd_zero v _ Hwv Hdv). cbn [enc]. cbn [dec]. reflexivity.
    + cbn [enc dec]. set (offs := o0 :: offs') in *.
      replace (n =? 0) with false by (unfold blen, offs in Hl; cbn [length] in Hl; lia).
      unfold bind. rewrite <- !app_assoc, <- Hl, dec_fix_enc by now apply offs_bound.
      rewrite Hm. cbn [negb]. rewrite to_i64_small', check_rows_ok by assumption.
      rewrite IHk by assumption. rewrite IHv by assumption. reflexivity.
  - (* Tuple *) cbn [wf_ty] in Hwt. cbn [dec enc]. unfold pmap, bind.
    assert (H : dec_seq (fun t0 => dec b' t0 n) ts (cat2 (enc b) ts ds ++ rest) = Ok ds rest).
    { revert ds Hd. induction IH as [|t0 ts' Ht0 Hts IHts]; intros [|d0 ds] Hd; try contradiction; [reflexivity|].
      cbn [forallb] in Hwt. apply andb_true_iff in Hwt as [Hw0 Hws]. destruct Hd as [Hd0 Hd].
      cbn [dec_seq cat2]. unfold bind. rewrite <- app_assoc. rewrite Ht0 by assumption.
      rewrite IHts by assumption. reflexivity. }
    now rewrite H.
  - (* Named *) cbn [wf_ty] in Hwt. cbn [wfd] in Hd. cbn [dec enc]. now apply IH.
Qed.
