(* Proofs about the handshake model (C13). *)
From CH Require Import model.Handshake proofs.PrimProofs proofs.FieldsProofs proofs.MessagesProofs.
From CH Require Import gen.Features gen.Codes gen.Consts.
From Coq Require Import ZifyN ZifyNat ZifyBool.
Ltac Zify.zify_post_hook ::= Z.div_mod_to_equations.
Open Scope N_scope.

(* ---------- obligations on the regenerated constants ------------------------------------- *)
(* the addendum consists of the quota key: a revision that has the addendum must have the key *)
Lemma quota_le_addendum : FeatureQuotaKey <= FeatureAddendum.
Proof. apply N.leb_le. reflexivity. Qed.

(* the hello wait is not bounded by a per-packet timeout *)
Lemma hello_timeout_not_positive : (hello_timeout <= 0)%Z.
Proof. apply Z.leb_le. reflexivity. Qed.

(* packet codes are single bytes below 128 (written as a byte, read as a uvarint), and the
   ones the handshake and the follow-ups distinguish are distinct *)
Lemma server_codes_small : forallb (fun z => (0 <=? z)%Z && (z <? 128)%Z) server_codes = true.
Proof. reflexivity. Qed.
Lemma hello_exception_distinct : (Z.to_N ServerCodeHello =? Z.to_N ServerCodeException) = false.
Proof. reflexivity. Qed.

Lemma addendum_spec ver q :
  addendum ver q = if feature_in FeatureAddendum ver then put_str q else [].
Proof.
  unfold addendum, feature_in. pose proof quota_le_addendum as Hq.
  destruct (Z.leb_spec (Z.of_N FeatureAddendum) ver) as [Ha|Ha]; [|reflexivity].
  destruct (Z.leb_spec (Z.of_N FeatureQuotaKey) ver) as [Hk|Hk]; [reflexivity|lia].
Qed.

(* Feature.In on a Go int is the gate of the message codecs at the revision they are given *)
Lemma feature_in_gate f v : 0 < f -> feature_in f v = gate (vN v) f.
Proof.
  intros Hf. unfold feature_in, gate, vN.
  destruct (Z.leb_spec (Z.of_N f) v), (N.leb_spec f (Z.to_N v)); try reflexivity; lia.
Qed.

(* ---------- the clock ------------------------------------------------------------------------ *)
Fixpoint total_gap (cs : list (N * bytes)) : N :=
  match cs with [] => 0 | (g, _) :: cs' => g + total_gap cs' end.
Definition payload (cs : list (N * bytes)) : bytes := concat (map snd cs).

(* everything that is sent before the deadline is read *)
Lemma arrived_all d : forall cs t, t + total_gap cs < d -> arrived (Some d) t cs = payload cs.
Proof.
  induction cs as [|[g b] cs IH]; intros t H; [reflexivity|].
  cbn [total_gap] in H. unfold payload. cbn [arrived map concat snd before].
  destruct (N.ltb_spec (t + g) d) as [Hl|Hl]; [|lia].
  f_equal. apply IH. lia.
Qed.

(* nothing that is sent at or after the deadline is *)
Lemma arrived_none d t g b cs : d <= t + g -> arrived (Some d) t ((g, b) :: cs) = [].
Proof.
  intros H. cbn [arrived before]. destruct (N.ltb_spec (t + g) d); [lia|reflexivity].
Qed.

Lemma hello_deadline hd : packet_deadline hello_timeout 0 (Some hd) = Some hd.
Proof. reflexivity. Qed.

(* for every per-packet timeout the deadline never exceeds the context's *)
Lemma packet_deadline_le timeout now hd d :
  packet_deadline timeout now (Some hd) = Some d -> d <= hd.
Proof.
  unfold packet_deadline. destruct (0 <? timeout)%Z.
  - destruct (N.ltb_spec hd (now + Z.to_N timeout)); intros E; inversion E; subst; lia.
  - intros E; inversion E; subst; lia.
Qed.

Lemma skipn_length_self {X} (l : list X) : skipn (length l) l = [].
Proof. induction l; [reflexivity|assumption]. Qed.

(* ---------- packet codes ------------------------------------------------------------------- *)
Lemma uvarint_byte c rest : c < 128 -> uvarint (c :: rest) = Ok c rest.
Proof.
  intros H. unfold uvarint. cbn [get_uv].
  destruct (N.ltb_spec c 128) as [_|Hc]; [|lia].
  change (0 =? 9) with false. cbn [andb].
  replace (0 + c * 2 ^ (7 * 0)) with c; [reflexivity|].
  change (7 * 0) with 0. rewrite N.pow_0_r. lia.
Qed.

Lemma packet_code c rest : c < 128 -> is_server_code c = true -> packet (c :: rest) = Ok c rest.
Proof.
  intros Hc Hs. unfold packet, bind. rewrite uvarint_byte by assumption.
  rewrite N.mod_small by lia. rewrite Hs. reflexivity.
Qed.

Lemma packet_inv s code rest : packet s = Ok code rest ->
  exists n, uvarint s = Ok n rest /\ code = n mod 256 /\ is_server_code code = true.
Proof.
  unfold packet, bind. destruct (uvarint s) as [n r|e|c]; try discriminate.
  destruct (is_server_code (n mod 256)) eqn:E; [|discriminate].
  unfold ret. intros H; inversion H; subst. exists n; auto.
Qed.

(* ---------- server hello as a record --------------------------------------------------------- *)
Definition hello_ok (h : server_hello) : bool := fields_typed L_ServerHello (sh_fields h).

Lemma sh_project v h : sh_of_fields (project v L_ServerHello (sh_fields h)) = sh_gated v h.
Proof.
  unfold sh_gated, gate, sh_fields, L_ServerHello, F.
  cbn [project fgates fk gate_in forallb default_of].
  rewrite !andb_true_r.
  destruct (FeatureTimezone <=? v), (FeatureDisplayName <=? v), (FeatureVersionPatch <=? v); reflexivity.
Qed.

(* ---------- the handshake as a function of what arrives before its timeout ------------------- *)
Definition hello_fields (bi : buildinfo) (o' : options) : list fv :=
  [FStr (client_name bi o'); FZ (b_major bi); FZ (b_minor bi); FZ (o_rev o');
   FStr (o_db o'); FStr (o_user o'); FStr (o_pw o')].

Definition hs_deadline (o : options) : N := Z.to_N (o_ht (set_defaults o)).
(* the bytes of the answer that arrive before the handshake timeout *)
Definition answer (o : options) (p : peer) : bytes := arrived (Some (hs_deadline o)) 0 (p_chunks p).

Definition mk_client (bi : buildinfo) (o' : options) (addr : bytes) (fs : list fv) (rest : bytes) : client :=
  let sh := sh_of_fields fs in
  {| c_ver := if (sh_revision sh <? o_rev o')%Z then sh_revision sh else o_rev o' ;
     c_server := sh ; c_info := hello_fields bi o' ;
     c_name := client_name bi o' ; c_major := b_major bi ; c_minor := b_minor bi ; c_patch := b_patch bi ;
     c_quota := o_quota o' ; c_rt := o_rt o' ; c_addr := addr ; c_closed := false ; c_in := rest |}.

Definition connect_flat (bi : buildinfo) (o : options) (addr : bytes) (p : peer) : hs_result :=
  let o' := set_defaults o in
  let hello := encode_ClientHello (hello_fields bi o') in
  let en := stream_end (Some (hs_deadline o)) 0 (p_chunks p) (p_tail p) in
  match packet (answer o p) with
  | Err e => hs_fail hello (read_failure e en true)
  | Crash c => hs_fail hello (HCrash c, TriNo)
  | Ok code body =>
    if code =? Z.to_N ServerCodeException then
      match client_exception body with
      | Ok es _ => hs_fail hello (HException es, TriNo)
      | Err e => hs_fail hello (read_failure e en false)
      | Crash c => hs_fail hello (HCrash c, TriNo)
      end
    else if negb (code =? Z.to_N ServerCodeHello) then hs_fail hello (HUnexpected code, TriNo)
    else match decode_ServerHello (vN (o_rev o')) body with
         | Err e => hs_fail hello (read_failure e en false)
         | Crash c => hs_fail hello (HCrash c, TriNo)
         | Ok fs rest =>
           let c := mk_client bi o' addr fs rest in
           {| r_out := Connected c ; r_wrote := hello ++ addendum (c_ver c) (o_quota o') ; r_closed := TriNo |}
         end
  end.

(* the two deadlines of the handshake (read of the packet code, watchdog) coincide *)
Lemma connect_is_flat bi o addr p :
  0 < hs_deadline o -> connect bi o addr p = connect_flat bi o addr p.
Proof.
  intros Hd. unfold connect, connect_flat, answer, hs_deadline in *.
  set (o' := set_defaults o) in *. cbv zeta.
  destruct (N.ltb_spec 0 (Z.to_N (o_ht o'))) as [_|Hn]; [|lia]. cbn [negb].
  rewrite hello_deadline.
  set (inp := arrived (Some (Z.to_N (o_ht o'))) 0 (p_chunks p)).
  destruct (packet inp) as [code rest1|e|c]; try reflexivity.
  rewrite skipn_length_self, app_nil_r. reflexivity.
Qed.

Lemma connect_expired bi o addr p :
  hs_deadline o = 0 -> connect bi o addr p = hs_fail [] (HCtx, TriAny).
Proof.
  intros Hd. unfold connect, hs_deadline in *. cbv zeta. rewrite Hd. reflexivity.
Qed.

(* ---------- success ------------------------------------------------------------------------ *)
Theorem handshake_ok_lemma bi o addr h chunks tl rest :
  let o' := set_defaults o in
  hello_ok h = true ->
  payload chunks = encode_ServerHello (vN (o_rev o')) (sh_fields h) ++ rest ->
  total_gap chunks < hs_deadline o ->
  exists c,
    connect bi o addr {| p_chunks := chunks ; p_tail := tl |} =
      {| r_out := Connected c ;
         r_wrote := encode_ClientHello (hello_fields bi o') ++
                    (if feature_in FeatureAddendum (c_ver c) then put_str (o_quota o) else []) ;
         r_closed := TriNo |} /\
    c_ver c = Z.min (o_rev o') (sh_revision h) /\
    server_info c = sh_gated (vN (o_rev o')) h /\
    c_info c = hello_fields bi o' /\
    c_in c = rest /\ c_closed c = false /\ c_quota c = o_quota o /\ c_rt c = o_rt o' /\ c_addr c = addr.
Proof.
  intros o' Hh Hp Ht.
  assert (Hd : 0 < hs_deadline o) by lia.
  rewrite connect_is_flat by assumption.
  unfold connect_flat, answer. cbn [p_chunks p_tail]. fold o'.
  rewrite arrived_all by lia. rewrite Hp.
  unfold encode_ServerHello. rewrite <- app_assoc.
  change (code_byte ServerCodeHello) with [Z.to_N ServerCodeHello]. cbn [app].
  rewrite packet_code by (first [apply N.ltb_lt; reflexivity | reflexivity]).
  rewrite hello_exception_distinct. rewrite N.eqb_refl. cbn [negb].
  unfold decode_ServerHello. rewrite fields_roundtrip by exact Hh.
  eexists. split; [|repeat split].
  - rewrite addendum_spec. reflexivity.
  - unfold mk_client; cbn [c_ver]. rewrite sh_project. cbn [sh_gated sh_revision].
    destruct (Z.ltb_spec (sh_revision h) (o_rev o')); lia.
  - unfold server_info, mk_client; cbn [c_server]. apply sh_project.
  - reflexivity.
  - reflexivity.
  - reflexivity.
  - reflexivity.
  - reflexivity.
  - reflexivity.
Qed.

(* ---------- no client without a hello ----------------------------------------------------- *)
Theorem connected_needs_hello_lemma bi o addr p c :
  r_out (connect bi o addr p) = Connected c ->
  let o' := set_defaults o in
  exists n body fs rest,
    0 < hs_deadline o /\
    uvarint (answer o p) = Ok n body /\ n mod 256 = Z.to_N ServerCodeHello /\
    decode_ServerHello (vN (o_rev o')) body = Ok fs rest /\
    c = mk_client bi o' addr fs rest.
Proof.
  intros H o'.
  destruct (N.eq_dec (hs_deadline o) 0) as [Hz|Hz].
  { rewrite connect_expired in H by assumption. discriminate. }
  assert (Hd : 0 < hs_deadline o) by lia.
  rewrite connect_is_flat in H by assumption. unfold connect_flat in H. fold o' in H.
  destruct (packet (answer o p)) as [code body|e|cr] eqn:Ep; try discriminate.
  apply packet_inv in Ep as [n [Eu [Ec _]]].
  destruct (code =? Z.to_N ServerCodeException).
  { destruct (client_exception body); discriminate. }
  destruct (code =? Z.to_N ServerCodeHello) eqn:Eh; [|discriminate]. cbn [negb] in H.
  apply N.eqb_eq in Eh.
  destruct (decode_ServerHello (vN (o_rev o')) body) as [fs rest|e|cr] eqn:Ed; try discriminate.
  cbn [r_out] in H. inversion H; subst c.
  exists n, body, fs, rest. repeat split; try assumption. congruence.
Qed.

(* ---------- Dial ---------------------------------------------------------------------------- *)
Lemma dial_same_outcome bi o addr p : r_out (dial bi o addr p) = r_out (connect bi o addr p).
Proof. unfold dial. destruct (r_out (connect bi o addr p)) eqn:E; [assumption|reflexivity]. Qed.

Lemma dial_same_bytes bi o addr p : r_wrote (dial bi o addr p) = r_wrote (connect bi o addr p).
Proof. unfold dial. destruct (r_out (connect bi o addr p)); reflexivity. Qed.

Lemma dial_outcome_lemma bi o addr p :
  r_out (dial bi o addr p) = r_out (connect bi o addr p) /\
  r_wrote (dial bi o addr p) = r_wrote (connect bi o addr p).
Proof. split; [apply dial_same_outcome|apply dial_same_bytes]. Qed.

Theorem dial_failure_closes_lemma bi o addr p e :
  r_out (dial bi o addr p) = Failed e -> r_closed (dial bi o addr p) = TriYes.
Proof.
  unfold dial. destruct (r_out (connect bi o addr p)) eqn:E; intros H; [|reflexivity].
  rewrite E in H. discriminate.
Qed.

Lemma dial_success bi o addr p c :
  r_out (connect bi o addr p) = Connected c -> dial bi o addr p = connect bi o addr p.
Proof. intros H. unfold dial. rewrite H. reflexivity. Qed.

(* ---------- failures --------------------------------------------------------------------------- *)
(* the exception chain as the server writes it: every element but the last says "nested" *)
Fixpoint chain_ok (es : list (list fv)) : bool :=
  match es with
  | [] => false
  | e :: es' =>
    fields_typed L_Exception e &&
    match es' with
    | [] => negb (ex_nested e)
    | _ => ex_nested e && chain_ok es'
    end
  end.

Lemma exception_rt e rest : fields_typed L_Exception e = true ->
  decode_Exception (encode_Exception e ++ rest) = Ok e rest.
Proof.
  intros H. rewrite Exception_rt by assumption. f_equal.
  apply project_nogate; [reflexivity|assumption].
Qed.

Lemma read_exceptions_enc : forall es fuel rest,
  chain_ok es = true -> (length es <= fuel)%nat ->
  read_exceptions fuel (concat (map encode_Exception es) ++ rest) = Ok es rest.
Proof.
  induction es as [|e es IH]; intros fuel rest Hc Hf; [discriminate|].
  destruct fuel as [|fuel]; [cbn in Hf; lia|].
  cbn [chain_ok] in Hc. apply andb_true_iff in Hc as [He Hc].
  cbn [map concat read_exceptions]. rewrite <- app_assoc.
  unfold bind at 1. rewrite exception_rt by assumption.
  destruct es as [|e2 es].
  - apply negb_true_iff in Hc. rewrite Hc. reflexivity.
  - apply andb_true_iff in Hc as [Hn Hc]. rewrite Hn.
    unfold bind at 1. rewrite IH by (try assumption; cbn in Hf |- *; lia). reflexivity.
Qed.

Lemma exception_nonempty e : fields_typed L_Exception e = true -> (1 <= length (encode_Exception e))%nat.
Proof.
  intros H. destruct e as [|x e]; [discriminate|].
  unfold L_Exception, F in H. cbn [fields_typed fk] in H. apply andb_true_iff in H as [Hx _].
  destruct x; try discriminate.
  unfold encode_Exception, L_Exception, F. cbn [encode_fields fgates fk gate_in forallb enc_field].
  rewrite app_length. unfold put_i32, put_u32. rewrite le_put_length. lia.
Qed.

Lemma chain_length : forall es, chain_ok es = true ->
  (length es <= length (concat (map encode_Exception es)))%nat.
Proof.
  induction es as [|e es IH]; intros Hc; [discriminate|].
  cbn [chain_ok] in Hc. apply andb_true_iff in Hc as [He Hc].
  cbn [map concat length]. rewrite app_length. pose proof (exception_nonempty e He).
  destruct es as [|e2 es]; [cbn [length map concat]; lia|].
  apply andb_true_iff in Hc as [_ Hc]. specialize (IH Hc). lia.
Qed.

Lemma client_exception_enc es rest : chain_ok es = true ->
  client_exception (concat (map encode_Exception es) ++ rest) = Ok es rest.
Proof.
  intros H. unfold client_exception. apply read_exceptions_enc; [assumption|].
  rewrite app_length. pose proof (chain_length es H). lia.
Qed.

(* an exception is carried by the error, whole, and nothing but the hello was written *)
Theorem exception_carried_lemma bi o addr p es rest :
  0 < hs_deadline o -> chain_ok es = true ->
  answer o p = code_byte ServerCodeException ++ concat (map encode_Exception es) ++ rest ->
  connect bi o addr p =
    {| r_out := Failed (HException es) ;
       r_wrote := encode_ClientHello (hello_fields bi (set_defaults o)) ; r_closed := TriNo |}.
Proof.
  intros Hd Hc Ha. rewrite connect_is_flat by assumption. unfold connect_flat. rewrite Ha.
  change (code_byte ServerCodeException) with [Z.to_N ServerCodeException]. cbn [app].
  rewrite packet_code by (first [apply N.ltb_lt; reflexivity | reflexivity]).
  rewrite N.eqb_refl. rewrite client_exception_enc by assumption. reflexivity.
Qed.

(* any packet other than Hello or Exception *)
Theorem other_packet_rejected_lemma bi o addr p code body :
  0 < hs_deadline o ->
  packet (answer o p) = Ok code body ->
  code <> Z.to_N ServerCodeHello -> code <> Z.to_N ServerCodeException ->
  connect bi o addr p =
    {| r_out := Failed (HUnexpected code) ;
       r_wrote := encode_ClientHello (hello_fields bi (set_defaults o)) ; r_closed := TriNo |}.
Proof.
  intros Hd Hp Hh He. rewrite connect_is_flat by assumption. unfold connect_flat. rewrite Hp.
  apply N.eqb_neq in Hh, He. rewrite He, Hh. reflexivity.
Qed.

(* whatever does not start with a packet code: garbage, nothing at all *)
Theorem no_packet_rejected_lemma bi o addr p :
  is_ok (packet (answer o p)) = false ->
  exists e, r_out (connect bi o addr p) = Failed e /\
            r_wrote (connect bi o addr p) = (if 0 <? hs_deadline o then encode_ClientHello (hello_fields bi (set_defaults o)) else []) /\
            forall es, e <> HException es.
Proof.
  intros Hp.
  destruct (N.eq_dec (hs_deadline o) 0) as [Hz|Hz].
  { rewrite connect_expired by assumption. rewrite Hz. eexists. repeat split. discriminate. }
  assert (Hd : 0 < hs_deadline o) by lia.
  destruct (N.ltb_spec 0 (hs_deadline o)); [|lia].
  rewrite connect_is_flat by assumption. unfold connect_flat.
  destruct (packet (answer o p)) as [code body|e|c]; [discriminate| |].
  - eexists. repeat split. unfold read_failure. destruct e; try discriminate.
    destruct (stream_end _ _ _ _); discriminate.
  - eexists. repeat split. discriminate.
Qed.

(* a hello cut short anywhere *)
Theorem truncated_hello_rejected_lemma bi o addr p h pre suf :
  0 < hs_deadline o -> hello_ok h = true ->
  encode_fields (vN (o_rev (set_defaults o))) L_ServerHello (sh_fields h) = pre ++ suf -> suf <> [] ->
  answer o p = code_byte ServerCodeHello ++ pre ->
  exists e, connect bi o addr p =
    {| r_out := Failed e ; r_wrote := encode_ClientHello (hello_fields bi (set_defaults o)) ;
       r_closed := r_closed (connect bi o addr p) |} /\ forall es, e <> HException es.
Proof.
  intros Hd Hh Henc Hs Ha. rewrite connect_is_flat by assumption. unfold connect_flat. rewrite Ha.
  change (code_byte ServerCodeHello) with [Z.to_N ServerCodeHello]. cbn [app].
  rewrite packet_code by (first [apply N.ltb_lt; reflexivity | reflexivity]).
  rewrite hello_exception_distinct, N.eqb_refl. cbn [negb].
  set (v := vN (o_rev (set_defaults o))) in *.
  assert (Hrej : is_ok (decode_ServerHello v pre) = false).
  { apply (prefix_rejected (decode_fields v L_ServerHello) (pre ++ suf) (project v L_ServerHello (sh_fields h))
             (mono_decode_fields v L_ServerHello)) with (suf := suf); try reflexivity; try assumption.
    rewrite <- Henc. rewrite <- (app_nil_r (encode_fields v L_ServerHello (sh_fields h))).
    apply fields_roundtrip. exact Hh. }
  unfold decode_ServerHello in *.
  destruct (decode_fields v L_ServerHello pre) as [fs r|e|c]; [discriminate| |].
  - eexists. split; [reflexivity|]. unfold read_failure. destruct e; try discriminate.
    destruct (stream_end _ _ _ _); discriminate.
  - eexists. split; [reflexivity|]. discriminate.
Qed.

(* silence: nothing arrives before the timeout and the stream does not end either *)
Lemma stream_end_stall d : forall cs t, stream_end d t cs TStall = EndWait.
Proof. induction cs as [|[g b] cs IH]; intros t; cbn [stream_end]; [reflexivity|]. destruct (before _ _); auto. Qed.

Theorem silence_times_out_lemma bi o addr p :
  0 < hs_deadline o -> answer o p = [] -> p_tail p = TStall ->
  connect bi o addr p =
    {| r_out := Failed HTimeout ; r_wrote := encode_ClientHello (hello_fields bi (set_defaults o)) ; r_closed := TriAny |}.
Proof.
  intros Hd Ha Ht. rewrite connect_is_flat by assumption. unfold connect_flat. rewrite Ha, Ht.
  rewrite stream_end_stall. reflexivity.
Qed.

(* a connection cut before anything was answered *)
Theorem cut_rejected_lemma bi o addr g :
  g < hs_deadline o ->
  connect bi o addr {| p_chunks := [] ; p_tail := TCut g |} =
    {| r_out := Failed HEof ; r_wrote := encode_ClientHello (hello_fields bi (set_defaults o)) ; r_closed := TriNo |}.
Proof.
  intros Hg. rewrite connect_is_flat by lia. unfold connect_flat, answer. cbn [p_chunks p_tail arrived stream_end before].
  destruct (N.ltb_spec (0 + g) (hs_deadline o)); [reflexivity|lia].
Qed.

(* an answer that starts at or after the timeout is no answer *)
Lemma late_answer_empty o g b cs tl :
  hs_deadline o <= g -> answer o {| p_chunks := (g, b) :: cs ; p_tail := tl |} = [].
Proof. intros H. unfold answer. cbn [p_chunks]. apply arrived_none. lia. Qed.

(* ---------- after the handshake: the negotiated revision is the one spoken ------------------- *)
Definition guard_ok (c : client) (q : cquery) : bool :=
  negb (c_closed c) && (is_nil_params q || feature_in FeatureParameters (c_ver c)).

Theorem no_params_on_old_lemma c q inb :
  c_closed c = false -> cq_params q <> [] -> (c_ver c < Z.of_N FeatureParameters)%Z ->
  do_query c q inb = {| d_end := DoNoParams ; d_wrote := [] ; d_events := [] ; d_left := c_in c ++ inb |}.
Proof.
  intros Hc Hp Hv. unfold do_query. rewrite Hc.
  unfold is_nil_params. destruct (cq_params q) as [|x ps]; [contradiction|].
  unfold feature_in. destruct (Z.leb_spec (Z.of_N FeatureParameters) (c_ver c)); [lia|]. reflexivity.
Qed.

Theorem query_written_at_version c q inb :
  guard_ok c q = true ->
  d_wrote (do_query c q inb) =
    encode_Query (vN (c_ver c)) (mk_query c q) ++ blank_block (vN (c_ver c)).
Proof.
  unfold guard_ok, do_query. intros H. apply andb_true_iff in H as [Hc Hg].
  apply negb_true_iff in Hc. rewrite Hc.
  destruct (is_nil_params q); cbn [negb andb orb] in *.
  - destruct (recv_loop _ _ _ _) as [[e evs] lft]. reflexivity.
  - rewrite Hg. cbn [negb]. destruct (recv_loop _ _ _ _) as [[e evs] lft]. reflexivity.
Qed.

(* a peer that speaks the same revision parses those bytes exactly: the query with the fields
   of that revision, then the empty block, nothing left over *)
Definition blank_parse (v : N) : parser (list fv * (block_info * Z * Z)) :=
  d <- decode_ClientData v ;; hdr <- decode_BlockHeader v ;; ret (d, hdr).

Theorem query_parsed_at_version c q :
  let v := vN (c_ver c) in
  query_ok (mk_query c q) = true -> gate v FeatureSettingsSerializedAsStrings = true ->
  exists b b2,
    query_bytes c q = Z.to_N ClientCodeQuery :: b /\
    decode_Query v b = Ok (project_Query v (mk_query c q)) (Z.to_N ClientCodeData :: b2) /\
    blank_parse v b2 = Ok (project v L_ClientData [FStr []], (blank_block_info, 0%Z, 0%Z)) [].
Proof.
  intros v Hok Hg.
  destruct (Query_rt v (mk_query c q) (blank_block v) Hok Hg) as [b [Hb Hd]].
  unfold query_bytes. fold v. rewrite Hb.
  exists (b ++ blank_block v), (encode_ClientData v [FStr []] ++ encode_BlockHeader v blank_block_info 0 0).
  split; [reflexivity|]. split; [exact Hd|].
  unfold blank_parse, bind.
  rewrite ClientData_rt by reflexivity.
  rewrite <- (app_nil_r (encode_BlockHeader v blank_block_info 0 0)).
  rewrite BlockHeader_rt.
  - unfold ret. destruct (gate v FeatureBlockInfo); reflexivity.
  - split; [apply Z.leb_le; reflexivity|apply Z.ltb_lt; reflexivity].
  - split; [lia|]. apply Z.leb_le. reflexivity.
  - split; [lia|]. apply Z.leb_le. reflexivity.
Qed.

(* a Progress packet written by a server at the client's revision is decoded with exactly the
   fields of that revision *)
Lemma recv_progress fuel ver xs rest acc :
  fields_typed L_Progress xs = true ->
  recv_loop (S fuel) ver (code_byte ServerCodeProgress ++ encode_Progress (vN ver) xs ++ rest) acc =
  recv_loop fuel ver rest (acc ++ [EvProgress (project (vN ver) L_Progress xs)]).
Proof.
  intros H. change (code_byte ServerCodeProgress) with [Z.to_N ServerCodeProgress]. cbn [app recv_loop].
  rewrite packet_code by (first [apply N.ltb_lt; reflexivity | reflexivity]).
  change (Z.to_N ServerCodeProgress =? Z.to_N ServerCodeEndOfStream) with false.
  rewrite N.eqb_refl. cbv iota.
  rewrite Progress_rt by assumption. reflexivity.
Qed.

Lemma recv_end fuel ver rest acc :
  recv_loop (S fuel) ver (code_byte ServerCodeEndOfStream ++ rest) acc = (DoOk, acc, rest).
Proof.
  change (code_byte ServerCodeEndOfStream) with [Z.to_N ServerCodeEndOfStream]. cbn [app recv_loop].
  rewrite packet_code by (first [apply N.ltb_lt; reflexivity | reflexivity]).
  rewrite N.eqb_refl. reflexivity.
Qed.

Theorem progress_decoded_at_version c q xs :
  guard_ok c q = true -> c_in c = [] -> fields_typed L_Progress xs = true ->
  let r := do_query c q (code_byte ServerCodeProgress ++ encode_Progress (vN (c_ver c)) xs ++
                         code_byte ServerCodeEndOfStream) in
  d_end r = DoOk /\ d_events r = [EvProgress (project (vN (c_ver c)) L_Progress xs)] /\ d_left r = [].
Proof.
  unfold guard_ok, do_query. intros H Hin Hx. apply andb_true_iff in H as [Hc Hg].
  apply negb_true_iff in Hc. rewrite Hc, Hin. cbn [app].
  assert (Hguard : negb (is_nil_params q) && negb (feature_in FeatureParameters (c_ver c)) = false).
  { destruct (is_nil_params q); cbn [negb andb orb] in *; [reflexivity|]. rewrite Hg. reflexivity. }
  rewrite Hguard.
  set (inp := code_byte ServerCodeProgress ++ _).
  assert (Hl : exists k, length inp = S k).
  { subst inp. change (code_byte ServerCodeProgress) with [Z.to_N ServerCodeProgress]. cbn [app length]. eauto. }
  destruct Hl as [k Hk]. rewrite Hk. subst inp.
  rewrite recv_progress by assumption. cbn [app].
  rewrite <- (app_nil_r (code_byte ServerCodeEndOfStream)). rewrite recv_end.
  cbn [d_end d_events d_left]. auto.
Qed.

(* ---------- end to end: what a successful handshake negotiates is what is spoken afterwards --- *)
Theorem negotiated_revision_spoken_lemma bi o addr h chunks tl :
  let o' := set_defaults o in
  let v := Z.min (o_rev o') (sh_revision h) in
  hello_ok h = true ->
  payload chunks = encode_ServerHello (vN (o_rev o')) (sh_fields h) ->
  total_gap chunks < hs_deadline o ->
  exists c,
    r_out (connect bi o addr {| p_chunks := chunks ; p_tail := tl |}) = Connected c /\
    (forall q inb, cq_params q = [] \/ (Z.of_N FeatureParameters <= v)%Z ->
       d_wrote (do_query c q inb) = encode_Query (vN v) (mk_query c q) ++ blank_block (vN v)) /\
    (forall q inb, cq_params q <> [] -> (v < Z.of_N FeatureParameters)%Z ->
       d_end (do_query c q inb) = DoNoParams /\ d_wrote (do_query c q inb) = []) /\
    (forall q xs, cq_params q = [] \/ (Z.of_N FeatureParameters <= v)%Z ->
       fields_typed L_Progress xs = true ->
       let r := do_query c q (code_byte ServerCodeProgress ++ encode_Progress (vN v) xs ++
                              code_byte ServerCodeEndOfStream) in
       d_end r = DoOk /\ d_events r = [EvProgress (project (vN v) L_Progress xs)]).
Proof.
  intros o' v Hh Hp Ht.
  destruct (handshake_ok_lemma bi o addr h chunks tl [] Hh) as [c [Hc [Hv [_ [_ [Hin [Hcl _]]]]]]];
    [rewrite app_nil_r; exact Hp|exact Ht|].
  fold o' in Hv. fold v in Hv.
  assert (Hguard : forall q, cq_params q = [] \/ (Z.of_N FeatureParameters <= v)%Z -> guard_ok c q = true).
  { intros q [Hn|Hf]; unfold guard_ok; rewrite Hcl; cbn [negb andb].
    - unfold is_nil_params. rewrite Hn. reflexivity.
    - rewrite Hv. unfold feature_in. apply orb_true_iff. right. apply Z.leb_le. exact Hf. }
  exists c. split; [rewrite Hc; reflexivity|]. split; [|split].
  - intros q inb Hq. rewrite query_written_at_version by auto. rewrite Hv. reflexivity.
  - intros q inb Hq Hlt. rewrite no_params_on_old_lemma; [split; reflexivity|assumption|assumption|].
    rewrite Hv. exact Hlt.
  - intros q xs Hq Hx. rewrite <- Hv.
    destruct (progress_decoded_at_version c q xs (Hguard q Hq) Hin Hx) as [H1 [H2 _]]. split; assumption.
Qed.

(* ---------- the fuelled loops are the unbounded Go loops: fuel never runs out ------------------ *)
Lemma nofuel_dec_field k : nofuel (dec_field k).
Proof.
  destruct k; cbn [dec_field];
    try (apply nofuel_pmap; first [apply nofuel_get_str|apply nofuel_get_int|apply nofuel_uvarint
                                  |apply nofuel_get_u8|apply nofuel_get_i32|apply nofuel_get_i64|apply nofuel_get_bool]).
  - apply nofuel_bind; [apply nofuel_get_u8|]. intros n. apply nofuel_if; [apply nofuel_ret|apply nofuel_fail; discriminate].
  - apply nofuel_bind; [apply nofuel_uvarint|]. intros n. cbv zeta.
    apply nofuel_if; [apply nofuel_ret|apply nofuel_fail; discriminate].
  - apply nofuel_bind; [apply nofuel_get_bool|]. intros [|]; [|apply nofuel_ret].
    apply nofuel_bind; [apply nofuel_read_raw|]. intros t.
    apply nofuel_bind; [apply nofuel_read_raw|]. intros s.
    apply nofuel_bind; [apply nofuel_get_str|]. intros st.
    apply nofuel_bind; [apply nofuel_get_u8|]. intros fl. apply nofuel_ret.
Qed.

Lemma nofuel_decode_fields v l : nofuel (decode_fields v l).
Proof.
  induction l as [|f l IH]; cbn [decode_fields]; [apply nofuel_ret|].
  apply nofuel_bind.
  - apply nofuel_if; [apply nofuel_dec_field|apply nofuel_ret].
  - intros x. apply nofuel_bind; [assumption|]. intros xs. apply nofuel_ret.
Qed.

Lemma shrinks_dec_field k : shrinks (dec_field k).
Proof.
  destruct k; cbn [dec_field];
    try (apply shrinks_pmap; first [apply shrinks_get_str|apply shrinks_get_int|apply shrinks_uvarint
                                   |apply shrinks_get_u8|apply shrinks_get_i32|apply shrinks_get_i64|apply shrinks_get_bool]).
  - apply shrinks_bind; [apply shrinks_get_u8|]. intros n. apply shrinks_if; [apply shrinks_ret|apply shrinks_fail].
  - apply shrinks_bind; [apply shrinks_uvarint|]. intros n. cbv zeta. apply shrinks_if; [apply shrinks_ret|apply shrinks_fail].
  - apply shrinks_bind; [apply shrinks_get_bool|]. intros [|]; [|apply shrinks_ret].
    apply shrinks_bind; [apply shrinks_read_raw|]. intros t.
    apply shrinks_bind; [apply shrinks_read_raw|]. intros s.
    apply shrinks_bind; [apply shrinks_get_str|]. intros st.
    apply shrinks_bind; [apply shrinks_get_u8|]. intros fl. apply shrinks_ret.
Qed.

Lemma shrinks_decode_fields v l : shrinks (decode_fields v l).
Proof.
  induction l as [|f l IH]; cbn [decode_fields]; [apply shrinks_ret|].
  apply shrinks_bind.
  - apply shrinks_if; [apply shrinks_dec_field|apply shrinks_ret].
  - intros x. apply shrinks_bind; [assumption|]. intros xs. apply shrinks_ret.
Qed.

(* an exception is at least its four-byte code *)
Lemma get_i32_consumes s z r : get_i32 s = Ok z r -> (length r < length s)%nat.
Proof.
  unfold get_i32, get_u32, pmap, bind, read_raw, bind, alloc, read_n, ret.
  destruct (alloc_ok _ _); [|discriminate].
  destruct (Nat.leb_spec 4 (length s)) as [Hl|Hl]; [|discriminate].
  pose proof (skipn_length 4 s) as Hs. revert Hs. generalize (skipn 4 s). intros l Hs H.
  injection H as _ Hr. subst r. lia.
Qed.

Lemma decode_fields_head_consumes v f l s xs r :
  gate_in v (fgates f) = true ->
  (forall s a r, dec_field (fk f) s = Ok a r -> (length r < length s)%nat) ->
  decode_fields v (f :: l) s = Ok xs r -> (length r < length s)%nat.
Proof.
  intros Hg Hc. cbn [decode_fields]. rewrite Hg. unfold bind at 1.
  destruct (dec_field (fk f) s) as [x s1|e|c] eqn:E1; try discriminate.
  apply Hc in E1. unfold bind.
  destruct (decode_fields v l s1) as [ys s2|e|c] eqn:E2; try discriminate.
  apply shrinks_decode_fields in E2. unfold ret. intros H. injection H as _ Hr. subst. lia.
Qed.

Lemma decode_Exception_consumes s ex r : decode_Exception s = Ok ex r -> (length r < length s)%nat.
Proof.
  unfold decode_Exception, L_Exception. apply decode_fields_head_consumes; [reflexivity|].
  intros s0 a r0. unfold F; cbn [fk dec_field]. unfold pmap, bind.
  destruct (get_i32 s0) as [z s1|e|c] eqn:E1; try discriminate.
  apply get_i32_consumes in E1. unfold ret. intros H. injection H as _ Hr. subst. exact E1.
Qed.

Lemma read_exceptions_fuel : forall fuel s, (length s < fuel)%nat -> read_exceptions fuel s <> Err EFuel.
Proof.
  induction fuel as [|fuel IH]; intros s Hf; [lia|].
  cbn [read_exceptions]. unfold bind at 1.
  destruct (decode_Exception s) as [ex s1|e|c] eqn:E1; try discriminate.
  - apply decode_Exception_consumes in E1.
    destruct (ex_nested ex); [|discriminate].
    unfold bind. specialize (IH s1 ltac:(lia)).
    destruct (read_exceptions fuel s1) as [r s2|e|c]; try discriminate.
    intros H; inversion H; subst. apply IH. reflexivity.
  - intros H; inversion H; subst. exact (nofuel_decode_fields 0 L_Exception s E1).
Qed.

Theorem client_exception_never_fuel s : client_exception s <> Err EFuel.
Proof. unfold client_exception. apply read_exceptions_fuel. lia. Qed.

Lemma packet_nofuel : nofuel packet.
Proof.
  unfold packet. apply nofuel_bind; [apply nofuel_uvarint|]. intros n. cbv zeta.
  apply nofuel_if; [apply nofuel_ret|apply nofuel_fail; discriminate].
Qed.

(* so no handshake fails for lack of fuel *)
Theorem connect_never_fuel bi o addr p : r_out (connect bi o addr p) <> Failed (HBad EFuel).
Proof.
  destruct (N.eq_dec (hs_deadline o) 0) as [Hz|Hz].
  { rewrite connect_expired by assumption. discriminate. }
  rewrite connect_is_flat by lia. unfold connect_flat.
  destruct (packet (answer o p)) as [code body|e|c] eqn:Ep.
  - destruct (code =? Z.to_N ServerCodeException).
    + destruct (client_exception body) as [es r|e|c] eqn:Ee; try discriminate.
      unfold hs_fail, read_failure; cbn [r_out fst].
      destruct e; try discriminate; [destruct (stream_end _ _ _ _); discriminate|].
      exfalso. exact (client_exception_never_fuel body Ee).
    + destruct (negb (code =? Z.to_N ServerCodeHello)); [discriminate|].
      destruct (decode_ServerHello _ body) as [fs r|e|c] eqn:Ed; try discriminate.
      unfold hs_fail, read_failure; cbn [r_out fst].
      destruct e; try discriminate; [destruct (stream_end _ _ _ _); discriminate|].
      exfalso. exact (nofuel_decode_fields _ L_ServerHello body Ed).
  - unfold hs_fail, read_failure; cbn [r_out fst].
    destruct e; try discriminate; [destruct (stream_end _ _ _ _); discriminate|].
    exfalso. exact (packet_nofuel _ Ep).
  - discriminate.
Qed.

(* ---- a traced caller context: the span is on the wire from FeatureOpenTelemetry on, and only then ---- *)
Lemma encode_fields_project v l : forall xs,
  encode_fields v l (project v l xs) = encode_fields v l xs.
Proof.
  induction l as [|f l IH]; intros xs; [destruct xs; reflexivity|].
  destruct xs as [|x xs]; [reflexivity|].
  cbn [project encode_fields]. rewrite IH.
  destruct (gate_in v (fgates f)); reflexivity.
Qed.

Definition set_span (q : cquery) (sp : option span) : cquery :=
  {| cq_id := cq_id q ; cq_body := cq_body q ; cq_quota := cq_quota q ; cq_inituser := cq_inituser q ;
     cq_settings := cq_settings q ; cq_params := cq_params q ; cq_span := sp |}.

Lemma project_info_span_blind c q sp v :
  gate v FeatureOpenTelemetry = false ->
  project v L_ClientInfo (q_info (mk_query c (set_span q sp))) = project v L_ClientInfo (q_info (mk_query c q)).
Proof.
  intros Hg. unfold gate in Hg.
  unfold mk_query, set_span, L_ClientInfo. cbn [q_info cq_id cq_inituser cq_quota cq_span].
  repeat (cbn [project]; f_equal).
  unfold gate_in. simpl fgates. cbn [forallb]. rewrite Hg. reflexivity.
Qed.

Lemma query_bytes_span_blind c q sp :
  gate (vN (c_ver c)) FeatureOpenTelemetry = false ->
  query_bytes c (set_span q sp) = query_bytes c q.
Proof.
  intros Hg. unfold query_bytes, encode_Query. f_equal.
  assert (Hi : encode_ClientInfo (vN (c_ver c)) (q_info (mk_query c (set_span q sp)))
             = encode_ClientInfo (vN (c_ver c)) (q_info (mk_query c q))).
  { unfold encode_ClientInfo.
    rewrite <- (encode_fields_project _ _ (q_info (mk_query c (set_span q sp)))).
    rewrite <- (encode_fields_project _ _ (q_info (mk_query c q))).
    now rewrite project_info_span_blind. }
  rewrite Hi. reflexivity.
Qed.
