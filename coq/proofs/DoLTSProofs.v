(* Proofs about the transition system of Client.Do (model/DoLTS.v). *)
From CH Require Import model.DoLTS.
From Coq Require Import Lia.

Ltac inv H := inversion H; subst; clear H.

(* ---------------------------------------------------------------- the writer *)

Definition whole (l : list bool) : bool := match rev l with [] => true | b :: _ => b end.

Lemma whole_app1 : forall l b, whole (l ++ [b]) = b.
Proof. intros. unfold whole. rewrite rev_app_distr. reflexivity. Qed.

Lemma whole_nil : whole [] = true.
Proof. reflexivity. Qed.

Lemma cut_none : forall v, cut v None = v.
Proof. reflexivity. Qed.

Lemma enc_whole : forall ops v t,
  whole (cut (fst (enc ops v t)) (snd (enc ops v t))) = ops_whole (whole (cut v t)) ops.
Proof.
  induction ops as [|o ops IH]; intros v t; [reflexivity|].
  destruct o as [b|b]; cbn [enc].
  - rewrite IH. cbn [cut]. rewrite whole_app1.
    unfold ops_whole. cbn [rev]. destruct (rev ops) eqn:E.
    + cbn. reflexivity.
    + cbn. reflexivity.
  - rewrite IH. cbn [cut]. rewrite whole_app1.
    unfold ops_whole. cbn [rev]. destruct (rev ops) eqn:E; cbn; reflexivity.
Qed.

Lemma enc_pair : forall ops v t, enc ops v t = (fst (enc ops v t), snd (enc ops v t)).
Proof. intros. destruct (enc ops v t); reflexivity. Qed.

(* ---------------------------------------------------------------- outbound boundary *)

Lemma obf_app : forall w b w', out_boundary_from b (w ++ w') = out_boundary_from (out_boundary_from b w) w'.
Proof.
  induction w as [|t w IH]; intros; [reflexivity|].
  destruct t; cbn; apply IH.
Qed.

Lemma ob_app_chunk : forall w e, out_boundary (w ++ [WChunk e]) = e.
Proof. intros. unfold out_boundary. rewrite obf_app. reflexivity. Qed.

Lemma ob_app_cancel : forall w, out_boundary (w ++ [WCancel]) = out_boundary w.
Proof. intros. unfold out_boundary. rewrite obf_app. reflexivity. Qed.

Lemma ob_app_nil : forall w, out_boundary (w ++ []) = out_boundary w.
Proof. intros. rewrite app_nil_r. reflexivity. Qed.

(* ---------------------------------------------------------------- the safety invariant (code after the fixes) *)

Definition r_exited (m : rmode) : bool :=
  match m with RExit1 _ | RExit2 _ | RHook _ | RRet _ | RDone => true | _ => false end.

Record inv (s : st) : Prop := {
  i_close : nclose s = if closed s then 1 else 0;
  i_exc : gotexc s = true -> inb_ok s = true /\ ended s = true;
  i_rx : gotexc s = true \/ inb_ok s = false -> r_exited (rmd s) = true;
  i_s : match smd s with
        | SRun | SAtGate | SAtCb _ => wf_prog (whole (pend_chunks s)) (sprog s) = true
        | SWriting => ptail s = None /\ whole (pvec s) = true /\ wf_prog true (sprog s) = true
        | _ => True
        end;
  i_out : closed s = true \/ out_boundary (wire s) = true \/ (smd s = SWriting /\ pvec s <> []);
  i_m : match mmd s with
        | MWait => True
        | MCancelWrite | MClose => all_done s = true /\ (failed s = true -> pend_chunks s = [])
        | MDone => all_done s = true /\ (failed s = true -> pend_chunks s = [] /\ (closed s = true \/ gotexc s = true))
        end
}.

Lemma inv_init : forall sc, wf_prog true (sc_prog sc) = true -> inv (init sc).
Proof.
  intros sc H. constructor; cbn; auto.
  intros [?|?]; discriminate.
Qed.

Lemma all_done_s : forall s, all_done s = true -> smd s = SDone /\ rmd s = RDone /\ wmd s = WDone.
Proof.
  intros s H. unfold all_done in H. destruct (smd s), (rmd s), (wmd s); try discriminate; auto.
Qed.

Lemma wf_prog_mono_gate : forall w p, wf_prog w p = true -> True.
Proof. auto. Qed.

Lemma whole_cons_rest : forall c rest, rest <> [] -> whole (c :: rest) = whole rest.
Proof.
  intros c rest H. unfold whole. cbn [rev].
  destruct (rev rest) eqn:E.
  - apply (f_equal (@rev bool)) in E. rewrite rev_involutive in E. cbn in E. contradiction.
  - reflexivity.
Qed.

Lemma whole_single : forall c, whole [c] = c.
Proof. reflexivity. Qed.

Ltac brk :=
  repeat match goal with
         | |- context [match ?x with _ => _ end] => destruct x eqn:?
         | |- context [if ?x then _ else _] => destruct x eqn:?
         end.

Ltac oo Ho := try solve [auto | destruct Ho as [Ho|[Ho|[Ho ?]]]; auto; congruence ].

Lemma inv_step_s : forall sc alt s, inv s -> inv (step_s all_fixed sc alt s).
Proof.
  intros sc alt s Hkeep. pose proof Hkeep as [Hc He Hrx Hs Ho Hm].
  assert (HM : mmd s = MWait \/ smd s = SDone).
  { destruct (mmd s); auto; right; destruct Hm as [Hd _]; apply all_done_s in Hd; tauto. }
  unfold step_s.
  destruct (smd s) eqn:Esm.
  - (* SRun *)
    destruct HM as [HM|HM]; [|congruence].
    destruct (sprog s) as [|a p] eqn:Ep.
    { constructor; cbn; rewrite ?HM; auto. all: oo Ho. }
    destruct a.
    + (* AClosedCheck *)
      destruct (closed s) eqn:Ecl; constructor; cbn; rewrite ?Ecl, ?HM; auto.
    + (* AEnc *)
      rewrite (enc_pair ops). constructor; cbn; rewrite ?HM; auto. all: oo Ho.
      unfold pend_chunks; cbn. rewrite enc_whole. exact Hs.
    + (* AGate *)
      constructor; cbn; rewrite ?HM; auto. all: oo Ho.
    + (* AEncFail *)
      rewrite (enc_pair ops). constructor; cbn; rewrite ?HM; auto. all: oo Ho.
    + (* AFlush *)
      cbn [wf_prog] in Hs. apply andb_prop in Hs. destruct Hs as [Hw Hp].
      destruct (cancelled s).
      { constructor; cbn; rewrite ?HM; auto. all: oo Ho. }
      destruct (pend_chunks s) eqn:Epc.
      { constructor; cbn; rewrite ?HM; auto. all: oo Ho. }
      { constructor; cbn; rewrite ?HM; auto. all: oo Ho. }
    + (* AWaitInfo *)
      cbn [wf_prog] in Hs.
      brk; try exact Hkeep; constructor; cbn; rewrite ?HM; auto. all: oo Ho.
    + (* ACtxCheck *)
      cbn [wf_prog] in Hs.
      destruct (cancelled s); constructor; cbn; rewrite ?HM; auto. all: oo Ho.
    + (* ACallback *)
      cbn [wf_prog] in Hs.
      constructor; cbn; rewrite ?HM; auto. all: oo Ho.
  - (* SWriting *)
    destruct Hs as [Ht [Hw Hp]].
    destruct HM as [HM|HM]; [|congruence].
    destruct (pvec s) as [|c rest] eqn:Epv.
    { constructor; cbn; rewrite ?HM; auto.
      - unfold pend_chunks. cbn. rewrite Epv, Ht. exact Hp.
      - destruct Ho as [Ho|[Ho|[_ Ho]]]; auto; congruence. }
    destruct (closed s) eqn:Ecl.
    { constructor; cbn; rewrite ?HM, ?Ecl; auto. }
    assert (Hok : inv (let s1 := st_set_pend (st_write s (Some (WChunk c)) true) rest None in
                       match rest with [] => st_set_s s1 (sprog s) SRun | _ => s1 end)).
    { destruct rest as [|c2 rest'].
      - constructor; cbn; rewrite ?HM, ?Ecl; auto.
        all: try (right; left; rewrite ob_app_chunk; exact Hw).
      - constructor; cbn; rewrite ?HM, ?Ecl, ?Esm; auto.
        all: try (repeat split; auto; rewrite <- Hw; symmetry; apply whole_cons_rest; discriminate).
        all: try (right; right; split; auto; discriminate). }
    destruct (sc_wfault sc) as [[k partial]|]; [|exact Hok].
    destruct (Nat.eqb k (nwcalls s)); [|exact Hok].
    constructor; cbn; rewrite ?HM, ?Ecl; auto.
  - (* SAtGate *)
    destruct HM as [HM|HM]; [|congruence].
    constructor; cbn; rewrite ?HM; auto. all: oo Ho.
  - (* SAtCb *)
    destruct HM as [HM|HM]; [|congruence].
    destruct r; constructor; cbn; rewrite ?HM; auto. all: oo Ho.
  - (* SRet *)
    destruct HM as [HM|HM]; [|congruence].
    destruct e as [k|]; constructor; cbn; rewrite ?HM; auto. all: oo Ho.
  - (* SDone *)
    exact Hkeep.
Qed.

Lemma inv_step_r : forall sc alt s, inv s -> inv (step_r all_fixed sc alt s).
Proof.
  intros sc alt s Hkeep. pose proof Hkeep as [Hc He Hrx Hs Ho Hm].
  assert (HM : mmd s = MWait \/ rmd s = RDone).
  { destruct (mmd s); auto; right; destruct Hm as [Hd _]; apply all_done_s in Hd; tauto. }
  unfold step_r.
  destruct (rmd s) eqn:Erm.
  all: try (destruct HM as [HM|HM]; [|congruence]).
  all: try exact Hkeep.
  all: cbn [r_exited] in Hrx.
  1-4: assert (Hg : gotexc s = false) by (destruct (gotexc s); auto; symmetry; apply Hrx; auto).
  1-4: assert (Hi : inb_ok s = true) by (destruct (inb_ok s); auto; apply Hrx; auto).
  all: brk; try exact Hkeep.
  all: try match goal with |- context [st_record _ ?e] => destruct e end.
  all: constructor; unfold pend_chunks, failed, all_done in *; cbn; rewrite ?HM, ?Hg, ?Hi; cbn; auto.
  all: try (intros [?|?]; discriminate).
  all: try (intros ?; try discriminate; split; auto using orb_true_r; fail).
  all: try (destruct (smd s); auto; fail).
Qed.

Lemma inv_step_w : forall sc s, inv s -> inv (step_w all_fixed sc s).
Proof.
  intros sc s Hkeep. pose proof Hkeep as [Hc He Hrx Hs Ho Hm].
  assert (HM : mmd s = MWait \/ wmd s = WDone).
  { destruct (mmd s); auto; right; destruct Hm as [Hd _]; apply all_done_s in Hd; tauto. }
  unfold step_w, cancel_emit.
  destruct (wmd s) eqn:Ewm.
  all: try (destruct HM as [HM|HM]; [|congruence]).
  all: try exact Hkeep.
  all: brk; try exact Hkeep.
  all: try match goal with |- context [st_record _ ?e] => destruct e end.
  all: constructor; unfold pend_chunks, failed, all_done, cancel_toks in *; cbn; rewrite ?app_nil_r, ?HM; cbn; auto.
  all: try (rewrite ob_app_cancel; exact Ho).
  all: try (destruct (smd s); auto; fail).
  all: try (rewrite Hc; match goal with H : closed _ = _ |- _ => rewrite H end; reflexivity).
  all: try (destruct (closed s); rewrite Hc; reflexivity).
  all: try (destruct Ho as [Ho|[Ho|Ho]];
            [try discriminate; auto
            | right; left; change (out_boundary (wire s ++ [WCancel]) = true); rewrite ob_app_cancel; exact Ho
            | right; right; exact Ho]).
  all: try (destruct Ho as [Ho|[Ho|Ho]]; [discriminate | right; left; exact Ho | right; right; exact Ho]).
Qed.

Lemma inv_step_m : forall sc s, inv s -> inv (step_m all_fixed sc s).
Proof.
  intros sc s Hkeep. pose proof Hkeep as [Hc He Hrx Hs Ho Hm].
  unfold step_m, cancel_emit.
  destruct (mmd s) eqn:Emm; try exact Hkeep.
  - (* MWait *)
    destruct (all_done s) eqn:Ead; [|exact Hkeep].
    pose proof (all_done_s _ Ead) as [E1 [E2 E3]].
    destruct (err1 s) eqn:Ee.
    + cbn [fx_failed all_fixed fx_ctx]. cbn [andb].
      brk.
      all: constructor; unfold pend_chunks, failed, all_done, cancel_toks in *; cbn; rewrite ?E1, ?E2, ?E3, ?Ee; cbn; auto.
      all: try (destruct Ho as [Ho|[Ho|[Ho ?]]]; auto; congruence).
      all: try (destruct (closed s); rewrite Hc; reflexivity).
      all: try (rewrite E1 in Hs; auto).
    + constructor; unfold pend_chunks, failed, all_done in *; cbn; rewrite ?E1, ?E2, ?E3, ?Ee; cbn; auto.
      all: try (split; auto; intros; discriminate).
      all: try (destruct Ho as [Ho|[Ho|[Ho ?]]]; auto; congruence).
  - (* MCancelWrite *)
    destruct Hm as [Hd Hp].
    pose proof (all_done_s _ Hd) as [E1 [E2 E3]].
    brk.
    all: constructor; unfold pend_chunks, failed, all_done, cancel_toks in *; cbn; rewrite ?app_nil_r, ?E1, ?E2, ?E3; cbn; auto.
    all: try (destruct Ho as [Ho|[Ho|[Ho ?]]]; [discriminate | right; left; exact Ho | congruence]).
    all: try (destruct Ho as [Ho|[Ho|[Ho ?]]];
            [try discriminate; auto
            | right; left; change (out_boundary (wire s ++ [WCancel]) = true); rewrite ob_app_cancel; exact Ho
            | congruence]).
    all: try (match goal with H : closed _ = _ |- _ => rewrite H end; exact Hc).
  - (* MClose *)
    destruct Hm as [Hd Hp].
    pose proof (all_done_s _ Hd) as [E1 [E2 E3]].
    constructor; unfold pend_chunks, failed, all_done, cancel_toks in *; cbn; rewrite ?E1, ?E2, ?E3; cbn; auto.
    all: try (destruct (closed s); rewrite Hc; reflexivity).
Qed.

Lemma inv_step_env : forall s, inv s -> inv (step_env s).
Proof.
  intros s Hkeep. pose proof Hkeep as [Hc He Hrx Hs Ho Hm].
  unfold step_env. brk; try exact Hkeep.
  all: constructor; unfold pend_chunks, failed, all_done in *; cbn; auto.
  all: try match goal with H : mmd _ = _ |- _ => rewrite H in *; auto end.
  all: try (destruct (smd s); auto; fail).
Qed.

Lemma inv_step : forall sc g alt s, inv s -> inv (step all_fixed sc g alt s).
Proof.
  intros sc g alt s H. destruct g; cbn [step].
  - apply inv_step_s; auto.
  - apply inv_step_r; auto.
  - apply inv_step_w; auto.
  - apply inv_step_m; auto.
  - apply inv_step_env; auto.
Qed.

Lemma inv_run : forall sc sched s, inv s -> inv (run all_fixed sc sched s).
Proof.
  induction sched as [|[g alt] r IH]; intros s H; cbn [run]; auto using inv_step.
Qed.

(* C04, safety half: every scenario whose sender program keeps the writer whole at its flushes, every
   fault, every schedule: when Do has returned an error the client is closed, or the server itself ended
   the query with an exception and the client is clean *)
Theorem do_safe_strong : forall sc sched s,
  wf_prog true (sc_prog sc) = true ->
  s = run all_fixed sc sched (init sc) ->
  terminal s = true -> failed s = true ->
  closed s = true \/ (gotexc s = true /\ clean s).
Proof.
  intros sc sched s Hwf -> Ht Hf.
  pose proof (inv_run sc sched _ (inv_init sc Hwf)) as [Hc He Hrx Hs Ho Hm].
  set (s := run all_fixed sc sched (init sc)) in *.
  unfold terminal in Ht. destruct (mmd s) eqn:Emm; try discriminate.
  destruct Hm as [Hd Hp]. destruct (Hp Hf) as [Hpe [Hcl|Hg]]; [left; exact Hcl|].
  destruct (closed s) eqn:Ecl; [left; reflexivity|right].
  split; [exact Hg|]. destruct (He Hg) as [Hi Hen].
  unfold clean. repeat split; auto.
  apply all_done_s in Hd. destruct Hd as [E1 _].
  destruct Ho as [Ho|[Ho|[Ho _]]]; auto; congruence.
Qed.

Theorem do_safe_thm : forall sc sched s,
  wf_prog true (sc_prog sc) = true ->
  s = run all_fixed sc sched (init sc) ->
  terminal s = true -> failed s = true -> safe s.
Proof.
  intros sc sched s Hwf Hs Ht Hf.
  destruct (do_safe_strong sc sched s Hwf Hs Ht Hf) as [H|[_ H]]; [left|right]; auto.
Qed.

(* the connection is closed at most once, and Client.closed never goes back *)
Theorem close_once_thm : forall sc sched s,
  wf_prog true (sc_prog sc) = true -> s = run all_fixed sc sched (init sc) ->
  nclose s = if closed s then 1 else 0.
Proof.
  intros sc sched s Hwf ->. apply (i_close _ (inv_run sc sched _ (inv_init sc Hwf))).
Qed.

(* a closed client rejects the next request and Do itself without a connection step *)
Theorem closed_rejects_thm : forall s, closed s = true ->
  next_request s = (ReqRejected, s) /\ do_entry_rejects s = true.
Proof. intros s H. unfold next_request, do_entry_rejects. rewrite H. auto. Qed.

Lemma closed_step_mono : forall fx sc g alt s, closed s = true -> closed (step fx sc g alt s) = true.
Proof.
  intros fx sc g alt s H. destruct g; cbn [step].
  - unfold step_s. repeat (brk; cbn; auto). all: try (destruct e; cbn; auto). all: congruence.
  - unfold step_r. repeat (brk; cbn; auto). all: try (destruct e; cbn; auto). all: try congruence.
  - unfold step_w. repeat (brk; cbn; auto). all: try (destruct e; cbn; auto). all: try congruence.
  - unfold step_m. repeat (brk; cbn; auto). all: try congruence.
  - unfold step_env. repeat (brk; cbn; auto). all: try congruence.
Qed.

Theorem closed_stays_thm : forall fx sc sched s, closed s = true -> closed (run fx sc sched s) = true.
Proof.
  induction sched as [|[g alt] r IH]; intros s H; cbn [run]; auto using closed_step_mono.
Qed.

(* the next request on an open client after a failed query: exactly its own packet goes out, and the
   outbound stream is again at a packet boundary *)
Theorem next_request_clean_thm : forall sc sched s,
  wf_prog true (sc_prog sc) = true ->
  s = run all_fixed sc sched (init sc) ->
  terminal s = true -> failed s = true -> closed s = false ->
  fst (next_request s) = ReqWrote [WChunk true] /\
  wire (snd (next_request s)) = wire s ++ [WChunk true] /\
  out_boundary (wire (snd (next_request s))) = true /\
  pend_chunks (snd (next_request s)) = [].
Proof.
  intros sc sched s Hwf Hs Ht Hf Hcl.
  destruct (do_safe_strong sc sched s Hwf Hs Ht Hf) as [H|[_ [Hp [Hi [He Hob]]]]]; [congruence|].
  unfold next_request. rewrite Hcl. cbn [enc].
  unfold pend_chunks in Hp.
  assert (Hv : pvec s = [] /\ ptail s = None).
  { destruct (ptail s); cbn in Hp.
    - destruct (pvec s); discriminate.
    - auto. }
  destruct Hv as [Hv Htl]. rewrite Hv. cbn.
  repeat split; auto.
  change (out_boundary (wire s ++ [WChunk true]) = true). apply ob_app_chunk.
Qed.

(* ---------------------------------------------------------------- C10: cancellation *)

Definition has_ctx (l : list errk) : bool := existsb (fun k => match k with KCtx => true | _ => false end) l.
Definition no_stray (w : list wtok) : bool := forallb (fun t => match t with WStray => false | _ => true end) w.
Definition r_err (m : rmode) : bool :=
  match m with RExit1 (Some _) | RExit2 (Some _) | RHook (Some _) | RRet (Some _) => true | _ => false end.
Definition swlen (s : st) : nat := match smd s with SWriting => length (pvec s) | _ => 0 end.

Lemma cc_app : forall w w', count_cancel (w ++ w') = count_cancel w + count_cancel w'.
Proof. intros. unfold count_cancel. rewrite filter_app, app_length. reflexivity. Qed.
Lemma ns_app : forall w w', no_stray (w ++ w') = no_stray w && no_stray w'.
Proof. intros. unfold no_stray. apply forallb_app. Qed.
Lemma has_ctx_add : forall l, has_ctx (add_ctx l) = true.
Proof.
  intros l. unfold add_ctx. fold (has_ctx l). destruct (has_ctx l) eqn:E; auto.
  unfold has_ctx. rewrite existsb_app. cbn. apply orb_true_r.
Qed.

Record cinv (s : st) : Prop := {
  c_cc : count_cancel (wire s) = 0 \/
         (count_cancel (wire s) = 1 /\ (closed s = true \/ wmd s = WClose \/ mmd s = MClose));
  c_ns : no_stray (wire s) = true;
  c_m : match mmd s with
        | MWait => True
        | MCancelWrite | MClose => has_ctx (ret s) = true /\ pcancel s = true /\ failed s = true
        | MDone => failed s = true -> pcancel s = true -> closed s = true /\ has_ctx (ret s) = true
        end;
  c_dac : (pcancel s = false -> dac s = 0) /\ (pcancel s = true -> dac s + swlen s <= length (inflight s));
  c_sw : pcancel s = true -> cancelled s = true;
  c_rac : (cancelled s = false -> rac s = 0) /\ rac s <= 1 /\ (rac s = 1 -> rmd s <> RRead);
  c_g : gotexc s = true -> failed s = true \/ r_err (rmd s) = true
}.

Lemma cinv_init : forall sc, cinv (init sc).
Proof.
  intros sc. constructor; cbn; auto.
  all: try (intros; discriminate).
  all: try (split; intros; auto; try discriminate; try lia; fail).
  all: try (repeat split; auto; intros; discriminate).
Qed.

Lemma cc_nil : count_cancel [] = 0. Proof. reflexivity. Qed.
Lemma cc_chunk : forall b, count_cancel [WChunk b] = 0. Proof. reflexivity. Qed.
Lemma cc_part : count_cancel [WPart] = 0. Proof. reflexivity. Qed.
Lemma cc_cancel : count_cancel [WCancel] = 1. Proof. reflexivity. Qed.
Lemma ns_nil : no_stray [] = true. Proof. reflexivity. Qed.
Lemma ns_chunk : forall b, no_stray [WChunk b] = true. Proof. reflexivity. Qed.
Lemma ns_part : no_stray [WPart] = true. Proof. reflexivity. Qed.
Lemma ns_cancel : no_stray [WCancel] = true. Proof. reflexivity. Qed.
Arguments count_cancel : simpl never.
Arguments no_stray : simpl never.
Arguments has_ctx : simpl never.

Ltac cfin :=
  unfold pend_chunks, failed, all_done, cancel_toks, swlen in *; cbn;
  rewrite ?app_nil_r, ?cc_app, ?ns_app, ?cc_nil, ?cc_chunk, ?cc_part, ?cc_cancel, ?ns_nil, ?ns_chunk, ?ns_part, ?ns_cancel;
  repeat match goal with H : mmd _ = _ |- _ => rewrite H in * end;
  repeat match goal with H : smd _ = _ |- _ => rewrite H in * end;
  repeat match goal with H : rmd _ = _ |- _ => rewrite H in * end;
  repeat match goal with H : wmd _ = _ |- _ => rewrite H in * end;
  repeat match goal with H : pvec _ = _ |- _ => rewrite H in * end;
  repeat match goal with H : closed _ = _ |- _ => rewrite H in * end;
  repeat match goal with H : cancelled _ = _ |- _ => rewrite H in * end;
  repeat match goal with H : gotexc _ = _ |- _ => rewrite H in * end;
  cbn [length r_err orb] in *; rewrite ?andb_true_r;
  try solve [ auto | lia | congruence
            | destruct (pcancel _); cbn in *; intuition (auto; try lia; try congruence; try discriminate)
            | destruct (err1 _); cbn in *; intuition (auto; try lia; try congruence; try discriminate)
            | intuition (auto; try lia; try congruence; try discriminate) ].

Lemma cinv_step_s : forall sc alt s, inv s -> cinv s -> cinv (step_s all_fixed sc alt s).
Proof.
  intros sc alt s Hinv Hkeep. pose proof Hkeep as [Hcc Hns Hm Hd Hsw Hr Hg].
  pose proof Hinv as [Ic Ie Irx Is Io Im].
  assert (HM : mmd s = MWait \/ smd s = SDone).
  { destruct (mmd s); auto; right; destruct Im as [Hx _]; apply all_done_s in Hx; tauto. }
  unfold step_s.
  destruct (smd s) eqn:Esm; try exact Hkeep.
  all: destruct HM as [HM|HM]; [|congruence].
  all: repeat (brk; try exact Hkeep).
  all: try rewrite (enc_pair ops).
  all: try match goal with |- context [st_record _ ?e] => destruct e end.
  all: constructor; cfin.
Qed.

Lemma cinv_step_r : forall sc alt s, inv s -> cinv s -> cinv (step_r all_fixed sc alt s).
Proof.
  intros sc alt s Hinv Hkeep. pose proof Hkeep as [Hcc Hns Hm Hd Hsw Hr Hg].
  pose proof Hinv as [Ic Ie Irx Is Io Im].
  assert (HM : mmd s = MWait \/ rmd s = RDone).
  { destruct (mmd s); auto; right; destruct Im as [Hx _]; apply all_done_s in Hx; tauto. }
  unfold step_r.
  destruct (rmd s) eqn:Erm; try exact Hkeep.
  all: destruct HM as [HM|HM]; [|congruence].
  all: cbn [r_exited] in Irx.
  1-4: assert (Hg0 : gotexc s = false) by (destruct (gotexc s); auto; symmetry; apply Irx; auto).
  all: try (assert (Hr1 : rac s <> 1) by (destruct Hr as [_ [_ Hr]]; intro X; apply Hr in X; apply X; auto)).
  all: repeat (brk; try exact Hkeep).
  all: try match goal with |- context [st_record _ ?e] => destruct e end.
  all: constructor; cfin.
  all: destruct Hr as [Hr0 [Hr2 _]]; destruct (cancelled s); [|rewrite Hr0 by auto]; repeat split; intros; try lia; try discriminate.
Qed.

Lemma cinv_step_w : forall sc s, inv s -> cinv s -> cinv (step_w all_fixed sc s).
Proof.
  intros sc s Hinv Hkeep. pose proof Hkeep as [Hcc Hns Hm Hd Hsw Hr Hg].
  pose proof Hinv as [Ic Ie Irx Is Io Im].
  assert (HM : mmd s = MWait \/ wmd s = WDone).
  { destruct (mmd s); auto; right; destruct Im as [Hx _]; apply all_done_s in Hx; tauto. }
  unfold step_w, cancel_emit.
  destruct (wmd s) eqn:Ewm; try exact Hkeep.
  all: destruct HM as [HM|HM]; [|congruence].
  all: repeat (brk; try exact Hkeep).
  all: try match goal with |- context [st_record _ ?e] => destruct e end.
  all: constructor; cfin.
Qed.

Lemma cinv_step_m : forall sc s, inv s -> cinv s -> cinv (step_m all_fixed sc s).
Proof.
  intros sc s Hinv Hkeep. pose proof Hkeep as [Hcc Hns Hm Hd Hsw Hr Hg].
  pose proof Hinv as [Ic Ie Irx Is Io Im].
  unfold step_m, cancel_emit.
  destruct (mmd s) eqn:Emm; try exact Hkeep.
  - destruct (all_done s) eqn:Ead; [|exact Hkeep].
    pose proof (all_done_s _ Ead) as [E1 [E2 E3]].
    cbn [fx_failed all_fixed fx_ctx].
    repeat (brk; try exact Hkeep).
    all: constructor; cfin.
    all: try (rewrite has_ctx_add; auto).
    all: try (cbn in Heqb; rewrite Heqb, Heqr; auto).
  - destruct Im as [Hx _]. pose proof (all_done_s _ Hx) as [E1 [E2 E3]].
    repeat (brk; try exact Hkeep).
    all: constructor; cfin.
  - destruct Im as [Hx _]. pose proof (all_done_s _ Hx) as [E1 [E2 E3]].
    constructor; cfin.
Qed.

Lemma cinv_step_env : forall s, inv s -> cinv s -> cinv (step_env s).
Proof.
  intros s Hinv Hkeep. pose proof Hkeep as [Hcc Hns Hm Hd Hsw Hr Hg].
  pose proof Hinv as [Ic Ie Irx Is Io Im].
  unfold step_env.
  repeat (brk; try exact Hkeep).
  all: constructor; cfin.
  all: try (destruct (smd s); cbn; split; intros; try discriminate; lia).
  all: try (destruct Hr as [Hr0 [Hr1 Hr2]]; repeat split; auto; intros; discriminate).
Qed.

Lemma both_step : forall sc g alt s, inv s /\ cinv s -> inv (step all_fixed sc g alt s) /\ cinv (step all_fixed sc g alt s).
Proof.
  intros sc g alt s [Hi Hc]. split; [apply inv_step; auto|].
  destruct g; cbn [step].
  - apply cinv_step_s; auto.
  - apply cinv_step_r; auto.
  - apply cinv_step_w; auto.
  - apply cinv_step_m; auto.
  - apply cinv_step_env; auto.
Qed.

Lemma both_run : forall sc sched s, inv s /\ cinv s -> inv (run all_fixed sc sched s) /\ cinv (run all_fixed sc sched s).
Proof.
  induction sched as [|[g alt] r IH]; intros s H; cbn [run]; auto using both_step.
Qed.

Lemma both_reach : forall sc sched, wf_prog true (sc_prog sc) = true ->
  inv (run all_fixed sc sched (init sc)) /\ cinv (run all_fixed sc sched (init sc)).
Proof. intros. apply both_run. split; [apply inv_init; auto|apply cinv_init]. Qed.

(* C10: every scenario, every fault, every instant of cancellation, every schedule: if the caller's context
   ended before Do returned and Do returned an error, then the client is closed, the error matches the
   context's error, all three goroutines have returned, at most one Cancel packet was written and it is
   the bare one-byte packet, and the only data written after the cancellation are chunks of the flush that was
   already in progress at that instant *)
Theorem cancel_closes_thm : forall sc sched s,
  wf_prog true (sc_prog sc) = true ->
  s = run all_fixed sc sched (init sc) ->
  terminal s = true -> failed s = true -> pcancel s = true ->
  closed s = true /\ has_ctx (ret s) = true /\ all_done s = true /\
  count_cancel (wire s) <= 1 /\ no_stray (wire s) = true /\ dac s <= length (inflight s).
Proof.
  intros sc sched s Hwf -> Ht Hf Hp.
  destruct (both_reach sc sched Hwf) as [[Ic Ie Irx Is Io Im] [Hcc Hns Hm Hd Hsw Hr Hg]].
  set (s := run all_fixed sc sched (init sc)) in *.
  unfold terminal in Ht. destruct (mmd s) eqn:Emm; try discriminate.
  destruct (Hm Hf Hp) as [H1 H2]. destruct Im as [Had _].
  repeat split; auto.
  - destruct Hcc as [Hcc|[Hcc _]]; lia.
  - destruct Hd as [_ Hd]. specialize (Hd Hp). lia.
Qed.

(* at any reachable state: at most one Cancel, never a stray byte, and after the group context is done
   the receiver starts at most one more read *)
Theorem cancel_wellformed_thm : forall sc sched s,
  wf_prog true (sc_prog sc) = true -> s = run all_fixed sc sched (init sc) ->
  count_cancel (wire s) <= 1 /\ no_stray (wire s) = true /\ rac s <= 1.
Proof.
  intros sc sched s Hwf ->.
  destruct (both_reach sc sched Hwf) as [_ [Hcc Hns Hm Hd Hsw Hr Hg]].
  repeat split; auto.
  - destruct Hcc as [Hcc|[Hcc _]]; lia.
  - tauto.
Qed.

