(* Proofs about Client.Do, third part: faults and environments found by seeded changes.
     (c) a server that repeats the INSERT header block: the call returns once the group's context is done,
         and can wait for ever when it is not;
     (a) the Write of the Cancel packet fails;
     (b) conn.Close reports an error;
     (d) sendQuery itself fails;
     (f) a handshake Write that stalls until the connection is closed. *)
From CH Require Import model.DoLTS proofs.DoLTSProofs proofs.DoLTSProofs2.
From Coq Require Import Lia.

(* ---------------------------------------------------------------- frames *)

Lemma frame_r : forall fx sc g alt s, g <> GR ->
  rmd (step fx sc g alt s) = rmd s /\ pos (step fx sc g alt s) = pos s.
Proof.
  intros fx sc g alt s Hg. destruct g; cbn [step]; try congruence.
  - unfold step_s. crunch.
  - unfold step_w. crunch.
  - unfold step_m. crunch.
  - unfold step_env. crunch.
Qed.

Lemma mono_cancelled : forall fx sc g alt s, cancelled s = true -> cancelled (step fx sc g alt s) = true.
Proof.
  intros fx sc g alt s H. destruct g; cbn [step].
  - unfold step_s. crunch.
  - unfold step_r. crunch.
  - unfold step_w. crunch.
  - unfold step_m. crunch.
  - unfold step_env. crunch.
Qed.

(* the caller's context is the parent of the group's context *)
Lemma pc_step : forall fx sc g alt s,
  (pcancel s = true -> cancelled s = true) ->
  pcancel (step fx sc g alt s) = true -> cancelled (step fx sc g alt s) = true.
Proof.
  intros fx sc g alt s H. destruct g; cbn [step].
  - unfold step_s. crunch; try exact H; intros X; try reflexivity; specialize (H X); congruence.
  - unfold step_r. crunch; try exact H; intros X; try reflexivity; specialize (H X); congruence.
  - unfold step_w. crunch; try exact H; intros X; try reflexivity; specialize (H X); congruence.
  - unfold step_m. crunch; try exact H; intros X; try reflexivity; specialize (H X); congruence.
  - unfold step_env. crunch; try exact H; intros X; try reflexivity; specialize (H X); congruence.
Qed.

Lemma pc_run : forall fx sc sched s,
  (pcancel s = true -> cancelled s = true) ->
  pcancel (run fx sc sched s) = true -> cancelled (run fx sc sched s) = true.
Proof.
  induction sched as [|[g alt] r IH]; intros s H; cbn [run]; auto.
  apply IH. apply pc_step. exact H.
Qed.

(* ---------------------------------------------------------------- (c) the call returns once the context is done *)

(* the receiver's part of the variant when the group's context is done: at the top of its loop it leaves *)
Definition mu_rc (sc : scen) (s : st) : nat :=
  match rmd s with
  | RTop => 5
  | RRead => 6 * (length (sc_script sc) - pos s) + 11
  | RAtCb _ | RSendInfo => 6 * (length (sc_script sc) - pos s) + 15
  | RExit1 _ => 4 | RExit2 _ => 3 | RHook _ => 2 | RRet _ => 1 | RDone => 0
  end.
Definition mu_c (sc : scen) (s : st) : nat := mu_s s + mu_rc sc s + mu_w s + mu_m s.

Lemma mu_rc_frame : forall sc s s', rmd s' = rmd s -> pos s' = pos s -> mu_rc sc s' = mu_rc sc s.
Proof. intros sc s s' H1 H2. unfold mu_rc. rewrite H1, H2. reflexivity. Qed.

(* with the group's context done, a receiver step in which an armed read deadline fires rather than waits
   ([alt] = true) always gets the receiver nearer to its exit: there is no wait left that ignores the context.
   This is where the select in the handler Do installs for the schema block matters (RSendInfo) *)
Lemma mu_step_rc : forall fx sc s, cancelled s = true -> rmd s <> RDone ->
  mu_rc sc (step_r fx sc true s) < mu_rc sc s.
Proof.
  intros fx sc s Hc Hd. unfold step_r, mu_rc. rewrite Hc.
  destruct (rmd s) eqn:Erm; try congruence.
  - cbn. lia.
  - destruct (next_read sc s) eqn:Enr; cbn; lia.
  - destruct ok; cbn; lia.
  - destruct (ci_item s); cbn; lia.
  - destruct (sc_insert sc); cbn; lia.
  - cbn. lia.
  - cbn. lia.
  - destruct e; cbn; lia.
Qed.

Lemma progress_cancelled : forall fx sc s,
  pinv sc s -> cancelled s = true -> terminal s = false ->
  exists g alt, mu_c sc (step fx sc g alt s) < mu_c sc s.
Proof.
  intros fx sc s [Pd Pc Pw] Hc Ht.
  destruct (smd s) eqn:Esm.
  1-5: exists GS, false;
       pose proof (mu_step_s fx sc false s) as H; cbv zeta in H;
       destruct H as [_ [H2 [H3 [_ [_ H6]]]]];
       assert (Hb : blocked_s s = false)
         by (unfold blocked_s; rewrite Esm; destruct (sprog s) as [|[] ?]; auto; rewrite Hc, !orb_true_r; reflexivity);
       specialize (H6 Hb); rewrite Esm in H6;
       assert (mu_s (step_s fx sc false s) < mu_s s) by (apply H6; discriminate);
       destruct (frame_r fx sc GS false s ltac:(discriminate)) as [F1 F2];
       pose proof (mu_rc_frame sc s _ F1 F2) as F; cbn [step] in *; unfold mu_c; lia.
  destruct (rmd s) eqn:Erm.
  1-8: exists GR, true;
       pose proof (mu_step_r fx sc true s) as H; cbv zeta in H;
       destruct H as [H1 [H2 [H3 _]]];
       assert (mu_rc sc (step_r fx sc true s) < mu_rc sc s) by (apply mu_step_rc; [exact Hc|rewrite Erm; discriminate]);
       cbn [step]; unfold mu_c; lia.
  cbn in Pd.
  destruct (wmd s) eqn:Ew.
  1-7: exists GW, false;
       pose proof (mu_step_w fx sc s) as H; cbv zeta in H;
       destruct H as [H1 [_ [H3 [_ [_ H6]]]]];
       assert (mu_w (step_w fx sc s) < mu_w s) by (apply H6; [intros; auto|rewrite Ew; discriminate]);
       destruct (frame_r fx sc GW false s ltac:(discriminate)) as [F1 F2];
       pose proof (mu_rc_frame sc s _ F1 F2) as F; cbn [step] in *; unfold mu_c; lia.
  exists GM, false.
  pose proof (mu_step_m fx sc s) as H; cbv zeta in H.
  destruct H as [H1 [_ [H3 [_ [_ H6]]]]].
  assert (mu_m (step_m fx sc s) < mu_m s).
  { apply H6. - intros _. unfold all_done. rewrite Esm, Erm, Ew. reflexivity.
    - unfold terminal in Ht. destruct (mmd s); discriminate. }
  destruct (frame_r fx sc GM false s ltac:(discriminate)) as [F1 F2].
  pose proof (mu_rc_frame sc s _ F1 F2) as F. cbn [step] in *. unfold mu_c. lia.
Qed.

Lemma drain : forall fx sc n s,
  mu_c sc s <= n -> pinv sc s -> cancelled s = true ->
  exists sched, length sched <= n /\ terminal (run fx sc sched s) = true.
Proof.
  induction n as [|n IH]; intros s Hn Hp Hc.
  - destruct (terminal s) eqn:Ht; [exists []; split; auto|].
    destruct (progress_cancelled fx sc s Hp Hc Ht) as [g [alt H]]. lia.
  - destruct (terminal s) eqn:Ht; [exists []; split; [cbn; lia|auto]|].
    destruct (progress_cancelled fx sc s Hp Hc Ht) as [g [alt H]].
    destruct (IH (step fx sc g alt s)) as [sched [Hl Hr]].
    + lia.
    + apply pinv_step; auto.
    + apply mono_cancelled; auto.
    + exists ((g, alt) :: sched). split; [cbn; lia|exact Hr].
Qed.

(* a bound that depends on the scenario only *)
Definition do_bound (sc : scen) : nat := w_prog (sc_prog sc) + 6 * length (sc_script sc) + 29.

Lemma mu_s_step : forall fx sc g alt s, mu_s (step fx sc g alt s) <= mu_s s.
Proof.
  intros fx sc g alt s. destruct g; cbn [step].
  - pose proof (mu_step_s fx sc alt s) as H. cbv zeta in H. lia.
  - pose proof (mu_step_r fx sc alt s) as H. cbv zeta in H. lia.
  - pose proof (mu_step_w fx sc s) as H. cbv zeta in H. lia.
  - pose proof (mu_step_m fx sc s) as H. cbv zeta in H. lia.
  - pose proof (mu_step_env sc s) as H. cbv zeta in H. lia.
Qed.

Lemma mu_s_run : forall fx sc sched s, mu_s (run fx sc sched s) <= mu_s s.
Proof.
  induction sched as [|[g alt] r IH]; intros s; cbn [run]; [lia|].
  specialize (IH (step fx sc g alt s)). pose proof (mu_s_step fx sc g alt s). lia.
Qed.

Lemma mu_c_bound : forall fx sc sched, mu_c sc (run fx sc sched (init sc)) <= do_bound sc.
Proof.
  intros fx sc sched. pose proof (mu_s_run fx sc sched (init sc)) as H.
  set (s := run fx sc sched (init sc)) in *.
  assert (mu_s (init sc) = w_prog (sc_prog sc) + 2) by (unfold mu_s, plen; cbn; unfold tlen; lia).
  assert (mu_rc sc s <= 6 * length (sc_script sc) + 15) by (unfold mu_rc; destruct (rmd s); lia).
  assert (mu_w s <= 8) by (unfold mu_w; destruct (wmd s); lia).
  assert (mu_m s <= 4) by (unfold mu_m; destruct (mmd s); lia).
  unfold mu_c, do_bound. lia.
Qed.

(* from every reachable state in which the group's context is done (the caller's context ended, or one of the
   three goroutines failed), a schedule of at most [do_bound sc] steps leads to a state in which Do has returned:
   whatever the server sent or did not send, in particular when it repeats the INSERT header block *)
Theorem do_returns_when_group_context_done_thm : forall fx sc sched0 s,
  (has_wait (sc_prog sc) = true -> sc_insert sc = true) ->
  s = run fx sc sched0 (init sc) -> cancelled s = true ->
  exists sched, length sched <= do_bound sc /\ terminal (run fx sc sched s) = true.
Proof.
  intros fx sc sched0 s Hw -> Hc.
  apply drain; auto.
  - apply mu_c_bound.
  - apply pinv_run; auto.
Qed.

Theorem do_returns_when_context_ends_thm : forall fx sc sched0 s,
  (has_wait (sc_prog sc) = true -> sc_insert sc = true) ->
  s = run fx sc sched0 (init sc) -> pcancel s = true ->
  exists sched, length sched <= do_bound sc /\ terminal (run fx sc sched s) = true.
Proof.
  intros fx sc sched0 s Hw Hs Hp.
  apply (do_returns_when_group_context_done_thm fx sc sched0 s Hw Hs).
  subst s. apply pc_run; auto.
Qed.

(* ... and every further step keeps Do returned: terminal states are final *)
Lemma terminal_step : forall fx sc g alt s, terminal s = true -> step fx sc g alt s = s \/ terminal (step fx sc g alt s) = true.
Proof.
  intros fx sc g alt s H. right. unfold terminal in *. destruct (mmd s) eqn:Em; try discriminate.
  destruct g; cbn [step].
  - unfold step_s. crunch; rewrite ?Em; auto.
  - unfold step_r. crunch; rewrite ?Em; auto.
  - unfold step_w. crunch; rewrite ?Em; auto.
  - unfold step_m. rewrite Em. cbn. rewrite ?Em. reflexivity.
  - unfold step_env. rewrite Em. cbn. rewrite ?Em. reflexivity.
Qed.

(* the honest statement for a context that never ends: a server that answers an INSERT with three schema blocks.
   The sender took the first, the second sits in the channel, the receiver waits to hand over the third in a
   select that only the context can end: no step but the environment's changes the state *)
Definition sc_w3 := mk_sc QIns false false 2 [] [(1, PInfo); (1, PInfo); (1, PInfo)] None None.
Definition sch_w3 := rep 4 GS ++ rep 4 GR ++ rep 12 GS ++ rep 8 GR ++ rep 2 GW ++ rep 2 GM.

Lemma witness_3 : let s := run all_fixed sc_w3 sch_w3 (init sc_w3) in
  wf_prog true (sc_prog sc_w3) = true /\ terminal s = false /\ pcancel s = false /\ cancelled s = false /\
  smd s = SDone /\ failed s = false /\ rmd s = RSendInfo /\ ci_item s = true /\
  forall g alt, g <> GEnv -> step all_fixed sc_w3 g alt s = s.
Proof.
  cbv zeta. repeat (split; [vm_compute; reflexivity|]).
  intros g alt Hg. destruct g, alt; try congruence; vm_compute; reflexivity.
Qed.

Lemma stuck_run : forall fx sc s, (forall g alt, g <> GEnv -> step fx sc g alt s = s) ->
  forall sched, Forall (fun ga => fst ga <> GEnv) sched -> run fx sc sched s = s.
Proof.
  intros fx sc s Hs. induction sched as [|[g alt] r IH]; intros HF; cbn [run]; auto.
  inversion HF; subst. cbn in *. rewrite Hs by auto. apply IH. auto.
Qed.

Theorem do_returns_without_cancel_refuted_thm :
  ~ (forall sc sched0 s, wf_prog true (sc_prog sc) = true ->
       (has_wait (sc_prog sc) = true -> sc_insert sc = true) ->
       s = run all_fixed sc sched0 (init sc) ->
       exists sched, Forall (fun ga => fst ga <> GEnv) sched /\ terminal (run all_fixed sc sched s) = true).
Proof.
  intros H. destruct witness_3 as [Hw [Ht [_ [_ [_ [_ [_ [_ Hst]]]]]]]].
  destruct (H sc_w3 sch_w3 _ Hw ltac:(reflexivity) eq_refl) as [sched [HF Hterm]].
  rewrite (stuck_run _ _ _ Hst sched HF) in Hterm. congruence.
Qed.

(* ---------------------------------------------------------------- (a) the Cancel write fails *)

Lemma cwf_step : forall fx sc g alt s, sc_cancel_wfault sc = true ->
  count_cancel (wire (step fx sc g alt s)) = count_cancel (wire s).
Proof.
  intros fx sc g alt s Hf. destruct g; cbn [step].
  - unfold step_s. crunch; rewrite ?cc_app, ?cc_part, ?cc_nil, ?cc_chunk; try lia.
  - unfold step_r. crunch.
  - unfold step_w, cancel_emit. rewrite Hf. crunch; rewrite ?app_nil_r; auto.
  - unfold step_m, cancel_emit. rewrite Hf. crunch; rewrite ?app_nil_r; auto.
  - unfold step_env. crunch.
Qed.

(* when the Cancel write fails, no Cancel packet and no part of one is on the wire *)
Theorem cancel_write_fault_thm : forall fx sc sched s,
  sc_cancel_wfault sc = true -> s = run fx sc sched (init sc) -> count_cancel (wire s) = 0.
Proof.
  intros fx sc sched s Hf ->.
  assert (Hall : forall sched s0, count_cancel (wire (run fx sc sched s0)) = count_cancel (wire s0)).
  { induction sched0 as [|[g alt] r IH]; intros s0; cbn [run]; auto. rewrite IH. apply cwf_step; auto. }
  rewrite Hall. reflexivity.
Qed.

(* C10 with the fault: everything cancel_closes says, and the wire holds no Cancel *)
Theorem cancel_closes_cancel_write_fails_thm : forall sc sched s,
  wf_prog true (sc_prog sc) = true -> sc_cancel_wfault sc = true ->
  s = run all_fixed sc sched (init sc) ->
  terminal s = true -> failed s = true -> pcancel s = true ->
  closed s = true /\ has_ctx (ret s) = true /\ all_done s = true /\
  count_cancel (wire s) = 0 /\ no_stray (wire s) = true /\ dac s <= length (inflight s).
Proof.
  intros sc sched s Hwf Hf Hs Ht Hfl Hp.
  destruct (cancel_closes_thm sc sched s Hwf Hs Ht Hfl Hp) as [H1 [H2 [H3 [_ [H5 H6]]]]].
  repeat split; auto. apply (cancel_write_fault_thm all_fixed sc sched s Hf Hs).
Qed.

(* ---------------------------------------------------------------- (b) the result of conn.Close *)

Definition with_close_err (b : bool) (sc : scen) : scen :=
  {| sc_insert := sc_insert sc; sc_prog := sc_prog sc; sc_script := sc_script sc; sc_cut := sc_cut sc;
     sc_wfault := sc_wfault sc; sc_cancel_wfault := sc_cancel_wfault sc; sc_close_err := b |}.

Lemma close_err_step : forall fx sc b g alt s, step fx (with_close_err b sc) g alt s = step fx sc g alt s.
Proof. intros. destruct g; reflexivity. Qed.

Theorem close_result_irrelevant_thm : forall fx sc b sched,
  run fx (with_close_err b sc) sched (init (with_close_err b sc)) = run fx sc sched (init sc).
Proof.
  intros fx sc b sched. change (init (with_close_err b sc)) with (init sc).
  generalize (init sc). induction sched as [|[g alt] r IH]; intros s; cbn [run]; auto.
Qed.

(* ---------------------------------------------------------------- (d) sendQuery itself fails *)

Definition is_flush (a : sact) : bool := match a with AFlush => true | _ => false end.
Definition has_flush (p : list sact) : bool := existsb is_flush p.

Record finv (s : st) : Prop := {
  f_p : has_flush (sprog s) = false;
  f_m : smd s <> SWriting;
  f_w : nwcalls s = 0 /\ nw s = 0 /\ data_toks (wire s) = []
}.

Lemma dt_app : forall w w', data_toks (w ++ w') = data_toks w ++ data_toks w'.
Proof. intros. unfold data_toks. apply filter_app. Qed.

Lemma finv_step : forall sc g alt s, finv s -> finv (step all_fixed sc g alt s).
Proof.
  intros sc g alt s [Hp Hm Hw]. destruct g; cbn [step].
  - unfold step_s. destruct (smd s) eqn:Esm; try congruence.
    + destruct (sprog s) as [|a p] eqn:Ep; [constructor; cbn; auto; discriminate|].
      assert (Hp' : has_flush p = false).
      { unfold has_flush in *. cbn in Hp. apply orb_false_elim in Hp. tauto. }
      destruct a; try (cbn in Hp; discriminate).
      all: crunch; constructor; cbn; auto; try discriminate.
      all: rewrite ?Ep, ?Esm; auto; discriminate.
    + constructor; cbn; auto. discriminate.
    + destruct r; constructor; cbn; auto; discriminate.
    + destruct e; constructor; cbn; auto; discriminate.
    + constructor; rewrite ?Esm; auto.
  - unfold step_r. crunch; constructor; cbn; auto.
  - unfold step_w, cancel_emit, cancel_toks. crunch; constructor; cbn; auto.
    all: rewrite ?dt_app; cbn; rewrite ?app_nil_r; tauto.
  - unfold step_m, cancel_emit, cancel_toks. crunch; constructor; cbn; auto.
    all: rewrite ?dt_app; cbn; rewrite ?app_nil_r; tauto.
  - unfold step_env. crunch; constructor; cbn; auto.
Qed.

(* a query whose program never reaches a flush (sendQuery failed while encoding) writes no data at all *)
Theorem no_flush_no_data_thm : forall sc sched s,
  has_flush (sc_prog sc) = false -> s = run all_fixed sc sched (init sc) ->
  nwcalls s = 0 /\ nw s = 0 /\ data_toks (wire s) = [].
Proof.
  intros sc sched s Hf ->.
  assert (Hall : forall sched s0, finv s0 -> finv (run all_fixed sc sched s0)).
  { induction sched0 as [|[g alt] r IH]; intros s0 H0; cbn [run]; auto using finv_step. }
  apply (f_w _ (Hall sched (init sc) ltac:(constructor; cbn; auto; discriminate))).
Qed.

Lemma compile_selx_no_flush : forall comp gate rows0 rounds, has_flush (compile QSelX comp gate rows0 rounds) = false.
Proof. intros. destruct gate; reflexivity. Qed.

(* ---------------------------------------------------------------- (f) the handshake with a stalled write *)

Definition hmu_h (m : hmode) : nat :=
  match m with H1Check => 8 | H1Write => 7 | HRead => 6 | H2Check => 5 | H2Write => 4 | HRet _ => 3 | HRec _ => 2 | HDone => 0 end.
Definition hmu_d (m : dmode) : nat := match m with DWait => 3 | DClose => 2 | DRet => 1 | DDone => 0 end.
Definition hmu_k (m : kmode) : nat := match m with KWait => 2 | KCheck => 1 | KDone => 0 end.
Definition hmu (s : hst) : nat := hmu_h (hmd s) + hmu_d (dmd s) + hmu_k (kmd s).

Definition h_past_writes (m : hmode) : bool := match m with HRec _ | HDone => true | _ => false end.
Definition d_left (m : dmode) : bool := match m with DRet | DDone => true | _ => false end.

(* the watchdog leaves only after it closed the connection or after the hello goroutine has returned *)
Definition hpinv (s : hst) : Prop :=
  (h_hdone s = true -> h_past_writes (hmd s) = true) /\
  (d_left (dmd s) = true -> h_closed s = true \/ h_hdone s = true).

Lemma hpinv_init : hpinv hinit.
Proof. split; cbn; intros; discriminate. Qed.

Lemma hpinv_step : forall f a st1 st2 r g alt s, hpinv s -> hpinv (hstep f a st1 st2 r g alt s).
Proof.
  intros f a st1 st2 r g alt [pc gc hd cl ncl e1 rt ok hm dm km] [H1 H2]. unfold hpinv in *. cbn in *.
  destruct hd, cl, pc; cbn in *.
  all: destruct g; cbn.
  all: try (destruct hm as [| | | | |e|e|]; try destruct e; cbn in *; repeat (brki; cbn; auto);
            intuition (auto; try discriminate; try congruence); fail).
  all: try (destruct dm; cbn in *; repeat (brki; cbn; auto); intuition (auto; try discriminate; try congruence); fail).
  all: try (destruct km; cbn in *; auto; [destruct hm, dm; cbn in *; auto|];
            repeat (brki; cbn; auto); intuition (auto; try discriminate; try congruence); fail).
Qed.

Lemma hprogress : forall f a st1 st2 r s,
  hpinv s -> h_pc s = true -> hterminal s = false ->
  exists g alt, hmu (hstep f a st1 st2 r g alt s) < hmu s.
Proof.
  intros f a st1 st2 r [pc gc hd cl ncl e1 rt ok hm dm km] [H1 H2] Hp Ht.
  unfold hterminal, hpinv, hmu in *. cbn in *. subst pc.
  destruct dm.
  - (* the watchdog waits: the context has ended, it closes the connection or leaves *)
    exists HD, true. cbn. destruct hd; cbn; lia.
  - exists HD, false. cbn. lia.
  - exists HD, false. cbn. lia.
  - destruct (H2 eq_refl) as [Hc|Hh].
    + subst cl.
      destruct hm as [| | | | |e|e|].
      1-7: exists HH, true; cbn; try destruct e; cbn; repeat (brki; cbn; try lia); try lia.
      destruct km; try discriminate.
      * exists HK, false. cbn. lia.
      * exists HK, false. cbn. repeat (brki; cbn; try lia).
    + subst hd. specialize (H1 eq_refl).
      destruct hm as [| | | | |e|e|]; try discriminate.
      * exists HH, true. cbn. destruct e; cbn; try lia.
      * destruct km; try discriminate.
        -- exists HK, false. cbn. lia.
        -- exists HK, false. cbn. repeat (brki; cbn; try lia).
Qed.

Lemma hpc_step : forall f a st1 st2 r g alt s, h_pc s = true -> h_pc (hstep f a st1 st2 r g alt s) = true.
Proof.
  intros f a st1 st2 r g alt [pc gc hd cl ncl e1 rt ok hm dm km] H. cbn in *. subst pc.
  destruct g; cbn.
  - destruct hm as [| | | | |e|e|]; try destruct e; cbn; repeat (brki; cbn; auto).
  - destruct dm; cbn; repeat (brki; cbn; auto).
  - destruct km; cbn; auto.
    + destruct hm, dm; cbn; auto.
    + repeat (brki; cbn; auto).
  - destruct km; cbn; auto.
Qed.

Lemma hdrain : forall f a st1 st2 r n s,
  hmu s <= n -> hpinv s -> h_pc s = true ->
  exists sched, length sched <= n /\ hterminal (hrun f a st1 st2 r sched s) = true.
Proof.
  induction n as [|n IH]; intros s Hn Hi Hp.
  - destruct (hterminal s) eqn:Ht; [exists []; split; auto|].
    destruct (hprogress f a st1 st2 r s Hi Hp Ht) as [g [alt H]]. lia.
  - destruct (hterminal s) eqn:Ht; [exists []; split; [cbn; lia|auto]|].
    destruct (hprogress f a st1 st2 r s Hi Hp Ht) as [g [alt H]].
    destruct (IH (hstep f a st1 st2 r g alt s)) as [sched [Hl Hr]].
    + lia.
    + apply hpinv_step; auto.
    + apply hpc_step; auto.
    + exists ((g, alt) :: sched). split; [cbn; lia|exact Hr].
Qed.

Lemma hpinv_run : forall f a st1 st2 r sched s, hpinv s -> hpinv (hrun f a st1 st2 r sched s).
Proof.
  induction sched as [|[g alt] q IH]; intros s H; cbn [hrun]; auto using hpinv_step.
Qed.

(* handshake: whichever of its two writes stalls, once the caller's (or the handshake timeout's) context has ended
   at most 13 further steps lead to handshake() having returned - the watchdog's Close ends the stalled write *)
Theorem handshake_returns_when_context_ends_thm : forall f a st1 st2 r sched0 s,
  s = hrun f a st1 st2 r sched0 hinit -> h_pc s = true ->
  exists sched, length sched <= 13 /\ hterminal (hrun f a st1 st2 r sched s) = true.
Proof.
  intros f a st1 st2 r sched0 s -> Hp.
  apply hdrain; auto.
  - set (s := hrun f a st1 st2 r sched0 hinit). unfold hmu.
    destruct (hmd s), (dmd s), (kmd s); cbn; lia.
  - apply hpinv_run. apply hpinv_init.
Qed.

(* ... and without the end of the context a stalled write is a handshake that never returns: after the addendum
   write began to stall no step but the environment's changes the state *)
Definition hsch_stall : list (hwho * bool) := repeat (HH, false) 5.
Lemma witness_hs_stall : let s := hrun true true false true HrHello hsch_stall hinit in
  hterminal s = false /\ h_pc s = false /\ hmd s = H2Write /\
  forall g alt, g <> HEnv -> hstep true true false true HrHello g alt s = s.
Proof.
  cbv zeta. repeat (split; [vm_compute; reflexivity|]).
  intros g alt Hg. destruct g, alt; try congruence; vm_compute; reflexivity.
Qed.

Theorem sendquery_failure_sends_nothing_thm : forall comp gate rows0 rounds sc sched s,
  sc_prog sc = compile QSelX comp gate rows0 rounds -> s = run all_fixed sc sched (init sc) ->
  nwcalls s = 0 /\ nw s = 0 /\ data_toks (wire s) = [].
Proof.
  intros comp gate rows0 rounds sc sched s Hp Hs. apply (no_flush_no_data_thm sc sched s); auto.
  rewrite Hp. apply compile_selx_no_flush.
Qed.

(* ---------------------------------------------------------------- scenarios for the non-vacuity examples *)

Definition with_cancel_wfault (sc : scen) : scen :=
  {| sc_insert := sc_insert sc; sc_prog := sc_prog sc; sc_script := sc_script sc; sc_cut := sc_cut sc;
     sc_wfault := sc_wfault sc; sc_cancel_wfault := true; sc_close_err := sc_close_err sc |}.
(* the schedule of witness 6 (cancel while the server is silent) with a Cancel write that fails *)
Definition sc_w6f := with_cancel_wfault sc_w6.
(* the state of witness 3, then the caller's context ends *)
Definition sch_w3c := sch_w3 ++ [(GEnv, false)] ++ rep 6 GR ++ rep 8 GW ++ rep 3 GR ++ rep 4 GM.
(* sendQuery fails: the server would have answered with data *)
Definition sc_wx := mk_sc QSelX false false 0 [] [(1, PCont (Some true)); (1, PEnd)] None None.
Definition sch_wx := rep 4 GS ++ rep 6 GR ++ rep 8 GW ++ rep 3 GR ++ rep 4 GM.
(* handshake: the addendum write stalls, the context ends, the watchdog closes, the write fails *)
Definition hsch_stall_c : list (hwho * bool) :=
  hsch_stall ++ [(HEnv, false)] ++ repeat (HD, false) 4 ++ repeat (HH, false) 4 ++ repeat (HK, false) 2.

Theorem closed_flag_independent_thm : forall fx sc b sched,
  closed (run fx (with_close_err b sc) sched (init (with_close_err b sc))) = closed (run fx sc sched (init sc)).
Proof. intros. rewrite close_result_irrelevant_thm. reflexivity. Qed.

(* ---------------------------------------------------------------- (e) a callback failing with an error that wraps an Exception *)

(* finding 22 (repaired by 8cdbcdc): a telemetry / result callback fails with an error wrapping a *ch.Exception; the
   receiver took it for the server's exception: nobody cancelled, nobody closed, the client stayed open in the
   middle of the server's stream *)
Definition sc_w22 := mk_sc QSel false false 0 [] [(1, PContX); (1, PCont (Some true)); (1, PEnd)] None None.
Definition sch_w22 := rep 10 GS ++ rep 10 GR ++ rep 8 GW ++ rep 4 GM.

Lemma witness_22 : let s := run before_8cdbcdc sc_w22 sch_w22 (init sc_w22) in
  wf_prog true (sc_prog sc_w22) = true /\ terminal s = true /\ failed s = true /\ closed s = false /\
  ended s = false /\ count_cancel (wire s) = 0.
Proof. vm_compute. repeat split; reflexivity. Qed.

Theorem do_safe_refuted_callback_exception_thm :
  ~ (forall sc sched s, wf_prog true (sc_prog sc) = true -> s = run before_8cdbcdc sc sched (init sc) ->
       terminal s = true -> failed s = true -> safe s).
Proof.
  intros H. destruct witness_22 as [Hw [Ht [Hf [Hc [He _]]]]].
  destruct (H sc_w22 sch_w22 _ Hw eq_refl Ht Hf) as [Hx|[_ [_ [Hx _]]]]; congruence.
Qed.
