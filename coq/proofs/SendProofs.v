(* Proofs about model/Send.v: the vectored path writes the buffer path's bytes; the items of
   encodeBlock on the real writer flush to their concatenation; Do's sender on the writer is its
   pure event specification (no writer, no memory); the reference server-side parser reads back what
   the sender writes. *)
From CH Require Import model.Send.
From CH Require Import proofs.PrimProofs proofs.FieldsProofs proofs.MessagesProofs proofs.ColumnsProofs
                       proofs.CompressProofs proofs.WriterProofs.
From CH Require Import gen.Features gen.Codes gen.Consts.
Ltac Zify.zify_post_hook ::= Z.div_mod_to_equations.
Open Scope N_scope.
Open Scope list_scope.

(* ========== A. WriteColumn / WriteBlock chain exactly what EncodeColumn / EncodeBlock append ===== *)
Lemma pieces_bytes_app a b : pieces_bytes (a ++ b) = pieces_bytes a ++ pieces_bytes b.
Proof. unfold pieces_bytes. now rewrite map_app, concat_app. Qed.

Lemma pieces_bytes_cons p a : pieces_bytes (p :: a) = piece_bytes p ++ pieces_bytes a.
Proof. reflexivity. Qed.

Lemma write_fix_bytes b a w vs : pieces_bytes (write_fix b a w vs) = enc_fix b w vs.
Proof.
  unfold write_fix. destruct a; [cbn; now rewrite app_nil_r|].
  destruct b; [cbn; now rewrite app_nil_r|].
  destruct vs; [reflexivity|]. cbn [pieces_bytes map concat piece_bytes]. now rewrite app_nil_r.
Qed.

Theorem write_col_bytes b : forall t d, pieces_bytes (write_col b t d) = enc b t d.
Proof.
  induction t as [name w| | | | |sz| | |name w defs|t IH|t IH|t IH|k v IHk IHv|ts IH|name t IH] using ty_ind';
    intros d;
    lazymatch goal with
    | |- context [TNamed _ _] => idtac
    | _ => destruct d; cbn [write_col enc]; try reflexivity
    end.
  - apply write_fix_bytes.
  - destruct vs as [|x vs]; [destruct b; reflexivity|]. destruct b; cbn; now rewrite app_nil_r.
  - destruct vs as [|x vs]; [reflexivity|]. cbn [pieces_bytes map concat piece_bytes]. now rewrite app_nil_r.
  - cbn [pieces_bytes map concat piece_bytes]. now rewrite app_nil_r.
  - cbn [pieces_bytes map concat piece_bytes]. now rewrite app_nil_r.
  - cbn [pieces_bytes map concat piece_bytes]. now rewrite app_nil_r.
  - cbn [pieces_bytes map concat piece_bytes]. now rewrite app_nil_r.
  - now rewrite pieces_bytes_app, !write_fix_bytes.
  - apply write_fix_bytes.
  - now rewrite pieces_bytes_app, write_fix_bytes, IH.
  - now rewrite pieces_bytes_cons, IH.
  - destruct vals as [|v0 vals]; [reflexivity|].
    rewrite pieces_bytes_cons, pieces_bytes_app, pieces_bytes_cons, write_fix_bytes, IH.
    cbn [piece_bytes]. now rewrite <- !app_assoc.
  - destruct offs as [|o offs]; [reflexivity|].
    now rewrite !pieces_bytes_app, write_fix_bytes, IHk, IHv.
  - revert ds. induction IH as [|t0 ts' Ht0 Hts IHts]; intros [|d0 ds]; cbn [catl cat2]; try reflexivity.
    now rewrite pieces_bytes_app, Ht0, IHts.
  - cbn [write_col enc]. apply IH.
Qed.

Lemma write_cols_bytes b v n : forall cols,
  option_map pieces_bytes (write_cols b v n cols) = enc_cols b v n cols.
Proof.
  induction cols as [|c cs IH]; cbn [write_cols enc_cols]; [reflexivity|].
  destruct (negb (rows (c_ty c) (c_data c) =? n)); [reflexivity|].
  destruct (prepare (c_ty c) (c_data c)) as [d|]; [|reflexivity].
  rewrite <- IH. destruct (write_cols b v n cs) as [r|]; [|reflexivity].
  cbn [option_map]. f_equal. rewrite pieces_bytes_cons, pieces_bytes_app. cbn [piece_bytes]. do 2 f_equal.
  destruct (rows (c_ty c) d =? 0); [reflexivity|].
  now rewrite pieces_bytes_cons, write_col_bytes.
Qed.

Theorem write_block_bytes b v i n cols :
  option_map pieces_bytes (write_block b v i n cols) = encode_block b v i n cols.
Proof.
  unfold write_block, encode_block, encode_raw_block. rewrite <- write_cols_bytes.
  destruct (write_cols b v n cols) as [r|]; [|reflexivity]. cbn [option_map]. f_equal.
  rewrite pieces_bytes_cons. cbn [piece_bytes]. now rewrite <- !app_assoc.
Qed.

(* ========== B. the items of encodeBlock on the real writer ======================================== *)
Definition item_bytes (it : sitem) : bytes := match it with IP p => piece_bytes p | IC _ f => f end.
Definition items_bytes (its : list sitem) : bytes := concat (map item_bytes its).

(* every chained caller slice is a named one *)
Definition ext_bounded (s : sst) : Prop :=
  forall id, In (IExt id) (s_done s) -> (id < length (s_ext s))%nat.

(* the specification state after one item *)
Definition sp_item (s : sst) (it : sitem) : sst :=
  match it with
  | IP (WB b) => mks (s_ext s) (s_done s) (s_base s) (s_tail s ++ b)
  | IP (WZ b) =>
    let s1 := close_tail (mks (s_ext s ++ [b]) (s_done s) (s_base s) (s_tail s)) in
    mks (s_ext s1) (s_done s1 ++ [IExt (length (s_ext s))]) (s_base s1) []
  | IC _ f => mks (s_ext s) (s_done s) (s_base s) (s_tail s ++ f)
  end.

Lemma wrel_set_ext st s e' :
  wrel st s -> wrel (mkw (heap st) e' (buf st) (boff st) (vec st)) (mks e' (s_done s) (s_base s) (s_tail s)).
Proof.
  intros (R1 & R2 & R3 & R4 & R5 & R6 & R7 & R8). unfold wrel.
  cbn [heap ext buf boff vec s_ext s_done s_base s_tail]. tauto.
Qed.

Lemma wrel_blen st s : wrel st s -> b_len (buf st) = (s_base s + length (s_tail s))%nat.
Proof. intros (R1 & R2 & R3 & R4 & R5 & R6 & R7 & R8). lia. Qed.

Lemma wrel_ext st s : wrel st s -> ext st = s_ext s.
Proof. now intros (R1 & _). Qed.

Lemma run_item_ok st s it : wrel st s ->
  exists st', run_item st it = Some st' /\ wrel st' (sp_item s it).
Proof.
  intros HR. destruct it as [[b|b]|blk f]; cbn [run_item sp_item].
  - destruct (chain_buffer_ok st s [bapp b] (s_tail s ++ b) HR) as (st' & E & HR' & _); [reflexivity|].
    eauto.
  - pose proof (wrel_set_ext st s (ext st ++ [b]) HR) as HR1. fold (add_ext st b) in HR1.
    rewrite (wrel_ext _ _ HR) in *.
    destruct (chain_write_ok _ _ (length (s_ext s)) HR1) as (st' & E & HR'). eauto.
  - destruct (chain_buffer_ok st s [bapp blk; BTrunc (b_len (buf st)); bapp f] (s_tail s ++ f) HR) as (st' & E & HR' & _).
    + rewrite (wrel_blen _ _ HR). unfold bapp. cbn [sb_run sb_step].
      replace ((s_base s <=? s_base s + length (s_tail s))%nat &&
               (s_base s + length (s_tail s) <=? s_base s + length (s_tail s ++ blk))%nat) with true.
      * replace (s_base s + length (s_tail s) - s_base s)%nat with (length (s_tail s)) by lia.
        rewrite firstn_app, Nat.sub_diag, firstn_all, firstn_O, app_nil_r. reflexivity.
      * symmetry. apply andb_true_iff. rewrite app_length. split; apply Nat.leb_le; lia.
    + eauto.
Qed.

Lemma resolve_ext_app e b i : (forall id, i = IExt id -> (id < length e)%nat) -> resolve (e ++ [b]) i = resolve e i.
Proof. destruct i as [x|id]; [reflexivity|]. intros Hb. cbn [resolve]. apply app_nth1. now apply Hb. Qed.

Lemma expected_ext_app s b : ext_bounded s ->
  expected (mks (s_ext s ++ [b]) (s_done s) (s_base s) (s_tail s)) = expected s.
Proof.
  intros Hb. unfold expected. cbn [s_ext s_done s_tail]. f_equal. f_equal.
  apply map_ext_in. intros i Hi. apply resolve_ext_app. intros id ->. now apply Hb.
Qed.

Lemma close_tail_done_in s i : In i (s_done (close_tail s)) -> In i (s_done s) \/ exists t, i = IBytes t.
Proof.
  destruct s as [e dn base [|x t]]; cbn [close_tail s_done s_tail]; [auto|].
  intros H. apply in_app_or in H as [H|[<-|[]]]; eauto.
Qed.

Lemma sp_item_ok s it : ext_bounded s ->
  ext_bounded (sp_item s it) /\ expected (sp_item s it) = expected s ++ item_bytes it.
Proof.
  intros Hb. destruct it as [[b|b]|blk f]; cbn [sp_item item_bytes piece_bytes].
  - split; [exact Hb|]. unfold expected. cbn [s_ext s_done s_tail]. now rewrite app_assoc.
  - set (s0 := mks (s_ext s ++ [b]) (s_done s) (s_base s) (s_tail s)).
    split.
    + intros id Hin. cbn [s_done s_ext] in *. rewrite close_tail_ext. cbn [s0 s_ext]. rewrite app_length. cbn [length].
      apply in_app_or in Hin as [Hin|[Hin|[]]].
      * apply close_tail_done_in in Hin as [Hin|[t Ht]]; [|discriminate].
        cbn [s0 s_done] in Hin. specialize (Hb _ Hin). lia.
      * injection Hin as <-. lia.
    + pose proof (expected_close s0) as E1. pose proof (expected_ext_app s b Hb) as E2. fold s0 in E2.
      unfold expected in *. cbn [s_ext s_done s_tail] in *. rewrite close_tail_tail in E1.
      rewrite app_nil_r in *. rewrite map_app, concat_app. rewrite E1, E2.
      cbn [map concat resolve]. rewrite close_tail_ext. cbn [s0 s_ext].
      rewrite app_nth2 by lia. rewrite Nat.sub_diag. cbn [nth]. now rewrite app_nil_r.
  - split; [exact Hb|]. unfold expected. cbn [s_ext s_done s_tail]. now rewrite app_assoc.
Qed.

Lemma run_items_ok its : forall st s, wrel st s -> ext_bounded s ->
  exists st' s', run_items st its = Some st' /\ wrel st' s' /\ ext_bounded s' /\
                 expected s' = expected s ++ items_bytes its.
Proof.
  induction its as [|it its IH]; intros st s HR Hb; cbn [run_items].
  - exists st, s. split; [reflexivity|]. split; [exact HR|]. split; [exact Hb|].
    unfold items_bytes. cbn. now rewrite app_nil_r.
  - destruct (run_item_ok st s it HR) as (st1 & E & HR1). rewrite E.
    destruct (sp_item_ok s it Hb) as (Hb1 & Ex1).
    destruct (IH _ _ HR1 Hb1) as (st' & s' & E' & HR' & Hb' & Ex').
    exists st', s'. split; [exact E'|]. split; [exact HR'|]. split; [exact Hb'|].
    rewrite Ex', Ex1. unfold items_bytes. cbn [map concat]. now rewrite app_assoc.
Qed.

(* a writer with nothing pending *)
Definition fresh_writer (st : wst) : Prop := wrel st (sfresh (ext st)).

Lemma fresh_bounded e : ext_bounded (sfresh e).
Proof. intros id []. Qed.

Lemma do_flush_ok st s : wrel st s ->
  exists st', do_flush st = Some (st', expected s) /\ fresh_writer st'.
Proof.
  intros HR. destruct (flush_rel st s SAccept [] HR) as (st' & fo & E & HR' & _).
  destruct (flush_accepting st s [] st' fo HR E) as (_ & Ea & _).
  unfold do_flush. rewrite E, Ea. exists st'. split; [reflexivity|].
  unfold fresh_writer. now rewrite (wrel_ext _ _ HR').
Qed.

Lemma run_muts_fresh ms : forall st, fresh_writer st -> fresh_writer (run_muts st ms).
Proof.
  induction ms as [|[id d] ms IH]; intros st HF; cbn [run_muts]; [exact HF|].
  apply IH. unfold fresh_writer in *. cbn [ext].
  exact (wrel_set_ext st (sfresh (ext st)) (mut_ext (ext st) id d) HF).
Qed.

Lemma winit_fresh : fresh_writer (winit [] 0 []).
Proof. unfold fresh_writer. exact (winit_rel [] 0 []). Qed.

(* ========== C. Do's sender on the writer = its pure event specification ============================ *)
Section Refine.
Variable H : bytes -> N * N.
Variable comp : method -> bytes -> option bytes.

(* the bytes of one Data packet: None = encodeBlock returns an error *)
Definition packet_bytes (k : ccfg) (b : build) (table : bytes) (cols : list col) : option bytes :=
  option_map items_bytes (encode_block_items H comp k b table cols).

Lemma enc_blk_ok k b table cols st s : wrel st s -> ext_bounded s ->
  match packet_bytes k b table cols with
  | None => enc_blk H comp k b st table cols = inl StErr
  | Some p => exists st' s', enc_blk H comp k b st table cols = inr st' /\ wrel st' s' /\ ext_bounded s' /\
                             expected s' = expected s ++ p
  end.
Proof.
  intros HR Hb. unfold packet_bytes, enc_blk.
  destruct (encode_block_items H comp k b table cols) as [its|]; cbn [option_map]; [|reflexivity].
  destruct (run_items_ok its st s HR Hb) as (st' & s' & E & HR' & Hb' & Ex). rewrite E.
  exists st', s'. auto.
Qed.

(* what the callback history shows to the sender: the new contents and the return value.
   What it does to the memory of the slices captured so far is invisible. *)
Definition vstep := (list cdata * cb_out)%type.
Definition visible (s : cb_step) : vstep := (cb_data s, cb_ret s).

Definition p_finish (k : ccfg) (b : build) (pending : bytes) (acc : list sev) : list sev * sstatus :=
  match packet_bytes k b [] [] with
  | None => (acc, StErr)
  | Some bl => (acc ++ [EvFlush (pending ++ bl)], StOk)
  end.

Fixpoint p_loop (k : ccfg) (b : build) (cols : list col) (h : list vstep) (acc : list sev) : list sev * sstatus :=
  match packet_bytes k b [] cols with
  | None => (acc, StErr)
  | Some p =>
    let acc1 := acc ++ [EvFlush p] in
    match h with
    | [] => (acc1, StStuck)
    | (ds, r) :: h' =>
      let cols' := set_data cols ds in
      let acc2 := acc1 ++ [EvCall] in
      match r with
      | CbNil => p_loop k b cols' h' acc2
      | CbErr => (acc2, StErr)
      | _ => if 0 <? block_rows cols' then
               match packet_bytes k b [] cols' with
               | None => (acc2, StErr)
               | Some p' => p_finish k b p' acc2
               end
             else p_finish k b [] acc2
      end
    end
  end.

Definition p_input (k : ccfg) (b : build) (pending : bytes) (cols : list col) (streaming : bool)
           (h : list vstep) (acc : list sev) : list sev * sstatus :=
  match cols with
  | [] => (acc ++ [EvFlush pending], StOk)
  | _ =>
    if negb streaming then
      match packet_bytes k b [] cols with
      | None => (acc, StErr)
      | Some p => p_finish k b (pending ++ p) acc
      end
    else if block_rows cols =? 0 then
      match h with
      | [] => (acc, StStuck)
      | (ds, r) :: h' =>
        let cols' := set_data cols ds in
        let acc1 := acc ++ [EvCall] in
        match r with
        | CbNil => p_loop k b cols' h' acc1
        | CbErr => (acc1, StErr)
        | _ => if 0 <? block_rows cols' then
                 match packet_bytes k b [] cols' with
                 | None => (acc1, StErr)
                 | Some p' => p_finish k b (pending ++ p') acc1
                 end
               else p_finish k b pending acc1
        end
      end
    else p_loop k b cols h acc
  end.

Lemma finish_input_ok k b st s acc : wrel st s -> ext_bounded s ->
  exists st', finish_input H comp k b st acc =
              (fst (p_finish k b (expected s) acc), snd (p_finish k b (expected s) acc), st').
Proof.
  intros HR Hb. unfold finish_input, p_finish.
  pose proof (enc_blk_ok k b [] [] st s HR Hb) as E.
  destruct (packet_bytes k b [] []) as [bl|].
  - destruct E as (st1 & s1 & -> & HR1 & _ & Ex).
    destruct (do_flush_ok _ _ HR1) as (st2 & -> & _). rewrite Ex. eauto.
  - rewrite E. eauto.
Qed.

Lemma expected_fresh e : expected (sfresh e) = [].
Proof. reflexivity. Qed.

Lemma input_loop_ok k b : forall h st cols acc, fresh_writer st ->
  exists st', input_loop H comp k b st cols h acc =
              (fst (p_loop k b cols (map visible h) acc), snd (p_loop k b cols (map visible h) acc), st').
Proof.
  induction h as [|s h IH]; intros st cols acc HF; cbn [input_loop p_loop map];
    pose proof (enc_blk_ok k b [] cols st _ HF (fresh_bounded _)) as E;
    destruct (packet_bytes k b [] cols) as [p|]; try (rewrite E; eauto; fail);
    destruct E as (st1 & s1 & -> & HR1 & _ & Ex); rewrite expected_fresh in Ex; cbn [app] in Ex;
    destruct (do_flush_ok _ _ HR1) as (st2 & -> & HF2); rewrite Ex.
  - eauto.
  - change (visible s) with (cb_data s, cb_ret s). cbn [fst snd].
    pose proof (run_muts_fresh (cb_muts s) st2 HF2) as HF3.
    destruct (cb_ret s).
    + apply IH. exact HF3.
    + destruct (0 <? block_rows (set_data cols (cb_data s))).
      * pose proof (enc_blk_ok k b [] (set_data cols (cb_data s)) _ _ HF3 (fresh_bounded _)) as E4.
        destruct (packet_bytes k b [] (set_data cols (cb_data s))) as [p'|]; [|rewrite E4; eauto].
        destruct E4 as (st4 & s4 & -> & HR4 & Hb4 & Ex4). rewrite expected_fresh in Ex4. cbn [app] in Ex4.
        rewrite <- Ex4. apply finish_input_ok; assumption.
      * rewrite <- (expected_fresh (ext (run_muts st2 (cb_muts s)))).
        apply finish_input_ok; [exact HF3|apply fresh_bounded].
    + destruct (0 <? block_rows (set_data cols (cb_data s))).
      * pose proof (enc_blk_ok k b [] (set_data cols (cb_data s)) _ _ HF3 (fresh_bounded _)) as E4.
        destruct (packet_bytes k b [] (set_data cols (cb_data s))) as [p'|]; [|rewrite E4; eauto].
        destruct E4 as (st4 & s4 & -> & HR4 & Hb4 & Ex4). rewrite expected_fresh in Ex4. cbn [app] in Ex4.
        rewrite <- Ex4. apply finish_input_ok; assumption.
      * rewrite <- (expected_fresh (ext (run_muts st2 (cb_muts s)))).
        apply finish_input_ok; [exact HF3|apply fresh_bounded].
    + eauto.
Qed.

Lemma initial_eof_ok k b st cols' acc1 : fresh_writer st ->
  exists st',
    (if 0 <? block_rows cols'
     then match enc_blk H comp k b st [] cols' with
          | inl e => (acc1, e, st)
          | inr st2 => finish_input H comp k b st2 acc1
          end
     else finish_input H comp k b st acc1) =
    (fst (if 0 <? block_rows cols'
          then match packet_bytes k b [] cols' with
               | None => (acc1, StErr)
               | Some p' => p_finish k b ([] ++ p') acc1
               end
          else p_finish k b [] acc1),
     snd (if 0 <? block_rows cols'
          then match packet_bytes k b [] cols' with
               | None => (acc1, StErr)
               | Some p' => p_finish k b ([] ++ p') acc1
               end
          else p_finish k b [] acc1), st').
Proof.
  intros HF. destruct (0 <? block_rows cols').
  - pose proof (enc_blk_ok k b [] cols' _ _ HF (fresh_bounded _)) as E4.
    destruct (packet_bytes k b [] cols') as [p'|]; [|rewrite E4; eauto].
    destruct E4 as (st4 & s4 & -> & HR4 & Hb4 & Ex4). rewrite expected_fresh in Ex4.
    rewrite <- Ex4. apply finish_input_ok; assumption.
  - rewrite <- (expected_fresh (ext st)). apply finish_input_ok; [exact HF|apply fresh_bounded].
Qed.

(* sendInput and the last flush, from a writer that may hold pending output *)
Lemma send_input_ok k b st s cols streaming h acc : wrel st s -> ext_bounded s ->
  (streaming = true -> cols <> [] -> s = sfresh (ext st)) ->
  exists st', send_input H comp k b st cols streaming h acc =
              (fst (p_input k b (expected s) cols streaming (map visible h) acc),
               snd (p_input k b (expected s) cols streaming (map visible h) acc), st').
Proof.
  intros HR Hb Hfresh. unfold send_input, p_input.
  destruct cols as [|c cs].
  - destruct (do_flush_ok _ _ HR) as (st' & -> & _). eauto.
  - destruct streaming; cbn [negb].
    + specialize (Hfresh eq_refl ltac:(discriminate)). subst s.
      destruct (block_rows (c :: cs) =? 0).
      * destruct h as [|s0 h]; cbn [map]; [eauto|].
        change (visible s0) with (cb_data s0, cb_ret s0). cbn [fst snd].
        pose proof (run_muts_fresh (cb_muts s0) st HR) as HF1.
        destruct (cb_ret s0).
        -- apply input_loop_ok. exact HF1.
        -- rewrite expected_fresh. apply initial_eof_ok. exact HF1.
        -- rewrite expected_fresh. apply initial_eof_ok. exact HF1.
        -- eauto.
      * apply input_loop_ok. exact HR.
    + pose proof (enc_blk_ok k b [] (c :: cs) st s HR Hb) as E.
      destruct (packet_bytes k b [] (c :: cs)) as [p|]; [|rewrite E; eauto].
      destruct E as (st1 & s1 & -> & HR1 & Hb1 & Ex). rewrite <- Ex.
      apply finish_input_ok; assumption.
Qed.

(* ---- the whole sender ------------------------------------------------------------------------ *)
Definition p_query_bytes (k : ccfg) (b : build) (u : cquery) : option bytes :=
  match (match u_ext u with [] => Some [] | _ => packet_bytes k b (ext_table u) (u_ext u) end) with
  | None => None
  | Some e =>
    match packet_bytes k b [] [] with
    | None => None
    | Some bl => Some (encode_Query (k_rev k) (proto_query k u) ++ e ++ bl)
    end
  end.

Definition p_do (k : ccfg) (b : build) (u : cquery) (streaming : bool) (h : list vstep) : list sev * sstatus :=
  if negb (is_nil (u_params u)) && negb (gate (k_rev k) FeatureParameters) then ([], StErr)
  else match p_query_bytes k b u with
       | None => ([], StErr)
       | Some qb => p_input k b [] (u_input u) streaming h [EvFlush qb]
       end.

Theorem client_do_pure k b u streaming h :
  client_do H comp k b u streaming h = p_do k b u streaming (map visible h).
Proof.
  unfold client_do, p_do.
  destruct (negb (is_nil (u_params u)) && negb (gate (k_rev k) FeatureParameters)); [reflexivity|].
  unfold send_query, p_query_bytes.
  destruct (run_items_ok [IP (WB (encode_Query (k_rev k) (proto_query k u)))] _ _ winit_fresh (fresh_bounded _))
    as (st1 & s1 & -> & HR1 & Hb1 & Ex1).
  rewrite expected_fresh in Ex1. unfold items_bytes in Ex1. cbn [map concat item_bytes piece_bytes List.app] in Ex1.
  rewrite app_nil_r in Ex1.
  assert (HX : match (match u_ext u with [] => Some [] | _ => packet_bytes k b (ext_table u) (u_ext u) end) with
               | None => (match u_ext u with [] => inr st1 | _ => enc_blk H comp k b st1 (ext_table u) (u_ext u) end) = inl StErr
               | Some e => exists st2 s2, (match u_ext u with [] => inr st1 | _ => enc_blk H comp k b st1 (ext_table u) (u_ext u) end) = inr st2 /\
                                          wrel st2 s2 /\ ext_bounded s2 /\ expected s2 = expected s1 ++ e
               end).
  { destruct (u_ext u) as [|c cs].
    - exists st1, s1. rewrite app_nil_r. auto.
    - exact (enc_blk_ok k b (ext_table u) (c :: cs) st1 s1 HR1 Hb1). }
  destruct (match u_ext u with [] => Some [] | _ => packet_bytes k b (ext_table u) (u_ext u) end) as [e|].
  - destruct HX as (st2 & s2 & -> & HR2 & Hb2 & Ex2).
    pose proof (enc_blk_ok k b [] [] st2 s2 HR2 Hb2) as E3.
    destruct (packet_bytes k b [] []) as [bl|]; [|now rewrite E3].
    destruct E3 as (st3 & s3 & -> & HR3 & Hb3 & Ex3).
    destruct (do_flush_ok _ _ HR3) as (st4 & -> & HF4).
    destruct (send_input_ok k b st4 _ (u_input u) streaming h [EvFlush (expected s3)] HF4 (fresh_bounded _) (fun _ _ => eq_refl))
      as (st5 & ->).
    rewrite expected_fresh, Ex3, Ex2, Ex1, <- !app_assoc.
    now destruct (p_input k b [] (u_input u) streaming (map visible h) _).
  - now rewrite HX.
Qed.

(* ---- from events to the list of blocks ----------------------------------------------------- *)
Lemma wire_app a c : wire (a ++ c) = wire a ++ wire c.
Proof. unfold wire. now rewrite map_app, concat_app. Qed.

Lemma wire_flush p : wire [EvFlush p] = p.
Proof. unfold wire. cbn. now rewrite app_nil_r. Qed.

Lemma wire_cons_flush p r : wire (EvFlush p :: r) = p ++ wire r.
Proof. reflexivity. Qed.

Lemma wire_nil : wire [] = [].
Proof. reflexivity. Qed.

Lemma wire_call : wire [EvCall] = [].
Proof. reflexivity. Qed.

(* the Data packets of a list of blocks; false = one of them failed to encode, and nothing after it is sent *)
Fixpoint emit (k : ccfg) (b : build) (bs : list (list col)) : bytes * bool :=
  match bs with
  | [] => ([], true)
  | c :: r =>
    match packet_bytes k b [] c with
    | None => ([], false)
    | Some p => let '(w, ok) := emit k b r in (p ++ w, ok)
    end
  end.

Definition stream_spec_holds (k : ccfg) (b : build) (bl : bytes) (spec : list (list col) * bool * sstatus)
           (accw : bytes) (got : list sev * sstatus) : Prop :=
  let '(bs, term, stt) := spec in
  let '(w, ok) := emit k b bs in
  wire (fst got) = accw ++ w ++ (if ok && term then bl else []) /\
  snd got = (if ok then stt else StErr).

Lemma p_finish_wire k b bl pending acc : packet_bytes k b [] [] = Some bl ->
  wire (fst (p_finish k b pending acc)) = wire acc ++ pending ++ bl /\ snd (p_finish k b pending acc) = StOk.
Proof.
  intros Hbl. unfold p_finish. rewrite Hbl. cbn [fst snd]. now rewrite wire_app, wire_flush.
Qed.

Lemma p_loop_spec k b bl : packet_bytes k b [] [] = Some bl -> forall h cols acc,
  stream_spec_holds k b bl (spec_loop cols h) (wire acc) (p_loop k b cols (map visible h) acc).
Proof.
  intros Hbl. induction h as [|s h IH]; intros cols acc; unfold stream_spec_holds; cbn [spec_loop p_loop map emit].
  - destruct (packet_bytes k b [] cols) as [p|]; cbn [fst snd andb].
    + rewrite wire_app, wire_flush, !app_nil_r. auto.
    + rewrite !app_nil_r. auto.
  - change (visible s) with (cb_data s, cb_ret s). cbn iota.
    set (cols' := set_data cols (cb_data s)).
    destruct (cb_ret s).
    + (* nil *)
      specialize (IH cols' ((acc ++ [EvFlush match packet_bytes k b [] cols with Some p => p | None => [] end]) ++ [EvCall])).
      unfold stream_spec_holds in IH.
      destruct (spec_loop cols' h) as [[bs term] stt]. cbn [emit].
      destruct (packet_bytes k b [] cols) as [p|]; cbn [fst snd andb].
      * destruct (emit k b bs) as [w ok]. destruct IH as [IH1 IH2].
        rewrite IH1, IH2, !wire_app, wire_flush, wire_call, app_nil_r, <- !app_assoc. auto.
      * rewrite !app_nil_r. auto.
    + (* EOF *)
      destruct (packet_bytes k b [] cols) as [p|] eqn:Ep.
      * destruct (0 <? block_rows cols'); cbn [emit]; rewrite Ep.
        -- destruct (packet_bytes k b [] cols') as [p'|]; cbn [fst snd andb].
           ++ destruct (p_finish_wire k b bl p' ((acc ++ [EvFlush p]) ++ [EvCall]) Hbl) as [E1 E2].
              rewrite E1, E2, !wire_app, wire_flush, wire_call, !app_nil_r, <- !app_assoc. auto.
           ++ rewrite !wire_app, wire_flush, wire_call, !app_nil_r. auto.
        -- cbn [fst snd andb].
           destruct (p_finish_wire k b bl [] ((acc ++ [EvFlush p]) ++ [EvCall]) Hbl) as [E1 E2].
           rewrite E1, E2, !wire_app, wire_flush, wire_call, !app_nil_r, <- !app_assoc. auto.
      * destruct (0 <? block_rows cols'); cbn [emit]; rewrite Ep; cbn [fst snd andb]; rewrite !app_nil_r; auto.
    + (* wrapped EOF *)
      destruct (packet_bytes k b [] cols) as [p|] eqn:Ep.
      * destruct (0 <? block_rows cols'); cbn [emit]; rewrite Ep.
        -- destruct (packet_bytes k b [] cols') as [p'|]; cbn [fst snd andb].
           ++ destruct (p_finish_wire k b bl p' ((acc ++ [EvFlush p]) ++ [EvCall]) Hbl) as [E1 E2].
              rewrite E1, E2, !wire_app, wire_flush, wire_call, !app_nil_r, <- !app_assoc. auto.
           ++ rewrite !wire_app, wire_flush, wire_call, !app_nil_r. auto.
        -- cbn [fst snd andb].
           destruct (p_finish_wire k b bl [] ((acc ++ [EvFlush p]) ++ [EvCall]) Hbl) as [E1 E2].
           rewrite E1, E2, !wire_app, wire_flush, wire_call, !app_nil_r, <- !app_assoc. auto.
      * destruct (0 <? block_rows cols'); cbn [emit]; rewrite Ep; cbn [fst snd andb]; rewrite !app_nil_r; auto.
    + (* error *)
      cbn [emit]. destruct (packet_bytes k b [] cols) as [p|]; cbn [fst snd andb].
      * rewrite !wire_app, wire_flush, wire_call, !app_nil_r. auto.
      * rewrite !app_nil_r. auto.
Qed.

Lemma initial_eof_spec k b bl cols' acc : packet_bytes k b [] [] = Some bl ->
  stream_spec_holds k b bl (if 0 <? block_rows cols' then ([cols'], true, StOk) else ([], true, StOk)) (wire acc)
    (if 0 <? block_rows cols'
     then match packet_bytes k b [] cols' with
          | None => (acc ++ [EvCall], StErr)
          | Some p' => p_finish k b ([] ++ p') (acc ++ [EvCall])
          end
     else p_finish k b [] (acc ++ [EvCall])).
Proof.
  intros Hbl. destruct (0 <? block_rows cols'); unfold stream_spec_holds; cbn [emit].
  - destruct (packet_bytes k b [] cols') as [p'|]; cbn [fst snd andb].
    + destruct (p_finish_wire k b bl ([] ++ p') (acc ++ [EvCall]) Hbl) as [E1 E2].
      rewrite E1, E2, wire_app, wire_call, !app_nil_r. cbn [List.app]. auto.
    + rewrite wire_app, wire_call, !app_nil_r. auto.
  - cbn [andb]. destruct (p_finish_wire k b bl [] (acc ++ [EvCall]) Hbl) as [E1 E2].
    rewrite E1, E2, wire_app, wire_call, !app_nil_r. auto.
Qed.

Lemma p_input_spec k b bl cols h acc : packet_bytes k b [] [] = Some bl -> cols <> [] ->
  stream_spec_holds k b bl (spec_stream cols h) (wire acc) (p_input k b [] cols true (map visible h) acc).
Proof.
  intros Hbl Hne. unfold p_input, spec_stream. destruct cols as [|c cs]; [contradiction|]. cbn [negb].
  destruct (block_rows (c :: cs) =? 0); [|now apply p_loop_spec].
  destruct h as [|s h]; cbn [map].
  - unfold stream_spec_holds. cbn [emit fst snd andb]. rewrite !app_nil_r. auto.
  - change (visible s) with (cb_data s, cb_ret s). cbn iota.
    destruct (cb_ret s).
    + specialize (p_loop_spec k b bl Hbl h (set_data (c :: cs) (cb_data s)) (acc ++ [EvCall])).
      rewrite wire_app, wire_call, app_nil_r. auto.
    + apply initial_eof_spec; assumption.
    + apply initial_eof_spec; assumption.
    + unfold stream_spec_holds. cbn [emit fst snd andb]. rewrite wire_app, wire_call, !app_nil_r. auto.
Qed.

(* C09: the wire of a streamed INSERT is the Data packets of the contents at the start of each
   round, then the terminator *)
Theorem stream_insert_blocks_thm k b st cols h acc evs status st' bl :
  fresh_writer st -> cols <> [] -> packet_bytes k b [] [] = Some bl ->
  send_input H comp k b st cols true h acc = (evs, status, st') ->
  stream_spec_holds k b bl (spec_stream cols h) (wire acc) (evs, status).
Proof.
  intros HF Hne Hbl Hrun.
  destruct (send_input_ok k b st _ cols true h acc HF (fresh_bounded _) (fun _ _ => eq_refl)) as (st1 & E).
  rewrite E in Hrun. injection Hrun as <- <- _. rewrite expected_fresh.
  pose proof (p_input_spec k b bl cols h acc Hbl Hne) as HS.
  now destruct (p_input k b [] cols true (map visible h) acc).
Qed.

(* the pure sender only ever adds events *)
Lemma p_finish_ext k b pend a0 : exists m s, p_finish k b pend a0 = (a0 ++ m, s).
Proof.
  unfold p_finish. destruct (packet_bytes k b [] []); eexists _, _; [reflexivity|]. now rewrite app_nil_r.
Qed.

Lemma ext_more {X} (a0 mid : list X) (R : list X * sstatus) :
  (exists m s, R = ((a0 ++ mid) ++ m, s)) -> exists m s, R = (a0 ++ m, s).
Proof. intros (m & s & ->). exists (mid ++ m), s. now rewrite app_assoc. Qed.

Lemma p_loop_ext k b : forall hh cols0 a0, exists m s, p_loop k b cols0 hh a0 = (a0 ++ m, s).
Proof.
  induction hh as [|[ds r] hh IHh]; intros cols0 a0; cbn [p_loop].
  - destruct (packet_bytes k b [] cols0); eexists _, _; [reflexivity|]. now rewrite app_nil_r.
  - destruct (packet_bytes k b [] cols0) as [p|]; [|eexists _, _; now rewrite app_nil_r].
    apply (ext_more a0 [EvFlush p]). apply (ext_more _ [EvCall]).
    destruct r.
    + apply IHh.
    + destruct (0 <? block_rows (set_data cols0 ds)); [|apply p_finish_ext].
      destruct (packet_bytes k b [] (set_data cols0 ds)); [apply p_finish_ext|].
      eexists _, _. now rewrite app_nil_r.
    + destruct (0 <? block_rows (set_data cols0 ds)); [|apply p_finish_ext].
      destruct (packet_bytes k b [] (set_data cols0 ds)); [apply p_finish_ext|].
      eexists _, _. now rewrite app_nil_r.
    + eexists _, _. now rewrite app_nil_r.
Qed.

Lemma p_loop_first k b cols p hh a0 : packet_bytes k b [] cols = Some p ->
  exists m s, p_loop k b cols hh a0 = ((a0 ++ [EvFlush p]) ++ m, s).
Proof.
  intros Ep. destruct hh as [|[ds r] hh]; cbn [p_loop]; rewrite Ep.
  - eexists _, _. now rewrite app_nil_r.
  - apply (ext_more _ [EvCall]).
    destruct r.
    + apply p_loop_ext.
    + destruct (0 <? block_rows (set_data cols ds)); [|apply p_finish_ext].
      destruct (packet_bytes k b [] (set_data cols ds)); [apply p_finish_ext|].
      eexists _, _. now rewrite app_nil_r.
    + destruct (0 <? block_rows (set_data cols ds)); [|apply p_finish_ext].
      destruct (packet_bytes k b [] (set_data cols ds)); [apply p_finish_ext|].
      eexists _, _. now rewrite app_nil_r.
    + eexists _, _. now rewrite app_nil_r.
Qed.

(* the pure sender run on a prefix of a history stops (StStuck) exactly where the next callback would be
   invoked; whatever that callback and the later ones do, what was already emitted stays *)
Lemma p_loop_prefix k b : forall h1 cols acc evs h2,
  p_loop k b cols h1 acc = (evs, StStuck) ->
  exists more s, p_loop k b cols (h1 ++ h2) acc = (evs ++ more, s).
Proof.
  induction h1 as [|[ds r] h1 IH]; intros cols acc evs h2; cbn [p_loop List.app].
  - destruct (packet_bytes k b [] cols) as [p|] eqn:Ep; [|discriminate]. intros [= <-].
    now apply p_loop_first.
  - destruct (packet_bytes k b [] cols) as [p|]; [|discriminate].
    destruct r.
    + apply IH.
    + unfold p_finish. destruct (0 <? block_rows (set_data cols ds)).
      * destruct (packet_bytes k b [] (set_data cols ds)); [|discriminate].
        destruct (packet_bytes k b [] []); discriminate.
      * destruct (packet_bytes k b [] []); discriminate.
    + unfold p_finish. destruct (0 <? block_rows (set_data cols ds)).
      * destruct (packet_bytes k b [] (set_data cols ds)); [|discriminate].
        destruct (packet_bytes k b [] []); discriminate.
      * destruct (packet_bytes k b [] []); discriminate.
    + discriminate.
Qed.

Lemma p_input_prefix k b cols h1 acc evs h2 : cols <> [] ->
  p_input k b [] cols true h1 acc = (evs, StStuck) ->
  exists more s, p_input k b [] cols true (h1 ++ h2) acc = (evs ++ more, s).
Proof.
  intros Hne. unfold p_input. destruct cols as [|c cs]; [contradiction|]. cbn [negb].
  destruct (block_rows (c :: cs) =? 0); [|apply p_loop_prefix].
  destruct h1 as [|[ds r] h1]; cbn [List.app].
  - intros [= <-]. destruct h2 as [|[ds r] h2]; [exists [], StStuck; now rewrite app_nil_r|].
    apply (ext_more acc [EvCall]).
    destruct r.
    + apply p_loop_ext.
    + destruct (0 <? block_rows (set_data (c :: cs) ds)); [|apply p_finish_ext].
      destruct (packet_bytes k b [] (set_data (c :: cs) ds)); [apply p_finish_ext|]. eexists _, _. now rewrite app_nil_r.
    + destruct (0 <? block_rows (set_data (c :: cs) ds)); [|apply p_finish_ext].
      destruct (packet_bytes k b [] (set_data (c :: cs) ds)); [apply p_finish_ext|]. eexists _, _. now rewrite app_nil_r.
    + eexists _, _. now rewrite app_nil_r.
  - destruct r.
    + apply p_loop_prefix.
    + unfold p_finish. destruct (0 <? block_rows (set_data (c :: cs) ds)).
      * destruct (packet_bytes k b [] (set_data (c :: cs) ds)); [|discriminate].
        destruct (packet_bytes k b [] []); discriminate.
      * destruct (packet_bytes k b [] []); discriminate.
    + unfold p_finish. destruct (0 <? block_rows (set_data (c :: cs) ds)).
      * destruct (packet_bytes k b [] (set_data (c :: cs) ds)); [|discriminate].
        destruct (packet_bytes k b [] []); discriminate.
      * destruct (packet_bytes k b [] []); discriminate.
    + discriminate.
Qed.

(* C09: what is on the wire before the next OnInput call does not depend on what the earlier calls did
   to the memory of the slices captured so far (h1 vs h1': same visible behaviour, arbitrary writes),
   nor on anything the next and the later calls do (h2 vs h2') *)
Theorem earlier_blocks_immutable_thm k b st cols h1 h1' h2 h2' acc evs1 st1 :
  fresh_writer st -> cols <> [] -> map visible h1 = map visible h1' ->
  send_input H comp k b st cols true h1 acc = (evs1, StStuck, st1) ->
  (exists more s st2, send_input H comp k b st cols true (h1 ++ h2) acc = (evs1 ++ more, s, st2)) /\
  (exists more s st2, send_input H comp k b st cols true (h1' ++ h2') acc = (evs1 ++ more, s, st2)).
Proof.
  intros HF Hne Hv Hrun.
  destruct (send_input_ok k b st _ cols true h1 acc HF (fresh_bounded _) (fun _ _ => eq_refl)) as (sta & Ea).
  rewrite Ea in Hrun. rewrite expected_fresh in *. injection Hrun as E1 E2 _.
  assert (P : p_input k b [] cols true (map visible h1) acc = (evs1, StStuck)).
  { destruct (p_input k b [] cols true (map visible h1) acc). cbn [fst snd] in *. now subst. }
  split.
  - destruct (send_input_ok k b st _ cols true (h1 ++ h2) acc HF (fresh_bounded _) (fun _ _ => eq_refl)) as (stb & Eb).
    rewrite expected_fresh, map_app in Eb.
    destruct (p_input_prefix k b cols _ acc evs1 (map visible h2) Hne P) as (more & s & Ep).
    rewrite Ep in Eb. cbn [fst snd] in Eb. eauto.
  - destruct (send_input_ok k b st _ cols true (h1' ++ h2') acc HF (fresh_bounded _) (fun _ _ => eq_refl)) as (stb & Eb).
    rewrite expected_fresh, map_app, <- Hv in Eb.
    destruct (p_input_prefix k b cols _ acc evs1 (map visible h2') Hne P) as (more & s & Ep).
    rewrite Ep in Eb. cbn [fst snd] in Eb. eauto.
Qed.
End Refine.

(* ========== D. the reference server reads back what the sender writes ============================= *)
Lemma dec_state_enc : forall t rest, dec_state t (enc_state t ++ rest) = Ok tt rest.
Proof.
  induction t as [name w| | | | |sz| | |name w defs|t IH|t IH|t IH|k v IHk IHv|ts IH|name t IH] using ty_ind';
    intros rest; cbn [dec_state enc_state]; try reflexivity; try apply IH.
  - (* Map *) unfold bind. now rewrite <- app_assoc, IHk, IHv.
  - (* Tuple *) induction IH as [|t0 ts' Ht0 Hts IHts]; cbn [map List.concat unit_seq]; [reflexivity|].
    unfold bind. now rewrite <- app_assoc, Ht0.
Qed.

(* a well-formed input column with n rows *)
Definition col_ok (n : N) (c : col) : Prop :=
  wf_ty (c_ty c) = true /\ str_okb (c_name c) = true /\ str_okb (type_str (c_ty c)) = true /\
  rows (c_ty c) (c_data c) = n /\
  exists d', prepare (c_ty c) (c_data c) = Some d' /\ rows (c_ty c) d' = n /\ wfd (c_ty c) n d'.

Lemma gate_in_1 v g : gate_in v [g] = gate v g.
Proof. unfold gate_in, gate. cbn. now rewrite andb_true_r. Qed.

Lemma dec_col_header_enc v name t rest : str_okb name = true -> str_okb (type_str t) = true ->
  dec_col_header v (enc_start v name t ++ rest) = Ok (name, type_str t) rest.
Proof.
  intros Hn Ht. apply str_okb_spec in Hn as [_ Hn]. apply str_okb_spec in Ht as [_ Ht].
  unfold dec_col_header, enc_start, bind. rewrite <- !app_assoc.
  rewrite get_str_put by assumption. rewrite get_str_put by assumption.
  destruct (gate v FeatureCustomSerialization); [|reflexivity].
  now rewrite get_bool_put.
Qed.

Lemma prep_cols_cons c cs d' : prepare (c_ty c) (c_data c) = Some d' ->
  prep_cols (c :: cs) = {| c_name := c_name c ; c_ty := c_ty c ; c_data := d' |} :: prep_cols cs.
Proof. intros E. unfold prep_cols, prepared. cbn [map]. now rewrite E. Qed.

Lemma exact_conflicts_refl x : exact_conflicts x x = false.
Proof. unfold exact_conflicts. now rewrite bytes_eqb_refl. Qed.

Lemma dec_targets_enc b b' v n : n <= max_rows -> forall cols bs rest,
  Forall (col_ok n) cols -> enc_cols b v n cols = Some bs ->
  dec_targets exact_conflicts keep_type b' v n (blank_targets cols) (bs ++ rest) = Ok (prep_cols cols) rest.
Proof.
  intros Hn. induction cols as [|c cs IH]; intros bs rest Hok Henc.
  - cbn in Henc. injection Henc as <-. reflexivity.
  - inversion Hok as [|c0 cs0 Hc Hcs]; subst c0 cs0.
    destruct Hc as (Hwt & Hname & Htstr & Hrows & d' & Hp & Hrows' & Hwfd).
    cbn [enc_cols] in Henc. rewrite Hrows, N.eqb_refl, Hp in Henc. cbn [negb] in Henc.
    destruct (enc_cols b v n cs) as [r|] eqn:Er; [|discriminate]. injection Henc as <-.
    change (blank_targets (c :: cs)) with ({| c_name := c_name c ; c_ty := c_ty c ; c_data := empty (c_ty c) |} :: blank_targets cs).
    cbn [dec_targets c_name c_ty]. unfold bind at 1.
    rewrite <- !app_assoc, dec_col_header_enc by assumption.
    replace (bytes_eqb match c_name c with [] => c_name c | _ :: _ => c_name c end (c_name c)) with true
      by (symmetry; destruct (c_name c); apply bytes_eqb_refl).
    cbn [negb]. change (keep_type (c_ty c) (type_str (c_ty c))) with (Some (c_ty c)). cbv iota.
    rewrite exact_conflicts_refl.
    rewrite (prep_cols_cons c cs d' Hp). rewrite Hrows'.
    destruct (n =? 0) eqn:En.
    + apply N.eqb_eq in En. rewrite En in Hwfd. pose proof (wfd_zero _ _ Hwt Hwfd) as ->.
      unfold bind, ret. cbn [List.app]. rewrite (IH r rest Hcs eq_refl).
      f_equal. f_equal. now destruct (c_name c).
    + unfold bind. rewrite <- !app_assoc, dec_state_enc.
      rewrite (col_roundtrip _ Hwt b b' n d' _ Hn Hwfd).
      rewrite (IH r rest Hcs eq_refl). unfold ret. f_equal. f_equal. now destruct (c_name c).
Qed.

(* ---- one typed block ----------------------------------------------------------------------------- *)
Definition cols_ok (cols : list col) : Prop :=
  (Z.of_nat (length cols) <= maxColumnsInBlock)%Z /\ block_rows cols <= max_rows /\
  Forall (col_ok (block_rows cols)) cols.

Definition block_of (b : build) (v : N) (cols : list col) : option bytes :=
  encode_block b v (block_info_of cols) (block_rows cols) cols.

Lemma blank_targets_length cols : length (blank_targets cols) = length cols.
Proof. apply map_length. Qed.

Lemma block_info_of_i32 cols : in_i32 (bi_bucket (block_info_of cols)).
Proof. destruct cols; cbn; unfold in_i32; lia. Qed.

Lemma typed_block_rt b b' v cols blk rest : cols_ok cols -> block_of b v cols = Some blk ->
  dec_typed_block b' v (blank_targets cols) (blk ++ rest) =
  Ok (if gate v FeatureBlockInfo then block_info_of cols else blank_block_info,
      Z.of_nat (length cols), Z.of_N (block_rows cols), prep_cols cols) rest.
Proof.
  intros (Hc & Hr & Hcols) Hblk. unfold block_of, encode_block, encode_raw_block in Hblk.
  destruct (enc_cols b v (block_rows cols) cols) as [r|] eqn:Er; [|discriminate]. cbn [option_map] in Hblk.
  injection Hblk as <-.
  unfold dec_typed_block, decode_block. unfold bind at 1.
  assert (HI : (if gate v FeatureBlockInfo then decode_BlockInfo blank_block_info else ret blank_block_info)
                 ((if gate v FeatureBlockInfo then encode_BlockInfo (block_info_of cols) else []) ++
                  (put_int (Z.of_nat (length cols)) ++ put_int (Z.of_N (block_rows cols)) ++ r) ++ rest)
               = Ok (if gate v FeatureBlockInfo then block_info_of cols else blank_block_info)
                    ((put_int (Z.of_nat (length cols)) ++ put_int (Z.of_N (block_rows cols)) ++ r) ++ rest)).
  { destruct (gate v FeatureBlockInfo); [|reflexivity]. apply BlockInfo_rt, block_info_of_i32. }
  rewrite <- app_assoc, HI. clear HI.
  unfold bind at 1. unfold decode_raw_block. unfold bind at 1.
  unfold maxColumnsInBlock in Hc. unfold max_rows, maxRowsInBLock in Hr.
  rewrite <- !app_assoc, get_int_put by (unfold in_i64; lia).
  replace ((maxColumnsInBlock <? Z.of_nat (length cols)) || (Z.of_nat (length cols) <? 0))%Z with false
    by (symmetry; apply orb_false_iff; unfold maxColumnsInBlock; split; [apply Z.ltb_ge|apply Z.ltb_ge]; lia).
  unfold bind at 1. rewrite get_int_put by (unfold in_i64; lia).
  unfold bind at 1. rewrite check_rows_ok by exact Hr.
  destruct cols as [|c cs].
  - cbn in Er. injection Er as <-. reflexivity.
  - replace ((Z.of_nat (length (c :: cs)) =? 0)%Z) with false by (symmetry; apply Z.eqb_neq; cbn [length]; lia).
    cbn [andb]. unfold bind at 1.
    change (blank_targets (c :: cs)) with ({| c_name := c_name c ; c_ty := c_ty c ; c_data := empty (c_ty c) |} :: blank_targets cs).
    cbv beta iota. unfold decode_result.
    change ({| c_name := c_name c ; c_ty := c_ty c ; c_data := empty (c_ty c) |} :: blank_targets cs) with (blank_targets (c :: cs)).
    rewrite blank_targets_length.
    replace (Z.to_N (Z.of_nat (length (c :: cs)))) with (N.of_nat (length (c :: cs))) by lia.
    rewrite N.eqb_refl. cbn [negb].
    rewrite (dec_targets_enc b b' v (block_rows (c :: cs)) Hr (c :: cs) r rest Hcols Er). reflexivity.
Qed.

(* ---- one Data packet --------------------------------------------------------------------------- *)
Section Parse.
Variable H : bytes -> N * N.
Variable comp : method -> bytes -> option bytes.
Variable decomp : N -> bytes -> N -> option bytes.
Hypothesis Hrt : codec_rt comp decomp.

Definition compressed (k : ccfg) : bool := match k_comp k with None => false | Some _ => true end.

(* a block and its frame are within the limits of the library's own frame reader *)
Definition fits (k : ccfg) (b : build) (cols : list col) : Prop :=
  match k_comp k with
  | None => True
  | Some m => forall blk f, block_of b (k_rev k) cols = Some blk -> compress_frame H comp m blk = inr f ->
                            blen blk <= maxDataSize /\ blen f <= 25 + maxBlockSize
  end.

Lemma items_bytes_IP ps : items_bytes (map IP ps) = pieces_bytes ps.
Proof. unfold items_bytes, pieces_bytes. now rewrite map_map. Qed.

(* the bytes of a Data packet: code, table name, then the block - plain, or as exactly one frame *)
Lemma packet_bytes_char k b table cols p : packet_bytes H comp k b table cols = Some p ->
  exists blk, block_of b (k_rev k) cols = Some blk /\
    match k_comp k with
    | None => p = data_header (k_rev k) table ++ blk
    | Some m => exists f, compress_frame H comp m blk = inr f /\ p = data_header (k_rev k) table ++ f
    end.
Proof.
  unfold packet_bytes, encode_block_items, block_of. destruct (k_comp k) as [m|].
  - destruct (encode_block b (k_rev k) (block_info_of cols) (block_rows cols) cols) as [blk|]; [|discriminate].
    destruct (compress_frame H comp m blk) as [e|f] eqn:Ef; [discriminate|].
    cbn [option_map]. intros [= <-]. exists blk. split; [reflexivity|]. exists f. split; [exact Ef|].
    unfold items_bytes. cbn [map concat item_bytes piece_bytes]. now rewrite app_nil_r.
  - rewrite <- write_block_bytes.
    destruct (write_block b (k_rev k) (block_info_of cols) (block_rows cols) cols) as [ps|]; [|discriminate].
    cbn [option_map]. intros [= <-]. exists (pieces_bytes ps). split; [reflexivity|].
    unfold items_bytes. cbn [map concat item_bytes piece_bytes]. fold (items_bytes (map IP ps)).
    now rewrite items_bytes_IP.
Qed.

Lemma uvarint_small c s : c < 128 -> uvarint (c :: s) = Ok c s.
Proof.
  intros Hc. unfold uvarint. cbn [get_uv]. apply N.ltb_lt in Hc. rewrite Hc. cbn [N.eqb andb].
  f_equal. cbn. lia.
Qed.

Lemma data_header_parse v table rest : str_okb table = true ->
  exists hb, data_header v table = Z.to_N ClientCodeData :: hb /\
             decode_ClientData v (hb ++ rest) = Ok [FStr (if gate v FeatureTempTables then table else [])] rest.
Proof.
  intros Ht. unfold data_header, code_byte. eexists. split; [reflexivity|].
  rewrite ClientData_rt by (cbn [fields_typed L_ClientData fv_typed F fk]; now rewrite Ht).
  cbn [project L_ClientData F fgates fk default_of]. rewrite gate_in_1.
  now destruct (gate v FeatureTempTables).
Qed.

Lemma parse_data_gen k b b' table cols ts p rest X :
  str_okb table = true -> fits k b cols ->
  packet_bytes H comp k b table cols = Some p ->
  (forall blk rest', block_of b (k_rev k) cols = Some blk ->
     dec_typed_block b' (k_rev k) (blank_targets ts) (blk ++ rest') = Ok X rest') ->
  parse_data H decomp (compressed k) b' (k_rev k) ts (p ++ rest) =
  Ok (let '(i, c, r, ts') := X in
      {| d_table := if gate (k_rev k) FeatureTempTables then table else [] ;
         d_info := i ; d_cols := c ; d_rows := r ;
         d_data := if (c =? 0)%Z && (r =? 0)%Z then [] else ts' |}) rest.
Proof.
  intros Ht Hfit Hp HB.
  destruct (packet_bytes_char _ _ _ _ _ Hp) as (blk & Hblk & Hshape).
  destruct (data_header_parse (k_rev k) table) with (rest := (match k_comp k with None => blk | Some m =>
               match compress_frame H comp m blk with inr f => f | inl _ => [] end end) ++ rest) as (hb & Ehd & Edec);
    [exact Ht|].
  assert (Ep : p ++ rest = Z.to_N ClientCodeData :: hb ++ (match k_comp k with None => blk | Some m =>
               match compress_frame H comp m blk with inr f => f | inl _ => [] end end) ++ rest).
  { destruct (k_comp k) as [m|].
    - destruct Hshape as (f & Ef & ->). rewrite Ef, Ehd. cbn [List.app]. now rewrite <- app_assoc.
    - rewrite Hshape, Ehd. cbn [List.app]. now rewrite <- app_assoc. }
  rewrite Ep. unfold parse_data. unfold bind at 1.
  rewrite uvarint_small by (vm_compute; reflexivity). rewrite N.eqb_refl. cbn [negb].
  unfold bind at 1. rewrite Edec. unfold bind at 1.
  assert (EB : parse_block H decomp (compressed k) b' (k_rev k) (blank_targets ts)
                 ((match k_comp k with None => blk | Some m =>
                     match compress_frame H comp m blk with inr f => f | inl _ => [] end end) ++ rest)
               = Ok X rest).
  { unfold parse_block, compressed. unfold fits in Hfit.
    destruct (k_comp k) as [m|].
    - destruct Hshape as (f & Ef & _). rewrite Ef.
      destruct (Hfit blk f Hblk Ef) as [Hb1 Hb2].
      rewrite (read_block_written H comp decomp m blk f rest Hrt Ef Hb1 Hb2).
      pose proof (HB blk [] Hblk) as E. rewrite app_nil_r in E.
      rewrite E. reflexivity.
    - now apply HB. }
  rewrite EB. destruct X as [[[i c] r] ts']. reflexivity.
Qed.

Lemma parse_data_packet k b b' table cols ts p rest :
  cols_ok cols -> str_okb table = true -> fits k b cols ->
  blank_targets ts = blank_targets cols ->
  packet_bytes H comp k b table cols = Some p ->
  parse_data H decomp (compressed k) b' (k_rev k) ts (p ++ rest) = Ok (data_packet (k_rev k) table cols) rest.
Proof.
  intros Hok Ht Hfit Hts Hp.
  rewrite (parse_data_gen k b b' table cols ts p rest _ Ht Hfit Hp
             (fun blk rest' Hblk => eq_trans (f_equal (fun t => dec_typed_block b' (k_rev k) t (blk ++ rest')) Hts)
                                             (typed_block_rt b b' (k_rev k) cols blk rest' Hok Hblk))).
  unfold data_packet. f_equal. f_equal.
  destruct cols as [|c cs]; [reflexivity|].
  replace ((Z.of_nat (length (c :: cs)) =? 0)%Z) with false by (symmetry; apply Z.eqb_neq; cbn [length]; lia).
  reflexivity.
Qed.

(* the terminator: an empty block is read without looking at the targets *)
Lemma block_of_nil b v :
  block_of b v [] = Some ((if gate v FeatureBlockInfo then encode_BlockInfo blank_block_info else []) ++
                          put_int 0 ++ put_int 0).
Proof.
  unfold block_of, encode_block, encode_raw_block, enc_cols, option_map, block_info_of, block_rows.
  now rewrite app_nil_r.
Qed.

Lemma typed_block_blank b b' v ts blk rest : block_of b v [] = Some blk ->
  dec_typed_block b' v ts (blk ++ rest) = Ok (blank_block_info, 0%Z, 0%Z, ts) rest.
Proof.
  rewrite block_of_nil. intros Hb.
  assert (Eb : blk = (if gate v FeatureBlockInfo then encode_BlockInfo blank_block_info else []) ++ put_int 0 ++ put_int 0) by congruence.
  subst blk. clear Hb. unfold dec_typed_block, decode_block. unfold bind at 1.
  assert (HI : (if gate v FeatureBlockInfo then decode_BlockInfo blank_block_info else ret blank_block_info)
                 ((if gate v FeatureBlockInfo then encode_BlockInfo blank_block_info else []) ++ (put_int 0 ++ put_int 0) ++ rest)
               = Ok blank_block_info ((put_int 0 ++ put_int 0) ++ rest)).
  { destruct (gate v FeatureBlockInfo); [|reflexivity]. apply BlockInfo_rt. cbn. unfold in_i32. lia. }
  rewrite <- app_assoc, HI. clear HI.
  unfold bind at 1. unfold decode_raw_block. unfold bind at 1.
  rewrite <- !app_assoc, get_int_put by (unfold in_i64; lia).
  replace ((maxColumnsInBlock <? 0) || (0 <? 0))%Z with false by reflexivity.
  unfold bind at 1. rewrite get_int_put by (unfold in_i64; lia).
  unfold bind at 1. rewrite (check_rows_ok 0) by (unfold max_rows, maxRowsInBLock; lia).
  reflexivity.
Qed.

Lemma parse_blank_packet k b b' ts bl rest :
  fits k b [] -> packet_bytes H comp k b [] [] = Some bl ->
  parse_data H decomp (compressed k) b' (k_rev k) ts (bl ++ rest) = Ok (blank_packet (k_rev k)) rest.
Proof.
  intros Hfit Hbl.
  rewrite (parse_data_gen k b b' [] [] ts bl rest _ eq_refl Hfit Hbl
             (fun blk rest' Hblk => typed_block_blank b b' (k_rev k) (blank_targets ts) blk rest' Hblk)).
  unfold blank_packet, data_packet. cbn [Z.eqb andb length block_rows block_info_of prep_cols map Z.of_nat Z.of_N].
  now destruct (gate (k_rev k) FeatureBlockInfo), (gate (k_rev k) FeatureTempTables).
Qed.

(* ---- Data packets up to the terminator ----------------------------------------------------------- *)
Definition tblock := (bytes * list col)%type.

Definition tblock_ok (k : ccfg) (b : build) (ts : list col) (tb : tblock) : Prop :=
  snd tb <> [] /\ cols_ok (snd tb) /\ str_okb (fst tb) = true /\ fits k b (snd tb) /\
  blank_targets ts = blank_targets (snd tb).

Fixpoint packets_bytes (k : ccfg) (b : build) (tbs : list tblock) : option bytes :=
  match tbs with
  | [] => Some []
  | tb :: r =>
    match packet_bytes H comp k b (fst tb) (snd tb), packets_bytes k b r with
    | Some p, Some w => Some (p ++ w)
    | _, _ => None
    end
  end.

Lemma is_end_data v table cols : is_end (data_packet v table cols) = is_nil cols.
Proof.
  unfold is_end, data_packet. cbn [d_cols d_rows]. destruct cols as [|c cs]; [reflexivity|].
  replace ((Z.of_nat (length (c :: cs)) =? 0)%Z) with false by (symmetry; apply Z.eqb_neq; cbn [length]; lia).
  reflexivity.
Qed.

Lemma cols_ok_nil : cols_ok [].
Proof. unfold cols_ok. cbn. repeat split; try constructor; unfold max_rows, maxColumnsInBlock, maxRowsInBLock; lia. Qed.

Lemma parse_until_end_ok k b b' ts bl : fits k b [] -> packet_bytes H comp k b [] [] = Some bl ->
  forall tbs w rest fuel, Forall (tblock_ok k b ts) tbs -> packets_bytes k b tbs = Some w ->
  (length tbs < fuel)%nat ->
  parse_until_end H decomp fuel (compressed k) b' (k_rev k) ts (w ++ bl ++ rest) =
  Ok (map (fun tb => data_packet (k_rev k) (fst tb) (snd tb)) tbs ++ [blank_packet (k_rev k)]) rest.
Proof.
  intros Hfit0 Hbl. induction tbs as [|tb tbs IH]; intros w rest fuel Hok Hw Hfuel.
  - cbn in Hw. injection Hw as <-. destruct fuel as [|fuel]; [cbn in Hfuel; lia|].
    cbn [parse_until_end List.app map]. unfold bind.
    rewrite (parse_blank_packet k b b' ts bl rest Hfit0 Hbl). unfold blank_packet.
 rewrite is_end_data. reflexivity.
  - inversion Hok as [|tb0 tbs0 Htb Htbs]; subst tb0 tbs0.
    destruct Htb as (Hne & Hcok & Htab & Hfit & Hts).
    cbn [packets_bytes] in Hw.
    destruct (packet_bytes H comp k b (fst tb) (snd tb)) as [p|] eqn:Ep; [|discriminate].
    destruct (packets_bytes k b tbs) as [w'|] eqn:Ew; [|discriminate]. injection Hw as <-.
    destruct fuel as [|fuel]; [cbn in Hfuel; lia|].
    cbn [parse_until_end map List.app]. unfold bind at 1. rewrite <- app_assoc.
    rewrite (parse_data_packet k b b' (fst tb) (snd tb) ts p _ Hcok Htab Hfit Hts Ep).
    rewrite is_end_data. destruct (snd tb) as [|c cs] eqn:Es; [contradiction|]. cbn [is_nil].
    unfold bind. rewrite (IH w' rest fuel Htbs eq_refl) by (cbn [length] in Hfuel; lia).
    reflexivity.
Qed.

(* ---- the whole stream ------------------------------------------------------------------------- *)
Definition dp (k : ccfg) (tb : tblock) : dpacket := data_packet (k_rev k) (fst tb) (snd tb).

Lemma packet_nonempty k b table cols p : packet_bytes H comp k b table cols = Some p -> (1 <= length p)%nat.
Proof.
  intros Hp. destruct (packet_bytes_char _ _ _ _ _ Hp) as (blk & _ & Hs).
  destruct (k_comp k).
  - destruct Hs as (f & _ & ->). unfold data_header, code_byte. cbn [List.app length]. lia.
  - subst p. unfold data_header, code_byte. cbn [List.app length]. lia.
Qed.

Lemma packets_bytes_length k b : forall tbs w, packets_bytes k b tbs = Some w -> (length tbs <= length w)%nat.
Proof.
  induction tbs as [|tb tbs IH]; intros w; cbn [packets_bytes length]; [lia|].
  destruct (packet_bytes H comp k b (fst tb) (snd tb)) as [p|] eqn:Ep; [|discriminate].
  destruct (packets_bytes k b tbs) as [w'|]; [|discriminate]. intros [= <-].
  pose proof (packet_nonempty _ _ _ _ _ Ep). specialize (IH w' eq_refl). rewrite app_length. lia.
Qed.

Lemma parse_stream_gen k b b' (ext_ts : list col) (sc_in : option (list col)) exttbs intbs wext win bl q :
  gate (k_rev k) FeatureSettingsSerializedAsStrings = true -> query_ok q = true ->
  fits k b [] -> packet_bytes H comp k b [] [] = Some bl ->
  Forall (tblock_ok k b ext_ts) exttbs -> packets_bytes k b exttbs = Some wext ->
  match sc_in with
  | None => intbs = [] /\ win = []
  | Some ts => Forall (tblock_ok k b ts) intbs /\ exists w, packets_bytes k b intbs = Some w /\ win = w ++ bl
  end ->
  parse_client_stream H decomp k b' {| sc_ext := ext_ts ; sc_input := sc_in |}
    (encode_Query (k_rev k) q ++ wext ++ bl ++ win) =
  Ok (PQuery (project_Query (k_rev k) q) :: map PData (map (dp k) exttbs ++ [blank_packet (k_rev k)]) ++
      map PData (match sc_in with None => [] | Some _ => map (dp k) intbs ++ [blank_packet (k_rev k)] end)) [].
Proof.
  intros Hgate Hq Hfit0 Hbl Hext Hwext Hin.
  destruct (Query_rt (k_rev k) q (wext ++ bl ++ win) Hq Hgate) as (qb & Eq & Edq).
  unfold parse_client_stream. fold (compressed k). rewrite Eq. cbn [List.app]. unfold bind at 1.
  rewrite uvarint_small by (vm_compute; reflexivity). rewrite N.eqb_refl. cbn [negb].
  unfold bind at 1. rewrite Edq. unfold bind at 1. cbn [sc_ext sc_input].
  rewrite (parse_until_end_ok k b b' ext_ts bl Hfit0 Hbl exttbs wext win _ Hext Hwext).
  2:{ pose proof (packets_bytes_length _ _ _ _ Hwext). cbn [length]. rewrite !app_length. lia. }
  unfold bind at 1. destruct sc_in as [ts|].
  - destruct Hin as (Hin & w & Hw & ->).
    pose proof (parse_until_end_ok k b b' ts bl Hfit0 Hbl intbs w [] (S (length (Z.to_N ClientCodeQuery :: qb ++ wext ++ bl ++ w ++ bl))) Hin Hw) as E.
    rewrite app_nil_r in E. rewrite E.
    2:{ pose proof (packets_bytes_length _ _ _ _ Hw). cbn [length]. rewrite !app_length. lia. }
    reflexivity.
  - destruct Hin as [-> ->]. reflexivity.
Qed.

Lemma Some_inj {A} (x y : A) : Some x = Some y -> x = y.
Proof. now intros [= ->]. Qed.

Ltac tb_ok := split; [discriminate|]; split; [assumption|]; split; [assumption || reflexivity|]; split; [assumption|reflexivity].

(* C02 *)
Theorem client_stream_wellformed_thm k b b' u bs :
  gate (k_rev k) FeatureSettingsSerializedAsStrings = true ->
  query_ok (proto_query k u) = true ->
  str_okb (ext_table u) = true ->
  cols_ok (u_ext u) -> cols_ok (u_input u) ->
  fits k b (u_ext u) -> fits k b (u_input u) -> fits k b [] ->
  client_stream H comp k b u = Some bs ->
  parse_client_stream H decomp k b' (schema_of u) bs = Ok (expected_packets k u) [].
Proof.
  intros Hgate Hq Htab Hoke Hoki Hfe Hfi Hf0. unfold client_stream. rewrite client_do_pure. cbn [map].
  unfold p_do. destruct (negb (is_nil (u_params u)) && negb (gate (k_rev k) FeatureParameters)); [discriminate|].
  unfold p_query_bytes.
  destruct (match u_ext u with [] => Some [] | _ => packet_bytes H comp k b (ext_table u) (u_ext u) end) as [e|] eqn:Ee;
    [|discriminate].
  destruct (packet_bytes H comp k b [] []) as [bl|] eqn:Ebl; [|discriminate].
  (* the external-data phase *)
  set (exttbs := match u_ext u with [] => [] | _ => [(ext_table u, u_ext u)] end : list tblock).
  assert (Hext : Forall (tblock_ok k b (u_ext u)) exttbs /\ packets_bytes k b exttbs = Some e).
  { subst exttbs. destruct (u_ext u) as [|c cs] eqn:Eu.
    - injection Ee as <-. split; [constructor|reflexivity].
    - split.
      + constructor; [|constructor]. unfold tblock_ok. cbn [fst snd]. tb_ok.
      + cbn [packets_bytes fst snd]. rewrite Ee. now rewrite app_nil_r. }
  destruct Hext as [Hext Hwext].
  unfold p_input. destruct (u_input u) as [|c cs] eqn:Ei.
  - cbn [fst snd]. intros Hbs. apply Some_inj in Hbs. subst bs.
    pose proof (parse_stream_gen k b b' (u_ext u) None exttbs [] e [] bl (proto_query k u) Hgate Hq Hf0 Ebl Hext Hwext
                  (conj eq_refl eq_refl)) as E.
    rewrite ?wire_app, ?wire_cons_flush, ?wire_nil, ?app_nil_r. rewrite ?app_nil_r in E. rewrite <- ?app_assoc.
    unfold schema_of. rewrite Ei. rewrite E. unfold expected_packets. rewrite Ei. subst exttbs.
    destruct (u_ext u); reflexivity.
  - cbn [negb]. destruct (packet_bytes H comp k b [] (c :: cs)) as [p|] eqn:Ep; [|discriminate].
    unfold p_finish. rewrite Ebl. cbn [fst snd]. intros Hbs. apply Some_inj in Hbs. subst bs.
    assert (Hin : Forall (tblock_ok k b (c :: cs)) [([], c :: cs)]).
    { constructor; [|constructor]. unfold tblock_ok. cbn [fst snd]. tb_ok. }
    pose proof (parse_stream_gen k b b' (u_ext u) (Some (c :: cs)) exttbs [([], c :: cs)] e (p ++ bl) bl (proto_query k u)
                  Hgate Hq Hf0 Ebl Hext Hwext) as E.
    rewrite ?wire_app, ?wire_cons_flush, ?wire_nil, ?app_nil_r, ?app_nil_l, <- ?app_assoc.
    unfold schema_of. rewrite Ei. rewrite E.
    + unfold expected_packets. rewrite Ei. subst exttbs. destruct (u_ext u); reflexivity.
    + split; [exact Hin|]. exists p. split; [|reflexivity]. cbn [packets_bytes fst snd]. rewrite Ep. now rewrite app_nil_r.
Qed.

(* below settings-as-strings the library's own server-side Query decoder is its "unsupported version" error *)
Theorem client_stream_unsupported_thm k b' sc s :
  gate (k_rev k) FeatureSettingsSerializedAsStrings = false ->
  is_ok (parse_client_stream H decomp k b' sc s) = false.
Proof.
  intros Hg. unfold parse_client_stream, bind.
  destruct (uvarint s) as [code s1|e|c]; [|reflexivity|reflexivity].
  destruct (negb (code =? Z.to_N ClientCodeQuery)); [reflexivity|].
  pose proof (Query_unsupported_below (k_rev k) s1 Hg) as E.
  destruct (decode_Query (k_rev k) s1); [discriminate|reflexivity|reflexivity].
Qed.

(* C09 at the level of the reference parser *)
Lemma emit_packets k b : forall bs w, emit H comp k b bs = (w, true) ->
  packets_bytes k b (map (fun c => ([], c)) bs) = Some w.
Proof.
  induction bs as [|c bs IH]; intros w; cbn [emit map packets_bytes fst snd].
  - now intros [= <-].
  - destruct (packet_bytes H comp k b [] c) as [p|]; [|discriminate].
    destruct (emit H comp k b bs) as [w' ok]. intros [= <- ->]. now rewrite (IH w' eq_refl).
Qed.

Lemma spec_loop_ok_term : forall h cols bs term, spec_loop cols h = (bs, term, StOk) -> term = true.
Proof.
  induction h as [|s h IH]; intros cols bs term; cbn [spec_loop]; [discriminate|].
  destruct (cb_ret s).
  - destruct (spec_loop (set_data cols (cb_data s)) h) as [[bs' t'] r'] eqn:E. intros [= <- <- ->]. eapply IH; eassumption.
  - destruct (0 <? block_rows (set_data cols (cb_data s))); now intros [= <- <-].
  - destruct (0 <? block_rows (set_data cols (cb_data s))); now intros [= <- <-].
  - discriminate.
Qed.

Lemma spec_loop_term_iff : forall h cols bs term stt, spec_loop cols h = (bs, term, stt) -> (term = true <-> stt = StOk).
Proof.
  induction h as [|s h IH]; intros cols bs term stt; cbn [spec_loop].
  - intros [= <- <- <-]. split; discriminate.
  - destruct (cb_ret s).
    + destruct (spec_loop (set_data cols (cb_data s)) h) as [[bs' t'] r'] eqn:E. intros [= <- <- <-]. eapply IH; eassumption.
    + destruct (0 <? block_rows (set_data cols (cb_data s))); intros [= <- <- <-]; split; reflexivity.
    + destruct (0 <? block_rows (set_data cols (cb_data s))); intros [= <- <- <-]; split; reflexivity.
    + intros [= <- <- <-]. split; discriminate.
Qed.

(* the terminator is sent iff the sender ends normally: a callback error (and a history that ends
   early) leaves the stream without it *)
Lemma spec_stream_term_iff cols h bs term stt : spec_stream cols h = (bs, term, stt) -> (term = true <-> stt = StOk).
Proof.
  unfold spec_stream. destruct (block_rows cols =? 0); [|apply spec_loop_term_iff].
  destruct h as [|s h]; [intros [= <- <- <-]; split; discriminate|].
  destruct (cb_ret s).
  - apply spec_loop_term_iff.
  - destruct (0 <? block_rows (set_data cols (cb_data s))); intros [= <- <- <-]; split; reflexivity.
  - destruct (0 <? block_rows (set_data cols (cb_data s))); intros [= <- <- <-]; split; reflexivity.
  - intros [= <- <- <-]; split; discriminate.
Qed.

Lemma spec_stream_ok_term cols h bs term : spec_stream cols h = (bs, term, StOk) -> term = true.
Proof.
  unfold spec_stream. destruct (block_rows cols =? 0); [|apply spec_loop_ok_term].
  destruct h as [|s h]; [discriminate|].
  destruct (cb_ret s).
  - apply spec_loop_ok_term.
  - destruct (0 <? block_rows (set_data cols (cb_data s))); now intros [= <- <-].
  - destruct (0 <? block_rows (set_data cols (cb_data s))); now intros [= <- <-].
  - discriminate.
Qed.

Theorem stream_parses_thm k b b' u h evs bs term stt :
  gate (k_rev k) FeatureSettingsSerializedAsStrings = true ->
  query_ok (proto_query k u) = true ->
  str_okb (ext_table u) = true ->
  cols_ok (u_ext u) -> fits k b (u_ext u) -> fits k b [] ->
  u_input u <> [] ->
  client_do H comp k b u true h = (evs, StOk) ->
  spec_stream (u_input u) h = (bs, term, stt) ->
  Forall (fun c => tblock_ok k b (u_input u) ([], c)) bs ->
  parse_client_stream H decomp k b' (schema_of u) (wire evs) =
  Ok (PQuery (project_Query (k_rev k) (proto_query k u)) ::
      (match u_ext u with [] => [] | _ => [PData (data_packet (k_rev k) (ext_table u) (u_ext u))] end) ++
      [PData (blank_packet (k_rev k))] ++
      map (fun c => PData (data_packet (k_rev k) [] c)) bs ++ [PData (blank_packet (k_rev k))]) [].
Proof.
  intros Hgate Hq Htab Hoke Hfe Hf0 Hne. rewrite client_do_pure. unfold p_do.
  destruct (negb (is_nil (u_params u)) && negb (gate (k_rev k) FeatureParameters)); [discriminate|].
  unfold p_query_bytes.
  destruct (match u_ext u with [] => Some [] | _ => packet_bytes H comp k b (ext_table u) (u_ext u) end) as [e|] eqn:Ee;
    [|discriminate].
  destruct (packet_bytes H comp k b [] []) as [bl|] eqn:Ebl; [|discriminate].
  set (exttbs := match u_ext u with [] => [] | _ => [(ext_table u, u_ext u)] end : list tblock).
  assert (Hext : Forall (tblock_ok k b (u_ext u)) exttbs /\ packets_bytes k b exttbs = Some e).
  { subst exttbs. destruct (u_ext u) as [|c cs] eqn:Eu.
    - injection Ee as <-. split; [constructor|reflexivity].
    - split.
      + constructor; [|constructor]. unfold tblock_ok. cbn [fst snd]. tb_ok.
      + cbn [packets_bytes fst snd]. rewrite Ee. now rewrite app_nil_r. }
  destruct Hext as [Hext Hwext].
  intros Hrun Hspec Hbs.
  pose proof (p_input_spec H comp k b bl (u_input u) h [EvFlush (encode_Query (k_rev k) (proto_query k u) ++ e ++ bl)] Ebl Hne) as HS.
  rewrite Hrun, Hspec in HS. unfold stream_spec_holds in HS. cbn [fst snd] in HS.
  destruct (emit H comp k b bs) as [w ok] eqn:Eem. destruct HS as [HS1 HS2].
  destruct ok; [|discriminate]. subst stt. pose proof (spec_stream_ok_term _ _ _ _ Hspec) as ->.
  cbn [andb] in HS1. rewrite HS1, wire_flush, <- !app_assoc.
  pose proof (emit_packets k b bs w Eem) as Hw.
  pose proof (parse_stream_gen k b b' (u_ext u) (Some (u_input u)) exttbs (map (fun c => ([], c)) bs) e (w ++ bl) bl
                (proto_query k u) Hgate Hq Hf0 Ebl Hext Hwext) as E.
  unfold schema_of. destruct (u_input u) as [|ci csi] eqn:Ei; [contradiction|].
  rewrite E.
  - f_equal. f_equal. subst exttbs. rewrite !map_app, !map_map. cbn [map]. unfold dp. cbn [fst snd].
    destruct (u_ext u); cbn [map List.app fst snd]; reflexivity.
  - split.
    + apply Forall_map. exact Hbs.
    + exists w. split; [exact Hw|reflexivity].
Qed.
End Parse.
