(* C07 at block and stream level: every proper prefix of a BLOCK is rejected.

   Part 1  plain blocks: [decode_block] (typed targets, Results.Auto, no targets; any revision; the two builds
           on the two sides) and [block_parser] (also q.Result == nil) do not return Ok on a proper prefix of
           what [encode_block] wrote.  Route: C01's exact consumption + [mono] of the whole block decoder
           (ParserStable.ms_decode_block) + the general PrimProofs.prefix_rejected.  With [stable] and a block
           under the allocation budget the answer is exactly [Err EEof].
   Part 2  compressed blocks, ANY framing: for every list of admissible frames whose payloads concatenate to
           the block (RecvProofs2.frames_of) and every proper prefix of the concatenated FRAME bytes - cut inside
           a checksum, a frame header, the compressed data or exactly between two frames - the decompressing
           path ([read_comp] under [via]) returns [Err ECorrupt] (the model's "read next block: ..."), never Ok.
   Part 3  the receiver: the server stream cut anywhere inside a Data / Totals / Log / ProfileEvents packet
           makes the receive loop return a read error with the callback trace of the complete packets before
           it: no callback ran for the cut packet. *)
From CH Require Import model.Recv.
From CH Require Import proofs.PrimProofs proofs.FieldsProofs proofs.MessagesProofs proofs.ColumnsProofs proofs.ColumnsProofs2
  proofs.CompressProofs proofs.RecvProofs proofs.ParserStable proofs.RecvProofs2.
From CH Require Import gen.Features gen.Codes gen.Consts.
From Coq Require Import ZifyN ZifyNat ZifyBool.
Ltac Zify.zify_post_hook ::= Z.div_mod_to_equations.
Open Scope N_scope.
Open Scope list_scope.

(* ---------- small facts ------------------------------------------------------------------------ *)
Lemma firstn_app_ge {A} (a b : list A) k : (length a <= k)%nat -> firstn k (a ++ b) = a ++ firstn (k - length a) b.
Proof. intros Hk. rewrite firstn_app, firstn_all2 by exact Hk. reflexivity. Qed.

Lemma firstn_app_lt {A} (a b : list A) k : (k <= length a)%nat -> firstn k (a ++ b) = firstn k a.
Proof.
  intros Hk. rewrite firstn_app. replace (k - length a)%nat with 0%nat by lia. cbn [firstn]. apply app_nil_r.
Qed.

Lemma last_app_r {A} (a b : list A) d : b <> [] -> last (a ++ b) d = last b d.
Proof.
  intros Hb. induction a as [|x a IH]; [reflexivity|]. cbn [app last].
  destruct (a ++ b) eqn:E; [apply app_eq_nil in E as [_ E]; contradiction|exact IH].
Qed.

Lemma is_ok_bind_false {A B} (p : parser A) (f : A -> parser B) s : is_ok (p s) = false -> is_ok (bind p f s) = false.
Proof. unfold bind. destruct (p s); [discriminate|reflexivity|reflexivity]. Qed.

(* ================================================================================================
   Part 1: plain blocks
   ================================================================================================ *)
Section BlockPrefix.
  Variable conflicts : bytes -> bytes -> bool.
  Variable infer_target : ty -> bytes -> option ty.
  Variable infer_auto : bytes -> option ty.
  Hypothesis conflicts_refl : forall s, conflicts s s = false.

  Notation decode_block := (decode_block conflicts infer_target infer_auto).
  Notation block_parser := (block_parser conflicts infer_target infer_auto).
  Notation fits := (fits infer_target infer_auto).

  (* the binding DecodeBlock is given: proto.Results (typed columns, possibly none) or (&results).Auto() *)
  Definition tg_of (auto : bool) (ts : list col) : rtarget := if auto then TgAuto ts else TgTyped ts.

  (* what the targets are after the block was decoded: the block's own columns, prepared; an empty
     proto.Results only skips the headers; the end-of-data block binds nothing *)
  Definition ts_after (auto : bool) (ts cols' : list col) (endm : bool) : list col :=
    if endm then ts else
    match ts with
    | [] => if auto then cols' else []
    | _ => cols'
    end.

  Ltac hdr Hb Hc Hn :=
    unfold bind; rewrite <- ?app_assoc; rewrite (binfo_rt _ _ _ Hb); cbv beta iota;
    rewrite (get_int_nat _ _ Hc), (ncols_range _ Hc); cbv beta iota;
    rewrite (get_int_rows _ _ Hn); cbv beta iota;
    rewrite (check_rows_ok _ Hn); cbv beta iota; rewrite end_test.

  (* C01 at block level for every binding, the encoder's build [b] and the decoder's [b'] independent *)
  Lemma decode_block_rt auto b b' v ts info nrows cols cols' :
    in_i32 (bi_bucket info) -> nrows <= max_rows -> (Z.of_nat (length cols) <= maxColumnsInBlock)%Z ->
    Forall2 (col_ok nrows) cols cols' ->
    (is_end_marker nrows cols = false -> fits (tg_of auto ts) nrows cols) ->
    exists body, encode_block b v info nrows cols = Some body /\
      forall rest, decode_block auto b' v ts (body ++ rest) =
        Ok (info_at v info, Z.of_nat (length cols), Z.of_N nrows,
            ts_after auto ts cols' (is_end_marker nrows cols)) rest.
  Proof.
    intros Hb Hn Hc Hok Hfit.
    destruct (enc_cols_some b v nrows cols cols' Hok) as (body & Hbody).
    unfold encode_block, encode_raw_block. rewrite Hbody. cbn [option_map].
    eexists. split; [reflexivity|]. intros rest.
    pose proof (enc_cols_length conflicts infer_target infer_auto conflicts_refl _ _ _ _ _ Hbody) as Hlen.
    assert (Hguard : (N.of_nat (length cols) <=? blen (body ++ rest)) = true).
    { apply N.leb_le. unfold blen. rewrite app_length. lia. }
    unfold ts_after.
    destruct (is_end_marker nrows cols) eqn:Hend.
    - assert (Hnil : cols = []) by (destruct cols; [reflexivity|discriminate]).
      subst cols. cbn [enc_cols] in Hbody. injection Hbody as <-.
      unfold Block.decode_block, decode_raw_block. hdr Hb Hc Hn. rewrite Hend. reflexivity.
    - specialize (Hfit eq_refl).
      destruct auto; destruct ts as [|t0 ts]; cbn [tg_of RecvProofs.fits] in Hfit.
      + (* Results.Auto, first block *)
        destruct (dec_auto_rt infer_auto b b' v nrows Hn cols cols' Hok Hfit) as (body' & Hb' & Hd).
        rewrite Hb' in Hbody. injection Hbody as <-.
        unfold Block.decode_block, decode_raw_block. hdr Hb Hc Hn. rewrite Hend. cbv beta iota.
        cbn [decode_auto]. rewrite N_of_len, Nat2N.id, Hguard, Hd. reflexivity.
      + destruct (dec_targets_rt conflicts infer_target conflicts_refl b b' v nrows Hn cols cols' (t0 :: ts) Hok Hfit)
          as (body' & Hb' & Hd).
        rewrite Hb' in Hbody. injection Hbody as <-.
        unfold Block.decode_block, decode_raw_block. hdr Hb Hc Hn. rewrite Hend. cbv beta iota.
        cbn [decode_auto decode_result]. unfold target. rewrite N_of_len.
        rewrite (F2_length _ _ _ Hfit), N.eqb_refl. cbn [negb]. rewrite Hd. reflexivity.
      + (* an empty proto.Results: headers are skipped *)
        unfold Block.decode_block, decode_raw_block. hdr Hb Hc Hn. rewrite Hend. cbv beta iota.
        cbn [decode_result].
        destruct Hfit as [->| ->].
        * destruct (skip_headers_rt conflicts infer_target infer_auto conflicts_refl b v cols cols' Hok) as (body' & Hb' & Hl & Hd).
          rewrite Hb' in Hbody. injection Hbody as <-.
          change (negb (0 =? 0)) with false. rewrite andb_false_r. cbv beta iota.
          rewrite N_of_len, Nat2N.id, Hguard. unfold bind. rewrite Hd. reflexivity.
        * inversion Hok; subst. cbn in Hbody. injection Hbody as <-.
          change (negb (Z.to_N (Z.of_nat (length (@nil col))) =? 0)) with false. cbn [andb]. cbv beta iota.
          rewrite N_of_len, Nat2N.id, Hguard. reflexivity.
      + destruct (dec_targets_rt conflicts infer_target conflicts_refl b b' v nrows Hn cols cols' (t0 :: ts) Hok Hfit)
          as (body' & Hb' & Hd).
        rewrite Hb' in Hbody. injection Hbody as <-.
        unfold Block.decode_block, decode_raw_block. hdr Hb Hc Hn. rewrite Hend. cbv beta iota.
        cbn [decode_result]. unfold target. rewrite N_of_len.
        rewrite (F2_length _ _ _ Hfit), N.eqb_refl. cbn [negb]. rewrite Hd. reflexivity.
  Qed.

  (* every proper prefix of an encoded block is rejected, whatever the binding *)
  Theorem block_prefix_rejected_thm auto b b' v ts info nrows cols cols' body :
    in_i32 (bi_bucket info) -> nrows <= max_rows -> (Z.of_nat (length cols) <= maxColumnsInBlock)%Z ->
    Forall2 (col_ok nrows) cols cols' ->
    (is_end_marker nrows cols = false -> fits (tg_of auto ts) nrows cols) ->
    encode_block b v info nrows cols = Some body ->
    forall k, (k < length body)%nat -> is_ok (decode_block auto b' v ts (firstn k body)) = false.
  Proof.
    intros Hb Hn Hc Hok Hfit Henc k Hk.
    destruct (decode_block_rt auto b b' v ts info nrows cols cols' Hb Hn Hc Hok Hfit) as (body0 & Hb0 & Hdec).
    rewrite Henc in Hb0. injection Hb0 as <-.
    specialize (Hdec []). rewrite app_nil_r in Hdec.
    eapply prefix_rejected_firstn; [apply (ms_decode_block conflicts infer_target infer_auto)|exact Hdec|exact Hk].
  Qed.

  (* ... and the decoder's answer is "unexpected end of input" (no other error, no crash) for a block under
     the allocation budget of the model *)
  Theorem block_prefix_eof_thm auto b b' v ts info nrows cols cols' body :
    in_i32 (bi_bucket info) -> nrows <= max_rows -> (Z.of_nat (length cols) <= maxColumnsInBlock)%Z ->
    Forall2 (col_ok nrows) cols cols' ->
    (is_end_marker nrows cols = false -> fits (tg_of auto ts) nrows cols) ->
    encode_block b v info nrows cols = Some body -> 2 * blen body + 4096 <= alloc_cap ->
    forall k, (k < length body)%nat -> decode_block auto b' v ts (firstn k body) = Err EEof.
  Proof.
    intros Hb Hn Hc Hok Hfit Henc Hcap k Hk.
    destruct (decode_block_rt auto b b' v ts info nrows cols cols' Hb Hn Hc Hok Hfit) as (body0 & Hb0 & Hdec).
    rewrite Henc in Hb0. injection Hb0 as <-.
    specialize (Hdec []). rewrite app_nil_r in Hdec.
    destruct (ms_decode_block conflicts infer_target infer_auto auto b' v ts) as (Hm & Hs).
    eapply (prefix_eof _ (firstn k body) (skipn k body) _ Hm Hs).
    - rewrite firstn_skipn. exact Hdec.
    - intros E. apply (f_equal (@length _)) in E. rewrite skipn_length in E. cbn in E. lia.
    - now rewrite firstn_skipn.
  Qed.

  (* the same for Block.DecodeBlock into q.Result as the receiver calls it, q.Result == nil included *)
  Theorem block_parser_prefix_rejected_thm c tg info nrows cols cols' body :
    in_i32 (bi_bucket info) -> nrows <= max_rows -> (Z.of_nat (length cols) <= maxColumnsInBlock)%Z ->
    Forall2 (col_ok nrows) cols cols' ->
    (is_end_marker nrows cols = false -> fits tg nrows cols) ->
    encode_block (c_build c) (c_rev c) info nrows cols = Some body ->
    forall k, (k < length body)%nat -> is_ok (block_parser c tg (firstn k body)) = false.
  Proof.
    intros Hb Hn Hc Hok Hfit Henc k Hk.
    destruct (block_parser_rt conflicts infer_target infer_auto conflicts_refl c tg info nrows cols cols' Hb Hn Hc Hok Hfit)
      as (body0 & Hb0 & Hdec).
    rewrite Henc in Hb0. injection Hb0 as <-.
    specialize (Hdec []). rewrite app_nil_r in Hdec.
    eapply prefix_rejected_firstn; [apply (ms_block_parser conflicts infer_target infer_auto)|exact Hdec|exact Hk].
  Qed.

  (* the end-of-data block (no columns, no rows): nothing about the targets is needed - they are not looked at *)
  Corollary end_block_prefix_rejected_thm auto b b' v ts info body :
    in_i32 (bi_bucket info) -> encode_block b v info 0 [] = Some body ->
    forall k, (k < length body)%nat -> is_ok (decode_block auto b' v ts (firstn k body)) = false.
  Proof.
    intros Hb Henc. apply (block_prefix_rejected_thm auto b b' v ts info 0 [] [] body); try assumption.
    - unfold max_rows. lia.
    - cbn. unfold maxColumnsInBlock. lia.
    - constructor.
    - discriminate.
  Qed.

  (* a block of zero rows carries the column headers only (no state prefix, no data): its length is that of
     the block header plus the headers, and the prefix theorem above applies to it as to any other block *)
  Lemma zero_row_block_bytes b v info cols body :
    Forall (fun c => rows (c_ty c) (c_data c) = 0 /\
                     exists d, prepare (c_ty c) (c_data c) = Some d /\ rows (c_ty c) d = 0) cols ->
    encode_block b v info 0 cols = Some body ->
    body = (if gate v FeatureBlockInfo then encode_BlockInfo info else []) ++
           put_int (Z.of_nat (length cols)) ++ put_int 0 ++
           concat (map (fun c => enc_start v (c_name c) (c_ty c)) cols).
  Proof.
    intros Hz. unfold encode_block, encode_raw_block.
    assert (He : enc_cols b v 0 cols = Some (concat (map (fun c => enc_start v (c_name c) (c_ty c)) cols))).
    { induction Hz as [|c cols (Hr & d & Hp & Hr') _ IH]; [reflexivity|].
      cbn [enc_cols map concat]. rewrite Hr. cbn [N.eqb negb]. rewrite Hp, Hr', IH. cbn [N.eqb app]. reflexivity. }
    rewrite He. cbn [option_map]. intros [= <-]. reflexivity.
  Qed.
End BlockPrefix.

(* ================================================================================================
   Part 2: compressed blocks, any framing
   ================================================================================================ *)
Section FramesPrefix.
  Variable H : bytes -> N * N.
  Variable comp : method -> bytes -> option bytes.
  Variable decomp : N -> bytes -> N -> option bytes.
  Hypothesis codec : codec_rt comp decomp.

  (* readBlock on a proper prefix of a written frame fails (CompressProofs.prefix_rejected_compressed_thm) *)
  Lemma read_block_prefix_fails m p f k :
    compress_frame H comp m p = inr f -> (k < length f)%nat ->
    exists e u' al, read_block H decomp (firstn k f) = (inl e, u', al).
  Proof.
    intros Hf Hk.
    destruct (prefix_rejected_compressed_thm H comp decomp m p f k 0 Hf Hk) as (e & s' & Hr & _).
    rewrite cr_read_init in Hr.
    destruct (read_block H decomp (firstn k f)) as [[[e0|d] u'] al]; [|discriminate].
    eexists _, _, _. reflexivity.
  Qed.

  Lemma frame_nonempty m d f : compress_frame H comp m d = inr f -> (25 <= length f)%nat.
  Proof.
    intros Ef. destruct (compress_frame_shape H comp decomp _ _ _ Ef) as (c0 & Hc0 & _ & _).
    pose proof (frame_length H comp decomp _ _ _ _ Ef Hc0) as Hl. unfold blen in Hl. lia.
  Qed.

  (* the decoder under the decompressing reader, the frame stream cut after k bytes: frames that arrived whole
     are decompressed and handed over, the decoder still wants more, and the next readBlock fails - on the
     torn frame, or with a clean end of input when the cut is exactly between two frames *)
  Lemma read_comp_cut {A} (p : parser A) (a : A) : mono p -> stable p ->
    forall l payload carry fuel k,
      encode_frames H comp l = Some payload -> Forall (frame_fits H comp) l ->
      p (carry ++ concat (map snd l)) = Ok a [] ->
      (l <> [] -> last (map snd l) [] <> []) ->
      2 * blen (carry ++ concat (map snd l)) + 4096 <= alloc_cap ->
      (k < length payload)%nat -> (k < fuel)%nat ->
      read_comp H decomp fuel p carry (firstn k payload) = Err ECorrupt.
  Proof.
    intros Hm Hs. induction l as [|[m d] l IH]; intros payload carry fuel k He Hfit Hok Hlast Hcap Hk Hfuel.
    - cbn in He. injection He as <-. cbn in Hk. lia.
    - cbn [encode_frames] in He.
      destruct (compress_frame H comp m d) as [e|f] eqn:Ef; [discriminate|].
      destruct (encode_frames H comp l) as [r|] eqn:Er; [|discriminate]. injection He as <-.
      inversion Hfit as [|x l0 Hx Hfit']; subst. destruct Hx as (Hd & Hf). cbn [fst snd] in Hd, Hf.
      cbn [map concat snd] in Hok, Hcap.
      assert (Hsuf : d ++ concat (map snd l) <> []).
      { apply last_nonempty_concat. apply Hlast. discriminate. }
      pose proof (prefix_eof p carry (d ++ concat (map snd l)) a Hm Hs Hok Hsuf Hcap) as Heof.
      destruct fuel as [|fuel]; [lia|].
      cbn [read_comp]. rewrite Heof.
      destruct (Nat.lt_ge_cases k (length f)) as [Hin|Hout].
      + (* the cut is inside this frame *)
        rewrite firstn_app_lt by lia.
        destruct (read_block_prefix_fails m d f k Ef Hin) as (e & u' & al & ->). reflexivity.
      + (* this frame arrived whole *)
        rewrite firstn_app_ge by exact Hout.
        rewrite (read_block_written H comp decomp m d f _ codec Ef Hd (Hf f Ef)).
        pose proof (frame_nonempty _ _ _ Ef) as Hf25.
        rewrite app_length in Hk.
        assert (Hl : l <> []) by (intros ->; cbn in Er; injection Er as <-; cbn in Hk; lia).
        apply IH; try assumption.
        * reflexivity.
        * now rewrite <- app_assoc.
        * intros _. specialize (Hlast ltac:(discriminate)). cbn [map snd] in Hlast.
          destruct l as [|md l']; [now elim Hl|]. exact Hlast.
        * now rewrite <- app_assoc.
        * lia.
        * lia.
  Qed.

  (* the decompressing path of decodeBlock over every proper prefix of every framing of the block *)
  Theorem via_frames_cut {A} c (p : parser A) a body payload :
    mono p -> stable p -> p body = Ok a [] -> c_comp c = true ->
    frames_of H comp body payload -> 2 * blen body + 4096 <= alloc_cap ->
    forall k, (k < length payload)%nat -> via H decomp c true p [] (firstn k payload) = Err ECorrupt.
  Proof.
    intros Hm Hs Hok Hc (l & Hcat & Hlast & He & Hfit) Hcap k Hk. unfold via. rewrite Hc. cbn [andb].
    apply (read_comp_cut p a Hm Hs l payload); try assumption.
    - cbn [app]. now rewrite Hcat.
    - intros _. exact Hlast.
    - cbn [app]. now rewrite Hcat.
    - rewrite firstn_length. lia.
  Qed.

  (* the interesting case by itself: the stream ends exactly between two frames.  The frames before the cut
     decompress, the decoder has consumed all of them and asks for more ([Err EEof]), and readBlock meets a
     clean end of input where it expects the next frame header: that is an error, not the end of the block *)
  Theorem frame_boundary_cut {A} c (p : parser A) a (l1 l2 : list (method * bytes)) p1 :
    mono p -> stable p -> c_comp c = true ->
    p (concat (map snd (l1 ++ l2))) = Ok a [] ->
    l2 <> [] -> last (map snd (l1 ++ l2)) [] <> [] ->
    encode_frames H comp l1 = Some p1 -> Forall (frame_fits H comp) l1 ->
    2 * blen (concat (map snd (l1 ++ l2))) + 4096 <= alloc_cap ->
    p (concat (map snd l1)) = Err EEof /\
    read_block H decomp [] = (inl (CEHeader true), [], []) /\
    via H decomp c true p [] p1 = Err ECorrupt.
  Proof.
    intros Hm Hs Hc Hok Hl2 Hlast He Hfit Hcap.
    assert (Hsuf : concat (map snd l2) <> []).
    { destruct l2 as [|md l2']; [now elim Hl2|]. cbn [map concat].
      apply last_nonempty_concat. rewrite map_app, last_app_r in Hlast by discriminate. exact Hlast. }
    rewrite map_app, concat_app in Hok, Hcap.
    pose proof (prefix_eof p _ _ a Hm Hs Hok Hsuf Hcap) as Heof.
    split; [exact Heof|]. split; [reflexivity|].
    unfold via. rewrite Hc. cbn [andb].
    (* all of l1 is read, then the clean end *)
    assert (Hgen : forall l payload carry fuel,
              encode_frames H comp l = Some payload -> Forall (frame_fits H comp) l ->
              (forall pre suf, concat (map snd l) = pre ++ suf -> p (carry ++ pre) = Err EEof) ->
              p (carry ++ concat (map snd l)) = Err EEof ->
              (length l < fuel)%nat ->
              read_comp H decomp fuel p carry payload = Err ECorrupt).
    { induction l as [|[m d] l IH]; intros payload carry fuel He' Hfit' Hpre Hall Hfuel.
      - cbn in He'. injection He' as <-. cbn [map concat] in Hall. rewrite app_nil_r in Hall.
        destruct fuel as [|fuel]; [cbn in Hfuel; lia|]. cbn [read_comp]. rewrite Hall. reflexivity.
      - cbn [encode_frames] in He'.
        destruct (compress_frame H comp m d) as [e|f] eqn:Ef; [discriminate|].
        destruct (encode_frames H comp l) as [r|] eqn:Er; [|discriminate]. injection He' as <-.
        inversion Hfit' as [|x l0 Hx Hfit'']; subst. destruct Hx as (Hd & Hf). cbn [fst snd] in Hd, Hf.
        destruct fuel as [|fuel]; [cbn in Hfuel; lia|]. cbn [read_comp].
        assert (H0 : p carry = Err EEof).
        { specialize (Hpre [] (concat (map snd ((m, d) :: l))) eq_refl). now rewrite app_nil_r in Hpre. }
        rewrite H0.
        rewrite (read_block_written H comp decomp m d f r codec Ef Hd (Hf f Ef)).
        apply IH; try assumption.
        + reflexivity.
        + intros pre suf E. rewrite <- app_assoc. apply (Hpre (d ++ pre) suf).
          cbn [map concat snd]. rewrite E. now rewrite app_assoc.
        + cbn [map concat snd] in Hall. now rewrite <- app_assoc.
        + cbn [length] in Hfuel. lia. }
    apply (Hgen l1 p1 [] (S (length p1))); try assumption.
    - intros pre suf E. cbn [app].
      assert (Hne : suf ++ concat (map snd l2) <> []).
      { intros E0. apply app_eq_nil in E0 as [_ E0]. contradiction. }
      rewrite E, <- app_assoc in Hok, Hcap.
      exact (prefix_eof p _ _ a Hm Hs Hok Hne Hcap).
    - pose proof (encode_frames_length H comp decomp l1 p1 He). lia.
  Qed.
End FramesPrefix.

(* ================================================================================================
   Part 3: the receiver - no callback for a cut packet
   ================================================================================================ *)
(* Do's receiver ended in a read / decode failure (not a callback's error, not an exception, not nil) *)
Definition read_failure (o : outcome) : Prop :=
  match o with OErr (RDecode _) | OErr (RCrash _) => True | _ => False end.

Lemma mono_plain {A} (p : parser A) (carry : bytes) : mono p ->
  mono (fun s => match p s with Ok a r => Ok (a, carry) r | Err e => Err e | Crash x => Crash x end).
Proof.
  intros Hm s a r more. destruct (p s) as [a0 r0|e|x] eqn:E; try discriminate.
  intros [= <- <-]. now rewrite (Hm _ _ _ more E).
Qed.

Section RecvCut.
  Variable conflicts : bytes -> bytes -> bool.
  Variable infer_target : ty -> bytes -> option ty.
  Variable infer_auto : bytes -> option ty.
  Variable H : bytes -> N * N.
  Variable comp : method -> bytes -> option bytes.
  Variable decomp : N -> bytes -> N -> option bytes.
  Hypothesis conflicts_refl : forall s, conflicts s s = false.
  Hypothesis codec : codec_rt comp decomp.

  Notation recv_step := (recv_step conflicts infer_target infer_auto H decomp).
  Notation recv_loop := (recv_loop conflicts infer_target infer_auto H decomp).
  Notation recv := (recv conflicts infer_target infer_auto H decomp).
  Notation dispatch := (dispatch conflicts infer_target infer_auto H decomp).
  Notation block_parser := (block_parser conflicts infer_target infer_auto).
  Notation script_okF := (script_okF infer_target infer_auto).
  Notation packet_okF := (packet_okF infer_target infer_auto).
  Notation wire_script := (wire_script H comp).
  Notation wire_packet := (wire_packet H comp).

  Lemma lift_fail {A} (r : res A) st (k : A -> bytes -> step_res) : is_ok r = false ->
    exists e, lift r st k = Done (OErr e) st [] /\ read_failure (OErr e).
  Proof.
    destruct r as [a rest|e|x]; [discriminate| |]; intros _; eexists; (split; [reflexivity|exact I]).
  Qed.

  Lemma mono_temp_table v : mono (temp_table v).
  Proof.
    unfold temp_table. apply mono_if; [|apply mono_ret].
    apply mono_bind; [apply mono_get_str|]. intros [|x s]; [apply mono_ret|apply mono_fail].
  Qed.

  Definition temp_bytes (v : N) : bytes := if gate v FeatureTempTables then put_str [] else [].

  (* what follows the packet code of a block packet - the temporary-table name and the block, plain or as any
     admissible frames - cut anywhere: decodeBlock's reads fail *)
  Lemma payload_cut {A} c cmp (p : parser A) a body pl :
    mono p -> (c_comp c && cmp = true -> stable p /\ 2 * blen body + 4096 <= alloc_cap) ->
    p body = Ok a [] ->
    (if c_comp c && cmp then frames_of H comp body pl else pl = body) ->
    forall m, (m < length (temp_bytes (c_rev c) ++ pl))%nat ->
    is_ok ((temp_table (c_rev c) ;;; via H decomp c cmp p []) (firstn m (temp_bytes (c_rev c) ++ pl))) = false.
  Proof.
    intros Hm Hst Hok Hpl m Hlt.
    destruct (c_comp c && cmp) eqn:E.
    - apply andb_true_iff in E as (Hc & ->). destruct (Hst eq_refl) as (Hs & Hcap).
      destruct (Nat.lt_ge_cases m (length (temp_bytes (c_rev c)))) as [Hin|Hout].
      + (* inside the temporary-table name *)
        unfold temp_bytes in *. unfold temp_table, bind.
        destruct (gate (c_rev c) FeatureTempTables); [|cbn in Hin; lia].
        change (put_str []) with [0] in *. cbn [length] in Hin.
        replace m with 0%nat by lia. reflexivity.
      + rewrite firstn_app_ge by exact Hout. unfold bind. unfold temp_bytes at 1. rewrite temp_table_rt.
        rewrite app_length in Hlt.
        rewrite (via_frames_cut H comp decomp codec c p a body pl Hm Hs Hok Hc Hpl Hcap) by lia.
        reflexivity.
    - subst pl.
      assert (HmQ : mono (temp_table (c_rev c) ;;; via H decomp c cmp p [])).
      { apply mono_bind; [apply mono_temp_table|]. intros _. unfold via. rewrite E. now apply mono_plain. }
      eapply (prefix_rejected_firstn _ _ _ HmQ); [|exact Hlt].
      unfold bind, temp_bytes. rewrite temp_table_rt. unfold via. rewrite E, Hok. reflexivity.
  Qed.

  Lemma mono_decode_pe_block b v : mono (decode_pe_block conflicts infer_target infer_auto b v).
  Proof.
    unfold decode_pe_block.
    apply mono_bind; [apply mono_if; [apply mono_decode_BlockInfo|apply mono_ret]|]. intros i.
    apply mono_bind; [apply mono_get_int|]. intros c0. apply mono_if; [apply mono_fail|].
    apply mono_bind; [apply mono_get_int|]. intros r0.
    apply mono_bind; [apply mono_check_rows|]. intros nrows.
    apply mono_if; [apply mono_ret|]. apply mono_if; [apply mono_fail|].
    apply mono_bind; [apply (ms_dec_targets conflicts infer_target)|]. intros ts.
    apply mono_bind; [|intros; apply mono_ret].
    unfold dec_auto_target.
    apply mono_bind; [apply mono_dec_col_header|]. intros [cname tstr].
    apply mono_if; [apply mono_fail|].
    destruct (infer_auto tstr) as [ty'|]; [|apply mono_fail].
    apply mono_if; [apply mono_fail|].
    apply mono_bind; [apply (mono_coldata b nrows ty')|intros; apply mono_ret].
  Qed.

  Lemma firstn_code z tail j : firstn (S j) (code_byte z ++ tail) = code_byte z ++ firstn j tail.
  Proof. reflexivity. Qed.

  (* one receive-loop iteration on a block packet cut anywhere: a read failure, the state untouched *)
  Lemma block_packet_cut c hs st k info nrows cols bs :
    r_carry st = [] ->
    packet_okF c (r_tg st) (PBlock k info nrows cols) ->
    wire_packet c (PBlock k info nrows cols) bs ->
    forall j, (j < length bs)%nat ->
    exists e, recv_step c hs st (firstn j bs) = Done (OErr e) st [] /\ read_failure (OErr e).
  Proof.
    intros Hcar (Hb & Hn & Hc & (cols' & Hok & Hfit) & Hsz) (body & pl & Hbody & Hpl & ->) j Hj.
    destruct j as [|j].
    { (* not even the packet code *)
      exists (RDecode EEof). split; [reflexivity|exact I]. }
    rewrite firstn_code. destruct (bkind_code_small k) as (Hsmall & Hsc).
    rewrite (recv_step_code conflicts infer_target infer_auto H decomp) by assumption.
    cbn [code_byte app length] in Hj. fold (temp_bytes (c_rev c)) in Hj |- *.
    assert (Hj' : (j < length (temp_bytes (c_rev c) ++ pl))%nat) by lia.
    assert (Hcap : is_comp c k = true -> 2 * blen body + 4096 <= alloc_cap)
      by (intros E; exact (Hsz E body Hbody)).
    unfold is_comp in Hpl, Hcap.
    destruct k.
    - (* Data *)
      change (dispatch c hs (Z.to_N (bkind_code BData) mod 256) st (firstn j (temp_bytes (c_rev c) ++ pl)))
        with (on_data conflicts infer_target infer_auto H decomp c hs (Z.to_N (bkind_code BData)) st
                (firstn j (temp_bytes (c_rev c) ++ pl))).
      unfold on_data. rewrite Hcar. apply lift_fail.
      destruct (block_parser_rt conflicts infer_target infer_auto conflicts_refl c (r_tg st) info nrows cols cols' Hb Hn Hc Hok Hfit)
        as (body0 & Hbody0 & Hdec).
      rewrite Hbody in Hbody0. injection Hbody0 as <-.
      specialize (Hdec []). rewrite app_nil_r in Hdec.
      destruct (ms_block_parser conflicts infer_target infer_auto c (r_tg st)) as (Hm & Hs).
      eapply (payload_cut c _ _ _ body pl Hm); [|exact Hdec|exact Hpl|exact Hj'].
      intros E. split; [exact Hs|exact (Hcap E)].
    - (* Totals *)
      change (dispatch c hs (Z.to_N (bkind_code BTotals) mod 256) st (firstn j (temp_bytes (c_rev c) ++ pl)))
        with (on_data conflicts infer_target infer_auto H decomp c hs (Z.to_N (bkind_code BTotals)) st
                (firstn j (temp_bytes (c_rev c) ++ pl))).
      unfold on_data. rewrite Hcar. apply lift_fail.
      destruct (block_parser_rt conflicts infer_target infer_auto conflicts_refl c (r_tg st) info nrows cols cols' Hb Hn Hc Hok Hfit)
        as (body0 & Hbody0 & Hdec).
      rewrite Hbody in Hbody0. injection Hbody0 as <-.
      specialize (Hdec []). rewrite app_nil_r in Hdec.
      destruct (ms_block_parser conflicts infer_target infer_auto c (r_tg st)) as (Hm & Hs).
      eapply (payload_cut c _ _ _ body pl Hm); [|exact Hdec|exact Hpl|exact Hj'].
      intros E. split; [exact Hs|exact (Hcap E)].
    - (* Log: never compressed *)
      change (dispatch c hs (Z.to_N (bkind_code BLog) mod 256) st (firstn j (temp_bytes (c_rev c) ++ pl)))
        with (on_log_pkt conflicts infer_target infer_auto H decomp c hs (Z.to_N (bkind_code BLog)) st
                (firstn j (temp_bytes (c_rev c) ++ pl))).
      unfold on_log_pkt. rewrite Hcar. apply lift_fail.
      destruct (block_parser_rt conflicts infer_target infer_auto conflicts_refl c (TgTyped log_fixed) info nrows cols cols' Hb Hn Hc Hok Hfit)
        as (body0 & Hbody0 & Hdec).
      rewrite Hbody in Hbody0. injection Hbody0 as <-.
      specialize (Hdec []). rewrite app_nil_r in Hdec.
      assert (Hdec' : decode_log_block conflicts infer_target infer_auto (c_build c) (c_rev c) body =
                      Ok (info_at (c_rev c) info, Z.of_nat (length cols), Z.of_N nrows,
                          if is_end_marker nrows cols then log_fixed else cols') []).
      { apply typed_inv. rewrite Hdec. destruct (is_end_marker nrows cols); reflexivity. }
      eapply (payload_cut c _ _ _ body pl); [apply (ms_decode_block conflicts infer_target infer_auto)| |exact Hdec'|exact Hpl|exact Hj'].
      change (compressible (Z.to_N (bkind_code BLog))) with false. rewrite andb_false_r. discriminate.
    - (* ProfileEvents: never compressed *)
      change (dispatch c hs (Z.to_N (bkind_code BPEvents) mod 256) st (firstn j (temp_bytes (c_rev c) ++ pl)))
        with (on_pevents_pkt conflicts infer_target infer_auto H decomp c hs (Z.to_N (bkind_code BPEvents)) st
                (firstn j (temp_bytes (c_rev c) ++ pl))).
      unfold on_pevents_pkt. rewrite Hcar. apply lift_fail.
      destruct (pe_block_rt conflicts infer_target infer_auto conflicts_refl c info nrows cols cols' Hb Hn Hc Hok Hfit)
        as (body0 & Hbody0 & Hdec).
      rewrite Hbody in Hbody0. injection Hbody0 as <-.
      specialize (Hdec []). rewrite app_nil_r in Hdec.
      eapply (payload_cut c _ _ _ body pl (mono_decode_pe_block _ _)); [|exact Hdec|exact Hpl|exact Hj'].
      change (compressible (Z.to_N (bkind_code BPEvents))) with false. rewrite andb_false_r. discriminate.
  Qed.

  (* the stream: complete packets [ps] without a terminating event, then a block packet cut after j bytes
     (j = 0: the connection ends at the packet boundary).  Do's receiver returns a read failure and the
     callbacks made are exactly those of [ps]: none for the cut packet. *)
  Theorem block_prefix_no_callback_thm c hs tg ps stream k info nrows cols bs :
    script_okF c tg ps -> wire_script c ps stream ->
    expected_outcome c hs tg ps = None ->
    packet_okF c (s_tg (snd (spec_run c hs (sst_init tg) ps))) (PBlock k info nrows cols) ->
    wire_packet c (PBlock k info nrows cols) bs ->
    forall j, (j < length bs)%nat ->
    exists e st r, recv c hs tg (stream ++ firstn j bs) = (OErr e, st, r) /\ read_failure (OErr e) /\
      r_trace st = expected_trace c hs tg ps.
  Proof.
    intros Hok Hw Ho Hp Hwp j Hj. unfold Recv.recv.
    pose proof (wire_script_length conflicts infer_target infer_auto H comp conflicts_refl c ps stream Hw) as Hlen.
    assert (Hf : (length ps < S (length (stream ++ firstn j bs)))%nat) by (rewrite app_length; lia).
    destruct (recv_packet_boundaryF conflicts infer_target infer_auto H comp decomp conflicts_refl codec
                c hs tg ps stream (firstn j bs) _ Hok Hw Ho Hf) as (st & Hcar & Htr & Htg & ->).
    destruct (S (length (stream ++ firstn j bs)) - length ps)%nat as [|fuel] eqn:Ef; [lia|].
    cbn [Recv.recv_loop]. rewrite <- Htg in Hp.
    destruct (block_packet_cut c hs st k info nrows cols bs Hcar Hp Hwp j Hj) as (e & -> & He).
    exists e, st, []. auto.
  Qed.

  (* ---- the same, stated on one script whose last packet is the block ------------------------------------ *)
  Lemma script_okF_app c hs : forall ps ss qs,
    script_okF c (s_tg ss) (ps ++ qs) -> fst (spec_run c hs ss ps) = None ->
    script_okF c (s_tg ss) ps /\ script_okF c (s_tg (snd (spec_run c hs ss ps))) qs.
  Proof.
    induction ps as [|p ps IH]; intros ss qs Hok Hn; cbn [app spec_run snd] in *; [split; [exact I|exact Hok]|].
    destruct Hok as (Hp & Hps).
    destruct (spec_step c hs ss p) as [ss1|o ss1] eqn:Es; [|discriminate].
    rewrite <- (spec_step_tg _ _ _ _ _ Es) in Hps.
    destruct (IH ss1 qs Hps Hn) as (H1 & H2). split; [|exact H2].
    split; [exact Hp|]. now rewrite <- (spec_step_tg _ _ _ _ _ Es).
  Qed.

  Lemma wire_script_app c : forall ps qs s,
    wire_script c (ps ++ qs) s -> exists s1 s2, wire_script c ps s1 /\ wire_script c qs s2 /\ s = s1 ++ s2.
  Proof.
    induction ps as [|p ps IH]; intros qs s Hw; cbn [app RecvProofs2.wire_script] in *.
    - exists [], s. auto.
    - destruct Hw as (a & b & Ha & Hb & ->). destruct (IH qs b Hb) as (s1 & s2 & H1 & H2 & ->).
      exists (a ++ s1), s2. split; [exists a, s1; auto|]. split; [exact H2|now rewrite app_assoc].
  Qed.

  Theorem stream_cut_in_last_block_thm c hs tg ps k info nrows cols full :
    script_okF c tg (ps ++ [PBlock k info nrows cols]) ->
    wire_script c (ps ++ [PBlock k info nrows cols]) full ->
    expected_outcome c hs tg ps = None ->
    exists n0, (n0 < length full)%nat /\ wire_script c ps (firstn n0 full) /\
      forall j, (n0 <= j < length full)%nat ->
        exists e st r, recv c hs tg (firstn j full) = (OErr e, st, r) /\ read_failure (OErr e) /\
          r_trace st = expected_trace c hs tg ps.
  Proof.
    intros Hok Hw Ho. unfold expected_outcome in Ho.
    destruct (script_okF_app c hs ps (sst_init tg) _ Hok Ho) as (Hok1 & (Hp & _)).
    destruct (wire_script_app c ps _ full Hw) as (s1 & s2 & Hw1 & Hw2 & ->).
    cbn [RecvProofs2.wire_script] in Hw2. destruct Hw2 as (a & b & Ha & -> & ->). rewrite app_nil_r.
    pose proof (wire_packet_nonempty conflicts infer_target infer_auto H comp conflicts_refl c _ a Ha) as Hne.
    exists (length s1). rewrite app_length. split; [lia|].
    split; [rewrite firstn_app_lt, firstn_all by lia; exact Hw1|].
    intros j Hj. rewrite firstn_app_ge by lia.
    apply (block_prefix_no_callback_thm c hs tg ps s1 k info nrows cols a); try assumption. lia.
  Qed.
End RecvCut.

(* ---------- Part 2 instantiated: the block decoder under the decompressing reader -------------------- *)
Section CompressedBlock.
  Variable conflicts : bytes -> bytes -> bool.
  Variable infer_target : ty -> bytes -> option ty.
  Variable infer_auto : bytes -> option ty.
  Variable H : bytes -> N * N.
  Variable comp : method -> bytes -> option bytes.
  Variable decomp : N -> bytes -> N -> option bytes.
  Hypothesis conflicts_refl : forall s, conflicts s s = false.
  Hypothesis codec : codec_rt comp decomp.

  (* a block accepted by encode_block, sent as ANY admissible frames, the frame stream cut ANYWHERE: the
     decompressing block decoder returns an error *)
  Theorem compressed_block_cut_thm c auto b b' v ts info nrows cols cols' body payload :
    in_i32 (bi_bucket info) -> nrows <= max_rows -> (Z.of_nat (length cols) <= maxColumnsInBlock)%Z ->
    Forall2 (col_ok nrows) cols cols' ->
    (is_end_marker nrows cols = false -> fits infer_target infer_auto (tg_of auto ts) nrows cols) ->
    encode_block b v info nrows cols = Some body -> 2 * blen body + 4096 <= alloc_cap ->
    c_comp c = true -> frames_of H comp body payload ->
    forall k, (k < length payload)%nat ->
      via H decomp c true (decode_block conflicts infer_target infer_auto auto b' v ts) [] (firstn k payload)
      = Err ECorrupt.
  Proof.
    intros Hb Hn Hc Hok Hfit Henc Hcap Hcomp Hfr k Hk.
    destruct (decode_block_rt conflicts infer_target infer_auto conflicts_refl auto b b' v ts info nrows cols cols'
                Hb Hn Hc Hok Hfit) as (body0 & Hb0 & Hdec).
    rewrite Henc in Hb0. injection Hb0 as <-.
    specialize (Hdec []). rewrite app_nil_r in Hdec.
    destruct (ms_decode_block conflicts infer_target infer_auto auto b' v ts) as (Hm & Hs).
    exact (via_frames_cut H comp decomp codec c _ _ body payload Hm Hs Hdec Hcomp Hfr Hcap k Hk).
  Qed.
End CompressedBlock.
