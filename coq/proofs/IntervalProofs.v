(* Proofs about model/Scalars.v (C20), part 3: Time.Add, time.Date, Time.AddDate and Interval.Add. *)
From CH Require Import model.Scalars gen.Consts proofs.CalendarProofs proofs.ScalarsProofs.
From Coq Require Import Lia ZArith List Bool ZifyBool.
Import ListNotations.
Open Scope Z_scope.
Ltac Zify.zify_post_hook ::= Z.to_euclidean_division_equations.

Definition two31z : Z := 2147483648.
Definition two44 : Z := 17592186044416.
Definition two61 : Z := 2305843009213693952.

(* instants and zones for which none of Go's int64 computations inside the time package can wrap:
   about +-557 000 years around 1970, zone offsets below 12 days *)
Definition sane (t : gotime) : Prop :=
  - two44 <= local_sec t < two44 /\ - 1048576 <= zoff t <= 1048576.

(* ---- Time.Add --------------------------------------------------------------- *)
Lemma t_Add_spec t d :
  wf_time t -> - two61 <= unix t <= two61 -> in_i64z d ->
  wf_time (t_Add t d) /\ total_ns (t_Add t d) = total_ns t + d /\ zoff (t_Add t d) = zoff t.
Proof.
  intros Hw Hu Hd. unfold t_Add, wf_time, total_ns, in_i64z, two61, two63 in *. cbv zeta.
  set (dsec := d ÷ ns_per_s). set (r := Z.rem d ns_per_s).
  assert (Hq : d = ns_per_s * dsec + r /\ - ns_per_s < r < ns_per_s /\ -9223372037 <= dsec <= 9223372037)
    by (subst dsec r; unfold ns_per_s; lia).
  clearbody dsec r. destruct Hq as (Hq & Hr & Hds).
  assert (SAT : forall ds, -9223372038 <= ds <= 9223372038 ->
    i64 ((if Bool.eqb (unix t - zero_unix <? i64 (unix t - zero_unix + ds)) (0 <? ds)
          then i64 (unix t - zero_unix + ds) else if 0 <? ds then maxi64 else - maxi64) + zero_unix) = unix t + ds).
  { intros ds Hs. rewrite (i64_id (unix t - zero_unix + ds)) by (unfold in_i64z, zero_unix, two63; lia).
    replace (Bool.eqb (unix t - zero_unix <? unix t - zero_unix + ds) (0 <? ds)) with true
      by (destruct (_ <? _ + ds) eqn:A; destruct (0 <? ds) eqn:B; cbn; lia).
    rewrite i64_id by (unfold in_i64z, zero_unix, two63; lia). lia. }
  destruct (ns_per_s <=? nsec t + r) eqn:E1; [|destruct (nsec t + r <? 0) eqn:E2];
    cbn [unix nsec zoff]; rewrite SAT by lia; unfold ns_per_s in *; lia.
Qed.

(* ---- norm / time.Date ---------------------------------------------------------- *)
Lemma norm_id hi lo base : 0 <= lo < base -> norm hi lo base = (hi, lo).
Proof.
  intros H. unfold norm. replace (lo <? 0) with false by lia. replace (base <=? lo) with false by lia. reflexivity.
Qed.

Lemma norm_12 hi lo : norm hi lo 12 = (hi + lo / 12, lo mod 12).
Proof.
  unfold norm. destruct (lo <? 0) eqn:E1.
  - destruct (12 <=? lo + ((- lo - 1) ÷ 12 + 1) * 12) eqn:E2; f_equal; lia.
  - destruct (12 <=? lo) eqn:E2; f_equal; lia.
Qed.

Lemma go_Date_clock y mo d h mi s ns off :
  0 <= h < 24 -> 0 <= mi < 60 -> 0 <= s < 60 -> 0 <= ns < ns_per_s ->
  go_Date y mo d h mi s ns off =
  mkT (i64 ((days_from_civil (y + (mo - 1) / 12) ((mo - 1) mod 12 + 1) 1 + (d - 1)) * 86400
            + (h * 3600 + mi * 60 + s) - off)) ns off.
Proof.
  intros Hh Hmi Hs Hns. unfold go_Date. rewrite norm_12.
  rewrite (norm_id s ns) by exact Hns. rewrite (norm_id mi s) by exact Hs.
  rewrite (norm_id h mi) by exact Hmi. rewrite (norm_id d h) by exact Hh. reflexivity.
Qed.

Lemma clock_spec t :
  let '(h, mi, s) := t_Clock t in
  0 <= h < 24 /\ 0 <= mi < 60 /\ 0 <= s < 60 /\ h * 3600 + mi * 60 + s = local_sec t mod 86400.
Proof. unfold t_Clock. cbv zeta. lia. Qed.

Lemma dfc_day y m d : days_from_civil y m d = days_from_civil y m 1 + (d - 1).
Proof. rewrite !dfc_unfold. cbv zeta. unfold doe_of. lia. Qed.

(* first day of a month: within its era *)
Lemma dfc1_bounds y m : 1 <= m <= 12 ->
  ((y - 1) / 400) * 146097 - 719468 <= days_from_civil y m 1 < (y / 400 + 1) * 146097 - 719468.
Proof.
  intros Hm. rewrite dfc_unfold. cbv zeta.
  set (y' := if m <=? 2 then y - 1 else y). set (mp := if 2 <? m then m - 3 else m + 9).
  set (era := y' / 400). set (yoe := y' - era * 400).
  assert (Hy : 0 <= yoe < 400) by (subst yoe era; lia).
  assert (Hmp : 0 <= mp < 12) by (subst mp; destruct (2 <? m) eqn:E; lia).
  assert (H1 : 1 <= 1 <= mdays yoe mp).
  { unfold mdays. repeat (destruct (_ =? _); cbn [orb]); try destruct (is_leap _); lia. }
  destruct (doe_of_spec yoe mp 1 Hy Hmp H1) as [Hr _].
  assert (He : (y - 1) / 400 <= era <= y / 400) by (subst era y'; destruct (m <=? 2); lia).
  lia.
Qed.

Lemma cfd_bounds z :
  let '(y, m, d) := civil_from_days z in
  1 <= m <= 12 /\ 1 <= d <= 31 /\
  ((z + 719468) / 146097) * 400 <= y <= ((z + 719468) / 146097) * 400 + 400.
Proof.
  rewrite cfd_unfold. cbv zeta. set (era := (z + 719468) / 146097).
  assert (Hdoe : 0 <= z + 719468 - era * 146097 < 146097) by (subst era; lia).
  destruct (split_doe_spec _ Hdoe) as (yoe & mp & d & E & Hy & Hm & Hd & _). rewrite E.
  pose proof (mdays_le31 yoe mp). destruct (mp <? 10) eqn:E10.
  - replace (mp + 3 <=? 2) with false by lia. lia.
  - replace (mp - 9 <=? 2) with true by lia. lia.
Qed.

(* Time.AddDate in a fixed zone, all of Go's int arithmetic shown not to wrap *)
Lemma t_AddDate_spec t ys ms ds :
  wf_time t -> sane t ->
  - two31z <= ys <= two31z -> - two31z <= ms <= two31z -> - two31z <= ds <= two31z ->
  let '(y, m, d) := t_Date t in
  let y2 := y + ys + (m + ms - 1) / 12 in
  let m2 := (m + ms - 1) mod 12 + 1 in
  t_AddDate t ys ms ds =
  mkT ((days_from_civil y2 m2 1 + (d + ds - 1)) * 86400 + local_sec t mod 86400 - zoff t) (nsec t) (zoff t).
Proof.
  intros Hw [Hs Ho] Hys Hms Hds. unfold t_AddDate.
  pose proof (cfd_bounds (local_day t)) as B. pose proof (clock_spec t) as C.
  unfold t_Date. destruct (civil_from_days (local_day t)) as [[y m] d].
  destruct (t_Clock t) as [[h mi] s]. destruct B as (Bm & Bd & By). destruct C as (Ch & Cmi & Cs & Csum).
  cbv zeta.
  unfold two44, two31z, local_day in *.
  assert (Yb : -600000 <= y <= 600000) by lia.
  rewrite (i64_id (y + ys)) by (unfold in_i64z, two63; lia).
  rewrite (i64_id (m + ms)) by (unfold in_i64z, two63; lia).
  rewrite (i64_id (d + ds)) by (unfold in_i64z, two63; lia).
  rewrite go_Date_clock by (assumption || exact Hw).
  rewrite Csum.
  assert (M2 : 1 <= (m + ms - 1) mod 12 + 1 <= 12) by lia.
  pose proof (dfc1_bounds (y + ys + (m + ms - 1) / 12) _ M2) as D.
  rewrite i64_id; [reflexivity|]. unfold in_i64z, two63. lia.
Qed.

(* the units re-read from the source are pairwise distinct: the dispatch of Interval.Add is a function of the unit *)
Lemma interval_units_nodup : NoDup interval_scales.
Proof.
  unfold interval_scales.
  repeat (constructor; [cbn; intros H; repeat (destruct H as [H|H]; [discriminate H|]); exact H|]).
  constructor.
Qed.

(* ---- Interval.Add --------------------------------------------------------------- *)
Theorem interval_add_clock_units : forall scale unit_ns v t,
  In (scale, unit_ns) [(IntervalSecond, dur_Second); (IntervalMinute, dur_Minute); (IntervalHour, dur_Hour)] ->
  wf_time t -> - two61 <= unix t <= two61 -> in_i64z (unit_ns * v) ->
  exists t', interval_Add scale v t = Some t' /\
             wf_time t' /\ total_ns t' = total_ns t + v * unit_ns /\ zoff t' = zoff t.
Proof.
  intros scale u v t Hin Hw Hu Hv.
  assert (E : interval_Add scale v t = Some (t_Add t (i64 (u * v)))).
  { destruct Hin as [H|[H|[H|[]]]]; inversion H; subst; reflexivity. }
  rewrite E. eexists. split; [reflexivity|]. rewrite (i64_id _ Hv).
  destruct (t_Add_spec t (u * v) Hw Hu Hv) as (A & B & C). repeat split; try apply A; try assumption. lia.
Qed.

Theorem interval_add_days : forall v t,
  wf_time t -> sane t -> - two31z <= v <= two31z ->
  interval_Add IntervalDay v t = Some (mkT (unix t + v * 86400) (nsec t) (zoff t)).
Proof.
  intros v t Hw Hs Hv.
  change (interval_Add IntervalDay v t) with (Some (t_AddDate t 0 0 v)). f_equal.
  pose proof (t_AddDate_spec t 0 0 v Hw Hs ltac:(unfold two31z; lia) ltac:(unfold two31z; lia) Hv) as A.
  pose proof (days_from_civil_of_days (local_day t)) as R.
  pose proof (cfd_bounds (local_day t)) as B.
  unfold t_Date in A. destruct (civil_from_days (local_day t)) as [[y m] d]. cbv zeta in A.
  destruct R as [R _]. destruct B as (Bm & _). rewrite A.
  replace (y + 0 + (m + 0 - 1) / 12) with y by lia. replace ((m + 0 - 1) mod 12 + 1) with m by lia.
  rewrite (dfc_day y m d) in R. unfold local_day, local_sec in *. f_equal. lia.
Qed.

Theorem interval_add_weeks : forall v t,
  wf_time t -> sane t -> - 268435456 <= v <= 268435456 ->
  interval_Add IntervalWeek v t = Some (mkT (unix t + v * 7 * 86400) (nsec t) (zoff t)).
Proof.
  intros v t Hw Hs Hv.
  change (interval_Add IntervalWeek v t) with (Some (t_AddDate t 0 0 (i64 (v * 7)))).
  rewrite i64_id by (unfold in_i64z, two63; lia).
  change (Some (t_AddDate t 0 0 (v * 7))) with (interval_Add IntervalDay (v * 7) t).
  apply interval_add_days; try assumption. unfold two31z. lia.
Qed.

(* months: the time of day and the day of the month are kept; the month count is carried into the year;
   a day that the target month does not have overflows into the next month (Go's Date normalisation) *)
Theorem interval_add_months : forall v t,
  wf_time t -> sane t -> - two31z <= v <= two31z ->
  let '(y, m, d) := t_Date t in
  let y2 := y + (m - 1 + v) / 12 in
  let m2 := (m - 1 + v) mod 12 + 1 in
  exists t', interval_Add IntervalMonth v t = Some t' /\
    nsec t' = nsec t /\ zoff t' = zoff t /\ t_Clock t' = t_Clock t /\
    local_day t' = days_from_civil y2 m2 1 + (d - 1) /\
    (d <= days_in_month y2 m2 -> t_Date t' = (y2, m2, d)).
Proof.
  intros v t Hw Hs Hv.
  pose proof (t_AddDate_spec t 0 v 0 Hw Hs ltac:(unfold two31z; lia) Hv ltac:(unfold two31z; lia)) as A.
  pose proof (days_from_civil_of_days (local_day t)) as R.
  unfold t_Date in *. destruct (civil_from_days (local_day t)) as [[y m] d]. cbv zeta in *.
  destruct R as [R [Vm Vd]].
  change (interval_Add IntervalMonth v t) with (Some (t_AddDate t 0 v 0)). rewrite A.
  replace (y + 0 + (m + v - 1) / 12) with (y + (m - 1 + v) / 12) by (f_equal; f_equal; lia).
  replace ((m + v - 1) mod 12 + 1) with ((m - 1 + v) mod 12 + 1) by (f_equal; f_equal; lia).
  set (y2 := y + (m - 1 + v) / 12). set (m2 := (m - 1 + v) mod 12 + 1).
  set (D := days_from_civil y2 m2 1). eexists. split; [reflexivity|].
  assert (LS : local_sec (mkT ((D + (d + 0 - 1)) * 86400 + local_sec t mod 86400 - zoff t) (nsec t) (zoff t))
               = (D + (d - 1)) * 86400 + local_sec t mod 86400).
  { unfold local_sec. cbn [unix zoff]. lia. }
  assert (LD : local_day (mkT ((D + (d + 0 - 1)) * 86400 + local_sec t mod 86400 - zoff t) (nsec t) (zoff t))
               = D + (d - 1)).
  { unfold local_day. rewrite LS. lia. }
  split; [reflexivity|]. split; [reflexivity|]. split; [|split].
  - unfold t_Clock. rewrite LS. replace (((D + (d - 1)) * 86400 + local_sec t mod 86400) mod 86400)
      with (local_sec t mod 86400) by lia. reflexivity.
  - exact LD.
  - intros Hd. rewrite LD. subst D. rewrite <- dfc_day. apply civil_of_days_from_civil.
    split; [subst m2; lia|lia].
Qed.

(* a quarter as the code has it: FOUR months (known finding) *)
Theorem interval_add_quarters_impl : forall v t,
  - 536870912 <= v <= 536870912 ->
  interval_Add IntervalQuarter v t = interval_Add IntervalMonth (4 * v) t.
Proof.
  intros v t Hv.
  change (interval_Add IntervalQuarter v t) with (Some (t_AddDate t 0 (i64 (v * 4)) 0)).
  rewrite i64_id by (unfold in_i64z, two63; lia). replace (v * 4) with (4 * v) by lia. reflexivity.
Qed.

(* the intended statement "a quarter is three months" is false of the code: 2020-01-15 10:00 UTC plus one
   quarter is 2020-05-15 10:00, not 2020-04-15 10:00 *)
Theorem interval_add_quarters_refuted :
  exists v t, wf_time t /\ sane t /\ - 715827882 <= v <= 715827882 /\
    interval_Add IntervalQuarter v t = Some (mkT 1589536800 0 0) /\
    interval_Add IntervalMonth (3 * v) t = Some (mkT 1586944800 0 0) /\
    t_Date t = (2020, 1, 15) /\ t_Date (mkT 1589536800 0 0) = (2020, 5, 15) /\
    t_Date (mkT 1586944800 0 0) = (2020, 4, 15) /\
    interval_Add IntervalQuarter v t <> interval_Add IntervalMonth (3 * v) t.
Proof.
  exists 1, (mkT 1579082400 0 0).
  split; [unfold wf_time, ns_per_s; cbn [nsec]; lia|].
  split; [unfold sane, local_sec, two44; cbn [unix zoff]; lia|].
  split; [lia|].
  repeat (split; [vm_compute; reflexivity|]).
  vm_compute. intros H. discriminate H.
Qed.

Theorem interval_add_years : forall v t,
  wf_time t -> sane t -> - 178956970 <= v <= 178956970 ->
  interval_Add IntervalYear v t = interval_Add IntervalMonth (12 * v) t.
Proof.
  intros v t Hw Hs Hv.
  change (interval_Add IntervalYear v t) with (Some (t_AddDate t v 0 0)).
  change (interval_Add IntervalMonth (12 * v) t) with (Some (t_AddDate t 0 (12 * v) 0)). f_equal.
  pose proof (t_AddDate_spec t v 0 0 Hw Hs ltac:(unfold two31z; lia) ltac:(unfold two31z; lia) ltac:(unfold two31z; lia)) as A.
  pose proof (t_AddDate_spec t 0 (12 * v) 0 Hw Hs ltac:(unfold two31z; lia) ltac:(unfold two31z; lia) ltac:(unfold two31z; lia)) as B.
  pose proof (cfd_bounds (local_day t)) as C.
  unfold t_Date in *. destruct (civil_from_days (local_day t)) as [[y m] d]. cbv zeta in *.
  rewrite A, B. destruct C as (Cm & _).
  replace (y + v + (m + 0 - 1) / 12) with (y + 0 + (m + 12 * v - 1) / 12) by lia.
  replace ((m + 0 - 1) mod 12) with ((m + 12 * v - 1) mod 12) by lia. reflexivity.
Qed.
