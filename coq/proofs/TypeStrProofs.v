(* C19: type strings.  No slice in Base/Elem/Conflicts/Infer goes out of bounds; Conflicts terminates, is
   reflexive and symmetric and honours the documented equivalences; ColAuto.Infer is sound. *)
From CH Require Import model.TypeStr.
From CH Require Import gen.InferTable gen.Methods gen.TypeNames.
From Coq Require Import ZifyN ZifyNat ZifyBool.
Ltac Zify.zify_post_hook ::= Z.div_mod_to_equations.
Open Scope N_scope.
Open Scope list_scope.

(* ---------- byte strings -------------------------------------------------- *)
Lemma bytes_eqb_refl a : bytes_eqb a a = true.
Proof. induction a as [|x a IH]; cbn [bytes_eqb]; [reflexivity|]. now rewrite N.eqb_refl, IH. Qed.

Lemma bytes_eqb_eq a b : bytes_eqb a b = true <-> a = b.
Proof.
  split; [|intros ->; apply bytes_eqb_refl].
  revert b; induction a as [|x a IH]; intros [|y b]; cbn [bytes_eqb]; try discriminate; [reflexivity|].
  intros H. apply andb_prop in H as [H1 H2]. apply N.eqb_eq in H1. apply IH in H2. now subst.
Qed.

Lemma bytes_eqb_neq a b : bytes_eqb a b = false <-> a <> b.
Proof.
  split.
  - intros H E. apply bytes_eqb_eq in E. congruence.
  - intros H. destruct (bytes_eqb a b) eqn:E; [|reflexivity]. apply bytes_eqb_eq in E. contradiction.
Qed.

Lemma bytes_eqb_sym a b : bytes_eqb a b = bytes_eqb b a.
Proof.
  destruct (bytes_eqb a b) eqn:E.
  - apply bytes_eqb_eq in E. subst. symmetry. apply bytes_eqb_refl.
  - symmetry. apply bytes_eqb_neq. apply bytes_eqb_neq in E. congruence.
Qed.

(* ---------- IndexByte / LastIndexByte -------------------------------------- *)
Lemma index_byte_nth c s i : index_byte c s = Some i -> nth_error s i = Some c.
Proof.
  revert i; induction s as [|x s IH]; intros i; cbn [index_byte]; [discriminate|].
  destruct (x =? c) eqn:E.
  - intros [= <-]. apply N.eqb_eq in E. now subst.
  - destruct (index_byte c s) as [j|]; cbn [option_map]; [|discriminate].
    intros [= <-]. cbn [nth_error]. now apply IH.
Qed.

Lemma last_index_byte_nth c s i : last_index_byte c s = Some i -> nth_error s i = Some c.
Proof.
  revert i; induction s as [|x s IH]; intros i; cbn [last_index_byte]; [discriminate|].
  destruct (last_index_byte c s) as [j|].
  - intros [= <-]. cbn [nth_error]. now apply IH.
  - destruct (x =? c) eqn:E; [|discriminate]. intros [= <-]. apply N.eqb_eq in E. now subst.
Qed.

Lemma nth_error_lt {A} (s : list A) i x : nth_error s i = Some x -> (i < length s)%nat.
Proof. intros H. apply nth_error_Some. congruence. Qed.

Lemma index_byte_app_notin c a b : index_byte c a = None -> index_byte c (a ++ c :: b) = Some (length a).
Proof.
  induction a as [|x a IH]; cbn [index_byte app length].
  - now rewrite N.eqb_refl.
  - destruct (x =? c); [discriminate|].
    destruct (index_byte c a); cbn [option_map]; [discriminate|]. intros _. now rewrite IH.
Qed.

Lemma last_index_byte_snoc c a : last_index_byte c (a ++ [c]) = Some (length a).
Proof.
  induction a as [|x a IH]; cbn [last_index_byte app length].
  - now rewrite N.eqb_refl.
  - now rewrite IH.
Qed.

(* ---------- Base / Elem never slice out of bounds -------------------------- *)
Definition base (c : bytes) : bytes :=
  match parens c with
  | Some (st, _) => firstn (Z.to_nat st) c
  | None => c
  end.
Definition elem (c : bytes) : bytes :=
  match parens c with
  | Some (st, en) => firstn (Z.to_nat en - Z.to_nat (st + 1)) (skipn (Z.to_nat (st + 1)) c)
  | None => []
  end.

Lemma parens_bounds c st en : parens c = Some (st, en) -> (0 < st /\ st < en /\ en < Z.of_nat (length c))%Z.
Proof.
  unfold parens.
  destruct (index_byte 40 c) as [i|] eqn:Ei; destruct (last_index_byte 41 c) as [j|] eqn:Ej; cbn [zidx];
    try (intros H; exfalso; revert H; match goal with |- context [if ?b then _ else _] => destruct b eqn:Eb end; [discriminate|lia]).
  destruct ((Z.of_nat i <=? 0)%Z || (Z.of_nat j <=? 0)%Z || (Z.of_nat j <? Z.of_nat i)%Z) eqn:Eb; [discriminate|].
  intros [= <- <-].
  pose proof (index_byte_nth _ _ _ Ei) as Hi. pose proof (last_index_byte_nth _ _ _ Ej) as Hj.
  pose proof (nth_error_lt _ _ _ Hj) as Lj.
  assert (i <> j) by (intros ->; rewrite Hi in Hj; discriminate).
  lia.
Qed.

Lemma parens_nil : parens [] = None.
Proof. reflexivity. Qed.

Lemma base_r_ok c : base_r c = rok (base c).
Proof.
  unfold base_r, base. destruct c as [|x c]; [reflexivity|].
  destruct (parens (x :: c)) as [[st en]|] eqn:E; [|reflexivity].
  apply parens_bounds in E. unfold go_slice.
  replace ((0 <=? 0)%Z && (0 <=? st)%Z && (st <=? Z.of_nat (length (x :: c)))%Z) with true by lia.
  cbn [skipn Z.to_nat]. now rewrite Nat.sub_0_r.
Qed.

Lemma elem_r_ok c : elem_r c = rok (elem c).
Proof.
  unfold elem_r, elem. destruct c as [|x c]; [reflexivity|].
  destruct (parens (x :: c)) as [[st en]|] eqn:E; [|reflexivity].
  apply parens_bounds in E. unfold go_slice.
  replace ((0 <=? st + 1)%Z && (st + 1 <=? en)%Z && (en <=? Z.of_nat (length (x :: c)))%Z) with true by lia.
  reflexivity.
Qed.

Lemma elem_shorter c : c <> [] -> (length (elem c) < length c)%nat.
Proof.
  intros Hc. unfold elem. destruct (parens c) as [[st en]|] eqn:E.
  - apply parens_bounds in E. rewrite firstn_length. lia.
  - destruct c; [contradiction|]. cbn [length]. lia.
Qed.

Lemma base_nil : base [] = [].
Proof. reflexivity. Qed.

(* T(x) = T ++ "(" ++ x ++ ")" for a T without parentheses *)
Lemma parens_wrap B x : index_byte 40 B = None -> B <> [] ->
  parens (B ++ 40 :: x ++ [41]) = Some (Z.of_nat (length B), Z.of_nat (length B + 1 + length x)).
Proof.
  intros HB Hne. unfold parens.
  rewrite (index_byte_app_notin 40 B (x ++ [41]) HB).
  replace (B ++ 40 :: x ++ [41]) with ((B ++ 40 :: x) ++ [41]) by (now rewrite <- app_assoc).
  rewrite last_index_byte_snoc. cbn [zidx]. rewrite app_length. cbn [length].
  destruct B; [contradiction|]. cbn [length].
  match goal with |- (if ?b then _ else _) = _ => replace b with false by lia end.
  f_equal. f_equal. lia.
Qed.

Lemma base_wrap B x : index_byte 40 B = None -> B <> [] -> base (B ++ 40 :: x ++ [41]) = B.
Proof.
  intros HB Hne. unfold base. rewrite (parens_wrap B x HB Hne). rewrite Nat2Z.id.
  rewrite firstn_app, Nat.sub_diag, firstn_all. cbn [firstn]. now rewrite app_nil_r.
Qed.

Lemma elem_wrap B x : index_byte 40 B = None -> B <> [] -> elem (B ++ 40 :: x ++ [41]) = x.
Proof.
  intros HB Hne. unfold elem. rewrite (parens_wrap B x HB Hne).
  replace (Z.to_nat (Z.of_nat (length B) + 1)) with (length B + 1)%nat by lia.
  rewrite Nat2Z.id.
  replace (B ++ 40 :: x ++ [41]) with ((B ++ [40]) ++ x ++ [41]) by (now rewrite <- app_assoc).
  rewrite skipn_app. replace (length (B ++ [40])) with (length B + 1)%nat by (rewrite app_length; reflexivity).
  rewrite Nat.sub_diag. rewrite skipn_all2 by (rewrite app_length; cbn [length]; lia).
  cbn [skipn app].
  replace (length B + 1 + length x - (length B + 1))%nat with (length x) by lia.
  rewrite firstn_app, Nat.sub_diag, firstn_all. cbn [firstn]. now rewrite app_nil_r.
Qed.

(* ---------- Conflicts ------------------------------------------------------- *)
Definition decimal_downcast (c : bytes) : bytes :=
  if is_decimal_n (base c) then base c
  else if negb (bytes_eqb (base c) T_Decimal) then c
  else match decimal_prec (elem c) with
       | None => c
       | Some prec =>
         if (prec <? 10)%Z then T_Decimal32
         else if (prec <? 19)%Z then T_Decimal64
         else if (prec <? 39)%Z then T_Decimal128
         else if (prec <? 77)%Z then T_Decimal256
         else c
       end.

Lemma decimal_downcast_r_ok c : decimal_downcast_r c = rok (decimal_downcast c).
Proof.
  unfold decimal_downcast_r, decimal_downcast. rewrite base_r_ok. cbn [rbind rok].
  destruct (is_decimal_n (base c)); [reflexivity|].
  destruct (negb (bytes_eqb (base c) T_Decimal)); [reflexivity|].
  rewrite elem_r_ok. cbn [rbind rok].
  destruct (decimal_prec (elem c)) as [p|]; [|reflexivity].
  repeat match goal with |- context [if ?b then _ else _] => destruct b; try reflexivity end.
Qed.

Definition enum_int_clause (cB bB c b : bytes) : bool :=
  (bytes_eqb cB T_Enum8 && bytes_eqb b T_Int8) || (bytes_eqb cB T_Enum16 && bytes_eqb b T_Int16)
  || (bytes_eqb bB T_Enum8 && bytes_eqb c T_Int8) || (bytes_eqb bB T_Enum16 && bytes_eqb c T_Int16).
Definition dec_clause (cB bB : bytes) : bool :=
  bytes_eqb cB T_Decimal || bytes_eqb bB T_Decimal || is_decimal_n cB || is_decimal_n bB.
Definition is_enum (cB : bytes) : bool := bytes_eqb cB T_Enum8 || bytes_eqb cB T_Enum16.
Definition is_wrapper (cB : bytes) : bool :=
  bytes_eqb cB T_Array || bytes_eqb cB T_Nullable || bytes_eqb cB T_LowCardinality.
Definition is_dt (cB : bytes) : bool := bytes_eqb cB T_DateTime || bytes_eqb cB T_DateTime64.

(* conf_step with the slices resolved *)
Definition conf_body (rec : bytes -> bytes -> res bool) (c b : bytes) : res bool :=
  if bytes_eqb c b then rok false else
  if enum_int_clause (base c) (base b) c b then rok false else
  if dec_clause (base c) (base b) then rok (negb (bytes_eqb (decimal_downcast c) (decimal_downcast b))) else
  if negb (bytes_eqb (base c) (base b)) then rok true else
  if is_enum (base c) then rok false else
  if bytes_eqb (normalize_commas c) (normalize_commas b) then rok false else
  if is_wrapper (base c) then rec (elem c) (elem b)
  else if is_dt (base c) then rok false else rok true.

Lemma conf_step_body rec c b : conf_step rec c b = conf_body rec c b.
Proof.
  unfold conf_step, conf_body. destruct (bytes_eqb c b); [reflexivity|].
  rewrite !base_r_ok. cbn [rbind rok].
  fold (enum_int_clause (base c) (base b) c b). destruct (enum_int_clause (base c) (base b) c b); [reflexivity|].
  fold (dec_clause (base c) (base b)). destruct (dec_clause (base c) (base b)).
  { rewrite !decimal_downcast_r_ok. reflexivity. }
  destruct (negb (bytes_eqb (base c) (base b))); [reflexivity|].
  fold (is_enum (base c)). destruct (is_enum (base c)); [reflexivity|].
  destruct (bytes_eqb (normalize_commas c) (normalize_commas b)); [reflexivity|].
  fold (is_wrapper (base c)). destruct (is_wrapper (base c)).
  { rewrite !elem_r_ok. reflexivity. }
  reflexivity.
Qed.

Lemma is_wrapper_nonempty cB : is_wrapper cB = true -> cB <> [].
Proof. intros H ->. vm_compute in H. discriminate. Qed.

Lemma base_nonempty c : base c <> [] -> c <> [].
Proof. intros H ->. now apply H. Qed.

Lemma conf_body_ext rec1 rec2 c b :
  (is_wrapper (base c) = true -> base b = base c -> rec1 (elem c) (elem b) = rec2 (elem c) (elem b)) ->
  conf_body rec1 c b = conf_body rec2 c b.
Proof.
  intros H. unfold conf_body.
  destruct (bytes_eqb c b); [reflexivity|].
  destruct (enum_int_clause _ _ _ _); [reflexivity|].
  destruct (dec_clause _ _); [reflexivity|].
  destruct (bytes_eqb (base c) (base b)) eqn:Eb; cbn [negb]; [|reflexivity].
  destruct (is_enum _); [reflexivity|].
  destruct (bytes_eqb (normalize_commas c) _); [reflexivity|].
  destruct (is_wrapper (base c)) eqn:Ew; [|reflexivity].
  apply bytes_eqb_eq in Eb. now apply H.
Qed.

(* the fuel is enough as soon as it exceeds the length of either argument, and then it does not matter *)
Lemma conflicts_f_fuel n : forall m c b,
  (length c < n \/ length b < n)%nat -> (length c < m \/ length b < m)%nat ->
  conflicts_f n c b = conflicts_f m c b.
Proof.
  induction n as [|n IH]; intros m c b Hn Hm; [lia|].
  destruct m as [|m]; [lia|].
  cbn [conflicts_f]. rewrite !conf_step_body. apply conf_body_ext.
  intros Hw Hb.
  assert (Hc : c <> []) by (apply base_nonempty, is_wrapper_nonempty, Hw).
  assert (Hb' : b <> []) by (apply base_nonempty; rewrite Hb; apply is_wrapper_nonempty, Hw).
  pose proof (elem_shorter c Hc). pose proof (elem_shorter b Hb').
  apply IH; lia.
Qed.

Lemma conflicts_f_total n : forall c b, (length c < n \/ length b < n)%nat -> exists r, conflicts_f n c b = rok r.
Proof.
  induction n as [|n IH]; intros c b Hn; [lia|].
  cbn [conflicts_f]. rewrite conf_step_body. unfold conf_body.
  destruct (bytes_eqb c b); [now eexists|].
  destruct (enum_int_clause _ _ _ _); [now eexists|].
  destruct (dec_clause _ _); [now eexists|].
  destruct (bytes_eqb (base c) (base b)) eqn:Eb; cbn [negb]; [|now eexists].
  destruct (is_enum _); [now eexists|].
  destruct (bytes_eqb (normalize_commas c) _); [now eexists|].
  destruct (is_wrapper (base c)) eqn:Ew.
  - apply bytes_eqb_eq in Eb.
    assert (Hc : c <> []) by (apply base_nonempty, is_wrapper_nonempty, Ew).
    assert (Hb' : b <> []) by (apply base_nonempty; rewrite <- Eb; apply is_wrapper_nonempty, Ew).
    pose proof (elem_shorter c Hc). pose proof (elem_shorter b Hb').
    apply IH; lia.
  - destruct (is_dt _); now eexists.
Qed.

(* Conflicts as a total boolean function *)
Definition conflicts (c b : bytes) : bool :=
  match conflicts_r c b with Ok r _ => r | _ => true end.

Lemma conflicts_r_ok c b : conflicts_r c b = rok (conflicts c b).
Proof.
  unfold conflicts. destruct (conflicts_f_total (S (length c)) c b) as [r Hr]; [lia|].
  unfold conflicts_r. now rewrite Hr.
Qed.

(* the recursive equation of Conflicts *)
Lemma conflicts_r_unfold c b : conflicts_r c b = conf_body conflicts_r c b.
Proof.
  unfold conflicts_r at 1. cbn [conflicts_f]. rewrite conf_step_body. apply conf_body_ext.
  intros Hw Hb. unfold conflicts_r.
  assert (Hc : c <> []) by (apply base_nonempty, is_wrapper_nonempty, Hw).
  pose proof (elem_shorter c Hc).
  apply conflicts_f_fuel; lia.
Qed.

Lemma enum_int_clause_sym cB bB c b : enum_int_clause cB bB c b = enum_int_clause bB cB b c.
Proof.
  unfold enum_int_clause.
  destruct (bytes_eqb cB T_Enum8 && bytes_eqb b T_Int8), (bytes_eqb cB T_Enum16 && bytes_eqb b T_Int16),
    (bytes_eqb bB T_Enum8 && bytes_eqb c T_Int8), (bytes_eqb bB T_Enum16 && bytes_eqb c T_Int16); reflexivity.
Qed.
Lemma dec_clause_sym cB bB : dec_clause cB bB = dec_clause bB cB.
Proof.
  unfold dec_clause.
  destruct (bytes_eqb cB T_Decimal), (bytes_eqb bB T_Decimal), (is_decimal_n cB), (is_decimal_n bB); reflexivity.
Qed.

Lemma conf_body_sym rec c b : (forall x y, rec x y = rec y x) -> conf_body rec c b = conf_body rec b c.
Proof.
  intros Hrec. unfold conf_body.
  rewrite (bytes_eqb_sym b c). destruct (bytes_eqb c b); [reflexivity|].
  rewrite (enum_int_clause_sym (base b) (base c) b c). destruct (enum_int_clause _ _ _ _); [reflexivity|].
  rewrite (dec_clause_sym (base b) (base c)). destruct (dec_clause _ _).
  { now rewrite (bytes_eqb_sym (decimal_downcast b)). }
  rewrite (bytes_eqb_sym (base b) (base c)).
  destruct (bytes_eqb (base c) (base b)) eqn:Eb; cbn [negb]; [|reflexivity].
  apply bytes_eqb_eq in Eb. rewrite <- Eb.
  destruct (is_enum _); [reflexivity|].
  rewrite (bytes_eqb_sym (normalize_commas b)). destruct (bytes_eqb (normalize_commas c) _); [reflexivity|].
  destruct (is_wrapper _); [apply Hrec|reflexivity].
Qed.

Lemma conflicts_f_sym n : forall c b, conflicts_f n c b = conflicts_f n b c.
Proof.
  induction n as [|n IH]; intros c b; [reflexivity|].
  cbn [conflicts_f]. rewrite !conf_step_body. now apply conf_body_sym.
Qed.

Theorem conflicts_r_sym c b : conflicts_r c b = conflicts_r b c.
Proof.
  unfold conflicts_r. rewrite (conflicts_f_sym (S (length b)) b c).
  apply conflicts_f_fuel; lia.
Qed.

Theorem conflicts_r_refl c : conflicts_r c c = rok false.
Proof. rewrite conflicts_r_unfold. unfold conf_body. now rewrite bytes_eqb_refl. Qed.

Theorem conflicts_r_no_panic c b : exists r, conflicts_r c b = rok r.
Proof. exists (conflicts c b). apply conflicts_r_ok. Qed.

(* ---------- the documented equivalences ------------------------------------- *)
(* the names the statements below depend on are present in the regenerated constant table, distinct and
   without parentheses *)
Definition named_types : list bytes :=
  [T_Int8; T_Int16; T_Array; T_Nullable; T_LowCardinality; T_DateTime; T_DateTime64; T_Enum8; T_Enum16; T_Map;
   T_Decimal; T_Decimal32; T_Decimal64; T_Decimal128; T_Decimal256; T_Interval].
Fixpoint distinct (l : list bytes) : bool :=
  match l with
  | [] => true
  | x :: l' => negb (existsb (bytes_eqb x) l') && distinct l'
  end.
Lemma named_types_ok :
  distinct named_types = true /\
  forallb (fun t => match t with [] => false | _ => true end) named_types = true /\
  forallb (fun t => match index_byte 40 t, index_byte 41 t with None, None => true | _, _ => false end) named_types = true.
Proof. vm_compute. repeat split. Qed.

Lemma base_plain t : index_byte 40 t = None -> base t = t.
Proof. intros H. unfold base, parens. rewrite H. reflexivity. Qed.

(* enum and its underlying integer *)
Theorem conflicts_enum8_int8 c : base c = T_Enum8 ->
  conflicts_r c T_Int8 = rok false /\ conflicts_r T_Int8 c = rok false.
Proof.
  intros Hb. assert (H : conflicts_r c T_Int8 = rok false).
  { rewrite conflicts_r_unfold. unfold conf_body. destruct (bytes_eqb c T_Int8); [reflexivity|].
    unfold enum_int_clause. rewrite Hb, !bytes_eqb_refl. reflexivity. }
  split; [exact H|]. now rewrite conflicts_r_sym.
Qed.
Theorem conflicts_enum16_int16 c : base c = T_Enum16 ->
  conflicts_r c T_Int16 = rok false /\ conflicts_r T_Int16 c = rok false.
Proof.
  intros Hb. assert (H : conflicts_r c T_Int16 = rok false).
  { rewrite conflicts_r_unfold. unfold conf_body. destruct (bytes_eqb c T_Int16); [reflexivity|].
    unfold enum_int_clause. rewrite Hb, !bytes_eqb_refl.
    destruct (bytes_eqb T_Enum16 T_Enum8 && bytes_eqb T_Int16 T_Int8); reflexivity. }
  split; [exact H|]. now rewrite conflicts_r_sym.
Qed.

(* two enums of the same width never conflict, whatever their definitions *)
Theorem conflicts_enum_enum c b : base c = base b -> is_enum (base c) = true -> conflicts_r c b = rok false.
Proof.
  intros Hb He. rewrite conflicts_r_unfold. unfold conf_body.
  destruct (bytes_eqb c b); [reflexivity|].
  destruct (enum_int_clause _ _ _ _); [reflexivity|].
  rewrite <- Hb.
  assert (Hd : dec_clause (base c) (base c) = false).
  { unfold is_enum in He. apply orb_prop in He as [He|He]; apply bytes_eqb_eq in He; rewrite He; vm_compute; reflexivity. }
  rewrite Hd, bytes_eqb_refl. cbn [negb]. now rewrite He.
Qed.

(* decimals: whenever a decimal family name is involved the verdict is the comparison of the downcasts *)
Lemma conflicts_decimal c b :
  dec_clause (base c) (base b) = true -> enum_int_clause (base c) (base b) c b = false ->
  conflicts_r c b = rok (negb (bytes_eqb (decimal_downcast c) (decimal_downcast b))).
Proof.
  intros Hd He. rewrite conflicts_r_unfold. unfold conf_body.
  destruct (bytes_eqb c b) eqn:E.
  - apply bytes_eqb_eq in E. subst. now rewrite bytes_eqb_refl.
  - now rewrite He, Hd.
Qed.

Definition decimal_alias (p : Z) : option bytes :=
  if ((1 <=? p) && (p <? 10))%Z then Some T_Decimal32
  else if ((10 <=? p) && (p <? 19))%Z then Some T_Decimal64
  else if ((19 <=? p) && (p <? 39))%Z then Some T_Decimal128
  else if ((39 <=? p) && (p <? 77))%Z then Some T_Decimal256
  else None.

Lemma decimal_downcast_prec c p a :
  base c = T_Decimal -> decimal_prec (elem c) = Some p -> decimal_alias p = Some a -> decimal_downcast c = a.
Proof.
  intros Hb Hp Ha. unfold decimal_downcast. rewrite Hb, Hp.
  change (is_decimal_n T_Decimal) with false. rewrite bytes_eqb_refl. cbn [negb].
  unfold decimal_alias in Ha.
  destruct ((1 <=? p)%Z && (p <? 10)%Z) eqn:E1; [replace (p <? 10)%Z with true by lia; congruence|].
  destruct ((10 <=? p)%Z && (p <? 19)%Z) eqn:E2;
    [replace (p <? 10)%Z with false by lia; replace (p <? 19)%Z with true by lia; congruence|].
  destruct ((19 <=? p)%Z && (p <? 39)%Z) eqn:E3;
    [replace (p <? 10)%Z with false by lia; replace (p <? 19)%Z with false by lia; replace (p <? 39)%Z with true by lia; congruence|].
  destruct ((39 <=? p)%Z && (p <? 77)%Z) eqn:E4; [|discriminate].
  replace (p <? 10)%Z with false by lia; replace (p <? 19)%Z with false by lia;
    replace (p <? 39)%Z with false by lia; replace (p <? 77)%Z with true by lia; congruence.
Qed.

Lemma decimal_alias_cases p a : decimal_alias p = Some a ->
  a = T_Decimal32 \/ a = T_Decimal64 \/ a = T_Decimal128 \/ a = T_Decimal256.
Proof.
  unfold decimal_alias.
  repeat (match goal with |- context [if ?b then _ else _] => destruct b end; [intros H; injection H as <-; tauto|]).
  discriminate.
Qed.

(* Decimal(P, S) is compatible with the DecimalN of its precision, in both orders *)
Theorem conflicts_decimal_alias c p a :
  base c = T_Decimal -> decimal_prec (elem c) = Some p -> decimal_alias p = Some a ->
  conflicts_r c a = rok false /\ conflicts_r a c = rok false.
Proof.
  intros Hb Hp Ha.
  assert (H : conflicts_r c a = rok false).
  { rewrite conflicts_decimal.
    - rewrite (decimal_downcast_prec c p a Hb Hp Ha).
      destruct (decimal_alias_cases p a Ha) as [-> | [-> | [-> | ->]]]; vm_compute; reflexivity.
    - rewrite Hb. unfold dec_clause. now rewrite bytes_eqb_refl.
    - rewrite Hb. unfold enum_int_clause.
      destruct (decimal_alias_cases p a Ha) as [-> | [-> | [-> | ->]]];
        (change (bytes_eqb T_Decimal T_Enum8) with false; change (bytes_eqb T_Decimal T_Enum16) with false;
         cbn [andb orb];
         match goal with |- context [base ?t] => change (base t) with t end;
         match goal with |- (bytes_eqb ?x T_Enum8 && _ || _) = _ => change (bytes_eqb x T_Enum8) with false end;
         match goal with |- (false && _ || bytes_eqb ?x T_Enum16 && _) = _ => change (bytes_eqb x T_Enum16) with false end;
         reflexivity). }
  split; [exact H|]. now rewrite conflicts_r_sym.
Qed.

(* DecimalN(S) is compatible with DecimalN (finding 17, after the repair) *)
Theorem conflicts_decimal_n_scale c : is_decimal_n (base c) = true ->
  conflicts_r c (base c) = rok false /\ conflicts_r (base c) c = rok false.
Proof.
  intros Hn.
  assert (Hcases : base c = T_Decimal32 \/ base c = T_Decimal64 \/ base c = T_Decimal128 \/ base c = T_Decimal256).
  { unfold is_decimal_n in Hn. repeat (apply orb_prop in Hn as [Hn|Hn]); apply bytes_eqb_eq in Hn; tauto. }
  assert (H : conflicts_r c (base c) = rok false).
  { rewrite conflicts_decimal.
    - unfold decimal_downcast at 1. rewrite Hn.
      destruct Hcases as [-> | [-> | [-> | ->]]]; vm_compute; reflexivity.
    - unfold dec_clause. rewrite Hn. now rewrite !orb_true_r.
    - unfold enum_int_clause.
      destruct Hcases as [-> | [-> | [-> | ->]]];
        (match goal with |- context [base ?t] => change (base t) with t end;
         match goal with |- (bytes_eqb ?x T_Enum8 && _ || _ || _ || _) = _ => change (bytes_eqb x T_Enum8) with false end;
         match goal with |- (_ || bytes_eqb ?x T_Enum16 && _ || _ || _) = _ => change (bytes_eqb x T_Enum16) with false end;
         reflexivity). }
  split; [exact H|]. now rewrite conflicts_r_sym.
Qed.

(* two Decimal(P, S) of the same precision class are compatible, whatever the scales *)
Theorem conflicts_decimal_same_class c b p q a :
  base c = T_Decimal -> base b = T_Decimal ->
  decimal_prec (elem c) = Some p -> decimal_prec (elem b) = Some q ->
  decimal_alias p = Some a -> decimal_alias q = Some a -> conflicts_r c b = rok false.
Proof.
  intros Hc Hb Hp Hq Ha Hb'. rewrite conflicts_decimal.
  - rewrite (decimal_downcast_prec c p a Hc Hp Ha), (decimal_downcast_prec b q a Hb Hq Hb'). now rewrite bytes_eqb_refl.
  - rewrite Hc. unfold dec_clause. now rewrite bytes_eqb_refl.
  - rewrite Hc, Hb. unfold enum_int_clause.
    change (bytes_eqb T_Decimal T_Enum8) with false. change (bytes_eqb T_Decimal T_Enum16) with false. reflexivity.
Qed.

(* spacing after commas *)
Theorem conflicts_normalized c b :
  base c = base b -> dec_clause (base c) (base b) = false -> normalize_commas c = normalize_commas b ->
  conflicts_r c b = rok false.
Proof.
  intros Hb Hd Hn. rewrite conflicts_r_unfold. unfold conf_body.
  destruct (bytes_eqb c b); [reflexivity|].
  destruct (enum_int_clause _ _ _ _); [reflexivity|].
  rewrite Hd, Hb, bytes_eqb_refl. cbn [negb].
  destruct (is_enum _); [reflexivity|].
  now rewrite Hn, bytes_eqb_refl.
Qed.

(* time-zone (and precision) parameters *)
Theorem conflicts_datetime c b : base c = base b -> is_dt (base c) = true -> conflicts_r c b = rok false.
Proof.
  intros Hb Hdt. rewrite conflicts_r_unfold. unfold conf_body.
  destruct (bytes_eqb c b); [reflexivity|].
  destruct (enum_int_clause _ _ _ _); [reflexivity|].
  rewrite <- Hb.
  assert (base c = T_DateTime \/ base c = T_DateTime64) as [E|E]
    by (unfold is_dt in Hdt; apply orb_prop in Hdt as [H|H]; apply bytes_eqb_eq in H; tauto);
    rewrite E; change (dec_clause _ _) with false; rewrite bytes_eqb_refl; cbn [negb];
    change (is_enum _) with false; change (is_wrapper _) with false; change (is_dt _) with true;
    destruct (bytes_eqb (normalize_commas c) (normalize_commas b)); reflexivity.
Qed.

(* element-wise for Array / Nullable / LowCardinality *)
Definition wrap (W x : bytes) : bytes := W ++ 40 :: x ++ [41].
Lemma with_params_one W x : with_params W [x] = wrap W x.
Proof. reflexivity. Qed.

Lemma wrapper_cases W : is_wrapper W = true -> W = T_Array \/ W = T_Nullable \/ W = T_LowCardinality.
Proof. unfold is_wrapper. intros H. repeat (apply orb_prop in H as [H|H]); apply bytes_eqb_eq in H; tauto. Qed.

Lemma wrapper_plain W : is_wrapper W = true -> index_byte 40 W = None /\ W <> [].
Proof. intros H. destruct (wrapper_cases W H) as [-> | [-> | ->]]; split; (reflexivity || discriminate). Qed.

Lemma base_wrapper W x : is_wrapper W = true -> base (wrap W x) = W.
Proof. intros H. destruct (wrapper_plain W H). now apply base_wrap. Qed.
Lemma elem_wrapper W x : is_wrapper W = true -> elem (wrap W x) = x.
Proof. intros H. destruct (wrapper_plain W H). now apply elem_wrap. Qed.

Lemma wrapper_clauses W : is_wrapper W = true ->
  dec_clause W W = false /\ is_enum W = false /\ bytes_eqb W T_Enum8 = false /\ bytes_eqb W T_Enum16 = false.
Proof. intros H. destruct (wrapper_cases W H) as [-> | [-> | ->]]; vm_compute; tauto. Qed.

(* t has base W: against W(y) the verdict is the element's, unless the two normalise to the same string *)
Lemma conflicts_wrapper_left W t y : is_wrapper W = true -> base t = W ->
  conflicts_r t (wrap W y) =
  if bytes_eqb (normalize_commas t) (normalize_commas (wrap W y)) then rok false else
  if bytes_eqb t (wrap W y) then rok false else conflicts_r (elem t) y.
Proof.
  intros HW Hb. rewrite conflicts_r_unfold. unfold conf_body.
  destruct (bytes_eqb t (wrap W y)) eqn:E.
  { apply bytes_eqb_eq in E. rewrite E, bytes_eqb_refl. reflexivity. }
  rewrite (base_wrapper W y HW), Hb.
  destruct (wrapper_clauses W HW) as (Hd & He & H8 & H16).
  unfold enum_int_clause. rewrite H8, H16. cbn [andb orb].
  rewrite Hd, bytes_eqb_refl. cbn [negb]. rewrite He.
  destruct (bytes_eqb (normalize_commas t) _); [reflexivity|].
  now rewrite HW, (elem_wrapper W y HW).
Qed.

Theorem conflicts_elementwise W x y : is_wrapper W = true ->
  conflicts_r (wrap W x) (wrap W y) =
  if bytes_eqb (normalize_commas (wrap W x)) (normalize_commas (wrap W y)) then rok false else conflicts_r x y.
Proof.
  intros HW. rewrite (conflicts_wrapper_left W (wrap W x) y HW (base_wrapper W x HW)).
  destruct (bytes_eqb (normalize_commas (wrap W x)) _); [reflexivity|].
  rewrite (elem_wrapper W x HW).
  destruct (bytes_eqb (wrap W x) (wrap W y)) eqn:E; [|reflexivity].
  apply bytes_eqb_eq in E. unfold wrap in E. apply app_inv_head in E. injection E as E.
  apply app_inv_tail in E. subst. symmetry. apply conflicts_r_refl.
Qed.

Corollary conflicts_elementwise_compat W x y : is_wrapper W = true ->
  conflicts_r x y = rok false -> conflicts_r (wrap W x) (wrap W y) = rok false.
Proof. intros HW H. rewrite (conflicts_elementwise W x y HW). now destruct (bytes_eqb _ _). Qed.

(* everything else: different bases conflict *)
Theorem conflicts_diff_base c b :
  base c <> base b -> enum_int_clause (base c) (base b) c b = false -> dec_clause (base c) (base b) = false ->
  conflicts_r c b = rok true.
Proof.
  intros Hb He Hd. rewrite conflicts_r_unfold. unfold conf_body.
  destruct (bytes_eqb c b) eqn:E; [apply bytes_eqb_eq in E; subst; contradiction|].
  rewrite He, Hd. apply bytes_eqb_neq in Hb. now rewrite Hb.
Qed.

(* the same base, no parameters the relation looks into: the strings must agree up to comma spacing *)
Theorem conflicts_same_base_other c b :
  base c = base b -> dec_clause (base c) (base b) = false -> is_enum (base c) = false ->
  is_wrapper (base c) = false -> is_dt (base c) = false ->
  conflicts_r c b = rok (negb (bytes_eqb (normalize_commas c) (normalize_commas b))).
Proof.
  intros Hb Hd He Hw Hdt. rewrite conflicts_r_unfold. unfold conf_body.
  destruct (bytes_eqb c b) eqn:E; [apply bytes_eqb_eq in E; subst; now rewrite bytes_eqb_refl|].
  assert (Hc : enum_int_clause (base c) (base b) c b = false).
  { unfold enum_int_clause. rewrite <- Hb. unfold is_enum in He. apply orb_false_elim in He as [-> ->]. reflexivity. }
  rewrite Hc, Hd, Hb, bytes_eqb_refl. cbn [negb]. rewrite <- Hb, He, Hw, Hdt.
  now destruct (bytes_eqb (normalize_commas c) _).
Qed.

(* ---------- ColAuto.Infer ---------------------------------------------------- *)
Lemma switch_on_in t tbl e : switch_on t tbl = Some e ->
  exists k v, In (k, v) tbl /\ e = s2b v /\ eval_texpr (s2b k) = Some t.
Proof.
  induction tbl as [|[k v] tbl IH]; cbn [switch_on]; [discriminate|].
  destruct (eval_texpr (s2b k)) as [kt|] eqn:Ek.
  - destruct (bytes_eqb kt t) eqn:E.
    + intros [= <-]. apply bytes_eqb_eq in E. subst. exists k, v. cbn [In]. auto.
    + intros H. destruct (IH H) as (k' & v' & Hin & He & Hk). exists k', v'. cbn [In]. auto.
  - intros H. destruct (IH H) as (k' & v' & Hin & He & Hk). exists k', v'. cbn [In]. auto.
Qed.

(* every row of the two tables creates a column whose Type() is compatible with the row's key *)
Definition row_sound (kv : string * string) : bool :=
  match eval_texpr (s2b (fst kv)), col_of_ctor (s2b (snd kv)) with
  | Some kt, Some c => match conflicts_r kt (col_type c) with Ok false _ => true | _ => false end
  | _, _ => true
  end.
Lemma infer_table_sound : forallb row_sound infer_table = true.
Proof. vm_compute. reflexivity. Qed.
Lemma auto_switch_sound : forallb row_sound auto_switch = true.
Proof. vm_compute. reflexivity. Qed.

Lemma table_sound tbl t e c : forallb row_sound tbl = true -> switch_on t tbl = Some e -> col_of_ctor e = Some c ->
  conflicts_r t (col_type c) = rok false.
Proof.
  intros Htbl Hs Hc. destruct (switch_on_in t tbl e Hs) as (k & v & Hin & -> & Hk).
  rewrite forallb_forall in Htbl. specialize (Htbl _ Hin). unfold row_sound in Htbl. cbn [fst snd] in Htbl.
  rewrite Hk, Hc in Htbl. rewrite conflicts_r_ok in *. unfold rok in *.
  destruct (conflicts t (col_type c)); [discriminate|reflexivity].
Qed.

Lemma base_dt_plain : base T_DateTime = T_DateTime /\ base T_DateTime64 = T_DateTime64.
Proof. split; reflexivity. Qed.

Section InferProofs.
  Variable zone : bytes -> option bytes.
  Variable to_lower : bytes -> bytes.
  Notation infer_f := (infer_f zone to_lower).

  Lemma wrap_infer_sound n W h mk t c r :
    (forall t c r, infer_f n t = Ok c r -> conflicts_r t (col_type c) = rok false) ->
    is_wrapper W = true -> base t = W -> (forall d, col_type (mk d) = wrap W (col_type d)) ->
    wrap_infer (infer_f n) h mk t = Ok c r -> conflicts_r t (col_type c) = rok false.
  Proof.
    intros IH HW Hb Hmk. unfold wrap_infer. rewrite elem_r_ok. cbn [rbind rok].
    destruct (infer_f n (elem t)) as [inner rest| |] eqn:Er; cbn [rbind]; try discriminate.
    destruct (has_method h inner); [|discriminate]. intros [= <- <-].
    rewrite Hmk, (conflicts_wrapper_left W t _ HW Hb).
    destruct (bytes_eqb (normalize_commas t) _); [reflexivity|].
    destruct (bytes_eqb t _); [reflexivity|].
    exact (IH _ _ _ Er).
  Qed.

  Lemma infer_f_sound n : forall t c r, infer_f n t = Ok c r -> conflicts_r t (col_type c) = rok false.
  Proof.
    induction n as [|n IH]; intros t c r; cbn [TypeStr.infer_f]; [discriminate|].
    unfold infer_step.
    destruct (switch_on t infer_table) as [e|] eqn:E1; cbn [of_ctor].
    { destruct (col_of_ctor e) as [c0|] eqn:Ec; [|discriminate]. intros [= <- <-].
      exact (table_sound _ _ _ _ infer_table_sound E1 Ec). }
    destruct (has_prefix T_Interval t).
    { unfold interval_infer. destruct (interval_scale_string to_lower t) as [k|]; [|discriminate].
      destruct (bytes_eqb (nth k interval_names []) t) eqn:Ek; [|discriminate]. intros [= <- <-].
      apply bytes_eqb_eq in Ek. cbn [col_type]. rewrite Ek. apply conflicts_r_refl. }
    destruct (switch_on t auto_switch) as [e|] eqn:E2; cbn [of_ctor].
    { destruct (col_of_ctor e) as [c0|] eqn:Ec; [|discriminate]. intros [= <- <-].
      exact (table_sound _ _ _ _ auto_switch_sound E2 Ec). }
    rewrite base_r_ok. cbn [rbind rok].
    destruct (bytes_eqb (base t) T_Array) eqn:B1.
    { apply bytes_eqb_eq in B1. apply (wrap_infer_sound n T_Array); auto. }
    destruct (bytes_eqb (base t) T_Nullable) eqn:B2.
    { apply bytes_eqb_eq in B2. apply (wrap_infer_sound n T_Nullable); auto. }
    destruct (bytes_eqb (base t) T_LowCardinality) eqn:B3.
    { apply bytes_eqb_eq in B3. apply (wrap_infer_sound n T_LowCardinality); auto. }
    destruct (bytes_eqb (base t) T_DateTime) eqn:B4.
    { apply bytes_eqb_eq in B4. unfold datetime_infer. rewrite elem_r_ok. cbn [rbind rok].
      destruct (elem t) as [|x sub].
      - intros [= <- <-]. apply conflicts_datetime; rewrite B4; reflexivity.
      - destruct (zone _) as [l|]; [|discriminate]. intros [= <- <-].
        apply conflicts_datetime; rewrite B4; [|reflexivity].
        cbn [col_type]. rewrite with_params_one. symmetry. apply base_wrap; [reflexivity|discriminate]. }
    destruct (bytes_eqb (base t) T_Decimal) eqn:B5.
    { apply bytes_eqb_eq in B5. rewrite elem_r_ok. cbn [rbind rok].
      destruct (decimal_prec (elem t)) as [p|] eqn:Ep; [|discriminate].
      destruct ((1 <=? p)%Z && (p <? 10)%Z) eqn:P1.
      { intros [= <- <-]. change (col_type (CGen (s2b "ColDecimal32"))) with T_Decimal32.
        apply (conflicts_decimal_alias t p T_Decimal32 B5 Ep). unfold decimal_alias. now rewrite P1. }
      destruct ((10 <=? p)%Z && (p <? 19)%Z) eqn:P2.
      { intros [= <- <-]. change (col_type (CGen (s2b "ColDecimal64"))) with T_Decimal64.
        apply (conflicts_decimal_alias t p T_Decimal64 B5 Ep). unfold decimal_alias. now rewrite P1, P2. }
      destruct ((19 <=? p)%Z && (p <? 39)%Z) eqn:P3.
      { intros [= <- <-]. change (col_type (CGen (s2b "ColDecimal128"))) with T_Decimal128.
        apply (conflicts_decimal_alias t p T_Decimal128 B5 Ep). unfold decimal_alias. now rewrite P1, P2, P3. }
      destruct ((39 <=? p)%Z && (p <? 77)%Z) eqn:P4; [|discriminate].
      intros [= <- <-]. change (col_type (CGen (s2b "ColDecimal256"))) with T_Decimal256.
      apply (conflicts_decimal_alias t p T_Decimal256 B5 Ep). unfold decimal_alias. now rewrite P1, P2, P3, P4. }
    destruct (bytes_eqb (base t) T_Decimal32) eqn:D1.
    { apply bytes_eqb_eq in D1. intros [= <- <-].
      destruct (conflicts_decimal_n_scale t) as [H _]; [rewrite D1; reflexivity|]. rewrite D1 in H. exact H. }
    destruct (bytes_eqb (base t) T_Decimal64) eqn:D2.
    { apply bytes_eqb_eq in D2. intros [= <- <-].
      destruct (conflicts_decimal_n_scale t) as [H _]; [rewrite D2; reflexivity|]. rewrite D2 in H. exact H. }
    destruct (bytes_eqb (base t) T_Decimal128) eqn:D3.
    { apply bytes_eqb_eq in D3. intros [= <- <-].
      destruct (conflicts_decimal_n_scale t) as [H _]; [rewrite D3; reflexivity|]. rewrite D3 in H. exact H. }
    destruct (bytes_eqb (base t) T_Decimal256) eqn:D4.
    { apply bytes_eqb_eq in D4. intros [= <- <-].
      destruct (conflicts_decimal_n_scale t) as [H _]; [rewrite D4; reflexivity|]. rewrite D4 in H. exact H. }
    destruct (bytes_eqb (base t) T_Enum8 || bytes_eqb (base t) T_Enum16) eqn:En.
    { unfold enum_infer. rewrite base_r_ok. cbn [rbind rok].
      destruct (negb (has_prefix (s2b "Enum") (base t))); [discriminate|].
      rewrite En. cbn [negb]. rewrite elem_r_ok. cbn [rbind rok].
      destruct (enum_parse _) as [ds|]; [|discriminate]. intros [= <- <-].
      cbn [col_type]. apply conflicts_r_refl. }
    destruct (bytes_eqb (base t) T_DateTime64) eqn:B6; [|discriminate].
    apply bytes_eqb_eq in B6. unfold datetime64_infer. rewrite elem_r_ok. cbn [rbind rok].
    destruct (elem t) as [|x e]; [discriminate|].
    destruct (cut_byte 44 (x :: e)) as [[pStr locStr] hasloc].
    destruct (parse_uint8 _) as [p|]; [|discriminate].
    destruct (negb (p <=? precision_max)); [discriminate|].
    destruct hasloc.
    - destruct (zone _) as [l|]; [|discriminate]. intros [= <- <-].
      apply conflicts_datetime; rewrite B6; [|reflexivity].
      cbn [col_type with_params join_with]. symmetry.
      apply (base_wrap T_DateTime64); [reflexivity|discriminate].
    - intros [= <- <-].
      apply conflicts_datetime; rewrite B6; [|reflexivity].
      cbn [col_type with_params join_with]. symmetry.
      apply (base_wrap T_DateTime64); [reflexivity|discriminate].
  Qed.

  (* ColAuto.Infer never panics and never runs out of fuel *)
  Lemma wrap_infer_no_crash n h mk t :
    (forall t, is_crash (infer_f n t) = false) -> is_crash (wrap_infer (infer_f n) h mk t) = false.
  Proof.
    intros IH. unfold wrap_infer. rewrite elem_r_ok. cbn [rbind rok].
    specialize (IH (elem t)). destruct (infer_f n (elem t)); cbn [rbind is_crash] in *; try reflexivity; [|exact IH].
    destruct (has_method h a); reflexivity.
  Qed.

  Lemma infer_f_no_crash n : forall t, is_crash (infer_f n t) = false.
  Proof.
    induction n as [|n IH]; intros t; cbn [TypeStr.infer_f]; [reflexivity|].
    unfold infer_step.
    destruct (switch_on t infer_table) as [e|]; cbn [of_ctor].
    { destruct (col_of_ctor e); reflexivity. }
    destruct (has_prefix T_Interval t).
    { unfold interval_infer. destruct (interval_scale_string to_lower t) as [k|]; [|reflexivity].
      destruct (bytes_eqb _ _); reflexivity. }
    destruct (switch_on t auto_switch) as [e|]; cbn [of_ctor].
    { destruct (col_of_ctor e); reflexivity. }
    rewrite base_r_ok. cbn [rbind rok].
    destruct (bytes_eqb (base t) T_Array); [now apply wrap_infer_no_crash|].
    destruct (bytes_eqb (base t) T_Nullable); [now apply wrap_infer_no_crash|].
    destruct (bytes_eqb (base t) T_LowCardinality); [now apply wrap_infer_no_crash|].
    destruct (bytes_eqb (base t) T_DateTime).
    { unfold datetime_infer. rewrite elem_r_ok. cbn [rbind rok].
      destruct (elem t); [reflexivity|]. destruct (zone _); reflexivity. }
    destruct (bytes_eqb (base t) T_Decimal).
    { rewrite elem_r_ok. cbn [rbind rok]. destruct (decimal_prec _); [|reflexivity].
      repeat match goal with |- context [if ?b then _ else _] => destruct b; try reflexivity end. }
    destruct (bytes_eqb (base t) T_Decimal32); [reflexivity|].
    destruct (bytes_eqb (base t) T_Decimal64); [reflexivity|].
    destruct (bytes_eqb (base t) T_Decimal128); [reflexivity|].
    destruct (bytes_eqb (base t) T_Decimal256); [reflexivity|].
    destruct (bytes_eqb (base t) T_Enum8 || bytes_eqb (base t) T_Enum16).
    { unfold enum_infer. rewrite base_r_ok. cbn [rbind rok].
      destruct (negb _); [reflexivity|]. destruct (negb _); [reflexivity|]. rewrite elem_r_ok. cbn [rbind rok].
      destruct (enum_parse _); reflexivity. }
    destruct (bytes_eqb (base t) T_DateTime64); [|reflexivity].
    unfold datetime64_infer. rewrite elem_r_ok. cbn [rbind rok].
    destruct (elem t); [reflexivity|].
    destruct (cut_byte 44 _) as [[pStr locStr] hasloc].
    destruct (parse_uint8 _); [|reflexivity].
    destruct (negb _); [reflexivity|]. destruct hasloc; [|reflexivity]. destruct (zone _); reflexivity.
  Qed.

  Definition is_fuel {A} (r : res A) : bool := match r with Err EFuel => true | _ => false end.

  Lemma infer_f_fuel n : forall t, (length t < n)%nat -> is_fuel (infer_f n t) = false.
  Proof.
    induction n as [|n IH]; intros t Hn; [lia|]. cbn [TypeStr.infer_f].
    unfold infer_step.
    destruct (switch_on t infer_table) as [e|]; cbn [of_ctor].
    { destruct (col_of_ctor e); reflexivity. }
    destruct (has_prefix T_Interval t).
    { unfold interval_infer. destruct (interval_scale_string to_lower t) as [k|]; [|reflexivity].
      destruct (bytes_eqb _ _); reflexivity. }
    destruct (switch_on t auto_switch) as [e|]; cbn [of_ctor].
    { destruct (col_of_ctor e); reflexivity. }
    rewrite base_r_ok. cbn [rbind rok].
    assert (Hw : forall h mk, is_wrapper (base t) = true -> is_fuel (wrap_infer (infer_f n) h mk t) = false).
    { intros h mk Hwr. unfold wrap_infer. rewrite elem_r_ok. cbn [rbind rok].
      assert (Ht : t <> []) by (apply base_nonempty, is_wrapper_nonempty, Hwr).
      pose proof (elem_shorter t Ht) as Hs.
      assert (Hlt : (length (elem t) < n)%nat) by lia.
      specialize (IH (elem t) Hlt). destruct (infer_f n (elem t)); cbn [rbind is_fuel] in *; try reflexivity; [|exact IH].
      destruct (has_method h a); reflexivity. }
    destruct (bytes_eqb (base t) T_Array) eqn:B1.
    { apply Hw. unfold is_wrapper. now rewrite B1. }
    destruct (bytes_eqb (base t) T_Nullable) eqn:B2.
    { apply Hw. unfold is_wrapper. now rewrite B1, B2. }
    destruct (bytes_eqb (base t) T_LowCardinality) eqn:B3.
    { apply Hw. unfold is_wrapper. now rewrite B1, B2, B3. }
    destruct (bytes_eqb (base t) T_DateTime).
    { unfold datetime_infer. rewrite elem_r_ok. cbn [rbind rok].
      destruct (elem t); [reflexivity|]. destruct (zone _); reflexivity. }
    destruct (bytes_eqb (base t) T_Decimal).
    { rewrite elem_r_ok. cbn [rbind rok]. destruct (decimal_prec _); [|reflexivity].
      repeat match goal with |- context [if ?b then _ else _] => destruct b; try reflexivity end. }
    destruct (bytes_eqb (base t) T_Decimal32); [reflexivity|].
    destruct (bytes_eqb (base t) T_Decimal64); [reflexivity|].
    destruct (bytes_eqb (base t) T_Decimal128); [reflexivity|].
    destruct (bytes_eqb (base t) T_Decimal256); [reflexivity|].
    destruct (bytes_eqb (base t) T_Enum8 || bytes_eqb (base t) T_Enum16).
    { unfold enum_infer. rewrite base_r_ok. cbn [rbind rok].
      destruct (negb _); [reflexivity|]. destruct (negb _); [reflexivity|]. rewrite elem_r_ok. cbn [rbind rok].
      destruct (enum_parse _); reflexivity. }
    destruct (bytes_eqb (base t) T_DateTime64); [|reflexivity].
    unfold datetime64_infer. rewrite elem_r_ok. cbn [rbind rok].
    destruct (elem t); [reflexivity|].
    destruct (cut_byte 44 _) as [[pStr locStr] hasloc].
    destruct (parse_uint8 _); [|reflexivity].
    destruct (negb _); [reflexivity|]. destruct hasloc; [|reflexivity]. destruct (zone _); reflexivity.
  Qed.

  (* the statements about ColAuto.Infer itself *)
  Theorem infer_total t :
    (exists i, infer zone to_lower t = Ok i [] /\ dtype i = t) \/ (exists e, infer zone to_lower t = Err e /\ e <> EFuel).
  Proof.
    unfold infer, infer_col.
    pose proof (infer_f_no_crash (S (length t)) t) as Hc.
    pose proof (infer_f_fuel (S (length t)) t (Nat.lt_succ_diag_r _)) as Hf.
    destruct (infer_f (S (length t)) t) as [c r|e|k] eqn:E; cbn [rbind rok is_crash is_fuel] in *.
    - left. eexists. split; reflexivity.
    - right. exists e. split; [reflexivity|]. intros ->. discriminate.
    - discriminate.
  Qed.

  Theorem infer_sound_r t i r : infer zone to_lower t = Ok i r ->
    conflicts_r t (col_type (data i)) = rok false /\ conflicts_r (col_type (data i)) t = rok false /\ dtype i = t.
  Proof.
    unfold infer, infer_col.
    destruct (infer_f (S (length t)) t) as [c r'|e|k] eqn:E; cbn [rbind rok]; try discriminate.
    intros [= <- <-]. cbn [data dtype]. pose proof (infer_f_sound _ _ _ _ E) as H.
    repeat split; [exact H|]. now rewrite conflicts_r_sym.
  Qed.
End InferProofs.

(* ---------- ColInterval.Infer does not depend on strings.ToLower ----------- *)
Lemma interval_find_some s : forall names lowers k j,
  interval_find s k names lowers = Some j -> (k <= j < k + length names)%nat.
Proof.
  induction names as [|n names IH]; intros lowers k j; cbn [interval_find]; [discriminate|].
  destruct lowers as [|l lowers]; [discriminate|].
  destruct (bytes_eqb s n || bytes_eqb s l).
  - intros [= <-]. cbn [length]. lia.
  - intros H. apply IH in H. cbn [length]. lia.
Qed.

Lemma interval_find_none s : forall names lowers k,
  (length names <= length lowers)%nat -> interval_find s k names lowers = None ->
  forall i, (i < length names)%nat -> bytes_eqb s (nth i names []) = false.
Proof.
  induction names as [|n names IH]; intros lowers k Hl H i Hi; cbn [length] in *; [lia|].
  destruct lowers as [|l lowers]; cbn [length] in *; [lia|]. cbn [interval_find] in H.
  destruct (bytes_eqb s n) eqn:E1; cbn [orb] in H; [discriminate|].
  destruct (bytes_eqb s l); [discriminate|].
  destruct i as [|i]; cbn [nth]; [exact E1|]. apply (IH lowers (S k)); [lia|exact H|lia].
Qed.

Lemma interval_tables_len : (length interval_names <= length interval_lower_names)%nat.
Proof. vm_compute. repeat constructor. Qed.

Theorem interval_infer_lower_irrelevant tl1 tl2 t : interval_infer tl1 t = interval_infer tl2 t.
Proof.
  assert (H : forall tl, interval_infer tl t =
    match interval_find t O interval_names interval_lower_names with
    | Some k => if bytes_eqb (nth k interval_names []) t then rok (CInterval k) else Err EInvalid
    | None => Err EInvalid
    end).
  { intros tl. unfold interval_infer, interval_scale_string.
    destruct (interval_find t O interval_names interval_lower_names) as [k|] eqn:E; [reflexivity|].
    destruct (interval_find (tl t) O interval_names interval_lower_names) as [k|] eqn:E2; [|reflexivity].
    apply interval_find_some in E2.
    rewrite bytes_eqb_sym, (interval_find_none t _ _ O interval_tables_len E k); [reflexivity|lia]. }
  now rewrite (H tl1), (H tl2).
Qed.

(* ---------- spaces after a comma disappear in normalizeCommas --------------- *)
Lemma split_byte_nonempty sep s : split_byte sep s <> [].
Proof.
  induction s as [|c s IH]; cbn [split_byte]; [discriminate|].
  destruct (c =? sep); [discriminate|]. destruct (split_byte sep s); [contradiction|discriminate].
Qed.

Lemma split_byte_app sep x z : split_byte sep (x ++ sep :: z) = split_byte sep x ++ split_byte sep z.
Proof.
  induction x as [|c x IH]; cbn [app split_byte].
  - now rewrite N.eqb_refl.
  - destruct (c =? sep); [now rewrite IH|].
    rewrite IH. pose proof (split_byte_nonempty sep x) as Hne.
    destruct (split_byte sep x) as [|h t]; [contradiction|]. reflexivity.
Qed.

Lemma split_byte_spaces n y : exists h t, split_byte 44 y = h :: t /\ split_byte 44 (repeat 32 n ++ y) = (repeat 32 n ++ h) :: t.
Proof.
  pose proof (split_byte_nonempty 44 y) as Hne. destruct (split_byte 44 y) as [|h t] eqn:E; [contradiction|].
  exists h, t. split; [reflexivity|].
  induction n as [|n IH]; cbn [repeat app split_byte]; [exact E|].
  change (32 =? 44) with false. cbv iota. now rewrite IH.
Qed.

Lemma ltrim_space_spaces n h : ltrim_space (repeat 32 n ++ h) = ltrim_space h.
Proof. induction n as [|n IH]; cbn [repeat app]; [reflexivity|]. cbn [ltrim_space]. exact IH. Qed.

Lemma trim_space_spaces n h : trim_space (repeat 32 n ++ h) = trim_space h.
Proof. unfold trim_space. now rewrite ltrim_space_spaces. Qed.

Theorem normalize_commas_spaces x n y :
  normalize_commas (x ++ 44 :: repeat 32 n ++ y) = normalize_commas (x ++ 44 :: y).
Proof.
  unfold normalize_commas. rewrite !split_byte_app, !map_app.
  destruct (split_byte_spaces n y) as (h & t & E1 & E2). rewrite E1, E2. cbn [map].
  now rewrite trim_space_spaces.
Qed.

(* B(x,y) against B(x,   y) for a base B that is not of the decimal family *)
Theorem conflicts_spaces_after_comma B x y n :
  index_byte 40 B = None -> B <> [] -> dec_clause B B = false ->
  conflicts_r (B ++ 40 :: (x ++ 44 :: y) ++ [41]) (B ++ 40 :: (x ++ 44 :: repeat 32 n ++ y) ++ [41]) = rok false.
Proof.
  intros HB Hne Hd. apply conflicts_normalized.
  - now rewrite !base_wrap.
  - now rewrite !base_wrap.
  - assert (E : forall z, B ++ 40 :: (x ++ 44 :: z) ++ [41] = (B ++ 40 :: x) ++ 44 :: z ++ [41]).
    { intros z. repeat rewrite <- app_assoc. cbn [app]. repeat rewrite <- app_assoc. reflexivity. }
    rewrite !E. replace ((repeat 32 n ++ y) ++ [41]) with (repeat 32 n ++ y ++ [41]) by apply app_assoc.
    symmetry. apply normalize_commas_spaces.
Qed.

(* ---------- the second block of the same type is accepted -------------------- *)
Section TwoBlocks.
  Variable zone : bytes -> option bytes.
  Variable to_lower : bytes -> bytes.
  Notation infer_f := (infer_f zone to_lower).
  Notation reinfer := (reinfer zone to_lower).

  (* the column's own Infer, when it has one *)
  Definition again (c : col) (t : bytes) : res col := if inferable c then reinfer c t else rok c.
  Definition same_type (c : col) (r : res col) : Prop := exists c', r = rok c' /\ col_type c' = col_type c.

  Definition row_again (kv : string * string) : bool :=
    match eval_texpr (s2b (fst kv)), col_of_ctor (s2b (snd kv)) with
    | Some kt, Some c => match again c kt with Ok c' _ => bytes_eqb (col_type c') (col_type c) | _ => false end
    | _, _ => true
    end.
  Lemma infer_table_again : forallb row_again infer_table = true.
  Proof. vm_compute. reflexivity. Qed.
  Lemma auto_switch_again : forallb row_again auto_switch = true.
  Proof. vm_compute. reflexivity. Qed.

  Lemma table_again tbl t e c : forallb row_again tbl = true -> switch_on t tbl = Some e -> col_of_ctor e = Some c ->
    same_type c (again c t).
  Proof.
    intros Htbl Hs Hc. destruct (switch_on_in t tbl e Hs) as (k & v & Hin & -> & Hk).
    rewrite forallb_forall in Htbl. specialize (Htbl _ Hin). unfold row_again in Htbl. cbn [fst snd] in Htbl.
    rewrite Hk, Hc in Htbl. destruct (again c t) as [c' r| |] eqn:E; try discriminate.
    apply bytes_eqb_eq in Htbl.
    assert (r = []) as ->.
    { revert E. unfold again. destruct (inferable c); [|now intros [= _ <-]].
      destruct c; cbn [TypeStr.reinfer inferable]; try (now intros [= _ <-]);
        unfold datetime_infer, datetime64_infer, enum_infer, interval_infer, rbind, rok;
        repeat match goal with
               | |- context [match ?x with _ => _ end] => destruct x; try discriminate
               | |- context [if ?x then _ else _] => destruct x; try discriminate
               end; now intros [= _ <-]. }
    exists c'. split; [reflexivity|exact Htbl].
  Qed.

  Lemma again_wrapper n t d r mk :
    (forall t c r, infer_f n t = Ok c r -> same_type c (again c t)) ->
    infer_f n (elem t) = Ok d r ->
    (forall x, inferable (mk x) = false) \/ (mk = CArr) ->
    (forall a b, col_type a = col_type b -> col_type (mk a) = col_type (mk b)) ->
    same_type (mk d) (again (mk d) t).
  Proof.
    intros IH Hd Hk Hty. destruct Hk as [Hk | ->].
    - unfold again. rewrite Hk. exists (mk d). auto.
    - unfold again. cbn [inferable TypeStr.reinfer].
      destruct (IH _ _ _ Hd) as (d' & Hd' & Ht). unfold again in Hd'.
      destruct (inferable d).
      + rewrite elem_r_ok. cbn [rbind rok]. rewrite Hd'. cbn [rbind rok]. exists (CArr d'). split; [reflexivity|now apply Hty].
      + exists (CArr d). auto.
  Qed.

  Lemma infer_f_again n : forall t c r, infer_f n t = Ok c r -> same_type c (again c t).
  Proof.
    induction n as [|n IH]; intros t c r; cbn [TypeStr.infer_f]; [discriminate|].
    unfold infer_step.
    destruct (switch_on t infer_table) as [e|] eqn:E1; cbn [of_ctor].
    { destruct (col_of_ctor e) as [c0|] eqn:Ec; [|discriminate]. intros [= <- <-].
      exact (table_again _ _ _ _ infer_table_again E1 Ec). }
    destruct (has_prefix T_Interval t).
    { intros H. assert (Hc : exists k, c = CInterval k).
      { revert H. unfold interval_infer. destruct (interval_scale_string _ _); [|discriminate].
        destruct (bytes_eqb _ _); [|discriminate]. intros [= <- _]. now eexists. }
      destruct Hc as [k ->]. unfold again. cbn [inferable TypeStr.reinfer]. rewrite H.
      revert H. unfold interval_infer. destruct (interval_scale_string _ _); [|discriminate].
      destruct (bytes_eqb _ _); [|discriminate]. intros [= <- <-]. eexists. split; reflexivity. }
    destruct (switch_on t auto_switch) as [e|] eqn:E2; cbn [of_ctor].
    { destruct (col_of_ctor e) as [c0|] eqn:Ec; [|discriminate]. intros [= <- <-].
      exact (table_again _ _ _ _ auto_switch_again E2 Ec). }
    rewrite base_r_ok. cbn [rbind rok].
    assert (Hw : forall h mk, (forall x, inferable (mk x) = false) \/ mk = CArr ->
              (forall a b, col_type a = col_type b -> col_type (mk a) = col_type (mk b)) ->
              wrap_infer (infer_f n) h mk t = Ok c r -> same_type c (again c t)).
    { intros h mk Hk Hty. unfold wrap_infer. rewrite elem_r_ok. cbn [rbind rok].
      destruct (infer_f n (elem t)) as [d rest| |] eqn:Ed; cbn [rbind]; try discriminate.
      destruct (has_method h d); [|discriminate]. intros [= <- <-].
      exact (again_wrapper n t d rest mk IH Ed Hk Hty). }
    destruct (bytes_eqb (base t) T_Array).
    { apply Hw; [now right|]. intros a b E. cbn [col_type]. now rewrite E. }
    destruct (bytes_eqb (base t) T_Nullable).
    { apply Hw; [now left|]. intros a b E. cbn [col_type]. now rewrite E. }
    destruct (bytes_eqb (base t) T_LowCardinality).
    { apply Hw; [now left|]. intros a b E. cbn [col_type]. now rewrite E. }
    destruct (bytes_eqb (base t) T_DateTime).
    { intros H. assert (Hc : exists l, c = CDateTime l /\ r = []).
      { revert H. unfold datetime_infer. rewrite elem_r_ok. cbn [rbind rok].
        destruct (elem t); [intros [= <- <-]; now eexists|].
        destruct (zone _); [|discriminate]. intros [= <- <-]. now eexists. }
      destruct Hc as (l & -> & ->). unfold again. cbn [inferable TypeStr.reinfer]. rewrite H.
      eexists. split; reflexivity. }
    destruct (bytes_eqb (base t) T_Decimal).
    { rewrite elem_r_ok. cbn [rbind rok]. destruct (decimal_prec _); [|discriminate].
      repeat match goal with |- context [if ?b then _ else _] => destruct b end; try discriminate;
        intros [= <- <-]; eexists; split; reflexivity. }
    destruct (bytes_eqb (base t) T_Decimal32); [intros [= <- <-]; eexists; split; reflexivity|].
    destruct (bytes_eqb (base t) T_Decimal64); [intros [= <- <-]; eexists; split; reflexivity|].
    destruct (bytes_eqb (base t) T_Decimal128); [intros [= <- <-]; eexists; split; reflexivity|].
    destruct (bytes_eqb (base t) T_Decimal256); [intros [= <- <-]; eexists; split; reflexivity|].
    destruct (bytes_eqb (base t) T_Enum8 || bytes_eqb (base t) T_Enum16) eqn:En.
    { unfold enum_infer. rewrite base_r_ok. cbn [rbind rok].
      destruct (negb (has_prefix (s2b "Enum") (base t))) eqn:Ep; [discriminate|].
      rewrite En. cbn [negb]. rewrite elem_r_ok. cbn [rbind rok].
      destruct (enum_parse _) as [ds|] eqn:Eds; [|discriminate]. intros [= <- <-].
      unfold again. cbn [inferable TypeStr.reinfer]. unfold enum_infer. rewrite base_r_ok. cbn [rbind rok].
      rewrite Ep, En. cbn [negb]. rewrite elem_r_ok. cbn [rbind rok]. rewrite Eds. eexists. split; reflexivity. }
    destruct (bytes_eqb (base t) T_DateTime64); [|discriminate].
    intros H. assert (Hc : exists p l, c = CDateTime64 p l /\ r = [] /\ datetime64_infer zone l t = rok c).
    { revert H. unfold datetime64_infer. rewrite elem_r_ok. cbn [rbind rok].
      destruct (elem t); [discriminate|].
      destruct (cut_byte 44 _) as [[pStr locStr] hasloc].
      destruct (parse_uint8 _); [|discriminate].
      destruct (negb _); [discriminate|]. destruct hasloc.
      - destruct (zone _); [|discriminate]. intros [= <- <-]. do 2 eexists. repeat split.
      - intros [= <- <-]. do 2 eexists. repeat split. }
    destruct Hc as (p & l & -> & -> & H2). unfold again. cbn [inferable TypeStr.reinfer]. rewrite H2.
    eexists. split; reflexivity.
  Qed.

  (* Results.Auto: when the first header block infers a column, a second block naming the same type is
     accepted, and the column still reports the same Type() *)
  Theorem two_blocks_ok t i r : infer zone to_lower t = Ok i r ->
    exists c', auto_two_blocks zone to_lower t = rok c' /\ col_type c' = col_type (data i).
  Proof.
    intros H. unfold auto_two_blocks. rewrite H. cbn [rbind].
    pose proof (infer_sound_r zone to_lower t i r H) as (Hs & _ & _).
    revert H. unfold infer, infer_col.
    destruct (TypeStr.infer_f zone to_lower (S (length t)) t) as [c r'| |] eqn:E; cbn [rbind rok]; try discriminate.
    intros [= <- <-]. cbn [data] in *.
    destruct (infer_f_again _ _ _ _ E) as (c' & Ha & Ht). unfold again in Ha.
    unfold later_block. rewrite Ha. cbn [rbind rok]. rewrite Ht, Hs. cbn [rbind rok].
    exists c'. split; [reflexivity|exact Ht].
  Qed.
End TwoBlocks.
